"""C10 - broadcasts reach each running thread once; completion fires once, after all
(model checking of the count-down/completion protocol + trace validation + ASan directed schedule)."""
import random, json, os, re
from rig import common, tp
from rig.checks import c05

KEEP = c05.KEEP | {"call.bsend", "ret.bsend", "call.cbsend", "ret.cbsend", "bsend.init", "cbsend.init", "sync.proxy",
                   "obo.proxy", "obo.cbdone", "bcb.begin", "bcb.end", "dec.locked", "bsend.selfdec", "bsend.wait",
                   "bsend.return", "dec.postdone", "obo.finish", "done.begin", "done", "done.free"}
SELF_DIRECT, FORCE, FAIL_DIRECT, SELF_SKIP, SYNC, USLEEP, OBO = 1, 2, 4, 256, 512, 1024, 65536

def gen_scenario(rng, sid, big=False, faults=True):
    n = rng.choice([1, 2, 3, 4, 8, 16] if big else [1, 2, 2, 3, 3, 4])
    L = ["m pool %d %d" % (n, 4096 if rng.random() < 0.5 else 0)]
    skip = 1 if (n > 1 and rng.random() < 0.25) else 0          # thread 0 not running -> failed sends / FORCE
    dead = None
    if n > 2 and rng.random() < 0.3:                            # one more thread never starts (pthread_create fails)
        k = rng.randint(1, n - skip)
        L.append("m fault pthread_create %d 1" % k); dead = skip + k - 1
    L += ["m start %d" % skip, "m waitrun"]
    mid = [(sid % 400) * 100 + 1]
    def nid():
        mid[0] += 1; return mid[0] - 1
    gates = []
    live = [t for t in range(skip, n) if t != dead]
    # broadcasts from the outside (bsend only: cbsend needs an originating pool thread)
    for _ in range(rng.randint(0, 3)):
        f = rng.choice([0, 0, SYNC, SYNC, SYNC | USLEEP]) | rng.choice([0, 0, FORCE, FAIL_DIRECT, SELF_DIRECT, SELF_SKIP])
        L.append("m bsend %d %d" % (f, nid()))
    if faults and rng.random() < 0.45 and n > 1:
        L.append("m wfault %d %d %d" % (rng.randrange(n), rng.randint(1, 3), rng.choice([11, 32])))
    wact = rng.sample(live, min(len(live), rng.randint(1, 2)))
    for wi, w in enumerate(wact):
        a = "w%d" % w
        for _ in range(rng.randint(1, 4)):
            kind = rng.choice(["bsend", "cbsend", "cbsend", "obo"])
            base = rng.choice([0, 0, FORCE, FAIL_DIRECT, FORCE | FAIL_DIRECT])
            if kind == "bsend":
                f = base | rng.choice([0, SELF_SKIP, SELF_DIRECT, SYNC | SELF_SKIP, SYNC | SELF_DIRECT, SYNC | USLEEP | SELF_SKIP])
                if wi > 0: f &= ~(SYNC | USLEEP)     # two pool threads in SYNC at once deadlock by documented design
                L.append("%s bsend %d %d" % (a, f, nid()))
            else:
                f = base | rng.choice([0, SELF_SKIP, SELF_DIRECT, SELF_SKIP | SELF_DIRECT]) | (OBO if kind == "obo" else 0)
                if len(gates) < 14:
                    g = len(gates) + 1; gates.append(g)
                    L.append("%s cbsend %d %d %d" % (a, f, nid(), g))
            if rng.random() < 0.3: L.append("%s send %d %d %d" % (a, rng.choice(live + [n]), rng.choice([0, 1, 4]), nid()))
    for w in wact: L.append("m spawn w%d" % w)
    if rng.random() < 0.5: L.append("m bsend %d %d" % (rng.choice([0, SYNC, SYNC | FORCE]), nid()))   # concurrent outside caller
    for w in wact: L.append("m join w%d" % w)
    for g in gates: L.append("m gatewait %d" % g)
    L += ["m quiesce", "m shutdown", "m sleep 20000", "m shutdown_wait", "m destroy", "m reset"]
    return "\n".join(L) + "\n", {"n": n}

def faildirect_scenario(rng, sid):
    """a queue write fails (EAGAIN / EPIPE) for ONE target of a broadcast that carries FAIL_DIRECT: that callback is delivered
    directly, so it counts as sent, the count-down sees it once, and SYNC returns only after every callback ended"""
    n = rng.choice([2, 3, 4])
    base = (sid % 400) * 100 + 60
    L = ["m pool %d 0" % n, "m start 0", "m waitrun"]
    for k, f in enumerate([SYNC | FAIL_DIRECT, FAIL_DIRECT, SYNC | USLEEP | FAIL_DIRECT | FORCE]):
        L += ["m wfault %d 1 %d" % (rng.randrange(n), rng.choice([11, 32])), "m bsend %d %d" % (f, base + k), "m quiesce"]
    w = rng.randrange(n); others = [t for t in range(n) if t != w]
    L += ["w%d cbsend %d %d 1" % (w, FAIL_DIRECT | rng.choice([0, SELF_SKIP, SELF_DIRECT]), base + 5),
          "m wfault %d 1 %d" % (rng.choice(others), rng.choice([11, 32])), "m spawn w%d" % w, "m join w%d" % w, "m gatewait 1",
          "m quiesce", "m shutdown", "m sleep 20000", "m shutdown_wait", "m destroy", "m reset"]
    return "\n".join(L) + "\n", {"n": n, "faildirect": True}

def notrunning_scenario(rng, sid):
    """worker 0 is never started (and possibly one more died in pthread_create): every completion-style broadcast from a
    running worker must still reach all the running ones - skip what cannot take the message, never stop at it"""
    n = rng.choice([3, 4])
    base = (sid % 400) * 100 + 80
    L = ["m pool %d 0" % n, "m start 1", "m waitrun"]
    w = rng.randrange(1, n)
    k = 0
    for f in (OBO, OBO | SELF_SKIP, OBO | SELF_DIRECT, 0, SELF_SKIP, OBO | FORCE):
        k += 1
        L.append("w%d cbsend %d %d %d" % (w, f, base + k, k))
    L += ["m spawn w%d" % w, "m join w%d" % w] + ["m gatewait %d" % g for g in range(1, k + 1)]
    L += ["m quiesce", "m shutdown", "m sleep 20000", "m shutdown_wait", "m destroy", "m reset"]
    return "\n".join(L) + "\n", {"n": n, "notrunning": True}

def prep(evs):
    evs = tp.rename_pvt(evs); sel = []
    for seg in c05.segments(evs):
        if not seg or seg[-1]["e"] != "Reset": seg = seg + [{"e": "Reset", "n": 0, "t": 100}]
        sel += seg
    return sel

def classify(info):
    """stable key of a rejected trace: the event that the spec refused and the kind of broadcast"""
    ctxl = info.get("context") or [{}]
    ev = ctxl[-1]
    return "trace:TpBcast:rejected-at:%s" % ev.get("e")

def run(ctx):
    ctx.level = "model_checking"
    d = common.scratch()
    rng = random.Random(ctx.seed * 104729 + 11)
    # ---- 1. design: count-down / completion protocol at C-statement granularity, exhaustive
    import glob
    cfgs = sorted(os.path.basename(f) for f in glob.glob(os.path.join(common.VERIF, "specs", "tp", "MC_TpBcast_*.cfg")))
    if ctx.quick: cfgs = [c for c in cfgs if "_4" not in c]
    for cfg in cfgs:
        r = common.tlc("MC_TpBcast", cfg=cfg, workers=4, coverage=False, timeout=900)
        ctx.tlc_stats(r, cfg)
        if "_orig" in cfg:
            # sensitivity: the model of the ORIGINAL code (done_cb read after the unlock) must violate the property
            if r.rc != 12 or "NoTouchAfterDeath" not in (r.violation or ""):
                raise common.Infra("vacuity: model of the pre-fix code no longer violates NoTouchAfterDeath (%s)" % r.violation)
        elif r.rc != 0:
            ctx.fail("model:TpBcast:%s:%s" % (cfg, r.violation or "error"), r.out[-3000:], {"cfg": cfg})
    # ---- 2. code: scenarios, every event validated
    exe = tp.build(d)
    nsc = 40 if ctx.quick else 600
    per_proc = 10
    ntr = 0; total_ev = 0; samples = []; sid = 0; run_failures = 0
    while sid < nsc:
        if run_failures >= 2:
            ctx.log("pool hung/died in %d scenario batches (reported): the remaining scenarios are not run" % run_failures); break
        texts = []
        for _ in range(per_proc):
            sid += 1
            if sid % 10 == 4: t, m = faildirect_scenario(rng, sid)
            elif sid % 10 == 7: t, m = notrunning_scenario(rng, sid)
            else: t, m = gen_scenario(rng, sid, big=(not ctx.quick) or sid % 5 == 0)
            texts.append(t)
        rc, out, evs = tp.run_scenario(exe, "".join(texts), d, ctx.seed + sid, "c10_%d" % sid, timeout=300)
        bad = [e for e in evs if e["e"] in ("Hang", "BadOp", "Crash")]
        if rc != 0 or bad:
            ctx.fail("run:tp_drv:%s" % (bad[0]["e"] + ":" + str(bad[0].get("where", bad[0].get("sig", ""))) if bad else "exit-%s" % rc),
                     out[-1500:] + "\n" + json.dumps(evs[-25:], indent=0), {"scenario": "".join(texts), "seed": ctx.seed + sid})
            run_failures += 1
            continue
        ok, info, r = tp.validate(ctx, prep(evs), d, "c10_%d" % sid, KEEP)
        ntr += len(texts); total_ev += info["events"]
        for dv in tp.deviations("C10", r.out):
            ctx.fail("deviation:" + dv, "the trace took the named deviation action of TpBcast (see specs/tp/TpBcast.tla)",
                     {"scenario": "".join(texts), "seed": ctx.seed + sid})
        if not samples: samples.append({"scenario": texts[0].split("\n")[:14], "events_validated": info["events"]})
        if not ok:
            rc2, out2, evs2 = tp.run_scenario(exe, "".join(texts), d, ctx.seed + sid, "c10r_%d" % sid, timeout=300)
            ok2, info2, _ = tp.validate(ctx, prep(evs2), d, "c10r_%d" % sid, KEEP)
            if not ok2 and classify(info2) == classify(info):
                ctx.fail(classify(info), json.dumps(info, indent=1)[:5000], {"scenario": "".join(texts), "seed": ctx.seed + sid})
            else:
                ctx.log("rejection not reproduced on re-run (not reported): %s" % str(info.get("context"))[-300:])
    # ---- 3. "does not touch the caller's memory afterwards": directed schedule under ASan
    exa = tp.build(d, san="asan")
    sc = ["m perturb 0", "m pool 3 0", "m start 0", "m waitrun",
          "m delay dec.unlocked 0 -999 30000 -1"]          # the thread that takes the count to 0 is held after the unlock
    for k in range(3): sc.append("m bsend %d %d" % (SYNC, 9000 + k))
    sc += ["w1 bsend %d 9010" % (SYNC | SELF_SKIP), "m spawn w1", "m join w1",
           "m nodelay", "m quiesce", "m shutdown", "m sleep 20000", "m shutdown_wait", "m destroy", "m reset"]
    rc, out, evs = tp.run_scenario(exa, "\n".join(sc) + "\n", d, ctx.seed, "c10_asan", timeout=120)
    ctx.add(asan_directed_runs=1)
    k = common.san_key(out)
    if k:
        ctx.fail("asan:%s:%s" % (k[0], k[1]), out[-3500:], {"scenario": "\n".join(sc)})
    elif rc in (3, 4):      # watchdog / fatal signal inside the pool: the code under test
        ctx.fail("run:tp_drv:asan-run:%s" % ("Hang" if rc == 3 else "Crash"), out[-1500:] + "\n" + json.dumps(evs[-25:], indent=0), {"scenario": "\n".join(sc)})
    elif rc != 0:
        raise common.Infra("asan directed run failed rc=%s\n%s" % (rc, out[-1500:]))
    else:
        ok, info, r = tp.validate(ctx, prep(evs), d, "c10_asan", KEEP)
        ntr += 1; total_ev += info["events"]
        if not ok: ctx.fail(classify(info) + ":asan-run", json.dumps(info, indent=1)[:4000], {"scenario": "\n".join(sc)})
    ctx.add(traces_validated_against_impl=ntr, events_validated=total_ev, samples=samples)
    ctx.cov["rule"] = "scenario = one pool life with broadcasts of every flag combination from inside/outside the pool, threads not running, injected write failures, concurrent unrelated messages; every logged event must be a step of TpBcast/TpMsg"
    ctx.assumptions += ["SYNC broadcast from a pool thread without SELF_SKIP/SELF_DIRECT deadlocks by documented design and is not generated",
                        "stack-use-after-return is observed by ASan (detect_stack_use_after_return=1) under a directed delay at hook dec.unlocked"]
