"""X07 (growth) - the UPnP SSDP announcer / responder src/proto/upnp_ssdp.c: registries (devices, services,
interfaces, device-interface links), the announce timer and upnp_ssdp_send_notify (which NOTIFY goes where), the
M-SEARCH responder (which request gets which responses), byebye on removal / destroy, the resource ledger.

Oracle: specs/grow/Ssdp.tla - a state machine shaped like the implementation (one operator per function, one atomic
step per API call / datagram / timer expiry) whose "Properties" block states what a user relies on (P1..P9) and states
the UPnP 1.1 message sets independently of the loops that produce them.  TLC decides everything:
  * MC_Ssdp       exhaustive exploration with an adversarial user / network / allocator: the repaired model
                  (fx = AllFix) satisfies every invariant; for each of the five places where the shipped code does not
                  have a property the variant AllFix minus {f} is explored too and TLC must find the violated property.
  * Trace_Ssdp    binding: harness/x07_drv.c runs the REAL object on the REAL thread pool (one worker) over a fake
                  network (link-time wrappers: socket, bind, getsockname, setsockopt, recvmsg, sendto, close,
                  if_nametoindex, timerfd_*, the allocator), injects datagrams, fires the announce timers through the
                  pool, decodes every datagram the object sends and logs ndjson.  TLC validates ORDER, COUNT and
                  CONTENT of every datagram, group join / leave, timer arm / disarm, socket close, return value and
                  the ledger (timers, sockets, allocations, counts) line by line; all variants run side by side and
                  each scenario is explained by the variants that accept it.  A history only variants WITHOUT a repair
                  explain is a finding (keyed by WHAT fails); a history no variant explains is a conformance violation.
Python only renders scenarios (request text from an abstract shape), shuttles files and reads TLC's verdicts."""
import json, os, re, random, collections, time
from concurrent.futures import ThreadPoolExecutor
from rig import common

DRV = os.path.join(common.VERIF, "harness", "x07_drv.c")
SPEC_DIR = os.path.join(common.VERIF, "specs", "grow")
ALLFIX = ["destroyall", "server", "defflags", "stver", "adderr"]
KEYS = {
    "destroyall": "upnp_ssdp_destroy:swap-remove-loop-skips-every-second-device-and-interface",
    "server": "upnp_ssdp_def_settings:server-string-loses-os-version-token",
    "defflags": "upnp_ssdp_def_settings:default-flags-enable-no-address-family",
    "stver": "upnp_ssdp_iface_notify_ex:search-target-version-parsed-leniently",
    "adderr": "upnp_ssdp_dev_add:error-after-timer-armed-leaves-timer-on-freed-device",
}
WHAT = {
    "destroyall": "upnp_ssdp_destroy walks root_devs[] / s_ifs[] with an increasing index while upnp_ssdp_dev_del / "
                  "upnp_ssdp_if_del swap-remove the entry: every second device and interface is skipped - no byebye, "
                  "its memory and group memberships leak and the device's announce timer stays armed on the freed object "
                  "(its next expiry is a heap-use-after-free in upnp_ssdp_timer_cb)",
    "server": "upnp_ssdp_def_settings computes 'OS/version' and then copies the product part over it instead of after it: "
              "the SERVER field of every NOTIFY and search response is 'UPnP/1.1 product/version' without the OS token "
              "UPnP 1.1 requires",
    "defflags": "UPNP_SSDP_DEF_FLAGS enables neither IPv4 nor IPv6: upnp_ssdp_create(tp, NULL) returns 0 with no socket "
                "(nothing is ever announced or answered) and the settings of upnp_ssdp_def_settings() are refused with EINVAL",
    "stver": "the version of a urn:...:device|service:type:VER search target goes through ustr2u32, which skips non-digits "
             "and wraps modulo 2^32: ':x', ':1x', ':4294967297' are answered (echoing the bogus ST) as if they were a "
             "lower version",
    "adderr": "when upnp_ssdp_dev_add fails after tpt_ev_add_args (reallocarray of root_devs) the device is freed but its "
              "timer stays registered: the next expiry reads the freed device",
}

U = lambda k: ("%d" % k) * 8 + "-" + ("%d" % k) * 4 + "-" + ("%d" % k) * 4 + "-" + ("%d" % k) * 4 + "-" + ("%d" % k) * 12

# ------------------------------------------------------------------------------------------------ request text
ANSWERED = ["ok", "lcase", "extra", "mxbig", "pad", "mx0", "mxtext", "body", "v10"]
IGNORED = ["notify", "resp", "get", "path", "noman", "badman", "nomx", "nost", "noterm", "empty", "short", "ctl", "bin",
           "hi", "spcolon", "lf", "twohost", "lmethod"]
def render(shape, st, rng):
    """abstract request shape -> octets (the label says what the text is; the specification decides on the label)"""
    H = "HOST: 239.255.255.250:1900\r\n"; MAN = "MAN: \"ssdp:discover\"\r\n"; MX = "MX: 2\r\n"; ST = "ST: %s\r\n" % st
    R = "M-SEARCH * HTTP/1.1\r\n"
    t = {
        "ok": R + H + MAN + MX + ST + "\r\n",
        "lcase": R + "host: 239.255.255.250:1900\r\nman: \"ssdp:discover\"\r\nmx: 2\r\nst: %s\r\n\r\n" % st,
        "extra": R + ST + "USER-AGENT: x/1 UPnP/1.1 y/2\r\n" + H + "CPFN.UPNP.ORG: cp\r\n" + MX + MAN + "\r\n",
        "mxbig": R + H + MAN + "MX: 120\r\n" + ST + "\r\n",
        "pad": R + H + "MAN:\"ssdp:discover\"\r\n" + "MX:   3  \r\n" + "ST:   %s  \r\n" % st + "\r\n",
        "mx0": R + H + MAN + "MX: 0\r\n" + ST + "\r\n",
        "mxtext": R + H + MAN + "MX: soon\r\n" + ST + "\r\n",
        "body": R + H + MAN + MX + ST + "\r\n" + "some body the request must not have\r\n\r\n",
        "v10": "M-SEARCH * HTTP/1.0\r\n" + H + MAN + MX + ST + "\r\n",
        "notify": "NOTIFY * HTTP/1.1\r\n" + H + "CACHE-CONTROL: max-age=1800\r\nLOCATION: http://o/d.xml\r\nNT: %s\r\nNTS: ssdp:alive\r\n"
                  "SERVER: o/1 UPnP/1.1 p/1\r\nUSN: uuid:%s::%s\r\n" % (st, U(9), st) + MAN + MX + ST + "\r\n",
        "resp": "HTTP/1.1 200 OK\r\nCACHE-CONTROL: max-age=1800\r\nEXT:\r\nLOCATION: http://o/d.xml\r\n" + ST + MAN + MX + "\r\n",
        "get": "GET * HTTP/1.1\r\n" + H + MAN + MX + ST + "\r\n",
        "path": "M-SEARCH /x HTTP/1.1\r\n" + H + MAN + MX + ST + "\r\n",
        "noman": R + H + MX + ST + "\r\n",
        "badman": R + H + "MAN: ssdp:discover\r\n" + MX + ST + "\r\n",
        "nomx": R + H + MAN + ST + "\r\n",
        "nost": R + H + MAN + MX + "\r\n",
        "noterm": R + H + MAN + MX + ST,
        "empty": "",
        "short": "M-SEARCH",
        "ctl": R + H + MAN + MX + "X-A: a\x01b\r\n" + ST + "\r\n",
        "hi": R + H + MAN + MX + "USER-AGENT: caf\xe9\r\n" + ST + "\r\n",
        "spcolon": R + H + MAN + MX + "ST : %s\r\n" % st + "\r\n",
        "lf": (R + H + MAN + MX + ST + "\r\n").replace("\r\n", "\n"),
        "twohost": R + H + H + MAN + MX + ST + "\r\n",
        "lmethod": "m-search * HTTP/1.1\r\n" + H + MAN + MX + ST + "\r\n",
    }
    if shape == "bin":
        return bytes(rng.randrange(256) for _ in range(rng.choice([1, 7, 64, 300]))) + (b"\r\n\r\n" if rng.random() < 0.5 else b"")
    return t[shape].encode("latin-1")

def rx(sk, ifx, src, shape, st, rng, cmd="rx"):
    data = render(shape, st, rng)
    return "%s sk=%d ifx=%d src=%s shape=%s st=%s data=%s" % (cmd, sk, ifx, src, shape, st.encode().hex() or "-", data.hex() or "-")

# ------------------------------------------------------------------------------------------------ scenarios
def _s(name, lines): return (name, "\n".join(lines) + "\nend\n")
def dev(d, dom="a", typ="T", ver=2, boot=7, conf=3, age=0, ann=0, uuid=None):
    return "dev %d uuid=%s dom=%s type=%s ver=%d boot=%d conf=%d age=%d ann=%d" % (d, uuid or U(d), dom, typ, ver, boot, conf, age, ann)
def svc(d, dom="a", typ="S", ver=2): return "svc %d dom=%s type=%s ver=%d" % (d, dom, typ, ver)
def link(d, ifn="lan0", u4="http://h/4", u6="http://h/6"): return "link %d if=%s u4=%s u6=%s" % (d, ifn, u4 or "-", u6 or "-")
CFG = "cfg kind=custom v4=1 v6=1 byebye=1 sp=1900"
STS = ["ssdp:all", "upnp:rootdevice", "uuid:" + U(1), "uuid:" + U(2), "urn:a:device:T:1", "urn:a:device:T:2", "urn:a:device:T:3",
       "urn:a:service:S:1", "urn:a:service:S:2", "urn:a:service:S:3", "urn:a:device:TT:1", "urn:a:device:T", "urn:a:device:T:",
       "urn:b:service:SS:01", "urn:b:service:SS:0", "urn:b:device:T:1", "urn:a:service:T:1", "urn:a:device:S:1", "uuid:" + U(1) + "x",
       "uuid:" + U(1)[:-1] + "2", "ssdp:al", "ssdp:alll", "upnp:rootdevices", "UPNP:ROOTDEVICE", "urn:A:device:T:1", "", "x", "urn:", "urn:a:device:T:00002",
       "urn:a:device:T:65535"]
BAD_VER = ["urn:a:device:T:x", "urn:a:device:T:1x", "urn:a:device:T:4294967297", "urn:a:service:S:-1", "urn:a:device:T: 1"]

def static_scenarios(rng):
    S = []
    base = [CFG, dev(1), svc(1), link(1), dev(2, ver=1, boot=1, conf=1, age=100, ann=5), svc(2, "b", "SS", 1), svc(2, "a", "S", 3),
            link(2, "lan1", "http://h/4", None), link(2, "lan0", None, "http://h/6")]
    S.append(_s("a01-announce-search-byebye-destroy", base + ["count", "fire 1", "fire 2", "notify",
             rx(4, 2, "u4:1", "ok", "ssdp:all", rng), rx(6, 2, "l6:2", "ok", "urn:a:device:T:1", rng), rx(6, 3, "u6:3", "ok", "ssdp:all", rng),
             rx(4, 3, "u4:2", "ok", "upnp:rootdevice", rng), rx(4, 2, "u4:1", "empty", "", rng),
             "devdel 1", "fire 2", "count", "destroy", "firez"]))
    S.append(_s("a02-v4-only-no-byebye-searchport", ["cfg kind=custom v4=1 v6=0 byebye=0 sp=50000", dev(1), svc(1), link(1), "fire 1",
             rx(4, 2, "u4:1", "ok", "ssdp:all", rng), rx(6, 2, "u6:1", "ok", "ssdp:all", rng), "devdel 1", "count", "destroy", "firez"]))
    S.append(_s("a03-v6-only", ["cfg kind=custom v4=0 v6=1 byebye=1 sp=1900", dev(1), link(1), link(1, "lan1", "http://h/4", None), "fire 1",
             rx(6, 2, "l6:1", "ok", "uuid:" + U(1), rng), "ifdel 2", "fire 1", "destroy", "firez"]))
    S.append(_s("d-server-default-settings", ["cfg kind=default v4=1 v6=1 byebye=1 sp=1900", dev(1), link(1), "fire 1",
             rx(4, 2, "u4:1", "ok", "upnp:rootdevice", rng), "destroy"]))
    S.append(_s("d-defflags-null-settings", ["cfg kind=null", dev(1), link(1), "fire 1", "count", "destroy", "firez"]))
    S.append(_s("d-defflags-def-settings-as-is", ["cfg kind=asis", "count"]))
    S.append(_s("a06-no-family-refused", ["cfg kind=custom v4=0 v6=0 byebye=1 sp=1900", "count"]))
    S.append(_s("a07-socket-failure-v6", ["cfg kind=custom v4=1 v6=1 byebye=1 sp=1900 sockfail=6", "count", "firez"]))
    S.append(_s("a07-socket-failure-v4", ["cfg kind=custom v4=1 v6=1 byebye=1 sp=1900 sockfail=4", "count"]))
    S.append(_s("d-destroy-two-devices-two-interfaces", [CFG, dev(1), link(1, "lan0"), dev(2), link(2, "lan1"), "destroy", "firez"]))
    S.append(_s("d-destroy-three-devices", [CFG, dev(1), dev(2), dev(3), svc(3), link(1), link(2), link(3), link(3, "lan1"), link(1, "wan0"),
             "count", "destroy", "firez"]))
    S.append(_s("a08-destroy-one-device-one-interface", [CFG, dev(1), svc(1), link(1), "destroy", "firez"]))
    S.append(_s("a09-destroy-empty", [CFG, "count", "destroy", "firez"]))
    S.append(_s("a10-swap-remove-orders", [CFG, dev(1), dev(2), dev(3), dev(4), link(1), link(2), link(3), link(4), link(2, "lan1"), link(4, "lan1"),
             "devdel 2", "notify", rx(4, 2, "u4:1", "ok", "upnp:rootdevice", rng), "devdel 1", "notify", "count",
             dev(5), link(5, "lan1"), "ifdel 2", "notify", "count", "fire 5", "fire 3", "ifdel 3", "notify", "count"]))
    S.append(_s("a11-if-del", base + ["ifdel 2", "fire 1", "fire 2", rx(4, 2, "u4:1", "ok", "ssdp:all", rng), rx(4, 3, "u4:1", "ok", "ssdp:all", rng),
             "count", link(1, "lan0"), "fire 1", "ifdel 3", "ifdel 2", "count", "notify", "devdel 2", "devdel 1", "count"]))
    # search matrix: every target, then every shape
    L = list(base)
    for st in STS: L.append(rx(4, 2, "u4:1", "ok", st, rng))
    for st in STS[::3]: L.append(rx(6, 2, "u6:2", "ok", st, rng))
    for st in STS[::2]: L.append(rx(4, 3, "u4:3", "ok", st, rng))
    S.append(_s("a12-search-targets", L))
    L = list(base)
    for sh in ANSWERED + IGNORED:
        L.append(rx(4, 2, "u4:1", sh, "ssdp:all" if sh not in ("pad",) else "upnp:rootdevice", rng))
        L.append(rx(6, 2, "l6:1", sh, "urn:a:service:S:1", rng))
    L += [rx(4, 5, "u4:1", "ok", "ssdp:all", rng), rx(4, 9, "u4:1", "ok", "ssdp:all", rng), rx(6, 0, "u6:1", "ok", "ssdp:all", rng)]
    S.append(_s("a13-request-shapes", L))
    S.append(_s("d-stver-lenient-version", base + [rx(4, 2, "u4:1", "ok", st, rng) for st in BAD_VER] + [rx(6, 2, "u6:1", "ok", BAD_VER[0], rng)]))
    # allocation failures at every position
    for k in (1, 2):
        S.append(_s("%s-allocfail-dev_add-%d" % ("d-adderr" if k == 2 else "a14", k), [CFG, dev(1), link(1), "allocfail %d" % k, dev(2), "count", "firez", "fire 1", dev(3), link(3), "destroy", "firez"]))
    S.append(_s("a14-allocfail-dev_add-first-ever-2", [CFG, "allocfail 2", dev(1), "count", "firez"]))
    for k in (1, 2):
        S.append(_s("a14-allocfail-svc_add-%d" % k, [CFG, dev(1), "allocfail %d" % k, svc(1), svc(1, "a", "S", 1), "allocfail %d" % k, svc(1, "a", "SS", 1), link(1), "fire 1", "destroy", "firez"]))
    for k in (1, 2, 3, 4, 5):
        S.append(_s("a14-allocfail-link-new-if-%d" % k, [CFG, dev(1), "allocfail %d" % k, link(1), "count", link(1), "fire 1", "destroy", "firez"]))
    for k in (1, 2, 3):
        S.append(_s("a14-allocfail-link-known-if-%d" % k, [CFG, dev(1), dev(2), link(1), "allocfail %d" % k, link(2), "count", "fire 2", link(2), "fire 2", "destroy", "firez"]))
    for k in (1, 2, 3):
        S.append(_s("a15-joinfail-%d" % k, [CFG, dev(1), "joinfail %d" % k, link(1), "count", link(1), "fire 1", "destroy", "firez"]))
    S.append(_s("a15-joinfail-v4-only", ["cfg kind=custom v4=1 v6=0 byebye=1 sp=1900", dev(1), "joinfail 1", link(1), "count", link(1), "destroy"]))
    S.append(_s("a16-sendfail", base + ["sendfail 3", "fire 1", "sendfail 2", rx(4, 2, "u4:1", "ok", "ssdp:all", rng), "sendfail 30", "devdel 1", "sendfail 0", "fire 2", "destroy"]))
    S.append(_s("a17-argument-checks-and-duplicates", [CFG, dev(1), link(1, "nope"), link(1, "lan0", None, None), link(1, "a234567890123456"),
             link(1, "a23456789012345"), link(1), link(1), "count", "fire 1", rx(4, 2, "u4:1", "ok", "upnp:rootdevice", rng), "devdel 1", "count", "destroy", "firez"]))
    # buffer edges: NT of exactly 350 octets, ST of 350 / 351, LOCATION that does not fit the datagram buffer
    t300 = "T" * (350 - len("urn:a:device:") - 2); nt350 = "urn:a:device:%s:1" % t300
    S.append(_s("a18-buffer-edges", [CFG, dev(1, "a", t300, 1), svc(1, "a", "S" * 200, 1), link(1), link(1, "lan1", "HUGE", "http://h/6"), "fire 1",
             rx(4, 2, "u4:1", "ok", nt350, rng), rx(4, 2, "u4:1", "ok", nt350 + "0", rng), rx(4, 2, "u4:1", "ok", "x" * 350, rng), rx(4, 2, "u4:1", "ok", "x" * 351, rng),
             rx(4, 2, "u4:1", "ok", "urn:a:service:%s:1" % ("S" * 200), rng), rx(4, 3, "u4:1", "ok", "ssdp:all", rng), rx(6, 3, "u6:1", "ok", "ssdp:all", rng),
             rx(4, 2, "u4:1", "noterm", "A" * 400, rng), "devdel 1", "destroy"]))
    t301 = t300 + "T"
    S.append(_s("a18-notification-type-one-too-long", [CFG, dev(1, "a", t301, 1), svc(1, "a", "S" * 400, 1), svc(1), link(1), "fire 1",
             rx(4, 2, "u4:1", "ok", "ssdp:all", rng), rx(4, 2, "u4:1", "ok", "urn:a:device:%s:1" % t301, rng), rx(4, 2, "u4:1", "ok", "urn:a:service:S:1", rng),
             "devdel 1", "destroy"]))
    S.append(_s("a19-batched-datagrams", base + [rx(4, 2, "u4:1", "ok", "upnp:rootdevice", rng, "rxq"), rx(4, 2, "u4:2", "nomx", "ssdp:all", rng, "rxq"),
             rx(4, 3, "u4:3", "ok", "ssdp:all", rng, "rxq"), rx(4, 2, "u4:4", "empty", "", rng, "rxq"), rx(4, 2, "u4:5", "ok", "uuid:" + U(1), rng),
             rx(6, 2, "u6:1", "ok", "ssdp:all", rng, "rxq"), rx(6, 3, "l6:7", "ok", "ssdp:all", rng), "destroy"]))
    return S

def random_scenario(rng, idx, maxlen=22):
    """a seeded random walk over the scenario commands; guards in the driver keep it a legal use of the API"""
    v4, v6 = rng.choice([(1, 1), (1, 1), (1, 0), (0, 1)]); bye = rng.choice([1, 1, 0]); sp = rng.choice([1900, 1900, 49152])
    L = ["cfg kind=%s v4=%d v6=%d byebye=%d sp=%d" % (rng.choice(["custom", "custom", "default"]), v4, v6, bye, sp)]
    devs = set(); nd = 0
    ifs = ["lan0", "lan1", "wan0", "lan0", "nope"]; ix = {"lan0": 2, "lan1": 3, "wan0": 5}
    for _ in range(rng.randint(8, maxlen)):
        c = rng.random()
        if c < 0.14 and nd < 6:
            nd += 1; devs.add(nd)
            L.append(dev(nd, rng.choice(["a", "a", "b"]), rng.choice(["T", "T", "TT"]), rng.choice([1, 2, 3]), rng.randint(1, 9), rng.randint(1, 9), rng.choice([0, 100, 1800]), rng.choice([0, 1, 30])))
        elif c < 0.24 and devs:
            L.append(svc(rng.choice(sorted(devs)), rng.choice(["a", "b"]), rng.choice(["S", "SS"]), rng.choice([1, 2, 3])))
        elif c < 0.42 and devs:
            u = rng.choice([("http://h/4", "http://h/6"), ("http://h/4", None), (None, "http://h/6"), ("http://h/4", "http://h/6")])
            L.append(link(rng.choice(sorted(devs)), rng.choice(ifs), u[0], u[1]))
        elif c < 0.50 and devs:
            d = rng.choice(sorted(devs)); devs.discard(d); L.append("devdel %d" % d)
        elif c < 0.55:
            L.append("ifdel %d" % rng.choice([2, 3, 5]))
        elif c < 0.66 and devs:
            L.append("fire %d" % rng.choice(sorted(devs)))
        elif c < 0.70:
            L.append("notify")
        elif c < 0.90:
            st = rng.choice(STS + ["ssdp:all", "upnp:rootdevice", "urn:a:device:T:1", "urn:a:service:S:1", "urn:b:service:SS:2"])
            sk = rng.choice([4, 6])
            src = ("u4:%d" if sk == 4 else rng.choice(["u6:%d", "l6:%d"])) % rng.randint(1, 9)
            sh = rng.choice(["ok"] * 6 + ANSWERED + IGNORED)
            L.append(rx(sk, rng.choice([2, 2, 3, 5]), src, sh, st, rng, rng.choice(["rx", "rx", "rxq"])))
        elif c < 0.93:
            L.append("count")
        elif c < 0.955:
            L.append("allocfail %d" % rng.randint(1, 4))
        elif c < 0.97:
            L.append("joinfail %d" % rng.randint(1, 3))
        elif c < 0.985:
            L.append("sendfail %d" % rng.randint(1, 5))
        else:
            break
    L.append(rx(4 if v4 else 6, 2, "u4:1" if v4 else "u6:1", "ok", "ssdp:all", rng))
    L += ["allocfail 0", "joinfail 0", "sendfail 0", "count"]
    if rng.random() < 0.8: L += ["destroy", "firez"]
    return ("r%03d" % idx, "\n".join(L) + "\nend\n")

# ------------------------------------------------------------------------------------------------ rig
WRAPS = ("socket,bind,getsockname,setsockopt,recvmsg,sendto,close,if_nametoindex,timerfd_create,timerfd_settime,"
         "calloc,malloc,realloc,reallocarray,free")
def build(d):
    return common.cc([DRV], os.path.join(d, "x07_drv"), compiler="clang", san="asan",
                     flags=["-fno-sanitize=nonnull-attribute", "-w", "-Wl," + ",".join("--wrap=" + w for w in WRAPS.split(","))])

def run_scenario(exe, d, name, text):
    sc = os.path.join(d, name + ".txt"); tr = os.path.join(d, name + ".ndjson")
    open(sc, "w").write(text)
    if os.path.exists(tr): os.remove(tr)
    env = {"ASAN_OPTIONS": "detect_leaks=0:abort_on_error=0:detect_stack_use_after_return=0",
           "UBSAN_OPTIONS": "print_stacktrace=1:halt_on_error=1"}
    rc, out = common.sh([exe, sc, tr], timeout=150, env=env)
    evs = []
    if os.path.exists(tr):
        for ln in open(tr):
            try: evs.append(json.loads(ln))
            except Exception: pass
    if rc == 3 or not evs or evs[0].get("e") != "create":
        raise common.Infra("driver could not set the scenario up (%s rc=%s):\n%s" % (name, rc, out[-1500:]))
    if rc == 124: evs.append({"e": "hang"})
    return {"name": name, "text": text, "rc": rc, "out": out, "evs": evs}

def normalise(evs):
    """drop the rig's own lines, close the scenario with an 'eos' line (pure filtering)"""
    body = [e for e in evs if e["e"] not in ("end",)]
    return body + [{"e": "eos"}]

def tlc_validate(runs, d, tag, family="core", timeout=900):
    """-> {scenario index (1-based): [verdict records]}"""
    path = os.path.join(d, "trace_%s.ndjson" % tag)
    with open(path, "w") as f:
        for r in runs:
            for e in normalise(r["evs"]): f.write(json.dumps(e) + "\n")
    cfg = "Trace_Ssdp.cfg" if family == "core" else "Trace_Ssdp_all.cfg"
    r = common.tlc("Trace_Ssdp", cfg=cfg, workers=4, env={"TRACE": path}, timeout=timeout, xmx="4g", xss="256m")
    if r.rc != 0:
        raise common.Infra("trace specification failed (rc=%s, %s):\n%s" % (r.rc, r.violation, r.out[-3000:]))
    by = collections.defaultdict(list)
    for v in common.tlc_printed_json(r.out):
        if isinstance(v, dict) and "verdict" in v: by[v["sc"]].append(v)
    return by, r

def explain(verdicts):
    """-> (status, repairs shown absent, accepting records).  status: 'ok' | 'undecided' | 'rejected'.
    A repair is shown absent when NO accepting variant has it (sound whatever family of variants was run);
    when only the totally unrepaired variant of the core family accepts, the full family is needed."""
    acc = [v for v in verdicts if v["verdict"] == "ACCEPT"]
    if not acc: return "rejected", set(), acc
    # a variant may print several verdicts for one scenario (branches of an order-agnostic repair): it accepts if one does
    sets = sorted({frozenset(v["fx"]) for v in acc}, key=sorted)
    nvariants = len({frozenset(v["fx"]) for v in verdicts})
    absent = set(ALLFIX)
    for s in sets: absent -= s
    if nvariants < 2 ** len(ALLFIX) and sets == [frozenset()]: return "undecided", absent, acc
    return "ok", absent, acc

def crash_key(out):
    k = common.san_key(out)
    if k and k[1]: return "%s:%s" % (k[0], k[1])
    fn = re.search(r"#\d+ 0x[0-9a-f]+ in (\w+) [^\n]*/(?:upnp_ssdp|http|socket\w*|threadpool\w*)\.[ch]:\d+", out)
    m = re.search(r"ERROR: AddressSanitizer: ([\w-]+)", out)
    if m:
        acc = "-WRITE" if re.search(r"^WRITE of size", out, re.M) else ("-READ" if re.search(r"^READ of size", out, re.M) else "")
        return "%s%s:%s" % (m.group(1), acc, fn.group(1) if fn else "?")
    m = re.search(r"([\w./-]+):(\d+):\d+: runtime error: ([a-z0-9 ]+)", out)
    if m: return "ubsan:%s:%s" % (os.path.basename(m.group(1)), m.group(3).strip().replace(" ", "-")[:40])
    if k: return "%s:%s" % (k[0], k[2])
    return "crash:unknown"

def mc_cfg(name, over):
    ws = common.tlc_workspace()
    cfg = open(os.path.join(SPEC_DIR, "MC_Ssdp.cfg")).read()
    for k, v in over.items():
        cfg, n = re.subn(r"(?m)^  %s = .*$" % re.escape(k), "  %s = %s" % (k, v), cfg)
        if n != 1: raise common.Infra("MC_Ssdp.cfg has no constant %s" % k)
    open(os.path.join(ws, name), "w").write(cfg)
    return name
def fixset(xs): return "{" + ", ".join('"%s"' % x for x in xs) + "}"
ALLT = "{" + ", ".join(str(i) for i in range(1, 18)) + "}"

# (label, overrides of MC_Ssdp.cfg, workers)
MC_QUICK = [
    ("2dev-2links-all-settings", {"MaxFault": 0, "Targets": "{1, 2, 3, 5, 6, 9, 10, 13}"}, 4),
    ("faults", {"Cfgs": "{1, 3}", "UrlKinds": "{1}", "Targets": "{1, 4}", "MaxSvcs": 0}, 4),
]
MC_THOROUGH = [
    ("2dev-2links-all-settings-faults", {}, 4),
    ("3dev-3links", {"Devs": "{1, 2, 3}", "MaxLinks": 3, "MaxFault": 0, "Cfgs": "{1, 2}", "UrlKinds": "{1}", "Targets": "{1, 4, 13}", "MaxSvcs": 0}, 4),
    ("2dev-3links-v6only-huge", {"MaxLinks": 3, "MaxFault": 0, "Cfgs": "{1}", "UrlKinds": "{3, 4}", "Targets": "{1, 5}"}, 4),
]
NEG_BASE = {"MaxFault": 1, "Cfgs": "{1, 3, 4, 5}", "UrlKinds": "{1}", "Targets": "{1, 4, 9, 10}", "MaxSvcs": 0}

def model_checking(ctx):
    todo = list(MC_QUICK) + ([] if ctx.quick else list(MC_THOROUGH))
    for label, over, workers in todo:
        cfg = mc_cfg("_x07_mc_%s.cfg" % label, over)
        r = common.tlc("MC_Ssdp", cfg=cfg, workers=workers, timeout=1500, xmx="6g", xss="256m")
        ctx.tlc_stats(r, "MC_Ssdp/" + label)
        ctx.log("model %s: rc=%s distinct=%d depth=%d wall=%.0fs %s" % (label, r.rc, r.distinct, r.depth, r.wall, r.violation or ""))
        if r.rc != 0:
            ctx.fail("model:%s:%s" % (label, (r.violation or "error").replace(" ", "-")),
                     "the repaired model violates a stated property:\n" + r.out[-3500:], {"cfg": over})
    # vacuity: one behaviour of the model takes every action
    r = common.tlc("MC_SsdpCov", workers=2, timeout=900, xmx="4g", xss="256m")
    ctx.tlc_stats(r, "MC_SsdpCov/every-action-taken")
    if r.rc != 12 or "NotAllTaken" not in (r.violation or ""):
        raise common.Infra("vacuity probe: some action of MC_Ssdp is never taken (rc=%s %s)" % (r.rc, r.violation))
    # every repair is needed: without it TLC must find a violated property
    def neg(f):
        over = dict(NEG_BASE); over["Fix"] = fixset([x for x in ALLFIX if x != f])
        cfg = mc_cfg("_x07_neg_%s.cfg" % f, over)
        return f, common.tlc("MC_Ssdp", cfg=cfg, workers=1, timeout=900, xmx="3g", xss="256m")
    with ThreadPoolExecutor(max_workers=4) as ex:
        for f, r in ex.map(neg, ALLFIX):
            ctx.tlc_stats(r, "MC_Ssdp/without-" + f)
            viol = re.findall(r"viol \|-> (\{[^}]*\})", r.out)
            ctx.log("model without %-11s: %s %s (%d states)" % (f, r.violation, viol[-1] if viol else "", r.distinct))
            ctx.cov.setdefault("property_violated_without_repair", {})[f] = r.violation
            if r.rc != 12:
                ctx.fail("model:vacuous:" + f, "the model variant without repair '%s' violates no stated property: "
                         "the deviation would not be a defect under the properties (rc=%s)" % (f, r.rc), {"fix": f})

def report(ctx, runs, by, phase2):
    seen_absent = {}; seen_present = {}
    undecided = []
    for k, run in enumerate(runs, 1):
        st, absent, acc = explain(by.get(k, []))
        run["status"] = st
        if st == "undecided" and not phase2:
            undecided.append(run); continue
        skipped = [e for e in run["evs"] if e["e"] == "script.miss"]
        miss = [e for e in skipped if e.get("what") in ("datagram-not-consumed", "timer-not-delivered")]
        if skipped: ctx.add(scenario_commands_skipped_by_driver_guards=len(skipped) - len(miss))
        if miss: ctx.add(scenario_waits_missed=len(miss))
        if st in ("ok", "undecided"):
            ctx.add(traces_validated_against_impl=1, trace_events_validated=len(run["evs"]))
            for f in absent: seen_absent.setdefault(f, run)
            if absent: ctx.cov.setdefault("deviations_by_scenario", {})[run["name"]] = sorted(absent)
            if miss: ctx.cov.setdefault("waits_missed_by_scenario", {})[run["name"]] = [m.get("what") for m in miss]
            if st == "undecided":
                ctx.notes.append("%s: several repairs missing at once, minimal explanation not unique" % run["name"])
            sets = [frozenset(v["fx"]) for v in acc]
            for f in ALLFIX:
                if all(f in x for x in sets): seen_present.setdefault(f, []).append(run)
            continue
        rej = [v for v in by.get(k, []) if set(v["fx"]) == set(ALLFIX)] or by.get(k, [])
        v = rej[0] if rej else {"line": 0, "why": "no verdict"}
        evs = normalise(run["evs"])
        why = v["why"]
        last = run["evs"][-1]["e"] if run["evs"] else ""
        if last == "crash" and "crash" in why:
            key = "ssdp:" + crash_key(run["out"])
        elif last == "hang":
            key = "ssdp:hang"
        else:
            key = "conformance:" + re.sub(r"[^a-z_]+", "-", why.split(";")[0].split(":")[0].lower()).strip("-")[:70]
        off = sum(len(normalise(r2["evs"])) for r2 in runs[:k - 1])
        loc = max(0, v["line"] - off - 1)
        detail = ("scenario %s: the real object's history is explained by no variant of the model.\n"
                  "fully repaired variant: line %d: %s\ncontext:\n%s\n--- driver output:\n%s"
                  % (run["name"], loc + 1, why[:1500], "\n".join(json.dumps(e)[:600] for e in evs[max(0, loc - 8):loc + 1]), run["out"][-1200:]))
        rejected = ctx.cov.setdefault("_rejected", {})
        if key in rejected: rejected[key]["more"].append(run["name"])
        else: rejected[key] = {"detail": detail, "replay": {"scenario": run["name"], "text": run["text"][:20000]}, "more": [], "run": run}
    return undecided, seen_absent, seen_present

def report_deviations(ctx, seen_absent, seen_present):
    for f, run in sorted(seen_absent.items()):
        if f in seen_present:
            ctx.fail("conformance:inconsistent:" + f, "repair %s is shown both present and absent by different scenarios" % f,
                     {"scenario": run["name"], "text": run["text"][:20000]})
            continue
        tail = [json.dumps(e)[:400] for e in run["evs"][-10:]]
        ctx.fail(KEYS[f], "%s.\nWitness scenario %s: only variants of the model WITHOUT the repair '%s' explain the recorded "
                 "history (TLC, Trace_Ssdp); the repaired model rejects it.\n%s\n%s"
                 % (WHAT[f], run["name"], f, "\n".join(tail), run["out"][-800:] if run["rc"] not in (0,) else ""),
                 {"scenario": run["name"], "text": run["text"][:20000], "repair": f})

def run(ctx):
    ctx.level = "model_checking"
    ctx.cov["rule"] = ("exhaustive TLC exploration of the implementation-shaped model (all invariants on the repaired variant, a "
                       "violated property for each unrepaired variant) and TLC trace validation of the real object + thread "
                       "pool over a fake network against all variants")
    ctx.assumptions += [
        "the object is used from the one thread of a one-thread pool (upnp_ssdp.c has no locking)",
        "fake network: sockets are AF_UNIX socketpairs behind link-time wrappers; interface table lan0=2 lan1=3 wan0=5; "
        "no datagram ever leaves the process",
        "announce timers are fired by the scenario (one-shot expiry of the object's own timerfd), the period is only "
        "compared as the value passed to timerfd_settime",
        "versions < 65536 in the model (limb arithmetic for the 2^32 wrap of the shipped parser)",
    ]
    d = common.scratch("lcbv-x07-")
    exe = build(d)
    rng = random.Random(ctx.seed * 7919 + 7)
    scen = static_scenarios(rng)
    nrand = 10 if ctx.quick else 300
    scen += [random_scenario(rng, i, 22 if ctx.quick or i % 3 else 40) for i in range(nrand)]
    t0 = time.time()
    with ThreadPoolExecutor(max_workers=4) as ex:
        runs = list(ex.map(lambda s: run_scenario(exe, d, s[0], s[1]), scen))
    ctx.log("driver: %d scenarios executed in %.0fs" % (len(runs), time.time() - t0))
    by, r1 = tlc_validate(runs, d, "core", "core")
    ctx.tlc_stats(r1, "Trace_Ssdp/core-variants")
    ctx.log("trace validation: %d lines x %d variants in %.0fs" % (sum(len(r["evs"]) for r in runs), len(ALLFIX) + 2, r1.wall))
    undecided, absent, present = report(ctx, runs, by, phase2=False)
    sound_present = set()
    if undecided:
        by2, r2 = tlc_validate(undecided, d, "all", "all")
        ctx.tlc_stats(r2, "Trace_Ssdp/all-variants")
        _, absent2, present2 = report(ctx, undecided, by2, phase2=True)
        for f, rn in absent2.items(): absent.setdefault(f, rn)
        sound_present |= set(present2)
    conflict = [f for f in absent if f in present]
    if conflict:
        again = []
        for f in conflict:
            for rn in present[f][:6]:
                if rn not in again: again.append(rn)
        by3, r3 = tlc_validate(again, d, "recheck", "all")
        ctx.tlc_stats(r3, "Trace_Ssdp/all-variants-recheck")
        for k, rn in enumerate(again, 1):
            sets = [frozenset(v["fx"]) for v in by3.get(k, []) if v["verdict"] == "ACCEPT"]
            for f in conflict:
                if sets and all(f in x for x in sets): sound_present.add(f)
    report_deviations(ctx, absent, sound_present)
    # a rejection is repeated once before it is reported (a missed bounded wait must not become a verdict)
    for key, rj in sorted(ctx.cov.pop("_rejected", {}).items()):
        rn = rj.pop("run")
        again = run_scenario(exe, d, rn["name"] + "-again", rn["text"])
        by4, r4 = tlc_validate([again], d, "again", "all")
        st4, _, _ = explain(by4.get(1, []))
        if st4 != "rejected":
            ctx.notes.append("%s: rejected once, accepted when repeated (not reported)" % rn["name"])
            ctx.add(rejections_not_reproduced=1)
            continue
        ctx.fail(key, rj["detail"] + ("\n(also: %s)" % ", ".join(rj["more"][:20]) if rj["more"] else ""), rj["replay"])
    model_checking(ctx)
    kinds = collections.Counter(e["e"] for r in runs for e in r["evs"])
    ctx.cov["trace_event_kinds"] = dict(kinds)
    txk = collections.Counter(e["k"] for r in runs for e in r["evs"] if e["e"] == "tx")
    ctx.cov["datagrams_by_kind"] = dict(txk)
    known = {f["key"] for f in common.known_open(ctx.prop)}
    if not [1 for f in ctx.failures if f[0] not in known]:     # vacuity is only judged when nothing else is wrong
        for need in ("tx", "rx", "timer", "opt", "arm", "disarm", "close", "dev_add", "svc_add", "link", "dev_del", "if_del", "notify",
                     "destroy", "firez", "allocfail", "joinfail", "sendfail"):
            if kinds.get(need, 0) == 0: raise common.Infra("no '%s' event in any trace: the binding is vacuous" % need)
        for need in ("alive", "byebye", "resp"):
            if txk.get(need, 0) == 0: raise common.Infra("no '%s' datagram in any trace: the binding is vacuous" % need)
    ctx.cov["scenarios"] = len(runs)
    ctx.cov["scenario_status"] = dict(collections.Counter(r.get("status", "?") for r in runs))
    ctx.cov["repairs_shown_absent"] = sorted(absent)
    ctx.cov["repairs_shown_present"] = sorted((set(present) - set(absent)) | sound_present)
    ctx.add(evaluations=len(runs), distinct_nontrivial=len(runs), samples=[r["name"] for r in runs[:12]])
    ctx.log("repairs shown absent (findings): %s; shown present: %s" % (sorted(absent), ctx.cov["repairs_shown_present"]))
