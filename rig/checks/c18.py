"""C18 - socket-address text and prefix arithmetic agree with the standard forms (mode B).

TLC enumerates the corpus from the generator specs under specs/net and computes every expectation from the TLA+
reference (SockAddr.tla: dotted quad / RFC 5952 text / bracket+port forms / three-valued Parse; Prefix.tla: masks,
truncation, membership on 16-bit groups), checking the reference's own algebra on every case
(Parse(Format(a,p)) = (a,p), mask2len(len2mask(l)) = l, truncation = AND with the mask ...).
The real functions (ASan+UBSan build, exact-size heap blocks, every output capacity 0..sure+1) must return
exactly that.  Python renders abstract values to bytes, runs the driver and compares; it computes no expectation."""
import json, os, re, collections, itertools
from concurrent.futures import ThreadPoolExecutor
from rig import common
from rig.common import hexs, unhex, kv

SRC = ["/verif/harness/sockaddr_drv.c", "src/net/socket_address.c", "src/net/utils.c"]
JENV = {"JAVA_TOOL_OPTIONS": "-XX:ParallelGCThreads=2"}
FN_FMT = {"fa": "sa_addr_to_str", "fp": "sa_addr_port_to_str"}
FN_PARSE = {"pa": "sa_addr_from_str", "pp": "sa_addr_port_from_str", "pn": "str_net_to_ss"}
FAMNAME = {"4": "inet", "6": "inet6", "u": "unix"}

OCT = "{0, 1, 9, 10, 99, 100, 199, 200, 255}"
PORTS = "{0, 1, 9, 10, 99, 100, 999, 1000, 9999, 10000, 65535}"
INVS = "RoundTripAddr RoundTripAddrPort RoundTripBracketed RoundTripNet Rfc5952Shape CapsOrdered"

def gen_cfg(name, oct_="{}", g6="{}", g6first="{}", ports="{}", pathlens="{}", portlo=1, porthi=0, seed=1, nrand=0):
    """partition configs of GenSockAddr are written into the scratch TLC workspace (same module, same invariants;
    only the constants that select the slice of the corpus differ)"""
    ws = common.tlc_workspace()
    with open(os.path.join(ws, name), "w") as f:
        f.write("SPECIFICATION Spec\nCONSTANTS\n  Oct = %s\n  G6 = %s\n  G6First = %s\n  Ports = %s\n  PathLens = %s\n"
                "  PortLo = %d\n  PortHi = %d\n  Seed = %d\n  NRand = %d\n"
                "INVARIANTS %s\nCONSTRAINT Emit\nCHECK_DEADLOCK FALSE\n"
                % (oct_, g6, g6first, ports, pathlens, portlo, porthi, seed, nrand, INVS))
    return name

def run_tlc(ctx, module, cfg, label):
    r = common.tlc(module, cfg=cfg, workers=1, coverage=False, timeout=1500, env=JENV, xss="64m")
    if r.rc != 0:
        raise common.Infra("reference algebra failed inside TLC (spec bug, not a code verdict) %s/%s: %s\n%s"
                           % (module, cfg, r.violation, r.out[-3000:]))
    cases = common.tlc_printed_json(r.out)
    if len(cases) != r.generated - 1:       # one line per generated successor of the start state
        raise common.Infra("corpus emission lost cases in %s: %d printed vs %d generated" % (label, len(cases), r.generated - 1))
    uniq = {}
    for c in cases:
        uniq.setdefault(json.dumps(c, sort_keys=True), c)
    if len(uniq) != r.distinct - 1:
        raise common.Infra("corpus emission inconsistent in %s: %d distinct printed vs %d distinct states" % (label, len(uniq), r.distinct - 1))
    return r, list(uniq.values())

# ---------------------------------------------------------------- rendering abstract values to bytes
def addr_bytes(fam, a):
    if fam == "6": return b"".join(int(x).to_bytes(2, "big") for x in a)
    return bytes(a)
def groups_bytes(g):
    return b"".join(int(x).to_bytes(2, "big") for x in g)

ASAN_ENV = {"ASAN_OPTIONS": "detect_leaks=0:abort_on_error=0:detect_stack_use_after_return=1:"
                            "allocator_may_return_null=1:print_legend=0"}

def crash_kind(a):
    """class of a driver crash, the same for the ASan builds and the guard-page build.  (common.san_key() cannot read
    an ASan summary whose top frame is a libc interceptor without file:line - inet_ntop, memcpy - so the report itself
    is consulted.)"""
    k = a["crash"][0]
    m = re.search(r"AddressSanitizer: ([\w-]+)", a["raw"])
    if m: k = m.group(1)
    if k in ("fault-sig14", "timeout"): return "non-termination"      # the driver's watchdog (or the rig's timeout): the call did not return
    if "overflow" in k or "underflow" in k or k.startswith("fault-sig") or k in ("SEGV", "use-after-poison", "heap-use-after-free",
                                                                            "stack-use-after-return", "stack-use-after-scope"):
        return "out-of-bounds"
    return k

class Agg:
    """one ctx.fail per key: the first failing case in full, the number of cases and a few more examples"""
    def __init__(self, ctx):
        self.ctx = ctx; self.d = collections.OrderedDict()
    def fail(self, key, detail, replay=None):
        e = self.d.setdefault(key, {"n": 0, "detail": detail, "replay": replay, "more": []})
        e["n"] += 1
        if 1 < e["n"] <= 4:
            e["more"].append((replay or {}).get("case") or str(detail).split("\n")[0][:300])
    def add(self, **kw): self.ctx.add(**kw)
    def flush(self):
        for key, e in self.d.items():
            det = str(e["detail"])
            if e["n"] > 1: det += "\n[%d cases failed with this key; further examples:\n  %s]" % (e["n"], "\n  ".join(e["more"]))
            rp = dict(e["replay"] or {}); rp["cases_with_this_key"] = e["n"]
            self.ctx.fail(key, det, rp)
        self.ctx.cov["failing_cases_by_key"] = {k: e["n"] for k, e in self.d.items()}

class Runner:
    """feeds cases to the driver in chunks; a (op, fam, cap)-combination that already crashed `limit` times is not
    run again (the crash is reported once per key; every skipped case is counted in the evidence)"""
    HANG_BUDGET = 12    # deaths by the driver's watchdog (the call did not return) per build; every one is reported, the cases behind the last are not run
    def __init__(self, ctx, exe, limit=3):
        self.ctx = ctx; self.exe = exe; self.limit = limit
        self.crashes = collections.Counter(); self.skipped = 0; self.hangs = 0
    def run(self, items, handle, chunk=20000):
        """items: iterable of (line, combo, meta); handle(line, meta, answer_or_crashdict)"""
        it = iter(items)
        while True:
            block = list(itertools.islice(it, chunk))
            if not block: return
            if self.hangs >= self.HANG_BUDGET:      # a function that never returns: bounded time, the remaining cases are not run
                self.skipped += len(block); continue
            part = [x for x in block if x[1] is None or self.crashes[x[1]] < self.limit]
            self.skipped += len(block) - len(part)
            if not part: continue
            try:
                res = common.batch_run(self.exe, [p[0] for p in part], timeout=600, env=ASAN_ENV, max_hangs=self.HANG_BUDGET - self.hangs)
            except common.Infra as e:
                if "too many driver crashes" in str(e):
                    self.ctx.fail("driver:mass-crash", str(e)[-1500:], {"first_case": part[0][0]}); return
                raise
            for (line, combo, meta), a in zip(part, res):
                if isinstance(a, dict) and a.get("skipped"): self.skipped += 1; continue
                if isinstance(a, dict) and combo is not None: self.crashes[combo] += 1
                if isinstance(a, dict) and a["crash"][0] in ("fault-sig14", "timeout"): self.hangs += 1
                handle(line, meta, a)

# ---------------------------------------------------------------- formatting
def capclass(cap, need, sure):
    if cap <= 2: return "cap==%d" % cap
    if cap < need: return "cap<need"
    if cap < sure: return "need<=cap<sure"
    return "cap>=sure"

POW10 = (10, 100, 1000, 10000)

def fmt_items(cases, probe):
    """every capacity 0..sure+1 for every case and both functions (generator).  The sweeps of the first three cases
    of each (family, port?) class are the `probe` part and run first, so that a capacity at which the code faults
    for EVERY address (one finding) is learned by the Runner from three faults instead of thousands."""
    seen = collections.Counter()
    for c in cases:
        fam = c["fam"]; ab = hexs(addr_bytes(fam, c["a"]))
        cls = (fam, c["port"] != 0)
        seen[cls] += 1
        if (seen[cls] <= 3) != probe: continue
        for op in ("fa", "fp"):
            sure = c["surea"] if op == "fa" else c["surep"]
            for cap in range(0, sure + 2):
                yield ("%s %s %s %d %d" % (op, fam, ab, c["port"], cap), (op, fam, cap), (op, c, cap))

def fmt_handle(ctx, stats):
    def h(line, meta, a):
        op, c, cap = meta
        fam = c["fam"]; fn = FN_FMT[op]
        text = bytes(c["ta"] if op == "fa" else c["tp"])
        alts = {text} | ({bytes(c["tpalt"])} if op == "fp" else set())
        need = c["needa"] if op == "fa" else c["needp"]; sure = c["surea"] if op == "fa" else c["surep"]
        ctx.add(evaluations=1)
        rp = {"case": line, "expect_text": text.decode("latin1"), "need": need, "sure": sure}
        if isinstance(a, dict):
            ctx.fail("%s:%s:%s:%s" % (fn, FAMNAME[fam], capclass(cap, need, sure), crash_kind(a)), a["raw"], rp); return
        _, f = kv(a)
        rc = int(f["rc"]); n = int(f["n"]); out = f["out"]
        if f.get("w0") == "1":
            ctx.fail("%s:%s:writes-with-size-0" % (fn, FAMNAME[fam]), "case %s -> %s" % (line, a), rp); return
        if not c["decided"]:
            # text of ::a.b.c.d forms is Unspecified: only termination inside the block is demanded
            if rc == 0 and out == "!":
                ctx.fail("%s:%s:unterminated-output" % (fn, FAMNAME[fam]), "case %s -> %s" % (line, a), rp)
            stats["undecided"] += 1; return
        if rc != 0:
            if cap >= sure:
                ctx.fail("%s:%s:fails-with-sufficient-buffer" % (fn, FAMNAME[fam]),
                         "case %s (must succeed from %d bytes) -> %s" % (line, sure, a), rp)
            stats["toosmall" if cap < need else "grey_fail"] += 1; return
        got = None if out == "!" else unhex(out)
        if got not in alts:         # success with a text that is not the expected one (whatever the capacity)
            if op == "fp" and fam == "6" and got is not None and text.find(b"]") > 0 and \
                    got == text[:text.find(b"]") - 1] + text[text.find(b"]"):]:
                key = "sa_addr_port_to_str:inet6:drops-char-before-bracket"
            elif op == "fp" and c["port"] in POW10:
                key = "sa_addr_port_to_str:port-power-of-ten"
            else:
                key = "%s:%s:wrong-text" % (fn, FAMNAME[fam])
            ctx.fail(key, "case %s\nexpected text %r\ngot           %r   (%s)" % (line, text, got, a), rp); return
        if cap < need:
            ctx.fail("%s:%s:success-with-too-small-buffer" % (fn, FAMNAME[fam]),
                     "case %s (text needs %d bytes) -> %s" % (line, need, a), rp); return
        if n != len(got):
            ctx.fail("%s:%s:wrong-reported-size" % (fn, FAMNAME[fam]), "case %s expected n=%d -> %s" % (line, len(got), a), rp); return
        stats["ok"] += 1
        stats["texts"].add((op, got))
    return h

# ---------------------------------------------------------------- parsing
def parse_expect_ok(f, r, with_len):
    if int(f["rc"]) != 0: return "rejects-valid"
    if f["fam"] != r["fam"]: return "wrong-family"
    if f["addr"] != hexs(addr_bytes(r["fam"], r["a"])): return "wrong-address"
    if int(f["port"]) != r["port"]: return "wrong-port"
    if with_len and int(f["len"]) != r["len"]: return "wrong-preflen"
    if f.get("clean") != "1": return "dirty-sockaddr"
    return None

def parse_handle(ctx, stats):
    def h(line, meta, a):
        fnk, text, r = meta
        fn = FN_PARSE[fnk]
        ctx.add(evaluations=1)
        rp = {"case": line, "text": text.decode("latin1"), "spec_verdict": r}
        if isinstance(a, dict):
            ctx.fail("%s:%s" % (fn, crash_kind(a)), a["raw"], rp); return
        _, f = kv(a)
        if r["v"] == "unspec":
            stats["unspec"] += 1; return
        if r["v"] == "reject":
            if int(f["rc"]) == 0:
                ctx.fail("%s:accepts:%s" % (fn, r["why"]), "text %r must be rejected (%s) -> %s" % (text, r["why"], a), rp)
            stats["reject"] += 1; stats["texts"].add((fnk, text)); return
        bad = parse_expect_ok(f, r, fnk == "pn")
        if bad:
            ctx.fail("%s:%s:%s" % (fn, bad, FAMNAME[r["fam"]]),
                     "text %r must parse to %s -> %s" % (text, json.dumps({k: r[k] for k in ("fam", "a", "port", "len")}), a), rp)
        stats["ok"] += 1; stats["texts"].add((fnk, text))
    return h

# ---------------------------------------------------------------- prefix arithmetic
def prefix_items(cases):
    items = []
    for c in cases:
        i = c["in"]; k = i["k"]; fam = i["fam"]
        if k == "l2m": line = "l2m%s %d" % (fam, i["l"])
        elif k == "m2l": line = "m2l%s %s" % (fam, hexs(groups_bytes(i["m"])))
        elif k == "tl": line = "tl %s %s %d" % (fam, hexs(groups_bytes(i["a"])), i["l"])
        elif k == "tm": line = "tm %s %s %s" % (fam, hexs(groups_bytes(i["a"])), hexs(groups_bytes(i["m"])))
        elif k == "in": line = "in %s %s %s %s" % (fam, hexs(groups_bytes(i["net"])), hexs(groups_bytes(i["m"])), hexs(groups_bytes(i["a"])))
        elif k == "pn": line = "pn %s" % hexs(bytes(i["t"]))
        else: raise common.Infra("unknown prefix case kind %r" % k)
        items.append((line, None, c))
    return items

def prefix_handle(ctx, stats, ph):
    v6 = {"4": "inet", "6": "inet6"}
    def h(line, c, a):
        i = c["in"]; e = c["expect"]; k = i["k"]; fam = i["fam"]
        if k == "pn":
            ph(line, ("pn", bytes(i["t"]), e), a); return
        ctx.add(evaluations=1)
        rp = {"case": line, "spec": c}
        fn = {"l2m": v6[fam] + "_len2mask", "m2l": v6[fam] + "_mask2len", "tl": "net_addr_truncate_preflen",
              "tm": "net_addr_truncate_mask", "in": "is_addr_in_net"}[k]
        if isinstance(a, dict):
            ctx.fail("%s:%s" % (fn, crash_kind(a)), a["raw"], rp); return
        _, f = kv(a)
        stats[k] += 1
        if e["v"] == "unspec": return
        if k == "l2m":
            if e["v"] == "reject":
                if int(f["rc"]) == 0: ctx.fail("%s:accepts-len>max" % fn, "%s -> %s" % (line, a), rp)
            elif int(f["rc"]) != 0 or f["mask"] != hexs(groups_bytes(e["m"])):
                ctx.fail("%s:wrong-mask" % fn, "%s expected mask %s -> %s" % (line, hexs(groups_bytes(e["m"])), a), rp)
        elif k == "m2l":
            if int(f["v"]) != e["l"]: ctx.fail("%s:wrong-len" % fn, "%s expected %d -> %s" % (line, e["l"], a), rp)
        elif k in ("tl", "tm"):
            if f["addr"] != hexs(groups_bytes(e["a"])):
                ctx.fail("%s:%s:wrong-result" % (fn, v6[fam]), "%s expected %s -> %s" % (line, hexs(groups_bytes(e["a"])), a), rp)
        elif k == "in":
            if (int(f["v"]) != 0) != bool(e["member"]):
                ctx.fail("%s:%s:wrong-verdict" % (fn, v6[fam]), "%s expected member=%s -> %s" % (line, e["member"], a), rp)
    return h

# ---------------------------------------------------------------- the whole sockaddr_storage image (GenSockAddrFrame)
FRAME_FN = {"tl": "net_addr_truncate_preflen", "ps": "sa_port_set", "as": "sa_addr_set", "si": "sa_init", "cp": "sa_copy"}

def frame_line(c):
    i = c["in"]; s = i["s"]; k = i["k"]
    line = "ss %s %s %s %d %s %s %d" % (k, s["fam"], hexs(groups_bytes(s["addr"])), s["port"], hexs(bytes(s["flow"])),
                                        hexs(bytes(s["scope"])), s["pad"])
    if k == "tl": line += " %d" % i["l"]
    elif k == "ps": line += " %d" % i["p"]
    elif k == "as": line += " %s" % hexs(groups_bytes(i["a"]))
    elif k == "cp": line += " %d" % i["dpad"]
    return line

def parse_layout(a):
    if isinstance(a, dict): raise common.Infra("sockaddr driver died on the layout query: %s" % a["raw"][-500:])
    _, f = kv(a)
    lay = {"ss": int(f["ss"])}
    for fam in "46":
        lay[fam] = {"af": unhex(f["af" + fam]), "size": int(f["size" + fam]), "fields": {}}
        for name in ("fam", "port", "flow", "addr", "scope"):
            if name + fam in f:
                off, sz = f[name + fam].split(",")
                lay[fam]["fields"][name] = (int(off), int(sz))
    return lay

def render_fields(lay, rec):
    """the bytes the record puts into each field of its family's sockaddr (layout reported by the driver)"""
    fam = rec["fam"]; L = lay[fam]
    out = {"fam": L["af"], "port": int(rec["port"]).to_bytes(2, "big"), "addr": groups_bytes(rec["addr"])}
    if fam == "6":
        out["flow"] = bytes(rec["flow"]); out["scope"] = bytes(rec["scope"])
    for name, b in out.items():
        if len(b) != L["fields"][name][1]: raise common.Infra("field %s%s: %d bytes rendered, %d in the structure" % (name, fam, len(b), L["fields"][name][1]))
    return out

FIELD_WORD = {"fam": "family", "port": "port", "flow": "flowinfo", "addr": "address", "scope": "scope-id"}

def frame_handle(ctx, stats, lay):
    def region(fam, off):
        L = lay[fam]
        for name, (o, n) in L["fields"].items():
            if o <= off < o + n: return name
        return "padding" if off < L["size"] else "tail"
    def h(line, c, a):
        i = c["in"]; e = c["expect"]; k = i["k"]; s = i["s"]; t = e["after"]; fam = s["fam"]
        fn = FRAME_FN[k]; famn = FAMNAME[fam]
        ctx.add(evaluations=1)
        rp = {"case": line, "spec": c}
        if isinstance(a, dict):
            ctx.fail("%s:%s:%s" % (fn, famn, crash_kind(a)), a["raw"], rp); return
        _, f = kv(a)
        if "pre" not in f: raise common.Infra("sockaddr driver refused the case %r: %s" % (line, a))
        pre = unhex(f["pre"]); post = unhex(f["post"]); L = lay[fam]
        stats["frame_" + k] += 1
        if int(f["rc"]) != 0:
            ctx.fail("%s:%s:fails" % (fn, famn), "%s -> rc=%s" % (line, f["rc"]), rp); return
        # what the image must be after the call: the image before (tl/ps/as: the address itself; si/cp: the pattern
        # the destination held) with the fields of the reference's `after` record stored over it
        exp = bytearray(pre)
        if k in ("tl", "ps", "as"):     # the driver rendered the `before` record: its image must say the same
            for name, b in render_fields(lay, s).items():
                o, n = L["fields"][name]
                if pre[o:o + n] != b: raise common.Infra("driver image of %r disagrees with the record in field %s" % (line, name))
        if k == "cp":
            src = unhex(f["src"])
            for name, b in render_fields(lay, s).items():
                o, n = L["fields"][name]
                if src[o:o + n] != b: raise common.Infra("driver source image of %r disagrees with the record in field %s" % (line, name))
            exp[:L["size"]] = src[:L["size"]]       # the family's whole sockaddr travels, padding included
        if e["zeroed"]:
            exp[:L["size"]] = bytes(L["size"])
        for name, b in render_fields(lay, t).items():
            o, n = L["fields"][name]
            exp[o:o + n] = b
        free = set()
        if not e["addrspec"]:
            o, n = L["fields"]["addr"]; free = set(range(o, o + n))
        if not e["tailspec"]:           # bytes of the storage behind the family's sockaddr: not specified for sa_init / sa_copy
            free |= set(range(L["size"], lay["ss"]))
        diff = [o for o in range(lay["ss"]) if o not in free and exp[o] != post[o]]
        if not diff:
            stats["frame_ok"] += 1; return
        regs = []
        for o in diff:
            r = region(fam, o)
            if r not in regs: regs.append(r)
        for r in regs:
            if r == "addr": key = "%s:%s:wrong-result" % (fn, famn)
            elif r in FIELD_WORD: key = "%s:%s:%s-changed" % (fn, famn, FIELD_WORD[r])
            else: key = "%s:%s:%s-bytes-changed" % (fn, famn, r)
            ctx.fail(key, "%s\nbytes at offsets %s of the sockaddr_storage image differ from the reference\n  before  : %s\n  expected: %s\n  got     : %s"
                     % (line, diff[:12], pre[:32].hex(" "), bytes(exp[:32]).hex(" "), post[:32].hex(" ")), rp)
    return h

# ---------------------------------------------------------------- the check
def run(ctx):
    real = ctx
    ctx = Agg(real)          # handlers report through the aggregator
    try:
        run_inner(real, ctx)
    finally:
        ctx.flush()

def run_inner(real, agg):
    ctx = real
    ctx.level = "exploration"
    d = common.scratch()
    quick = ctx.quick
    # --- TLC: corpus + algebra on the reference (<= 4 single-worker runs in parallel; PrintT needs workers=1)
    g6 = "{0, 1, 65535}" if quick else "{0, 1, 4095, 65535}"
    g6parts = ["{0}", "{1}", "{65535}"] if quick else ["{0}", "{1}", "{4095}", "{65535}"]
    paths = "{1, 2, 50, 106, 107}" if quick else "{1, 2, 3, 7, 50, 100, 105, 106, 107}"
    seed = ctx.seed % 65536
    jobs = [("GenSockAddr", gen_cfg("GenSockAddr_p4.cfg", oct_=OCT, ports=PORTS, pathlens=paths, seed=seed, nrand=300 if quick else 4000),
             "GenSockAddr/v4 boundary octets^4 + boundary ports + unix + seeded random")]
    for n, part in enumerate(g6parts):
        jobs.append(("GenSockAddr", gen_cfg("GenSockAddr_p6%d.cfg" % n, g6=g6, g6first=part), "GenSockAddr/v6 first group %s of %s^8" % (part, g6)))
    if not quick:     # every port 0..65535 on one address per family, in 4 slices; more seeded random addresses
        for n in range(4):
            jobs.append(("GenSockAddr", gen_cfg("GenSockAddr_ps%d.cfg" % n, portlo=n * 16384, porthi=n * 16384 + 16383,
                                                seed=seed + 1 + n, nrand=4000),
                         "GenSockAddr/all ports %d..%d + seeded random" % (n * 16384, n * 16384 + 16383)))
    jobs.append(("GenSockAddrNeg", "GenSockAddrNeg.cfg" if quick else "GenSockAddrNeg_thorough.cfg", "GenSockAddrNeg"))
    jobs.append(("GenSockAddrPrefix", "GenSockAddrPrefix.cfg" if quick else "GenSockAddrPrefix_thorough.cfg", "GenSockAddrPrefix"))
    jobs.append(("GenSockAddrFrame", "GenSockAddrFrame.cfg" if quick else "GenSockAddrFrame_thorough.cfg", "GenSockAddrFrame"))
    builds = [("clang", "-O1", "asan", [])]
    if not quick:
        builds += [("gcc", "-O2", "asan", []), ("gcc", "-O2", None, ["-DDRV_GUARD"])]
    exes = []
    with ThreadPoolExecutor(max_workers=4) as ex:
        futs = [ex.submit(run_tlc, ctx, m, cfg, label) for (m, cfg, label) in jobs]
        for n, (cc_, opt, san, defs) in enumerate(builds):    # compile while TLC runs
            exes.append((("%s%s-%s" % (cc_, opt, san or "guardpage")),
                         common.cc(SRC, "%s/sockaddr_%d" % (d, n), compiler=cc_, opt=opt, san=san, defs=defs, hooks=False)))
        results = [f.result() for f in futs]
    fmt_cases = []; neg_cases = []; pre_cases = []; frm_cases = []
    for (m, cfg, label), (r, cases) in zip(jobs, results):
        ctx.tlc_stats(r, label + "/" + cfg)
        ctx.log("TLC %s: %d distinct cases, %.1fs" % (label, len(cases), r.wall))
        if m == "GenSockAddr": fmt_cases += cases
        elif m == "GenSockAddrNeg": neg_cases += cases
        elif m == "GenSockAddrFrame": frm_cases += cases
        else: pre_cases += cases
    # vacuity: every generator action contributed cases (coverage mode is ~15x slower on these recursive
    # definitions, so the per-action counts are taken from the emitted corpus instead)
    byact = collections.Counter()
    for c in fmt_cases:
        byact["fmt:" + c["fam"] + (":port" if c["port"] else "")] += 1
    for c in pre_cases: byact["prefix:" + c["in"]["k"] + ":" + c["expect"]["v"]] += 1
    for c in neg_cases: byact["parse:" + c["fn"] + ":" + c["r"]["v"]] += 1
    for c in frm_cases:
        i = c["in"]; full = i["k"] == "tl" and i["l"] == (32 if i["s"]["fam"] == "4" else 128)
        byact["frame:" + i["k"] + ":" + i["s"]["fam"] + (":full-length" if full else "") + (":nonzero-frame" if i["s"]["pad"] else "")] += 1
    wanted = ["fmt:4", "fmt:6", "fmt:u", "fmt:4:port", "fmt:6:port", "prefix:l2m:ok", "prefix:l2m:reject", "prefix:m2l:ok",
              "prefix:tl:ok", "prefix:tm:ok", "prefix:in:ok", "prefix:pn:ok", "prefix:pn:reject"] + \
             ["parse:%s:%s" % (f, v) for f in ("pa", "pp", "pn") for v in ("ok", "reject", "unspec")] + \
             ["frame:%s:%s:nonzero-frame" % (k, f) for k in ("tl", "ps", "as", "si", "cp") for f in "46"] + \
             ["frame:tl:%s:full-length:nonzero-frame" % f for f in "46"]
    missing = [w for w in wanted if not byact[w]]
    if missing: raise common.Infra("vacuous corpus: no cases for %s" % missing)
    ctx.cov["cases_by_generator_action"] = dict(byact)

    # --- conformance of the real functions
    first = True
    for bname, exe in exes:
        run_ = Runner(agg, exe)
        fst = collections.Counter(); fst["texts"] = set()
        pst = collections.Counter(); pst["texts"] = set()
        xst = collections.Counter()
        cases = fmt_cases
        if not first:      # extra builds: the UNIX paths and a seeded 1/8 sample of everything else
            import random
            rnd = random.Random(ctx.seed)
            cases = [c for c in fmt_cases if c["fam"] == "u" or rnd.random() < 0.125]
        fh = fmt_handle(agg, fst)
        run_.run(fmt_items(cases, True), fh)
        run_.run(fmt_items(cases, False), fh, chunk=50000)
        # the expected texts go back through the real parsers (the reference's round-trip invariants, checked by
        # TLC above, say what they must give), plus a real-code round trip where the text is Unspecified
        pitems = []
        for c in cases:
            fam = c["fam"]
            if not c["decided"]:
                pitems.append(("rt %s %s %d" % (fam, hexs(addr_bytes(fam, c["a"])), c["port"]), None, ("rt", c))); continue
            ra = {"v": "ok", "fam": fam, "a": c["a"], "port": 0, "len": 0, "why": ""}
            rp = dict(ra, port=c["port"])
            pitems.append(("pa %s" % hexs(bytes(c["ta"])), None, ("pa", bytes(c["ta"]), ra)))
            pitems.append(("pp %s" % hexs(bytes(c["tp"])), None, ("pp", bytes(c["tp"]), rp)))
            if fam == "6" and c["port"] == 0:
                pitems.append(("pa %s" % hexs(bytes(c["tp"])), None, ("pa", bytes(c["tp"]), ra)))
        ph = parse_handle(agg, pst)
        def h2(line, meta, a):
            if meta[0] != "rt": return ph(line, meta, a)
            agg.add(evaluations=1)
            c = meta[1]
            if isinstance(a, dict):
                agg.fail("roundtrip:%s:%s" % (FAMNAME[c["fam"]], crash_kind(a)), a["raw"], {"case": line}); return
            _, f = kv(a)
            if f["a"] != "1": agg.fail("sa_addr_to_str/sa_addr_from_str:%s:roundtrip-differs" % FAMNAME[c["fam"]], "%s -> %s" % (line, a), {"case": line})
            if f["p"] != "1":
                key = "sa_addr_port_to_str:inet6:drops-char-before-bracket" if c["fam"] == "6" else "sa_addr_port_to_str/from_str:inet:roundtrip-differs"
                agg.fail(key, "real-code round trip (text Unspecified by the reference) %s -> %s" % (line, a), {"case": line})
            xst["roundtrip_only"] += 1
        run_.run(pitems, h2)
        # parser negatives / documented spellings decided by the reference
        seen = set(); nitems = []
        for c in neg_cases:
            t = bytes(c["t"])
            if (c["fn"], t) in seen: continue
            seen.add((c["fn"], t))
            nitems.append(("%s %s" % (c["fn"], hexs(t)), None, (c["fn"], t, c["r"])))
        run_.run(nitems, ph)
        run_.run(prefix_items(pre_cases), prefix_handle(agg, xst, ph))
        # in-place operations compared as the whole sockaddr_storage image
        lay = parse_layout(common.batch_run(exe, ["lay"], timeout=60, env=ASAN_ENV)[0])
        run_.run([(frame_line(c), None, c) for c in frm_cases], frame_handle(agg, xst, lay))
        ctx.add(distinct_nontrivial=len(fst["texts"]) + len(pst["texts"]) + sum(xst[k] for k in ("l2m", "m2l", "tl", "tm", "in")) + xst["frame_ok"])
        ctx.cov.setdefault("builds", []).append({
            "build": bname, "format_calls_ok_exact_text": fst["ok"], "format_calls_too_small_buffer": fst["toosmall"],
            "format_calls_grey_zone_refused": fst["grey_fail"], "format_calls_text_unspecified": fst["undecided"],
            "distinct_texts_formatted": len(fst["texts"]), "parse_ok": pst["ok"], "parse_reject": pst["reject"],
            "parse_unspecified_memory_safety_only": pst["unspec"], "roundtrip_only": xst["roundtrip_only"],
            "prefix": {k: xst[k] for k in ("l2m", "m2l", "tl", "tm", "in")},
            "whole_image": {k: xst["frame_" + k] for k in ("tl", "ps", "as", "si", "cp", "ok")},
            "cases_skipped_after_repeated_crash_of_same_op_family_capacity": run_.skipped,
            "crash_combinations": {"%s/%s/cap=%s" % k: v for k, v in run_.crashes.items() if v}})
        ctx.log("build %s: fmt ok=%d toosmall=%d grey=%d undecided=%d; parse ok=%d reject=%d unspec=%d; prefix=%d; skipped=%d"
                % (bname, fst["ok"], fst["toosmall"], fst["grey_fail"], fst["undecided"], pst["ok"], pst["reject"], pst["unspec"],
                   sum(xst[k] for k in ("l2m", "m2l", "tl", "tm", "in")), run_.skipped))
        first = False
    smp = [c for c in fmt_cases if c["fam"] == "6" and c["port"]][:2] + [c for c in fmt_cases if c["fam"] == "4" and c["port"]][:1]
    ctx.add(samples=[{"op": "sa_addr_port_to_str", "fam": c["fam"], "addr": c["a"], "port": c["port"],
                      "expect": bytes(c["tp"]).decode(), "must_fail_below": c["needp"], "must_succeed_from": c["surep"]} for c in smp])
    ctx.add(samples=[{"op": FN_PARSE[c["fn"]], "text": bytes(c["t"]).decode("latin1"), "expect": c["r"]["v"], "why": c["r"]["why"]}
                     for c in neg_cases if c["r"]["v"] == "reject"][:3])
    ctx.cov["rule"] = ("cases are the reachable states of GenSockAddr (IPv4 boundary octets^4, IPv6 groups^8 = every zero-run "
                       "shape, representative addresses x boundary ports, seeded pseudo-random addresses with random ports, "
                       "thorough: every port 0..65535 on one address per family, UNIX paths up to sun_path), each formatted "
                       "into EVERY capacity 0..sure+1; GenSockAddrNeg (every single-character edit of valid texts, long texts); "
                       "GenSockAddrPrefix (all prefix lengths incl. out of range, all masks, truncation, membership); "
                       "GenSockAddrFrame (net_addr_truncate_preflen at every length 0..max+2, sa_port_set, sa_addr_set, sa_init, "
                       "sa_copy on addresses with non-zero port / flowinfo / scope id / padding patterns, compared as the whole "
                       "128-byte sockaddr_storage image: only the field the reference changes may differ). "
                       "distinct_nontrivial = distinct (function, exact text) pairs produced / decided by the parsers + prefix cases; "
                       "a capacity sweep of one address counts once.")
    ctx.assumptions += ["TLA+ reference modules under specs/net are the oracle (dotted quad, RFC 5952, RFC 4291 2.2 forms 1-2)",
                        "texts glibc prints with an embedded dotted quad (::a.b.c.d, ::ffff:a.b.c.d), inet_pton leniencies, mixed "
                        "bracket/blank wrappers and unbracketed IPv6 given to the port parser are Unspecified: memory safety and "
                        "the real-code round trip only",
                        "a capacity between need (text+NUL) and sure (the code's documented reservation: 5 digits + ':' + NUL, one "
                        "spare byte for inet_ntop) may succeed or fail; below need it must fail, from sure on it must succeed",
                        "memory accesses are observed by ASan/UBSan on exact-size heap blocks (thorough: also guard pages, gcc -O2)"]
