"""C04 - MD5, SHA-1, SHA-224/256/384/512 and GOST R 34.11-2012 (256/512) return the standard digest for every message,
chunking, source alignment and build; one-shot, hex-string and streaming entry points agree; the context is zero after final.

(i)  TLC model-checks the streaming state machine specs/crypto/HashStream.tla exhaustively at abstract scale (B=4, L=1,
     all messages 0..3B+1 over two symbols, all partitions into <=4 update calls incl. empty ones; MD big/little endian
     and the GOST padding kind): carry-over invariant, final = Blocks(Pad(msg)), chunking independence, context empty.
(ii) deterministic boundary-content messages (all-0x00 / all-0xff / alternating at 1-3 blocks + tail, Streebog checksum
     carry chains, bit-length byte boundaries) plus: TLC enumerates the abstract chunking shapes; they are scaled to the real block sizes (cut positions 4q+r ->
     q*B+rho(r), rho hitting 55/56/63 resp. 111/112/127), rendered with seeded random content and source alignments
     0..63 and run through harness/hash_drv.c in every build variant (SIMD disabled as the suite, SSE4.1, AVX, AVX2,
     SHA-NI, small tables x gcc/clang x -O0/-O2/-O3 in the thorough tier).
(iii) TLC validates every recorded run (specs/crypto/TraceHash.tla): count/buffer after each update against the stream
     spec at the real block size, and the digests of all three entry points against the TLA+ references
     Md5/Sha1/Sha256/Sha512/Streebog (themselves validated inside TLC by the RFC 1321 / FIPS 180 / RFC 6986 vectors).
(iv) decomposition for what no message that can be written down reaches - the upper bytes of the length field / byte
     counters (>= 2^29, 2^32, 2^61, 2^64 ... bytes), Streebog's 512-bit N and Sigma: specs/crypto/HashResume.tla states
     every hash as a function of the STREAM STATE (chaining value, buffered bytes, byte total as 16-bit limbs) next to the
     whole-message definitions; TLC proves the two agree (padding identity for every length 0..2B+1 as module ASSUMEs, digest
     identity HrResumeAgrees on cuts of short messages: "ident" records in every run, MCHashResume exhaustively over the cut
     kinds); the driver PRIMES a real context after *_init (chaining words, count / count_hi / N / Sigma, buffered bytes),
     calls update(data) + final in every build, and TLC computes the expected digest from the same state (TraceHash "resume"
     records).  Totals lie just below / at / above every boundary of each family's length encoding, final tails 0/1/55/56/63
     (111/112/119/127), shapes: final straight from the primed buffer, fill+flush, fill+bulk+tail."""
import random
from concurrent.futures import ThreadPoolExecutor
from rig import common, hashrig
from rig.hashrig import ALGS, COST_MS

def model_check(ctx):
    runs = [("MCHashStream.cfg", "MD/big-endian B=4 L=1 len<=13 calls<=4")]
    if ctx.quick:
        runs += [("MCHashStreamGostQ.cfg", "GOST padding len<=9 calls<=4"), ("MCHashStreamLEQ.cfg", "MD/little-endian len<=9 calls<=4")]
    else:
        runs += [("MCHashStreamGost.cfg", "GOST padding len<=13 calls<=4"), ("MCHashStreamLE.cfg", "MD/little-endian len<=13 calls<=4")]
    for cfg, label in runs:
        r = common.tlc("MCHashStream", cfg=cfg, workers=4, coverage=True, timeout=1500)
        ctx.tlc_stats(r, "MCHashStream/" + label)
        if r.rc != 0:
            raise common.Infra("stream specification violates its own invariant (spec bug, not a code verdict): %s\n%s" % (r.violation, r.out[-3000:]))
        for act in ("Update", "Final"):
            if r.coverage.get(act, (0, 0))[0] == 0:
                raise common.Infra("vacuous model: action %s never taken in %s" % (act, cfg))
    # vacuity witnesses: the interesting situations must be reachable (negated invariants must be violated)
    for cfg in ("MCHashStreamReach1.cfg", "MCHashStreamReach2.cfg"):
        r = common.tlc("MCHashStream", cfg=cfg, workers=1, timeout=600)
        if r.rc != 12:
            raise common.Infra("vacuity witness %s not reachable (rc=%s)" % (cfg, r.rc))
        ctx.add(reachability_witnesses=1)

def scenarios(ctx, shapes, rnd):
    """seeded sample sized by the TLC evaluation budget per family"""
    budget_ms = (30000 if ctx.quick else 600000)          # CPU time of TLC evaluation per family (4 workers share it)
    scen = []; blocks = {}; detblocks = {}
    fam_algs = {}
    for a, (B, L, fam) in ALGS.items(): fam_algs.setdefault(fam, []).append(a)
    align_cycle = {a: 0 for a in ALGS}
    for fam, algs in fam_algs.items():
        cap = budget_ms // COST_MS[fam]
        used = 0
        B, L, _ = ALGS[algs[0]]
        def add(alg, msg, chunks, align):
            nonlocal used
            scen.append({"kind": "hash", "alg": alg, "align": align, "msg": msg, "chunks": chunks, "key": None})
            used += hashrig.est_blocks(alg, len(msg))
        # boundary lengths through a single update and through byte-ish splits
        bl = [0, 1, B - L - 1, B - L, B - 1, B, B + 1, 2 * B - L - 1, 2 * B - L, 2 * B - 1, 2 * B, 2 * B + 1]
        if ctx.quick: bl = rnd.sample(bl, 5) + [0]
        for n in bl:
            alg = algs[len(scen) % len(algs)]
            msg = hashrig.rbytes(rnd, n)
            cut = rnd.randint(0, n)
            add(alg, msg, [cut, 0, n - cut] if n else [0], rnd.randint(0, 63))
        # DETERMINISTIC boundary-content messages (both tiers, outside the sampling budget): carry chains that random
        # content never produces - through the 512-bit checksum Sigma of GOST R 34.11-2012 (every 64-bit word all ones
        # with a carry arriving, addend all ones / zero / 0x80..), through word additions of the MD-style compression
        # functions (all-0x00, all-0xff, alternating) and through the byte boundaries of the bit-length field
        # (31/32/33 bytes = 0xf8/0x100/0x108 bits).  Expectations come from the TLA+ reference like everything else.
        det = 0
        def add_det(alg, msg):
            nonlocal det
            n = len(msg); cut = rnd.randint(0, n)
            scen.append({"kind": "hash", "alg": alg, "align": rnd.randint(0, 63), "msg": msg,
                         "chunks": [cut, n - cut] if det % 2 else [n], "key": None})
            det += hashrig.est_blocks(alg, n)
        ff, zz = b"\xff", b"\x00"
        for alg in algs:                                     # every variant: two all-ones blocks and a tail
            add_det(alg, ff * (2 * B + 5))
        fills = [zz * (B + 3), ff * (3 * B), (b"\xaa\x55" * B)[:2 * B + (B - L - 1)], zz * (2 * B) + ff * 7,
                 ff * (B - L - 1), (b"\x55\xaa" * B)[:B + 1], zz * 31, ff * 32, (b"\xaa\x55" * 17)[:33]]
        for i, m in enumerate(fills):
            add_det(algs[i % len(algs)], m)
        if fam == "gost3411-2012":
            w1 = zz * 7 + b"\x80"                            # the 64-bit word 0x8000000000000000, little endian
            special = [ff * 64 + b"\x01" + zz * 63 + b"abc",                      # Sigma = 2^512-1, then +1: carry through all 8 words
                       w1 + ff * 56 + w1 + zz * 56,                               # 0x80..+0x80.. = carry into all-ones words, addend 0
                       w1 + ff * 8 + zz * 48 + w1 + ff * 8 + zz * 48 + w1,        # carry into all-ones word with all-ones addend
                       ff * 64 + ff * 64 + ff * 64 + ff * 63,                     # three full all-ones blocks + an all-ones tail
                       zz * 8 + ff * 56 + zz * 8 + b"\x01" + zz * 55 + ff * 9]    # carry born in word 1, runs to the top
            for i, m in enumerate(special):
                add_det(algs[i % 2], m); add_det(algs[(i + 1) % 2], m)
        if not ctx.quick:                                    # bit-length field carries further up: 0xFFF8 -> 0x10000 bits
            for n in (8191, 8192):
                add_det(algs[n % len(algs)], ff * n)
        detblocks[fam] = det
        # long multi-block messages: bulk path on unaligned memory
        for n in ([7 * B + 3] if ctx.quick else [7 * B + 3, 16 * B, 33 * B + 17, 2000, 4099]):
            alg = algs[len(scen) % len(algs)]
            msg = hashrig.rbytes(rnd, n)
            k = rnd.randint(1, B - 1)
            add(alg, msg, [k, n - k - 1, 1], 1 + rnd.randint(0, 62))
        # TLC-generated chunking shapes scaled to the real block size, all alignments in turn
        order = list(range(len(shapes))); rnd.shuffle(order)
        for si in order:
            if used >= cap: break
            sh = shapes[si]
            if sum(sh) == 0 and rnd.random() < 0.8: continue
            alg = algs[len(scen) % len(algs)]
            chunks = hashrig.scale_shape(sh, B, L, rnd)
            msg = hashrig.rbytes(rnd, sum(chunks))
            add(alg, msg, chunks, align_cycle[alg] % 64); align_cycle[alg] += 1
        blocks[fam] = used + det
    ctx.add(deterministic_boundary_content_blocks=detblocks)
    return scen, blocks

# ------------------------------------------------------------------ (iv) resumed streams
def counter_regions(alg):
    """(label, base, needs_block) per family: byte totals (multiples of the block size) around every boundary of the
    family's length encoding; needs_block: the boundary is crossed by the counter update of a WHOLE block (carry into the
    next machine word), so the scenario must compress at least one block after priming.  Labels go into the failure key."""
    B, _, fam = ALGS[alg]
    if fam == "gost3411-2012":          # base = N / 8 (N counts bits modulo 2^512, 512 per block)
        return [("N=2^32", 2**29, False),
                ("N-carries-into-word1", 2**61 - 64, True),                       # N = 2^64 - 512
                ("N-carry-chain-2-words", 2**125 - 64, True),                     # N = 2^128 - 512
                ("N-carry-chain-7-words", 2**509 - 64, True),                     # N = 2^512 - 512, then wraps to 0 (RFC 6986 8.2: modulo 2^512)
                ("N-all-octets-distinct", (int.from_bytes(bytes(range(1, 65)), "little") >> 9 << 9) // 8, False)]
    r = [("total<2^29", 2**29 - B, False), ("total>=2^29", 2**29, False), ("total-crosses-2^32", 2**32 - B, True),
         ("total>=2^35", 2**35 + 5 * B, False),
         ("bit-count-octets-distinct", (0x0123456789abcdef >> 3) & ~(B - 1), False),
         ("total<2^61", 2**61 - 3 * B, False)]
    if fam == "md5":                     # RFC 1321 3.2: only the low-order 64 bits of the bit count are used
        r += [("total>=2^61(bit-count-wraps)", 2**61 + 2**40, False), ("total-crosses-2^64", 2**64 - B, True)]
    if fam == "sha2-512":                # 128-bit bit count: count_hi:count
        r += [("total>=2^61", 2**61, False), ("total-crosses-2^64", 2**64 - B, True), ("total>=2^64", 2**64 + 2**33, False),
              ("bit-count-16-octets-distinct", (0x0123456789abcdeffedcba9876543210 >> 3) & ~(B - 1), False),
              ("total<2^125", 2**125 - 3 * B, False)]
    return r

def resume_scenarios(ctx, rnd):
    """primed-context scenarios + identity instances; every sibling pair (sha224/256, sha384/512, gost256/512) shares one
    final function, so the quick tier deals the regions out between the siblings (seeded), the thorough tier runs all"""
    scen = []; nblocks = {}
    fam_algs = {}
    for a, (B, L, fam) in ALGS.items(): fam_algs.setdefault(fam, []).append(a)
    HLEN = {"md5": 16, "sha1": 20, "sha2-256": 32, "sha2-512": 64, "gost3411-2012": 64}
    ones512 = 2**512 - 1
    for fam, algs in fam_algs.items():
        B, L, _ = ALGS[algs[0]]
        tails = [0, 1, B - L - 1, B - L, B - 1] + ([119] if B == 128 else [])
        regions = counter_regions(algs[0])
        used = 0
        def add(alg, label, base, blen, dlen, sig):
            nonlocal used
            total0 = base + blen
            s = {"kind": "resume", "alg": alg, "align": rnd.randint(0, 63), "h": hashrig.rbytes(rnd, HLEN[fam]),
                 "cnt": (8 * base) % 2**512 if fam == "gost3411-2012" else total0, "sig": sig,
                 "buf": hashrig.rbytes(rnd, blen), "data": hashrig.rbytes(rnd, dlen), "chunks": [], "msg": b"", "key": None,
                 "label": label}
            scen.append(s)
            used += (blen + dlen) // B + 2 + (2 if fam == "gost3411-2012" else 0)
        def shapes(r, needs_block):
            """(buffered, data) lengths that leave r bytes for final"""
            sh = [(B - 1, 1 + r), (3, 2 * B - 3 + r)]                   # fill+flush ; fill+bulk+tail
            if not needs_block: sh = [(r, 0), (0, r)] + sh               # final straight from the primed buffer ; one small update
            return sh
        k = ctx.seed
        for ri, (label, base, needs_block) in enumerate(regions):
            sigs = [None]
            if fam == "gost3411-2012":
                sigs = [rnd.getrandbits(512), ones512, ones512 - (2**64 - 1) * 2**448 - rnd.getrandbits(60)]   # random / all ones / seven all-ones words
            if ctx.quick:
                alg = algs[(ri + k) % len(algs)]
                r = tails[(ri + k) % len(tails)]
                sh = shapes(r, needs_block); blen, dlen = sh[(ri // 2 + k) % len(sh)]
                add(alg, label, base, blen, dlen, sigs[(ri + k) % len(sigs)])
            else:
                for alg in algs:
                    for ti, r in enumerate(tails):
                        for si, (blen, dlen) in enumerate(shapes(r, needs_block)):
                            if si >= 2 and (ti + si + ri) % 2: continue          # the two block-compressing shapes alternate
                            add(alg, label, base, blen, dlen, sigs[(ri + ti + si) % len(sigs)])
        # instances of the identity between the stream-state and the whole-message formulation (checked by TLC)
        for alg in algs:
            for (j, b, d) in ([(1, B - L - 1, 1), (1, B - 1, 1)] if ctx.quick else
                              [(0, 0, 0), (1, B - L - 1, 1), (1, B - 1, 1), (2, 5, B + 9), (1, B - L, 0)]):
                m = hashrig.rbytes(rnd, j * B + b + d)
                scen.append({"kind": "ident", "alg": alg, "m": m, "j": j, "b": b, "chunks": [], "msg": b"", "key": None, "align": 0})
                used += 2 * ((j * B + b + d) // B + 2 + (3 if fam == "gost3411-2012" else 0))
        nblocks[fam] = used
    return scen, nblocks

def model_check_resume(ctx):
    """thorough tier: the identity exhaustively over all cut kinds (the quick tier checks seeded instances inside TraceHash)"""
    r = common.tlc("MCHashResume", cfg="MCHashResume.cfg", workers=4, xss="256m", timeout=1500)
    ctx.tlc_stats(r, "MCHashResume/all cut kinds")
    if r.rc != 0 or r.distinct != 8 * 2 * 5 * 5:
        raise common.Infra("HashResume: stream-state formulation disagrees with the whole-message definitions (spec bug, not a code "
                           "verdict): %s\n%s" % (r.violation, r.out[-3000:]))

def run(ctx):
    ctx.level = "model_checking"
    rnd = random.Random(ctx.seed * 7919 + 4)
    with ThreadPoolExecutor(max_workers=1) as ex:
        fut = ex.submit(hashrig.build_all, ctx, hashrig.build_matrix(ctx))
        model_check(ctx)
        shapes = hashrig.tlc_shapes(ctx)
        builds = fut.result()
    if not ctx.quick: model_check_resume(ctx)
    scen, blocks = scenarios(ctx, shapes, rnd)
    rscen, rblocks = resume_scenarios(ctx, rnd)
    scen += rscen
    ctx.log("%d scenarios (%d resumed-stream, %d identity instances), estimated reference blocks per family: %s + resumed %s"
            % (len(scen), sum(s["kind"] == "resume" for s in scen), sum(s["kind"] == "ident" for s in scen), blocks, rblocks))
    paths = hashrig.run_scenarios(ctx, builds, scen, "hash", tlc_timeout=(600 if ctx.quick else 4000))
    nontriv = set((s["alg"], s["msg"], tuple(s["chunks"])) for s in scen if len(s["msg"]) > 0)
    nontriv |= set((s["alg"], s["h"], s["cnt"], s["buf"], s["data"]) for s in scen if s["kind"] == "resume")
    reg = {}
    for s in scen:
        if s["kind"] == "resume": reg.setdefault(ALGS[s["alg"]][2], set()).add(s["label"])
    ctx.add(distinct_nontrivial=len(nontriv), scenarios=len(scen), builds=[b for b, _ in builds],
            reference_blocks_evaluated_by_TLC=blocks, resumed_stream_blocks_evaluated_by_TLC=rblocks,
            resumed_stream_scenarios=sum(s["kind"] == "resume" for s in scen),
            identity_instances_checked_by_TLC=sum(s["kind"] == "ident" for s in scen),
            counter_regions_primed={f: sorted(v) for f, v in reg.items()},
            transform_paths_executed={"%s:%s" % k: v for k, v in sorted(paths.items())},
            alignments_used=sorted(set(s["align"] for s in scen)),
            samples=[{"alg": s["alg"], "len": len(s["msg"]), "chunks": s["chunks"], "align": s["align"]} for s in scen[:3]] +
                    [{"alg": s["alg"], "resumed_at": s["label"], "buffered": len(s["buf"]), "data": len(s["data"])} for s in rscen[:3]])
    ctx.cov["rule"] = ("scenario = (algorithm, message, chunking, source alignment) run in every build; non-trivial = non-empty message; "
                       "distinct by (algorithm, message bytes, chunk lengths). Stream model exhaustive at B=4/L=1; digests sampled "
                       "(TLC evaluates the TLA+ reference, budget-sized)")
    ctx.assumptions += ["TLA+ modules Md5/Sha1/Sha256/Sha512/Streebog are the oracle; each validates itself in TLC against the RFC 1321, "
                        "FIPS 180 and RFC 6986 example digests on every load",
                        "Streebog matrix A and constants C come from a frozen module generated once from the unchanged header and "
                        "validated by the RFC 6986 examples inside TLC",
                        "digest correctness is sampled (mode C), not exhaustive; messages longer than a few KiB are not evaluated; "
                        "positions deep inside a long stream are entered by priming the public context fields (hash, count, count_hi, "
                        "counter, sigma, buffer, buffer_usage) after *_init, with the invariant the update functions maintain "
                        "(buffered bytes = count mod block size; Streebog N a multiple of 512)",
                        "SHA-1/SHA-224/256 totals stay below 2^61 bytes and SHA-384/512 below 2^125 (FIPS 180-4 defines nothing beyond); "
                        "MD5 is also primed beyond 2^61 / 2^64 bytes (RFC 1321 uses the low-order 64 bits of the bit count)",
                        "a plain x86-64 build without -msse4.1 (only __SSE2__) does not compile sha1.h (_mm_extract_epi32); it is not in the property's build list"]
