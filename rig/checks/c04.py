"""C04 - MD5, SHA-1, SHA-224/256/384/512 and GOST R 34.11-2012 (256/512) return the standard digest for every message,
chunking, source alignment and build; one-shot, hex-string and streaming entry points agree; the context is zero after final.

(i)  TLC model-checks the streaming state machine specs/crypto/HashStream.tla exhaustively at abstract scale (B=4, L=1,
     all messages 0..3B+1 over two symbols, all partitions into <=4 update calls incl. empty ones; MD big/little endian
     and the GOST padding kind): carry-over invariant, final = Blocks(Pad(msg)), chunking independence, context empty.
(ii) deterministic boundary-content messages (all-0x00 / all-0xff / alternating at 1-3 blocks + tail, Streebog checksum
     carry chains, bit-length byte boundaries) plus: TLC enumerates the abstract chunking shapes; they are scaled to the real block sizes (cut positions 4q+r ->
     q*B+rho(r), rho hitting 55/56/63 resp. 111/112/127), rendered with seeded random content and source alignments
     0..63 and run through harness/hash_drv.c in every build variant (SIMD disabled as the suite, SSE4.1, AVX, AVX2,
     SHA-NI, small tables x gcc/clang x -O0/-O2/-O3 in the thorough tier).
(iii) TLC validates every recorded run (specs/crypto/TraceHash.tla): count/buffer after each update against the stream
     spec at the real block size, and the digests of all three entry points against the TLA+ references
     Md5/Sha1/Sha256/Sha512/Streebog (themselves validated inside TLC by the RFC 1321 / FIPS 180 / RFC 6986 vectors)."""
import random
from concurrent.futures import ThreadPoolExecutor
from rig import common, hashrig
from rig.hashrig import ALGS, COST_MS

def model_check(ctx):
    runs = [("MCHashStream.cfg", "MD/big-endian B=4 L=1 len<=13 calls<=4")]
    if ctx.quick:
        runs += [("MCHashStreamGostQ.cfg", "GOST padding len<=9 calls<=4"), ("MCHashStreamLEQ.cfg", "MD/little-endian len<=9 calls<=4")]
    else:
        runs += [("MCHashStreamGost.cfg", "GOST padding len<=13 calls<=4"), ("MCHashStreamLE.cfg", "MD/little-endian len<=13 calls<=4")]
    for cfg, label in runs:
        r = common.tlc("MCHashStream", cfg=cfg, workers=4, coverage=True, timeout=1500)
        ctx.tlc_stats(r, "MCHashStream/" + label)
        if r.rc != 0:
            raise common.Infra("stream specification violates its own invariant (spec bug, not a code verdict): %s\n%s" % (r.violation, r.out[-3000:]))
        for act in ("Update", "Final"):
            if r.coverage.get(act, (0, 0))[0] == 0:
                raise common.Infra("vacuous model: action %s never taken in %s" % (act, cfg))
    # vacuity witnesses: the interesting situations must be reachable (negated invariants must be violated)
    for cfg in ("MCHashStreamReach1.cfg", "MCHashStreamReach2.cfg"):
        r = common.tlc("MCHashStream", cfg=cfg, workers=1, timeout=600)
        if r.rc != 12:
            raise common.Infra("vacuity witness %s not reachable (rc=%s)" % (cfg, r.rc))
        ctx.add(reachability_witnesses=1)

def scenarios(ctx, shapes, rnd):
    """seeded sample sized by the TLC evaluation budget per family"""
    budget_ms = (30000 if ctx.quick else 600000)          # CPU time of TLC evaluation per family (4 workers share it)
    scen = []; blocks = {}; detblocks = {}
    fam_algs = {}
    for a, (B, L, fam) in ALGS.items(): fam_algs.setdefault(fam, []).append(a)
    align_cycle = {a: 0 for a in ALGS}
    for fam, algs in fam_algs.items():
        cap = budget_ms // COST_MS[fam]
        used = 0
        B, L, _ = ALGS[algs[0]]
        def add(alg, msg, chunks, align):
            nonlocal used
            scen.append({"kind": "hash", "alg": alg, "align": align, "msg": msg, "chunks": chunks, "key": None})
            used += hashrig.est_blocks(alg, len(msg))
        # boundary lengths through a single update and through byte-ish splits
        bl = [0, 1, B - L - 1, B - L, B - 1, B, B + 1, 2 * B - L - 1, 2 * B - L, 2 * B - 1, 2 * B, 2 * B + 1]
        if ctx.quick: bl = rnd.sample(bl, 5) + [0]
        for n in bl:
            alg = algs[len(scen) % len(algs)]
            msg = hashrig.rbytes(rnd, n)
            cut = rnd.randint(0, n)
            add(alg, msg, [cut, 0, n - cut] if n else [0], rnd.randint(0, 63))
        # DETERMINISTIC boundary-content messages (both tiers, outside the sampling budget): carry chains that random
        # content never produces - through the 512-bit checksum Sigma of GOST R 34.11-2012 (every 64-bit word all ones
        # with a carry arriving, addend all ones / zero / 0x80..), through word additions of the MD-style compression
        # functions (all-0x00, all-0xff, alternating) and through the byte boundaries of the bit-length field
        # (31/32/33 bytes = 0xf8/0x100/0x108 bits).  Expectations come from the TLA+ reference like everything else.
        det = 0
        def add_det(alg, msg):
            nonlocal det
            n = len(msg); cut = rnd.randint(0, n)
            scen.append({"kind": "hash", "alg": alg, "align": rnd.randint(0, 63), "msg": msg,
                         "chunks": [cut, n - cut] if det % 2 else [n], "key": None})
            det += hashrig.est_blocks(alg, n)
        ff, zz = b"\xff", b"\x00"
        for alg in algs:                                     # every variant: two all-ones blocks and a tail
            add_det(alg, ff * (2 * B + 5))
        fills = [zz * (B + 3), ff * (3 * B), (b"\xaa\x55" * B)[:2 * B + (B - L - 1)], zz * (2 * B) + ff * 7,
                 ff * (B - L - 1), (b"\x55\xaa" * B)[:B + 1], zz * 31, ff * 32, (b"\xaa\x55" * 17)[:33]]
        for i, m in enumerate(fills):
            add_det(algs[i % len(algs)], m)
        if fam == "gost3411-2012":
            w1 = zz * 7 + b"\x80"                            # the 64-bit word 0x8000000000000000, little endian
            special = [ff * 64 + b"\x01" + zz * 63 + b"abc",                      # Sigma = 2^512-1, then +1: carry through all 8 words
                       w1 + ff * 56 + w1 + zz * 56,                               # 0x80..+0x80.. = carry into all-ones words, addend 0
                       w1 + ff * 8 + zz * 48 + w1 + ff * 8 + zz * 48 + w1,        # carry into all-ones word with all-ones addend
                       ff * 64 + ff * 64 + ff * 64 + ff * 63,                     # three full all-ones blocks + an all-ones tail
                       zz * 8 + ff * 56 + zz * 8 + b"\x01" + zz * 55 + ff * 9]    # carry born in word 1, runs to the top
            for i, m in enumerate(special):
                add_det(algs[i % 2], m); add_det(algs[(i + 1) % 2], m)
        if not ctx.quick:                                    # bit-length field carries further up: 0xFFF8 -> 0x10000 bits
            for n in (8191, 8192):
                add_det(algs[n % len(algs)], ff * n)
        detblocks[fam] = det
        # long multi-block messages: bulk path on unaligned memory
        for n in ([7 * B + 3] if ctx.quick else [7 * B + 3, 16 * B, 33 * B + 17, 2000, 4099]):
            alg = algs[len(scen) % len(algs)]
            msg = hashrig.rbytes(rnd, n)
            k = rnd.randint(1, B - 1)
            add(alg, msg, [k, n - k - 1, 1], 1 + rnd.randint(0, 62))
        # TLC-generated chunking shapes scaled to the real block size, all alignments in turn
        order = list(range(len(shapes))); rnd.shuffle(order)
        for si in order:
            if used >= cap: break
            sh = shapes[si]
            if sum(sh) == 0 and rnd.random() < 0.8: continue
            alg = algs[len(scen) % len(algs)]
            chunks = hashrig.scale_shape(sh, B, L, rnd)
            msg = hashrig.rbytes(rnd, sum(chunks))
            add(alg, msg, chunks, align_cycle[alg] % 64); align_cycle[alg] += 1
        blocks[fam] = used + det
    ctx.add(deterministic_boundary_content_blocks=detblocks)
    return scen, blocks

def run(ctx):
    ctx.level = "model_checking"
    rnd = random.Random(ctx.seed * 7919 + 4)
    with ThreadPoolExecutor(max_workers=1) as ex:
        fut = ex.submit(hashrig.build_all, ctx, hashrig.build_matrix(ctx))
        model_check(ctx)
        shapes = hashrig.tlc_shapes(ctx)
        builds = fut.result()
    scen, blocks = scenarios(ctx, shapes, rnd)
    ctx.log("%d scenarios, estimated reference blocks per family: %s" % (len(scen), blocks))
    paths = hashrig.run_scenarios(ctx, builds, scen, "hash", tlc_timeout=(600 if ctx.quick else 4000))
    nontriv = set((s["alg"], s["msg"], tuple(s["chunks"])) for s in scen if len(s["msg"]) > 0)
    ctx.add(distinct_nontrivial=len(nontriv), scenarios=len(scen), builds=[b for b, _ in builds],
            reference_blocks_evaluated_by_TLC=blocks,
            transform_paths_executed={"%s:%s" % k: v for k, v in sorted(paths.items())},
            alignments_used=sorted(set(s["align"] for s in scen)),
            samples=[{"alg": s["alg"], "len": len(s["msg"]), "chunks": s["chunks"], "align": s["align"]} for s in scen[:3] + scen[-3:]])
    ctx.cov["rule"] = ("scenario = (algorithm, message, chunking, source alignment) run in every build; non-trivial = non-empty message; "
                       "distinct by (algorithm, message bytes, chunk lengths). Stream model exhaustive at B=4/L=1; digests sampled "
                       "(TLC evaluates the TLA+ reference, budget-sized)")
    ctx.assumptions += ["TLA+ modules Md5/Sha1/Sha256/Sha512/Streebog are the oracle; each validates itself in TLC against the RFC 1321, "
                        "FIPS 180 and RFC 6986 example digests on every load",
                        "Streebog matrix A and constants C come from a frozen module generated once from the unchanged header and "
                        "validated by the RFC 6986 examples inside TLC",
                        "digest correctness is sampled (mode C), not exhaustive; messages longer than a few KiB are not evaluated",
                        "a plain x86-64 build without -msse4.1 (only __SSE2__) does not compile sha1.h (_mm_extract_epi32); it is not in the property's build list"]
