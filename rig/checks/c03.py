"""C03 - ECDSA / GOST R 34.10 signatures: complete, sound and standard-conforming.

(B) synthetic curves of specs/ec/EcCurves.tla, loaded through the library's own ec_curve_str_t path.  TLC
    (specs/ec/EcdsaGen.tla over Ecdsa.tla) enumerates the corpus and computes every expectation:
      * digest corpus (octet strings shorter than / as long as / longer than the order; values < n, = n, > n) with the
        admissible integers e per algorithm and byte order;
      * sign rows  k |-> Sign(alg, d, e, k)  over EVERY secret of an 8-bit curve; TLC proves completeness
        (Verify and VerifyPriv accept every produced signature) on every row;
      * the exact accept set of Verify over the full grid (r, s) in (0..n+1)^2 for chosen (Q, e) and over a pair
        list (boundaries, all owner signatures, altered neighbours) for many (Q, e), Q ranging over the whole group,
        off-curve points and coordinates >= p; TLC proves accept set = image of Sign for valid keys.
    harness/ecdsa_drv.c (one binary per build configuration; byte entry points big- and little-endian and the bn_t
    level functions; exactly-sized heap blocks, one ASan build) must return exactly those rows and accept sets.
(C) the 32 built-in curves with both algorithm ids and both byte orders: key generation, signing, both verifiers,
    single-bit / boundary alterations; a handful of the tuples per run are recomputed by TLC with the same
    definitions over BigNat (specs/ec/EcdsaBig.tla), the rest is decided by the round-trip laws TLC proved in (B).
Python renders numbers to octets, runs processes and compares values; it computes no expectation."""
import os, random, time, json, threading
from concurrent.futures import ThreadPoolExecutor
from rig import common
from rig import ecdsa_rig as R
from rig.ecdsa_rig import TOY8, TOYBIG, hx, ihex, to_bytes

INV = ["CorpusShape", "Complete", "SignDefn", "SignFails", "Exact", "ListExact"]
APIS = ("be", "le", "bn")
MAX_PER_KEY = 3
SAMPLES = []
def sample(lines, k=2):
    if len(SAMPLES) < 40: SAMPLES.extend(l[:220] for l in lines[:k])

class Fails:
    def __init__(self, ctx):
        self.ctx = ctx; self.d = {}; self.lock = threading.Lock()
    def add(self, key, detail, replay):
        if R.SKIPPED in key:        # a line that was not run because the driver had died too often before it
            with self.lock: self.skipped = getattr(self, "skipped", 0) + 1
            return
        with self.lock:
            self.d.setdefault(key, []).append((detail, replay))
    def flush(self):
        if getattr(self, "skipped", 0): self.ctx.add(driver_lines_not_run_after_crash_cap=self.skipped)
        for key, lst in sorted(self.d.items()):
            detail = "%d occurrence(s); first:\n%s" % (len(lst), "\n---\n".join(x[0] for x in lst[:MAX_PER_KEY]))
            self.ctx.fail(key, detail, [x[1] for x in lst[:MAX_PER_KEY]])

def base_consts(curves, seed, **kw):
    c = dict(CurveNames=R.tset(curves, True), AlgSel='{"ecdsa", "gost"}', Kinds="{}", Seed=str(seed % 60000),
             SignEAllE="{}", SignEAllG="{}", SignDFew="{}", VgPairsE="{}", VgPairsG="{}", VlQ="{}", VlEE="{}", VlEG="{}")
    c.update(kw)
    return c

# ------------------------------------------------------------------ corpus access
class Corpus:
    """the `hmap` state of one curve"""
    def __init__(self, case):
        o = case["out"]; self.name = case["curve"]
        self.hashes = o["hashes"]; self.ints = o["ints"]; self.es = o["es"]; self.ks = o["ks"]
        self.rnds = [(v, ks) for v, ks in o["rnds"]]; self.dall = o["dall"]; self.qs = o["qs"]
        self.kidx = {k: i for i, k in enumerate(self.ks)}
        self.small = self.name in TOY8
    def hash_list(self, alg, api):
        """inputs that the API takes for the digest: (token, admissible e set, documented-library e, class, nbytes)"""
        if api == "bn":
            return [(ihex(r["H"]), [r["e"]], r["elib"], "agree" if r["e"] == r["elib"] else "reduction", 0) for r in self.ints if r["alg"] == alg]
        return [(hx(bytes(r["h"])), r["eset"], r["elib"], r["cls"], len(r["h"])) for r in self.hashes if r["alg"] == alg and r["order"] == api]

def pick_hashes(cp, alg, api, rng, per_class):
    """a spread over (length class, conversion class): per_class inputs of each; the choice only selects inputs"""
    hl = cp.hash_list(alg, api)
    groups = {}
    for h in hl:
        groups.setdefault((h[4], h[3]), []).append(h)
    out = []
    for g in sorted(groups):
        lst = groups[g][:]; rng.shuffle(lst)
        out += lst[:per_class]
    return out

# ------------------------------------------------------------------ comparisons
def parse_row(ans):
    """'ok a:b !-1 ...' -> list of (r, s) or None (= the call failed)"""
    toks = ans.split()
    if not toks or toks[0] != "ok": raise common.Infra("unexpected driver answer: " + ans[:200])
    out = []
    for t in toks[1:]:
        if t.startswith("!"): out.append(None)
        else:
            r, s = t.split(":"); out.append((int(r, 16), int(s, 16)))
    return out

def sign_row_matches(cp, lib, row, rvals):
    """every entry equals the reference for some admissible secret of that random value"""
    bad = []
    for i, (v, ks) in enumerate(rvals):
        exp = [tuple(row[cp.kidx[k]]) if row[cp.kidx[k]] else None for k in ks]
        if lib[i] not in exp: bad.append((v, lib[i], exp, ks))
    return bad

def sign_symptom(bad):
    v, got, exp, ks = bad[0]
    if got is not None and all(e is None for e in exp): return "signs-where-no-signature-exists"
    if got is None: return "fails-for-valid-input"
    return "wrong-signature"

def check_sign(ctx, F, cp, rows, jobs, b):
    """jobs: (alg, api, d, hashinfo).  One driver line per job."""
    lines = []; meta = []
    if cp.small:
        rv = cp.rnds; rspec = "all"
    else:
        rv = cp.rnds; rspec = ",".join(ihex(v) for v, _ in rv)
    for alg, api, d, h in jobs:
        lines.append("signrow %s %s %s %s %s %s" % (cp.name, alg[0], api, ihex(d), h[0], rspec)); meta.append((alg, api, d, h))
    sample(lines)
    res = R.run_lines(b, lines)
    n = 0
    for ln, (alg, api, d, h), a in zip(lines, meta, res):
        fn = "ecdsa_sign" if api == "bn" else "ecdsa_sign_" + api
        if isinstance(a, dict):
            k = a["crash"]; F.add("%s:%s:%s" % (fn, k[0], k[1]), "build %s\ncase %s\n%s" % (b.name, ln, a["raw"][-1500:]), {"case": ln, "build": b.name}); continue
        lib = parse_row(a); n += len(lib)
        if len(lib) != len(rv): raise common.Infra("row length %d != %d: %s" % (len(lib), len(rv), ln))
        tok, eset, elib, cls, _ = h
        cands = [(e, sign_row_matches(cp, lib, rows[(cp.name, alg, d, e)], rv)) for e in eset if (cp.name, alg, d, e) in rows]
        if not cands: raise common.Infra("no reference row for %s" % ln)
        if any(not bad for _, bad in cands): continue
        def only_zero(bad):       # the entries that differ are successful calls for random values that stand for the secret 0
            return bool(bad) and all(g is not None and 0 in k for _, g, _, k in bad)
        zero_key = "ecdsa_sign:signs-with-zero-secret"   # one defect: ecdsa_sign does not look at the status / infinity flag of k*G
        zero_txt = "%s (%s)\nbuild %s\ncase %s\na random block that stands for the secret 0 is signed: %s"
        zc = [bad for _, bad in cands if only_zero(bad)]
        if zc:
            F.add(zero_key, zero_txt % (fn, alg, b.name, ln, [x[:3] for x in zc[0][:3]]), {"case": ln, "build": b.name}); continue
        if elib not in eset and (cp.name, alg, d, elib) in rows:
            badl = sign_row_matches(cp, lib, rows[(cp.name, alg, d, elib)], rv)
            if not badl or only_zero(badl):
                F.add("ecdsa:hash-to-integer:%s" % cls,
                      "%s (%s)\nbuild %s\ncase %s\nthe signatures are those of e = %d (documented library conversion); the standard's e is %s" % (fn, alg, b.name, ln, elib, eset),
                      {"case": ln, "build": b.name})
                if badl: F.add(zero_key, zero_txt % (fn, alg, b.name, ln, [x[:3] for x in badl[:3]]), {"case": ln, "build": b.name})
                continue
        e, bad = min(cands, key=lambda c: len(c[1]))
        F.add("%s:%s:%s" % (fn, alg, sign_symptom(bad)), "%s (%s)\nbuild %s\ncase %s\ne = %d: %d of %d entries differ; first (random value, got, admissible signatures): %s" % (
              fn, alg, b.name, ln, e, len(bad), len(lib), [x[:3] for x in bad[:3]]), {"case": ln, "build": b.name})
    return n

def key_blocks(cp, q, api, form, rng):
    """render a candidate key for the byte APIs (input rendering only)"""
    Bn = 1 if cp.small else 2
    pt = q["pt"]
    if not pt: return "00", "-"
    X = to_bytes(pt[0], Bn, api); Y = to_bytes(pt[1], Bn, api)
    if form == "packed": return hx(b"\x04" + X + Y), "-"
    if form == "compressed": return hx(bytes([2 + (pt[1] & 1)]) + X), "-"
    if form == "separate": return hx(X), hx(Y)
    return hx(X + Y), "-"

def forms_for(cp, q):
    if not q["pt"]: return ["packed"]
    Bn = 1 if cp.small else 2
    fs = ["packed"]
    if q["d"]: fs.append("compressed")             # only a point of the curve has a compressed form
    if Bn > 1: fs += ["separate", "concat"]         # one-octet fields: these collide with the SEC 1 forms
    return fs

def verify_diff(F, fn, alg, b, ln, lib_acc, cand, cls, elib_used):
    extra = lib_acc - cand; missing = cand - lib_acc
    if elib_used:
        F.add("ecdsa:hash-to-integer:%s" % cls, "%s (%s)\nbuild %s\ncase %s\nthe accept set is that of the documented library conversion of the digest, not of the standard's e" % (fn, alg, b.name, ln), {"case": ln, "build": b.name})
    for (r, s) in sorted(extra)[:50]:
        # one missing range check each: r = 0 (both algorithms, both verifiers), s = 0 (GOST: no inverse of s is taken)
        key = "ecdsa_verify:accepts-r=0" if r == 0 else "ecdsa_verify:gost:accepts-s=0" if (s == 0 and alg == "gost") else "%s:%s:accepts-invalid-signature" % (fn, alg)
        F.add(key, "%s (%s)\nbuild %s\ncase %s\n(r, s) = (%d, %d) is accepted; the reference rejects it" % (fn, alg, b.name, ln, r, s), {"case": ln, "build": b.name, "r": r, "s": s})
    for (r, s) in sorted(missing)[:50]:
        F.add("%s:%s:rejects-valid-signature" % (fn, alg), "build %s\ncase %s\n(r, s) = (%d, %d) is rejected; the reference accepts it" % (b.name, ln, r, s), {"case": ln, "build": b.name, "r": r, "s": s})

def judge_accept(F, fn, alg, b, ln, lib_acc, accs, h, key_valid, validated, neutral=False):
    """accs: e -> reference accept set (set of pairs) for this (curve, alg, key)"""
    tok, eset, elib, cls, _ = h
    if not key_valid:
        if not validated: return           # the caller vouches for the key when validation is off: unspecified
        if lib_acc:
            key = "ecdsa_verify:accepts-neutral-element-as-public-key" if neutral else "%s:%s:accepts-invalid-public-key" % (fn, alg)
            F.add(key, "%s (%s)\nbuild %s\ncase %s\naccepted pairs: %s" % (fn, alg, b.name, ln, sorted(lib_acc)[:6]), {"case": ln, "build": b.name})
        return
    cands = [(e, accs[e]) for e in eset if e in accs]
    if not cands: raise common.Infra("no reference accept set for %s" % ln)
    if any(lib_acc == c for _, c in cands): return
    pool = [(e, c, False) for e, c in cands] + ([(elib, accs[elib], True)] if elib not in eset and elib in accs else [])
    e, c, used = min(pool, key=lambda x: len(lib_acc ^ x[1]))
    verify_diff(F, fn, alg, b, ln, lib_acc, c, cls, used)

def check_vlist(ctx, F, cp, vl, jobs, b):
    """jobs: (alg, api, qi, form, hashinfo, priv).  vl[(curve, alg, qi, e)] = (pairs, acc).  The pairs presented are the
    union of the lists of every e the digest may stand for; each candidate e is judged on its own list only."""
    lines = []; meta = []
    rng = random.Random(1)
    for alg, api, qi, form, h, priv in jobs:
        q = cp.qs[qi - 1]
        es = [e for e in sorted(set(h[1]) | {h[2]}) if (cp.name, alg, qi, e) in vl]
        if not any(e in h[1] for e in es): raise common.Infra("no reference accept set for %s %s key %d digest %s" % (cp.name, alg, qi, h[0]))
        pairs = sorted(set().union(*[vl[(cp.name, alg, qi, e)][0] for e in es]))
        ps = ",".join("%x:%x" % (r, s) for r, s in pairs)
        if priv:
            lines.append("vplist %s %s %s %s %s %s" % (cp.name, alg[0], api, ihex(q["d"]), h[0], ps))
        elif api == "bn":
            x, y = R.pt_args(q["pt"])
            lines.append("vlist %s %s bn %s %s %s %s" % (cp.name, alg[0], x, y, h[0], ps))
        else:
            x, y = key_blocks(cp, q, api, form, rng)
            lines.append("vlist %s %s %s %s %s %s %s" % (cp.name, alg[0], api, x, y, h[0], ps))
        meta.append((alg, api, qi, form, h, priv, pairs, es))
    sample(lines, 1)
    res = R.run_lines(b, lines)
    n = 0
    for ln, (alg, api, qi, form, h, priv, pairs, es), a in zip(lines, meta, res):
        base = "ecdsa_verify_priv_key" if priv else "ecdsa_verify"
        fn = base if api == "bn" else base + "_" + api
        if isinstance(a, dict):
            k = a["crash"]; F.add("%s:%s:%s" % (fn, k[0], k[1]), "build %s\ncase %s\n%s" % (b.name, ln[:300], a["raw"][-1500:]), {"case": ln, "build": b.name}); continue
        toks = a.split()
        if len(toks) != 2 or toks[0] != "ok" or len(toks[1]) != len(pairs): raise common.Infra("unexpected answer to %s: %s" % (ln[:100], a[:200]))
        n += len(pairs)
        lib_acc = {p for p, v in zip(pairs, toks[1]) if v == "A"}
        q = cp.qs[qi - 1]
        validated = b.pubchk and api != "bn" and not priv
        short = ln[:160] + (" ...(%d pairs)" % len(pairs))
        if not q["d"]:
            judge_accept(F, fn, alg, b, short, lib_acc, {}, h, False, validated, neutral=not q["pt"]); continue
        # per candidate e: the library's verdicts on that e's own pair list
        tok, eset, elib, cls, _ = h
        cand = []
        for e in es:
            pl, acc = vl[(cp.name, alg, qi, e)]
            pls = set(pl)
            cand.append((e, {p for p in lib_acc if p in pls}, {tuple(x) for x in acc}))
        if any(e in eset and got == ref for e, got, ref in cand): continue
        e, got, ref = min(cand, key=lambda c: (len(c[1] ^ c[2]), c[0] not in eset))
        verify_diff(F, fn, alg, b, short, got, ref, cls, e not in eset)
    return n

def check_vgrid(ctx, F, cp, vg, jobs, b):
    """jobs: (alg, api, qi, form, hashinfo, priv); vg[(curve, alg, qi, e)] = (max, acc)"""
    lines = []; meta = []
    rng = random.Random(2)
    for alg, api, qi, form, h, priv in jobs:
        q = cp.qs[qi - 1]
        eany = next(e for e in list(h[1]) + [h[2]] if (cp.name, alg, qi, e) in vg)
        mx = vg[(cp.name, alg, qi, eany)][0]
        if priv: lines.append("vpgrid %s %s %s %s %s %s" % (cp.name, alg[0], api, ihex(q["d"]), h[0], ihex(mx)))
        elif api == "bn":
            x, y = R.pt_args(q["pt"]); lines.append("vgrid %s %s bn %s %s %s %s" % (cp.name, alg[0], x, y, h[0], ihex(mx)))
        else:
            x, y = key_blocks(cp, q, api, form, rng); lines.append("vgrid %s %s %s %s %s %s %s" % (cp.name, alg[0], api, x, y, h[0], ihex(mx)))
        meta.append((alg, api, qi, form, h, priv, mx))
    sample(lines, 1)
    res = R.run_lines(b, lines, timeout=1500)
    n = 0
    for ln, (alg, api, qi, form, h, priv, mx), a in zip(lines, meta, res):
        base = "ecdsa_verify_priv_key" if priv else "ecdsa_verify"
        fn = base if api == "bn" else base + "_" + api
        if isinstance(a, dict):
            k = a["crash"]; F.add("%s:%s:%s" % (fn, k[0], k[1]), "build %s\ncase %s\n%s" % (b.name, ln, a["raw"][-1500:]), {"case": ln, "build": b.name}); continue
        f = dict(t.split("=", 1) for t in a.split()[1:])
        if int(f["n"]) != (mx + 1) ** 2: raise common.Infra("grid size: " + a[:200])
        n += int(f["n"])
        lib_acc = set() if f["acc"] == "-" else {tuple(int(v, 16) for v in p.split(":")) for p in f["acc"].split(",")}
        q = cp.qs[qi - 1]
        accs = {e: {tuple(x) for x in vg[(cp.name, alg, qi, e)][1]} for e in set(h[1]) | {h[2]} if (cp.name, alg, qi, e) in vg}
        validated = b.pubchk and api != "bn" and not priv
        judge_accept(F, fn, alg, b, ln, lib_acc, accs, h, bool(q["d"]), validated, neutral=not q["pt"])
    return n

# ------------------------------------------------------------------ tier (B)
def es_of(h):
    return set(h[1]) | {h[2]}

def choose_slice(ctx, cp, rng, all_keys):
    """which rows / accept sets are generated and which driver lines use them (selection of inputs only)"""
    quick = ctx.quick
    n = cp.dall[-1] + 1
    pl = dict(sign=[], vlist=[], vgrid=[])
    K = dict(SignEAllE=set(), SignEAllG=set(), SignDFew=set(), VgPairsE=set(), VgPairsG=set(), VlQ=set(), VlEE=set(), VlEG=set())
    sfx = {"ecdsa": "E", "gost": "G"}
    qs = cp.qs
    valid = [i + 1 for i, q in enumerate(qs) if q["d"]]
    invalid = [i + 1 for i, q in enumerate(qs) if not q["d"] and q["pt"]]
    neutral = [i + 1 for i, q in enumerate(qs) if not q["pt"]]
    # ---- signing
    if cp.small:
        dfew = {1, n - 1, rng.choice(cp.dall)} | (set() if quick else {2, 3, n - 2} | set(rng.sample(cp.dall, 3)))
    else:
        dfew = {1, rng.choice(cp.dall)} | (set() if quick else {cp.dall[-1]} | set(rng.sample(cp.dall, 2)))
    K["SignDFew"] = dfew
    for alg in ("ecdsa", "gost"):
        for api in APIS:
            hs = pick_hashes(cp, alg, api, rng, 1 if quick else 99)
            if quick and not cp.small: hs = hs[:6]
            for h in hs:
                for d in sorted(dfew): pl["sign"].append((alg, api, d, h))
        if all_keys:
            # one e per algorithm that every API can present without a conversion issue, plus one digest per API whose
            # documented conversion is not an admissible one (the rows of both readings are generated)
            common_e = None
            for e in cp.es[alg]:
                if all(any(h[3] == "agree" and h[1] == [e] for h in cp.hash_list(alg, api)) for api in APIS) and e not in (0, 1):
                    common_e = e; break
            for api in APIS:
                hl = cp.hash_list(alg, api)
                agree = [h for h in hl if h[3] == "agree" and h[1] == [common_e]] if common_e is not None else []
                odd = [h for h in hl if h[3] != "agree" and len(h[1]) == 1]
                chosen = [rng.choice(agree)] if agree else ([rng.choice(odd)] if odd else [])
                if not quick and odd: chosen.append(rng.choice(odd))
                for h in chosen:
                    K["SignEAll" + sfx[alg]] |= es_of(h)
                    for d in cp.dall: pl["sign"].append((alg, api, d, h))
    # ---- verification on pair lists
    nv, ni = ((4, 5) if quick else (28, 28)) if cp.small else ((3, 3) if quick else (6, 8))
    vq = sorted(set(rng.sample(valid, min(nv, len(valid))) + [valid[0]]))
    iq = sorted(set(rng.sample(invalid, min(ni, len(invalid))) + neutral))
    K["VlQ"] = set(vq + iq)
    for alg in ("ecdsa", "gost"):
        for api in APIS:
            hl = cp.hash_list(alg, api)
            agree = [h for h in hl if h[3] == "agree" and len(h[1]) == 1]
            odd = [h for h in hl if h[3] != "agree"]
            chosen = rng.sample(agree, min(len(agree), 1 if quick else 5)) + rng.sample(odd, min(len(odd), 1 if quick else 3))
            for h in chosen:
                K["VlE" + sfx[alg]] |= es_of(h)
                for qi in vq + iq:
                    q = qs[qi - 1]
                    if api == "bn": pl["vlist"].append((alg, api, qi, "-", h, False))
                    else:
                        fs = forms_for(cp, q)
                        for form in ([rng.choice(fs)] if quick else fs): pl["vlist"].append((alg, api, qi, form, h, False))
                    if q["d"]: pl["vlist"].append((alg, api, qi, "-", h, True))
    # ---- verification on the full grid
    if cp.small:
        ngrid = 1 if quick else 6
        algs = ("ecdsa", "gost") if not quick else (("ecdsa", "gost")[(ctx.seed + TOY8.index(cp.name)) % 2],)
        for ai, alg in enumerate(algs):
            for gi in range(ngrid):
                api = APIS[(gi + ai + (ctx.seed if quick else 0)) % 3]
                hl = cp.hash_list(alg, api)
                agree = [h for h in hl if h[3] == "agree" and len(h[1]) == 1]
                h = rng.choice(agree) if agree and gi % 3 != 2 else rng.choice([h for h in hl if len(h[1]) == 1] or hl)
                qi = rng.choice(valid) if gi % 4 != 3 else rng.choice(invalid + neutral)
                q = qs[qi - 1]
                K["VgPairs" + sfx[alg]] |= {qi * 100000 + e for e in es_of(h)}
                form = "-" if api == "bn" else rng.choice(forms_for(cp, q))
                pl["vgrid"].append((alg, api, qi, form, h, bool(q["d"]) and gi % 2 == 1))
    return pl, K

def tier_b(ctx, F, builds):
    rng = random.Random(ctx.seed)
    t0 = time.time()
    curves = TOY8 + (["E13"] if ctx.quick else TOYBIG)      # quick: the 16-bit curve is left to the thorough tier
    cases = R.run_partitions(ctx, "EcdsaGen", [("hmap", R.write_cfg("c03_hmap.cfg", base_consts(curves, ctx.seed, Kinds='{"hmap"}'), INV))])
    CP = {c["curve"]: Corpus(c) for c in cases}
    if set(CP) != set(curves): raise common.Infra("corpus states missing: %s" % sorted(CP))
    ctx.cov["corpus"] = {k: dict(digests=len({tuple(h["h"]) for h in v.hashes}), integer_digests=len({r["H"] for r in v.ints}),
                                 candidate_keys=len(v.qs), secrets=len(v.ks), random_values=len(v.rnds)) for k, v in CP.items()}
    all_keys = set(curves) if not ctx.quick else {rng.choice(TOY8), "E13"}
    plan = {}; parts = []
    for cn in curves:
        cp = CP[cn]
        plan[cn], K = choose_slice(ctx, cp, rng, cn in all_keys)
        for kind, keys in (("sign", ("SignEAllE", "SignEAllG", "SignDFew")), ("vlist", ("VlQ", "VlEE", "VlEG")), ("vgrid", ("VgPairsE", "VgPairsG"))):
            if kind == "vgrid" and not cp.small: continue
            cc = base_consts([cn], ctx.seed, Kinds='{"%s"}' % kind, **{k: R.tset(K[k]) for k in keys})
            parts.append(("%s-%s" % (kind, cn), R.write_cfg("c03_%s_%s.cfg" % (kind, cn), cc, INV)))
    # the heavy partitions first
    parts.sort(key=lambda p: (0 if p[0].startswith("sign") else 1 if p[0].startswith("vgrid") else 2))
    cases = R.run_partitions(ctx, "EcdsaGen", parts, par=4)
    rows = {}; vl = {}; vg = {}
    for c in cases:
        k = (c["curve"], c["alg"], c["a1"], c["e"])
        if c["kind"] == "sign": rows[k] = c["out"]
        elif c["kind"] == "vlist": vl[k] = ([tuple(p) for p in c["out"]["pairs"]], c["out"]["acc"])
        elif c["kind"] == "vgrid": vg[k] = (c["out"]["max"], c["out"]["acc"])
    ctx.cov["tlc_wall_s"] = round(time.time() - t0, 1)
    ctx.log("TLC: %d sign rows, %d pair-list accept sets, %d full-grid accept sets (%.0fs)" % (len(rows), len(vl), len(vg), time.time() - t0))
    ctx.add(sign_rows=len(rows), accept_sets_pairlist=len(vl), accept_sets_fullgrid=len(vg))
    # ---- the library
    def run_build(ib):
        i, b = ib
        n = 0
        share = 1.0 if i == 0 else ((0.3 if b.asan else 0.5) if ctx.quick else (0.12 if b.asan else 0.3))
        r2 = random.Random(ctx.seed * 31 + i)
        def cut(lst):
            return lst if share >= 1.0 else [x for x in lst if r2.random() < share]
        for cn, cp in CP.items():
            pl = plan[cn]
            n += check_sign(ctx, F, cp, rows, cut(pl["sign"]), b)
            n += check_vlist(ctx, F, cp, vl, cut(pl["vlist"]), b)
            if cp.small:
                g = pl["vgrid"] if i == 0 else [x for j, x in enumerate(pl["vgrid"]) if (j + i) % 2 == 0 and not b.asan]
                n += check_vgrid(ctx, F, cp, vg, g, b)
        return n
    with ThreadPoolExecutor(max_workers=min(4, len(builds))) as ex:
        counts = list(ex.map(run_build, enumerate(builds)))
    ctx.add(evaluations=sum(counts), distinct_nontrivial=sum(len(p["sign"]) + len(p["vlist"]) + len(p["vgrid"]) for p in plan.values()))
    ctx.cov["library_calls_per_build"] = {b.name: c for b, c in zip(builds, counts)}
    ctx.log("tier B: %d library calls compared (%.0fs)" % (sum(counts), time.time() - t0))

# ------------------------------------------------------------------ entry point
def run(ctx):
    ctx.level = "model_checking"
    d = common.scratch("lcbv-c03-")
    R.set_tier(ctx)             # watchdog seconds per library call and the check-wide budget of watchdog deaths
    F = Fails(ctx)
    def want(i, cfg):
        # suite configuration: as the suite builds it (validation off); the second build validates keys and runs under ASan
        if i == 0: return (False, "gcc", "-O2", False)
        if i == 1: return (True, "clang", "-O1", True)
        return (i % 2 == 1, "gcc" if i % 2 else "clang", "-O2" if i % 3 else "-O3", False)
    builds = R.choose_builds(ctx, 2 if ctx.quick else 6, want)
    bt = threading.Thread(target=lambda: R.build_all(builds, d)); bt.start()
    only = os.environ.get("VERIF_C03_ONLY", "")
    if only != "b":
        from rig import ecdsa_modec
        ecdsa_modec.start_self_check()      # background: EcdsaBig = Ecdsa on the synthetic curves, published examples
    bt.join()
    ctx.log("built %d drivers: %s" % (len(builds), [b.name for b in builds]))
    cres = {}
    def c_rounds():
        try: cres["st"] = ecdsa_modec.rounds(ctx, F, builds)
        except BaseException as e: cres["err"] = e
    ct = None
    if only != "b":
        ct = threading.Thread(target=c_rounds); ct.start()         # library part of tier C, while TLC enumerates tier B
    try:
        if only != "c": tier_b(ctx, F, builds)
        if ct is not None:
            ct.join()
            if "err" in cres: raise cres["err"]
            ecdsa_modec.finish(ctx, F, cres["st"])
    except R.HangStop:
        # library calls that never return (each one recorded in F with the key <function>:fault-sig14) used up the tier's watchdog budget
        if ct is not None: ct.join()
        ctx.log("stopped driving: %d library calls did not return within %d s of CPU time" % (R._hangs[0], R.WD_CPU))
        ctx.add(stopped_after_watchdog_deaths=R._hangs[0])
    F.flush()
    ctx.add(samples=sorted(set(SAMPLES), key=lambda l: (l.split()[0], len(l)))[:12])
    ctx.cov["builds"] = [b.name for b in builds]
    ctx.cov["rule"] = ("tier B: the corpus is the set of reachable states of EcdsaGen under the slice written to the .cfg files; "
                       "sign rows range over every secret 0..n-1 (8-bit curves), accept sets over the full (r,s) grid or the pair list; "
                       "distinct = driver lines; every line is non-trivial (it contains the boundary secrets / pairs)")
    ctx.assumptions += [
        "oracle = specs/ec/Ecdsa.tla on EcGroup.tla evaluated by TLC; completeness and exactness of the accept set are TLC invariants on every generated state",
        "digest -> e: ECDSA per SEC 1 4.1.3 (leftmost bits), GOST per 34.10-2012 (alpha mod q, 0 -> 1); where the standards are silent (GOST digest longer than q, little-endian buffers longer than the field) both natural readings are admitted (Ecdsa!HashESet)",
        "random octets -> secret: both documented maps are admitted (Ecdsa!SecretSet); a call may only fail where no admitted secret yields a signature",
        "which non-zero code a rejection returns is not compared; with validation off (EC_DISABLE_PUB_KEY_CHK, or the bn_t level API) the verdict for an invalid public key is unspecified",
        "configurations hit by open findings of C02 are not built here (unknown-point window wider than the fixed-point window, affine BIN_PRECALC_DBL, comb window wider than a digit, affine + INTER)",
    ]
