"""X10 (growth task) - include/utils/reass_helper.h, the fragment reassembly helper.

Oracle: specs/grow/ReassHelper.tla (reass_hlp_handle_frag statement by statement as a pure operator, 64-bit words,
five named deviations of the shipped code; properties R1..R7 in the module header).  TLC decides everything:
  * model checking   MC_Reass: every history of <= MaxFrags fragments over the whole alphabet (sequence numbers on
                     both sides of the 2^64 wrap, first/last flags, sizes 0..3, two payloads), bitmap / no bitmap:
                     R1..R7 hold on the repaired design (Fix = AllFix); AllFix minus one deviation must violate the
                     property that deviation is recorded against (negative controls); a complete message must be
                     reachable (vacuity);
  * binding          Trace_Reass: harness/x10_drv.c runs the real header (directed witness histories first, then
                     seeded random histories of planned messages with loss, duplication, reordering, forged
                     sequence numbers and noise) and logs arguments, result, every struct field, every octet of
                     buffer and bitmap, guard zones and SIGFPE per call; TLC accepts a line iff some variant of
                     HandleFrag explains it exactly, keeps the set of variants that explain ALL lines (one tree = one
                     variant), and evaluates R1..R7 on what the real call did.
Python builds, splits the trace into chunks for parallel TLC runs and turns the printed records into keyed findings."""
import json, os, concurrent.futures
from rig import common

DRV = os.path.join(common.VERIF, "harness", "x10_drv.c")
SHIM = os.path.join(common.VERIF, "harness", "x10_shim")
NEG = [("wrap", "NoR6"), ("div0", "NoR3"), ("sumovf", "NoR3"), ("bmunits", "NoR7"), ("hole", "NoR1")]
FN = "reass_hlp_handle_frag"

def model(ctx):
    jobs = [("MC_Reass.cfg", None), ("MC_Reass_nobm.cfg", None), ("MC_Reass_edge.cfg", None), ("MC_Reass_vac.cfg", "NeverComplete")]
    jobs += [("MC_Reass_%s.cfg" % d, inv) for d, inv in NEG]
    if not ctx.quick:
        jobs += [("MC_Reass_bm2.cfg", None), ("MC_Reass_big.cfg", None), ("MC_Reass_bignobm.cfg", None)]
    def one(j):
        cfg, expect = j
        big = "big" in cfg
        return j, common.tlc("MC_Reass", cfg, workers=8 if big else 3, timeout=3000 if big else 900, xmx="12g" if big else "4g")
    with concurrent.futures.ThreadPoolExecutor(4) as ex:
        for (cfg, expect), r in ex.map(one, jobs):
            ctx.tlc_stats(r, cfg)
            if expect is None:
                if r.rc != 0:
                    ctx.fail("model:%s:%s" % (cfg, r.violation), "the repaired design violates a property:\n" + r.out[-3000:])
                ctx.log("%s: %d distinct states, depth %d, properties hold" % (cfg, r.distinct, r.depth))
            else:
                if r.rc != 12 or expect not in (r.violation or ""):
                    raise common.Infra("negative control %s: expected invariant %s to be violated, got rc=%s %s" % (cfg, expect, r.rc, r.violation))
                ctx.add(negative_controls_violated=1)
                ctx.log("%s: %s violated as it must be" % (cfg, expect))

def run(ctx):
    ctx.level = "model_checking"
    ok, out = common.sany("Trace_Reass")
    if not ok: raise common.Infra("SANY: " + out[-2000:])
    model(ctx)
    d = common.scratch("lcbv-x10-")
    exe = common.cc([DRV], d + "/x10_drv", compiler="gcc", opt="-O1", hooks=False, incs=[SHIM], flags=["-Wall"])
    nchunks = 4 if ctx.quick else 12
    per = 2500 if ctx.quick else 12000
    maxlen = 8 if ctx.quick else 10
    traces = []
    for i in range(nchunks):
        t = "%s/t%d.ndjson" % (d, i)
        rc, o = common.sh([exe, str(ctx.seed * 100 + i), str(per), str(maxlen), t], timeout=300)
        if rc != 0: raise common.Infra("driver failed rc=%s\n%s" % (rc, o[-2000:]))
        traces.append(t)
    def val(t):
        return t, common.tlc("Trace_Reass", "Trace_Reass.cfg", workers=1, env={"TRACE": t}, timeout=1500, xmx="4g")
    alive_all = None; lines = 0; hist = 0; findings = {}; samples = []
    with concurrent.futures.ThreadPoolExecutor(6) as ex:
        for t, r in ex.map(val, traces):
            if r.rc != 0: raise common.Infra("Trace_Reass failed on %s: rc=%s\n%s" % (t, r.rc, r.out[-3000:]))
            recs = common.tlc_printed_json(r.out)
            raw = open(t).read().splitlines()
            end = [x for x in recs if x.get("k") == "end"]
            if not end or end[0]["lines"] != len(raw) or r.distinct != len(raw) + 2:
                raise common.Infra("trace %s not consumed to the end (%s of %d lines, %d states)" % (t, end, len(raw), r.distinct))
            lines += len(raw); hist += sum(1 for x in raw if x.startswith('{"e":"Init"'))
            al = {tuple(sorted(v)) for v in end[0]["alive"]}
            alive_all = al if alive_all is None else (alive_all & al)
            for x in recs:
                ctxl = raw[max(0, x.get("line", 1) - 4):x.get("line", 1)] if "line" in x else []
                if x["k"] == "nomatch":
                    key = "%s:conformance:%s:%s" % (FN, x["op"], "+".join(sorted(x["fields"])))
                    ctx.add(lines_no_variant_explains=1)
                    if key in findings: continue
                    findings[key] = ctxl
                    ctx.fail(key, "the real call is explained by no variant of the specification (fields that differ from the specification: %s); "
                             "history up to the line:\n%s" % (x["fields"], "\n".join(ctxl)), {"trace_tail": ctxl})
                elif x["k"] == "mixed":
                    ctx.fail("%s:conformance:mixed-variants" % FN, "line explained only by variants %s that earlier lines excluded:\n%s" % (x["explained_by"], "\n".join(ctxl)), {"trace_tail": ctxl})
                elif x["k"] == "bad":
                    for p, dv in x["keys"]:
                        key = "%s:%s:%s" % (FN, p, dv)
                        if key not in findings:
                            findings[key] = ctxl
                            ctx.fail(key, "property %s violated by the real code (deviation: %s); history up to the call:\n%s" % (p, dv, "\n".join(ctxl)), {"trace_tail": ctxl})
                        ctx.add(**{"steps_violating_" + p: 1})
            if len(samples) < 3: samples.append(raw[1][:300])
    if not alive_all:
        ctx.fail("%s:conformance:no-single-variant" % FN, "no single variant of the specification explains all traces")
    ctx.add(traces_validated_against_impl=hist, trace_lines=lines, samples=samples,
            variants_explaining_every_line=[sorted(v) for v in sorted(alive_all or [])])
    ctx.log("trace validation: %d histories, %d calls, variants explaining every line (repaired deviations): %s" % (hist, lines, sorted(alive_all or [])))
    ctx.assumptions += ["64-bit size_t/uint64_t (the model's word arithmetic is exact for values within a few units of 0 or 2^64)",
                        "cur_seq_no is zero before the first call (reass_hlp_reset never writes it; the driver zeroes the struct)",
                        "buffers of 4..8 octets, fragments of 0..4 octets, bitmaps of 1, 2, 8 octets or none"]
