"""C14 - encoders/decoders are mutual inverses and agree with their standards (mode B).

Seven generator specs (specs/text/Gen*.tla) enumerate the corpus; TLC checks the reference's own algebra on every
state (inverse laws, length laws, catalogue check values, chain/residue laws) and prints, per state, the input
together with every expected output computed from the TLA+ reference.  The real functions (driver
harness/codec_drv.c, rebuilt from common.REPO in several build configurations, ASan/UBSan on exact-size heap
blocks in the first one) must return exactly those bytes, values and reported lengths.
Python only renders abstract values to hex, runs the driver and compares.

A death of the driver inside the code under test on a generated case (ASan/UBSan report, SIGSEGV/SIGBUS/SIGFPE or the
alarm() watchdog caught by vh_util's handler) is a VIOLATION keyed <family>:<function/base>:<failure class>[:<function>];
after CRASH_CAP deaths of one key base the remaining cases of that base are skipped (counted in the evidence) so that a
systematic defect cannot exhaust the rig; a death without such a report is an infrastructure failure (exit 2)."""
import re, threading, time
from rig import common
from rig.common import hexs, unhex, kv

SRC = ["/verif/harness/codec_drv.c", "src/utils/buf_str.c", "src/utils/xml.c", "src/proto/http.c"]
# The parse macros accumulate in the (signed) result type; at the type minimum that wraps through signed
# overflow / a left shift into the sign bit.  The VALUE is what C14 speaks about, so those two UBSan checks are
# off and the value is compared in every build configuration instead (see ctx.assumptions).
UB_OFF = ["-fno-sanitize=signed-integer-overflow,shift"]
BUILDS_QUICK = [("clang-asan-O1", dict(compiler="clang", san="asan", opt="-O1", flags=UB_OFF)),
                ("gcc-O2", dict(compiler="gcc", san=None, opt="-O2"))]
BUILDS_THOROUGH = BUILDS_QUICK + [("clang-O2", dict(compiler="clang", san=None, opt="-O2")),
                                  ("gcc-asan-O0", dict(compiler="gcc", san="asan", opt="-O0", flags=UB_OFF))]
MAX_PER_KEY = 3

class Part:
    """one codec family: cases -> driver lines with expectations -> comparison"""
    def __init__(self, ctx, name):
        self.ctx = ctx; self.name = name; self.lines = []; self.meta = []; self.nontriv = set()
    def case(self, line, expect, keybase, cls=None, nontrivial=True, group=None, fn=None):
        """expect: dict of fields the answer must carry: rc, n, out (bytes or tuple of acceptable bytes), v, v2
        group: crash-cap group (default: the key base); fn: function named in the key when the death report has none"""
        self.lines.append(line); self.meta.append((expect, keybase, cls, group or keybase, fn))
        if nontrivial: self.nontriv.add(line)

def symptom(expect, ans, cls=None):
    """classification of HOW an answer differs (for the failure key only; never decides pass/fail)"""
    if ans.get("guard", "ok") != "ok":     # store outside the output block (non-ASan builds: margin check)
        return "short-by-one" if (cls == "pow10" and ans["guard"] == "lo") else "write-outside-buffer-" + ans["guard"]
    if "n" in expect and "n" in ans and ans.get("rc") == "0" and int(ans["n"]) == expect["n"] - 1:
        return "short-by-one"
    if expect.get("exact_len") and ans.get("rc") == "0" and int(ans["touched"]) > int(ans["n"]) + 1:
        return "more-bytes-produced-than-reported"
    return "wrong-result"

def matches(expect, f):
    if f.get("guard", "ok") != "ok": return False
    # "reported lengths equal the number of bytes produced": nothing but an optional terminating NUL may have
    # been stored behind the reported bytes (upper bound only: output that happens to end in the fill byte
    # 0xA5 makes `touched` smaller, never larger)
    if expect.get("exact_len") and int(f["touched"]) > int(f["n"]) + 1: return False
    if "rc" in expect and int(f["rc"]) != expect["rc"]: return False
    if "n" in expect and int(f["n"]) != expect["n"]: return False
    if "out" in expect:
        acc = expect["out"] if isinstance(expect["out"], tuple) else (expect["out"],)
        if unhex(f["out"]) not in acc: return False
    for k in ("v", "v2"):
        if k in expect and f.get(k) != expect[k]: return False
    return True

CRASH_CAP = 3      # crashes of the code under test recorded per key base and build; further cases of that base are skipped

def batch_run_capped(exe, lines, groups, cap=CRASH_CAP, timeout=600):
    """common.batch_run with a bounded number of restarts.  A death of the driver inside the code under test
    (sanitizer report, or a signal / the alarm() watchdog caught by vh_util's fault handler) on a spec-generated
    case is a verdict about the code, never an infrastructure failure: the case gets {'crash': san_key, 'raw': ..}.
    A systematic defect (e.g. a table index out of range for every input of two or more bytes) dies on hundreds of
    cases and common.batch_run gives up (Infra, exit 2) after 400 restarts - so here, after `cap` deaths in one
    group (= key base) the remaining cases of that group are not run any more (result {'skipped': group}; the
    violation is already recorded) while every other group is still compared in full.  Restarts are bounded by
    cap * number of groups.  A death WITHOUT a sanitizer/FAULT report (driver bug, rig timeout) is Infra."""
    res = [None] * len(lines)
    todo = list(range(len(lines))); deaths = {}
    env = {"ASAN_OPTIONS": "detect_leaks=0:abort_on_error=0:detect_stack_use_after_return=1:allocator_may_return_null=1",
           "UBSAN_OPTIONS": "print_stacktrace=1:halt_on_error=1"}
    while todo:
        rc, out = common.sh([exe], stdin=("\n".join(lines[i] for i in todo) + "\n").encode(), timeout=timeout, env=env)
        answers = []
        for ln in out.split("\n"):
            if ln.startswith("==") or "runtime error:" in ln or ln.startswith("FAULT") or ln.startswith("[rig] TIMEOUT"):
                break
            if ln.strip(): answers.append(ln)
        k = min(len(answers), len(todo))
        for i, a in zip(todo, answers): res[i] = a
        if rc == 0 and k == len(todo): break
        key = common.san_key(out)
        if k == len(todo) or key is None:
            raise common.Infra("driver died (rc=%s) without a sanitizer/fault report or after answering everything "
                               "(rig problem, not a verdict); next case: %s\n%s"
                               % (rc, lines[todo[k]] if k < len(todo) else "-", out[-2000:]))
        bad = todo[k]; g = groups[bad]
        res[bad] = {"crash": key, "raw": out[-2500:]}
        deaths[g] = deaths.get(g, 0) + 1
        todo = todo[k + 1:]
        if deaths[g] >= cap:
            for i in todo:
                if groups[i] == g: res[i] = {"skipped": g}
            todo = [i for i in todo if groups[i] != g]
    return res

def crash_symptom(k, fn_of_case):
    """failure class and function of a death inside the code under test, e.g. global-buffer-overflow-READ:crc32_normal4
    (a FAULT in a plain build carries no symbol: the function the case calls is named instead)"""
    kind, fn = k[0], k[1] or fn_of_case
    return "%s:%s" % (kind, fn) if fn else kind

_lock = threading.Lock()
def run_part(ctx, part, exes, fails):
    local = {}; nev = 0; nskip = 0
    for bname, exe in exes:
        res = batch_run_capped(exe, part.lines, [m[3] for m in part.meta])
        for ln, (expect, keybase, cls, _, fn), a in zip(part.lines, part.meta, res):
            if isinstance(a, dict) and "skipped" in a:
                nskip += 1; continue
            nev += 1
            if isinstance(a, dict):
                k = a["crash"]
                sym = "short-by-one" if (cls == "pow10" and k[0] == "heap-buffer-overflow-WRITE") else crash_symptom(k, fn)
                key = "%s:%s" % (keybase, sym)
                detail = "build %s\ncase %s\n%s" % (bname, ln, a["raw"][-1500:])
            else:
                op, f = kv(a)
                if matches(expect, f): continue
                key = "%s:%s" % (keybase, symptom(expect, f, cls))
                detail = "build %s\ncase %s\nexpected %s\ngot      %s" % (bname, ln, fmt_expect(expect), a)
            local.setdefault(key, []).append((detail, {"case": ln, "build": bname}))
    with _lock:
        for k, v in local.items(): fails.setdefault(k, []).extend(v)
        ctx.add(evaluations=nev, distinct_nontrivial=len(part.nontriv))
        if nskip: ctx.add(cases_skipped_after_repeated_crashes_of_their_key=nskip)
        ctx.cov.setdefault("cases_per_family", {})[part.name] = len(part.lines)

def fmt_expect(e):
    d = {}
    for k, v in e.items():
        if isinstance(v, tuple): d[k] = "|".join(hexs(x) for x in v)
        elif isinstance(v, (bytes, bytearray)): d[k] = hexs(v)
        else: d[k] = v
    return " ".join("%s=%s" % kv_ for kv_ in d.items())

# ------------------------------------------------------------------ case construction per family
def base64_cases(ctx, cases):
    p = Part(ctx, "base64")
    for c in cases:
        src = bytes(c["in"]); enc = bytes(c["enc"]); encnp = bytes(c["encnp"])
        nt = len(src) > 0
        # capacity = text + terminating NUL (the NUL at dst[reported] is C12's subject, not C14's)
        p.case("b64enc %s %d" % (hexs(src), len(enc) + 1), dict(exact_len=True, rc=0, n=len(enc), out=enc), "base64:encode", nontrivial=nt)
        p.case("b64dec %s %d" % (hexs(enc), len(enc) + 4), dict(exact_len=True, rc=0, n=len(src), out=src), "base64:decode", nontrivial=nt)
        # the two-step use (size query with no room, then a block of exactly the reported size): must decode / encode completely
        p.case("b64dec2 %s 0" % hexs(enc), dict(rc=0, n=len(src), out=src), "base64:decode:size-query-then-exact-block", nontrivial=nt)
        p.case("b64enc2 %s 0" % hexs(src), dict(rc=0, n=len(enc), out=enc), "base64:encode:size-query-then-exact-block", nontrivial=nt)
        if encnp != enc:
            p.case("b64dec %s %d" % (hexs(encnp), len(enc) + 4), dict(exact_len=True, rc=0, n=len(src), out=src), "base64:decode-unpadded")
            p.case("b64dec2 %s 0" % hexs(encnp), dict(rc=0, n=len(src), out=src), "base64:decode-unpadded:size-query-then-exact-block")
        for j in ("j1", "j2", "j3"):
            t = bytes(c[j])
            p.case("b64decfmt %s %d" % (hexs(t), len(t) + 4), dict(rc=0, n=len(src), out=src), "base64:decode_fmt:" + j)
        t = bytes(c["j1"]); syms = bytes(c["syms"])
        p.case("b64encopy %s %d" % (hexs(t), len(t) + 1), dict(exact_len=True, rc=0, n=len(syms), out=syms), "base64:en_copy")
        t = bytes(c["j3"])       # invariant FilterLaw: OnlySyms(J3(E)) = StripPad(E)
        p.case("b64encopy %s %d" % (hexs(t), len(t) + 1), dict(exact_len=True, rc=0, n=len(encnp), out=encnp), "base64:en_copy")
    return p

def hex_cases(ctx, cases):
    p = Part(ctx, "hex")
    for c in cases:
        src = bytes(c["in"]); hl = bytes(c["hexl"]); hu = bytes(c["hexu"]); hm = bytes(c["hexm"])
        # either letter case is "the standard" (RFC 4648 base16 is case-insensitive on decode)
        p.case("bin2hex %s %d" % (hexs(src), len(hl) + 1), dict(exact_len=True, rc=0, n=len(hl), out=(hl, hu)), "hex:bin2hex")
        for nm, t in (("lower", hl), ("upper", hu), ("mixed", hm)):
            p.case("hex2bin %s %d" % (hexs(t), len(src)), dict(exact_len=True, rc=0, n=len(src), out=src), "hex:hex2bin:" + nm)
    return p

def xml_cases(ctx, cases):
    p = Part(ctx, "xml")
    for c in cases:
        src = bytes(c["in"]); enc = bytes(c["enc"]); dec = bytes(c["dec"])
        cap = len(src) + len(enc) + 16       # generous: mem_replace_arr's capacity test is C12's subject
        nt = any(ch in b"'\"&<>" for ch in src)
        p.case("xmlenc %s %d" % (hexs(src), cap), dict(exact_len=True, rc=0, n=len(enc), out=enc), "xml:encode", nontrivial=nt)
        p.case("xmldec %s %d" % (hexs(enc), cap), dict(exact_len=True, rc=0, n=len(src), out=src), "xml:decode-of-encoded", nontrivial=nt)
        if dec != src:
            p.case("xmldec %s %d" % (hexs(src), cap), dict(exact_len=True, rc=0, n=len(dec), out=dec), "xml:decode")
    return p

def url_cases(ctx, cases):
    p = Part(ctx, "url")
    for c in cases:
        src = bytes(c["in"])
        seen = set()
        for nm in ("minu", "minl", "allu", "alll"):
            t = bytes(c[nm])
            if t in seen: continue
            seen.add(t)
            p.case("urldec %s %d" % (hexs(t), len(src) + 1), dict(exact_len=True, rc=0, n=len(src), out=src),
                   "url:decode:" + nm, nontrivial=(b"%" in t))
    return p

def limbs_hex(v):          # four 16-bit limbs, least significant first -> 16 hex digits
    return "%04x%04x%04x%04x" % (v[3], v[2], v[1], v[0])

def num_cases(ctx, cases):
    p = Part(ctx, "num")
    for c in cases:
        t = c["t"]; text = bytes(c["text"]); v = limbs_hex(c["v"]); cls = c["cls"]; nm = c["name"]
        for f in (0, 1):
            # capacity = text + NUL, which is what the macros themselves demand ((_len + 1) > _size -> ENOSPC)
            g = ":%d:%d" % (t, f)      # crash cap per integer type and function flavour, not per class
            p.case("numfmt %s %d %d %d" % (v, len(text) + 1, t, f), dict(exact_len=True, rc=0, n=len(text), out=text),
                   "num2str:" + cls, cls=cls, group="num2str:" + cls + g)
            p.case("numparse %s 0 %d %d" % (hexs(text), t, f), dict(v=v), "str2num:" + cls, cls=cls, group="str2num:" + cls + g)
            if c["signed"] and not c["neg"]:
                p.case("numparse %s 0 %d %d" % (hexs(b"+" + text), t, f), dict(v=v), "str2num:plus-sign:" + cls, cls=cls,
                       group="str2num:plus-sign:" + cls + g)
            for hn in ("hexl", "hexu"):
                ht = bytes(c[hn])
                if hn == "hexu" and ht == bytes(c["hexl"]): continue
                p.case("numparseh %s 0 %d %d" % (hexs(ht), t, f), dict(v=v), "strh2num:" + cls, cls=cls, group="strh2num:" + cls + g)
    return p

TBL = ["tbl256_04c11db7", "tbl_edb88320", "tbl_1edc6f41", "tbl_a833982b", "tbl256_814141ab"]
def w32(w): return "%016x" % (w[0] * 65536 + w[1])     # << hi, lo >> -> driver's v= field

REFL = [0, 1, 1, 1, 0]                                  # codec_drv.c crc_refl[]: which worker a raw table goes through
def crc_fn(k, var):
    return "crc32_%s%s" % ("reflect" if REFL[k] else "normal", {4: "4", 8: "8", 0: ""}[var])

def crc_cases(ctx, cases):
    """Every state of GenCrc is compared through all 5 tables x 3 start values x {4-bit worker, 8-bit worker,
    size-switching front end} and through all 8 named models one-shot and as first-part + *_update(rest) for
    split points 0, 1, n/2, n-1, n.  Shortest inputs first: a wrong VALUE on a one-byte input is met (and
    recorded under <base>:wrong-result) before longer inputs drive a broken worker out of its table."""
    p = Part(ctx, "crc32")
    seen = {}
    for c in sorted(cases, key=lambda c: len(c["in"])):
        d = bytes(c["in"]); n = len(d)
        for k in range(5):
            for j, init in enumerate(c["inits"]):
                exp = w32(c["raw"][k][j]); ih = "%04x%04x" % (init[0], init[1])
                for var, vn in ((4, "nibble"), (8, "byte"), (0, "auto")):
                    p.case("crcraw %s 0 %d %d %s" % (hexs(d), k, var, ih), dict(v=exp),
                           "crc32:%s:%s" % (TBL[k], vn), nontrivial=n > 0, fn=crc_fn(k, var))
                    # which worker the front end takes is decided by the size (CRC32_SMALL_TBL_LIMIT = 64)
                    path = (TBL[k], vn if var else ("auto<64" if n < 64 else "auto>=64"), j)
                    if n > 0: seen[path] = seen.get(path, 0) + 1
        for m, name in enumerate(c["names"]):
            exp = w32(c["model"][m])
            for split in sorted({0, 1, n // 2, max(n - 1, 0), n} & set(range(n + 1))):
                p.case("crcname %s 0 %d %d" % (hexs(d), m, split), dict(v=exp, v2=exp), "crc32:" + name, nontrivial=n > 0)
                path = (name, "oneshot+split" if 0 < split < n else "oneshot+degenerate-split", "<64" if n < 64 else ">=64")
                if n > 0: seen[path] = seen.get(path, 0) + 1
    # vacuity of the comparison matrix (the corpus comes from the spec; this only checks that nothing was left out)
    want = [(TBL[k], vn, j) for k in range(5) for vn in ("nibble", "byte", "auto<64", "auto>=64") for j in range(3)]
    if cases:
        names = cases[0]["names"]
        want += [(nm, sp, sz) for nm in names for sp in ("oneshot+split", "oneshot+degenerate-split") for sz in ("<64", ">=64")]
        if len(names) != 8 or len(set(names)) != 8: raise common.Infra("GenCrc: expected 8 distinct named models, got %r" % (names,))
    missing = [w for w in want if not seen.get(w)]
    if missing: raise common.Infra("crc32 comparison matrix has empty cells (no non-empty input): %r" % (missing[:6],))
    ctx.cov["crc32_matrix"] = {"raw_cells(table x worker-path x init)": 60, "named_cells(model x split-kind x size-class)": 32,
                               "min_cases_per_cell": min(seen[w] for w in want)}
    return p

FAMILIES = [  # generator module, key field for de-duplication, case builder, TLC stack
    ("GenBase64", "in", base64_cases, "256m"),
    ("GenHex", "in", hex_cases, "256m"),
    ("GenXml", "in", xml_cases, "256m"),
    ("GenUrl", "in", url_cases, "256m"),
    ("GenNum", None, num_cases, "256m"),
    ("GenCrc", "in", crc_cases, "256m"),
]

def generate(ctx):
    """run the generator specs (each single-worker because of PrintT emission), at most 4 at a time"""
    common.tlc_workspace()
    seed = str(ctx.seed % 65521)
    out = {}; errs = []
    sem = threading.Semaphore(4)
    def job(mod, xss):
        with sem:
            try:
                cfg = mod + (".cfg" if ctx.quick else "_thorough.cfg")
                out[mod] = (cfg, common.tlc(mod, cfg=cfg, workers=1, coverage=True, timeout=3000, xss=xss,
                                            env={"SEED": seed}))
            except Exception as e:      # re-raised in the main thread
                errs.append(e)
    th = [threading.Thread(target=job, args=(m, x)) for m, _, _, x in FAMILIES]
    for t in th: t.start()
    for t in th: t.join()
    if errs: raise errs[0]
    corp = {}
    for mod, keyf, _, _ in FAMILIES:
        cfg, r = out[mod]
        ctx.tlc_stats(r, "%s/%s" % (mod, cfg))
        if r.rc != 0 or r.violation is not None:    # TLC can exit 0 after a StackOverflowError in Init
            raise common.Infra("reference algebra failed inside TLC for %s (spec bug, not a code verdict): %s\n%s"
                               % (mod, r.violation, r.out[-3000:]))
        cases = common.tlc_printed_json(r.out)
        seen = set(); uniq = []
        for c in cases:      # a state reached twice is printed twice; states are distinct by construction
            k = repr(c[keyf]) if keyf else repr((c["t"], c["text"]))
            if k in seen: continue
            seen.add(k); uniq.append(c)
        if len(uniq) != r.distinct or r.distinct == 0:
            raise common.Infra("corpus emission lost cases for %s: %d printed distinct vs %d distinct states"
                               % (mod, len(uniq), r.distinct))
        for act, (taken, _) in r.coverage.items():
            if taken == 0 and not (mod == "GenNum" and act == "Next"):     # GenNum has no Next by design
                raise common.Infra("vacuous generator action %s in %s" % (act, mod))
        corp[mod] = uniq
    return corp

def run(ctx):
    ctx.level = "exploration"
    d = common.scratch()
    builds = BUILDS_QUICK if ctx.quick else BUILDS_THOROUGH
    exes = []; berr = []
    def build(name, kw):
        try: exes.append((name, common.cc(SRC, "%s/codec-%s" % (d, name), hooks=False, **kw)))
        except Exception as e: berr.append(e)
    bth = [threading.Thread(target=build, args=b) for b in builds]
    for t in bth: t.start()
    corp = generate(ctx)
    for t in bth: t.join()
    if berr: raise berr[0]
    exes.sort(key=lambda e: [b[0] for b in builds].index(e[0]))
    ctx.cov["builds"] = [b[0] for b in builds]
    fails = {}
    parts = []
    for mod, _, mk, _ in FAMILIES:
        part = mk(ctx, corp[mod]); parts.append(part)
    # the driver runs are independent: one thread per family (<= 4 at a time)
    sem = threading.Semaphore(4); perr = []
    def go(part):
        with sem:
            try: run_part(ctx, part, exes, fails)
            except Exception as e: perr.append(e)
    pth = [threading.Thread(target=go, args=(p,)) for p in parts]
    for t in pth: t.start()
    for t in pth: t.join()
    if perr: raise perr[0]
    # value mismatches first, deaths (sanitizer / signal) of the same function after them
    for key in sorted(fails, key=lambda k: (not k.endswith((":wrong-result", ":short-by-one")), k)):
        lst = fails[key]
        for detail, replay in lst[:MAX_PER_KEY]:
            ctx.fail(key, detail + ("\n(%d failing cases share this key)" % len(lst)), replay)
    ctx.cov["failing_cases_by_key"] = {k: len(v) for k, v in fails.items()}
    b = corp["GenBase64"][min(7, len(corp["GenBase64"]) - 1)]
    num = [c for c in corp["GenNum"] if c["cls"] == "pow10"][:2]
    ctx.add(samples=[{"op": "b64enc", "in": hexs(bytes(b["in"])), "expect": bytes(b["enc"]).decode()}] +
            [{"op": "numfmt", "type": c["name"], "value_hex": limbs_hex(c["v"]), "expect": bytes(c["text"]).decode()} for c in num] +
            [{"op": "crc32b", "in": hexs(bytes(c["in"])), "expect": w32(c["model"][3])[8:]} for c in corp["GenCrc"] if bytes(c["in"]) == b"123456789"])
    ctx.cov["rule"] = ("cases are the reachable states of the generator specs: all byte strings up to the configured length "
                       "over boundary bytes, every single byte value, seeded random strings, and for the ten integer types "
                       "0/1/2, every power of ten and both neighbours, 2^k and neighbours (all minima/maxima), both signs, "
                       "seeded random magnitudes; non-trivial = non-empty input / input containing something to translate; "
                       "distinct by driver line (operation, input, parameters)")
    ctx.assumptions += ["TLA+ reference modules under specs/text are the oracle (RFC 4648 base64/base16, RFC 3986 percent-"
                        "encoding, XML 1.0 predefined entities, reveng catalogue CRC models checked against their check values)",
                        "memory accesses are observed by ASan/UBSan on exact-size heap blocks in the *-asan-* builds",
                        "output capacity is expected size + terminator (+ slack for xml/base64 decode): capacity edges belong to C12",
                        "UBSan's signed-integer-overflow and shift checks are disabled: STR2SNUM/STRH2SNUM reach the type "
                        "minimum through signed wrap-around (UB in ISO C); the parsed VALUE is compared in every build instead",
                        "cvt_bin2hex of an empty input yields \"00\" by documented convention and cvt_hex2bin refuses empty "
                        "input, so the empty string is outside the hex round-trip corpus",
                        "size_t/ssize_t are 64-bit (LP64 build host)",
                        "a sanitizer/signal death of the driver on a generated case is reported as a violation of the function the case "
                        "calls; after %d deaths per key base (and integer type) the rest of that base is not run in that build" % CRASH_CAP]
