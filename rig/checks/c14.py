"""C14 - encoders/decoders are mutual inverses and agree with their standards (mode B).
TLC enumerates the corpus from generator specs and computes every expectation from the TLA+ reference;
the real functions (ASan build, exact-size buffers) must return exactly that."""
from rig import common
from rig.common import hexs, unhex, kv

def base64_part(ctx, exe):
    cfg = "GenBase64.cfg" if ctx.quick else "GenBase64_thorough.cfg"
    r = common.tlc("GenBase64", cfg=cfg, workers=1, coverage=True, timeout=1200)
    ctx.tlc_stats(r, "GenBase64/" + cfg)
    if r.rc != 0:
        raise common.Infra("reference algebra failed inside TLC (spec bug, not a code verdict): %s\n%s" % (r.violation, r.out[-2000:]))
    cases = common.tlc_printed_json(r.out)
    if len(cases) != r.distinct:
        raise common.Infra("corpus emission lost cases: %d printed vs %d distinct" % (len(cases), r.distinct))
    lines = []; meta = []
    for c in cases:
        src = bytes(c["in"]); enc = bytes(c["enc"])
        lines.append("b64enc %s %d" % (hexs(src), len(enc) + 1)); meta.append(("enc", src, enc))
        lines.append("b64dec %s %d" % (hexs(enc), len(enc) + 4)); meta.append(("dec", enc, src))
        junk = b"\n" + enc[:2] + b" \r" + enc[2:] + b"\t"
        lines.append("b64decfmt %s %d" % (hexs(junk), len(junk) + 4)); meta.append(("decfmt", junk, src))
    res = common.batch_run(exe, lines)
    nontriv = set()
    for ln, (kind, inp, exp), a in zip(lines, meta, res):
        ctx.add(evaluations=1)
        if isinstance(a, dict):
            k = a["crash"]; ctx.fail("base64:%s:%s:%s" % (kind, k[0], k[1]), a["raw"], {"case": ln}); continue
        op, f = kv(a)
        out = unhex(f["out"])
        if int(f["rc"]) != 0 or out != exp or int(f["n"]) != len(exp):
            ctx.fail("base64:%s:wrong-result" % kind, "case %s\nexpected %s\ngot %s" % (ln, hexs(exp), a), {"case": ln})
        if len(inp) > 0: nontriv.add((kind, inp))
    ctx.add(distinct_nontrivial=len(nontriv))
    ctx.add(samples=[{"op": "b64enc", "in": hexs(bytes(cases[7]["in"])), "expect": bytes(cases[7]["enc"]).decode()}])

def run(ctx):
    ctx.level = "exploration"
    d = common.scratch()
    exe = common.cc(["/verif/harness/codec_drv.c"], d + "/codec", compiler="clang", san="asan", hooks=False)
    base64_part(ctx, exe)
    ctx.cov["rule"] = ("cases are the reachable states of the generator specs (all byte strings up to the configured "
                       "length over boundary bytes); non-trivial = non-empty input; distinct by (operation, input)")
    ctx.assumptions += ["TLA+ reference modules under specs/text are the oracle (RFC 4648 etc.)",
                        "memory accesses are observed by ASan/UBSan on exact-size heap blocks"]
