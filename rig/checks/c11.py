"""C11 - pool life cycle: no deadlock, leak, late callback or double hook
(model checking of the teardown protocol + trace validation of life-cycle scenarios with a resource
ledger and every single-fault create path)."""
import random, json, os, re, glob
from rig import common, tp
from rig.checks import c05, c10

KEEP = c10.KEEP | tp.LIFE_EVENTS

def life_scenario(rng, sid, big=False):
    """one pool life with a random order/timing of shutdown, wait, destroy and pending work"""
    n = rng.choice([1, 2, 3, 4, 8, 16] if big else [1, 2, 2, 3, 4])
    L = ["m pool %d %d" % (n, 4096 if rng.random() < 0.5 else 0)]
    skip = 1 if (n > 1 and rng.random() < 0.2) else 0
    L += ["m start %d" % skip]
    if rng.random() < 0.8: L.append("m waitrun")          # else: shutdown may race with starting threads
    mid = [(sid % 400) * 100 + 1]
    def nid():
        mid[0] += 1; return mid[0] - 1
    live = list(range(skip, n))
    # pending work
    senders = []
    if rng.random() < 0.7:
        for k in (1, 2)[:rng.randint(1, 2)]:
            a = "e%d" % k; senders.append(a)
            for _ in range(rng.randint(3, 40)):
                L.append("%s send %d %d %d" % (a, rng.choice(live + [n]), rng.choice([0, 0, 4, 2]), nid()))
    mode = rng.choice(["outside", "outside", "inside", "twice", "concurrent", "destroy-only", "inside-guard"])
    for a in senders: L.append("m spawn %s" % a)
    if rng.random() < 0.5:
        for a in senders: L.append("m join %s" % a)
        senders = []
    if mode == "outside":
        L += ["m shutdown"]
    elif mode == "inside":
        w = rng.choice(live); L += ["w%d shutdown" % w, "m spawn w%d" % w, "m join w%d" % w]
    elif mode == "twice":
        L += ["m shutdown", "m shutdown"]
    elif mode == "concurrent":
        L += ["e7 shutdown", "e8 shutdown", "m spawn e7", "m spawn e8", "m shutdown", "m join e7", "m join e8"]
    elif mode == "inside-guard":
        w = rng.choice(live)
        L += ["w%d shutdown_wait" % w, "w%d destroy" % w, "w%d shutdown" % w, "w%d shutdown_wait" % w, "w%d destroy" % w,
              "m spawn w%d" % w, "m join w%d" % w]
    for a in senders: L.append("m join %s" % a)
    if rng.random() < 0.5: L.append("m sleep %d" % rng.choice([0, 50, 500, 5000]))
    if mode != "destroy-only" and rng.random() < 0.7: L.append("m shutdown_wait")
    L += ["m destroy", "m reset"]
    return "\n".join(L) + "\n"

def special_scenarios(rng):
    """directed life-cycle shapes the random generator reaches only by luck"""
    out = []
    # shutdown while the workers are still between pthread_create and state = RUNNING (held at hook proc.enter)
    for n in (1, 3):
        out.append(("shutdown-while-starting:%d" % n,
                    "m watchdog 8\nm pool %d 0\nm delay proc.enter -1 -999 4000 -1\nm start 0\nm shutdown\nm nodelay\nm shutdown_wait\nm destroy\nm watchdog 30\nm reset\n" % n))
    # worker 0 runs on the caller's own thread (tp_thread_attach_first); the pool is shut down from inside,
    # afterwards the SAME caller waits and destroys: it is an outside thread again
    for n in (1, 2, 4):
        L = ["m watchdog 10", "m pool %d 0" % n, "m start 1", "m waitrun"]
        if n > 1:
            L += ["w1 sleep 3000", "w1 send 0 0 %d" % (7000 + n), "w1 shutdown", "m spawn w1"]
        else:
            L += ["e1 sleep 5000", "e1 shutdown", "m spawn e1"]
        L += ["m attach_first"]
        if n == 1: L += ["m join e1"]
        L += ["m shutdown_wait", "m destroy", "m watchdog 30", "m reset"]
        out.append(("attach-first:%d" % n, "\n".join(L) + "\n"))
    # descriptor 0 is free when the pool is created (a daemon that closed stdin): the pool's first descriptor IS 0
    for n in (1, 2):
        out.append(("fd0-free:%d" % n,
                    "m closefd0\nm pool %d 0\nm start 0\nm waitrun\nm send 0 0 77\nm quiesce\nm shutdown\nm sleep 20000\nm shutdown_wait\nm destroy\nm openfd0\nm reset\n" % n))
    # ... and the single-fault create paths in that environment
    out.append(("fd0-free-faults", "m closefd0\n" + "".join("m fault %s %d 24\nm pool 2 0\nm reset\n" % (kind, k)
                for kind in ("pipe2", "epoll_create1", "epoll_ctl") for k in (1, 2, 3)) + "m openfd0\n"))
    # the documented default "threads_max = 0": one worker per CPU. The count the scenario expects comes from the driver's own
    # sysconf(), the specification demands that the pool reports it and that create/destroy balance for that many threads
    out.append(("auto-thread-count", "m watchdog 20\nm pool 0 0\nm start 0\nm waitrun\nm send 1 0 77\nm bsend 512 78\nm quiesce\nm shutdown\nm sleep 20000\nm shutdown_wait\nm destroy\nm watchdog 30\nm reset\n"))
    return out

def fault_scenarios(nthr):
    """every k-th acquisition of every kind fails during tp_create / tp_threads_create"""
    out = []
    counts = {"calloc": nthr + 2, "epoll_create1": nthr + 1, "pipe2": nthr + 1, "epoll_ctl": 2 * nthr + 1}
    for kind, cnt in counts.items():
        for k in range(1, cnt + 1):
            out.append(("create:%s:%d" % (kind, k),
                        "m fault %s %d %d\nm pool %d 0\nm reset\n" % (kind, k, 12 if kind == "calloc" else 24, nthr)))
    for k in range(1, nthr + 1):
        out.append(("threads_create:pthread_create:%d" % k,
                    "m pool %d 0\nm fault pthread_create %d 1\nm start 0\nm waitrun\n%sm quiesce\nm shutdown\nm sleep 20000\nm shutdown_wait\nm destroy\nm reset\n"
                    % (nthr, k, ("m send %d 0 7\n" % nthr) if nthr > 1 else "")))
    return out

def full_pipe_scenario():
    """shutdown while a worker's queue is full: the shutdown message cannot be queued"""
    L = ["m watchdog 4", "m pool 2 4096", "m start 0", "m waitrun", "w1 block 0", "m spawn w1", "m sleep 3000"]
    for k in range(140): L.append("m send 1 0 %d" % (5000 + k))
    L += ["m shutdown", "m open 0", "m join w1", "m shutdown_wait", "m destroy", "m reset"]
    return "\n".join(L) + "\n"

def prep(evs):
    evs = tp.rename_pvt(evs)
    if not evs or evs[-1]["e"] != "Reset": evs = evs + [{"e": "Reset", "n": 0, "t": 100}]
    return evs

def check_trace(ctx, evs, d, tag, what, replay):
    crashed = [e for e in evs if e["e"] in ("Crash", "Hang")]
    if crashed:   # nothing after a crash/hang is meaningful: validate up to it
        k = evs.index(crashed[0]); evs = evs[:k + 1]
    ok, info, r = tp.validate(ctx, prep(evs), d, tag, KEEP)
    for dv in tp.deviations("C11", r.out):
        ctx.fail("deviation:" + dv, "named deviation action of TpLife/TpBcast taken in scenario %s" % what, replay)
    return ok, info

def run(ctx):
    ctx.level = "model_checking"
    d = common.scratch()
    rng = random.Random(ctx.seed * 15485863 + 3)
    # ---- 1. design: teardown protocol
    cfgs = sorted(os.path.basename(f) for f in glob.glob(os.path.join(common.VERIF, "specs", "tp", "MC_TpLife_*.cfg")))
    if ctx.quick: cfgs = [c for c in cfgs if "_big" not in c]
    for cfg in cfgs:
        r = common.tlc("MC_TpLife", cfg=cfg, workers=4, timeout=900)
        ctx.tlc_stats(r, cfg)
        if "_orig" in cfg:
            if r.rc == 0: raise common.Infra("vacuity: %s (model of the unchanged teardown) no longer shows its known violation" % cfg)
        elif r.rc != 0:
            ctx.fail("model:TpLife:%s:%s" % (cfg, r.violation or "error"), r.out[-3000:], {"cfg": cfg})
    exe = tp.build(d)
    ntr = 0; total_ev = 0; samples = []
    # ---- 2. every single-fault create path (fault enumeration), ledger must return to zero
    sizes = [1, 3] if ctx.quick else [1, 2, 3, 4, 8]
    for nthr in sizes:
        fs = fault_scenarios(nthr)
        text = "".join(t for _, t in fs)
        rc, out, evs = tp.run_scenario(exe, text, d, ctx.seed, "c11f_%d" % nthr, timeout=300)
        if rc not in (0, 3, 4): raise common.Infra("tp_drv rc=%s\n%s" % (rc, out[-1500:]))
        ok, info = check_trace(ctx, evs, d, "c11f_%d" % nthr, "fault sweep nthr=%d" % nthr, {"scenario": text})
        ntr += len(fs); total_ev += info["events"]; ctx.add(fault_positions=len(fs))
        if not ok:
            ev = (info.get("context") or [{}])[-1]
            ctx.fail("trace:TpLife:faults:rejected-at:%s" % ev.get("e"), json.dumps(info, indent=1)[:4000], {"scenario": text})
    # ---- 3. life-cycle scenarios
    nsc = 30 if ctx.quick else 500
    per = 5
    sid = 0
    while sid < nsc:
        texts = []
        for _ in range(per):
            sid += 1; texts.append(life_scenario(rng, sid, big=(not ctx.quick) or sid % 5 == 0))
        text = "".join(texts)
        rc, out, evs = tp.run_scenario(exe, text, d, ctx.seed + sid, "c11_%d" % sid, timeout=300)
        if rc not in (0, 3, 4): raise common.Infra("tp_drv rc=%s\n%s" % (rc, out[-1500:]))
        ok, info = check_trace(ctx, evs, d, "c11_%d" % sid, "life cycle batch %d" % sid, {"scenario": text, "seed": ctx.seed + sid})
        ntr += per; total_ev += info["events"]
        if not samples: samples.append({"scenario": texts[0].split("\n")[:16], "events_validated": info["events"]})
        if not ok:
            ev = (info.get("context") or [{}])[-1]
            rc2, out2, evs2 = tp.run_scenario(exe, text, d, ctx.seed + sid, "c11r_%d" % sid, timeout=300)
            ok2, info2 = check_trace(ctx, evs2, d, "c11r_%d" % sid, "re-run", {"scenario": text})
            ev2 = (info2.get("context") or [{}])[-1]
            if not ok2 and ev2.get("e") == ev.get("e"):
                ctx.fail("trace:TpLife:rejected-at:%s" % ev.get("e"), json.dumps(info, indent=1)[:4000], {"scenario": text, "seed": ctx.seed + sid})
            else:
                ctx.log("rejection not reproduced on re-run (not reported): %s" % str(ev)[:300])
    # ---- 3b. directed shapes: shutdown racing thread start-up, borrowed first thread
    for name, text in special_scenarios(rng):
        rc, out, evs = tp.run_scenario(exe, text, d, ctx.seed, "c11_sp", timeout=120)
        if rc not in (0, 3, 4): raise common.Infra("tp_drv rc=%s\n%s" % (rc, out[-1500:]))
        ok, info = check_trace(ctx, evs, d, "c11_sp", name, {"scenario": text})
        ntr += 1; total_ev += info["events"]
        if not ok:
            ev = (info.get("context") or [{}])[-1]
            ctx.fail("trace:TpLife:%s:rejected-at:%s" % (name.split(":")[0], ev.get("e")), json.dumps(info, indent=1)[:4000], {"scenario": text})
    # ---- 4. shutdown against a full queue (termination)
    text = full_pipe_scenario()
    rc, out, evs = tp.run_scenario(exe, text, d, ctx.seed, "c11_full", timeout=60)
    ok, info = check_trace(ctx, evs, d, "c11_full", "shutdown with a full queue", {"scenario": text})
    ntr += 1; total_ev += info["events"]
    if not ok:
        ev = (info.get("context") or [{}])[-1]
        ctx.fail("trace:TpLife:fullpipe:rejected-at:%s" % ev.get("e"), json.dumps(info, indent=1)[:4000], {"scenario": text})
    ctx.add(traces_validated_against_impl=ntr, events_validated=total_ev, samples=samples)
    ctx.cov["rule"] = "scenario = one pool life: create, threads_create, pending messages, shutdown (outside / inside / twice / concurrent / implicit), shutdown_wait, destroy, in random order and timing; plus every k-th failing calloc/epoll_create1/pipe2/epoll_ctl/pthread_create; ledger of allocations, descriptors and threads compared at create failure and destroy"
    ctx.assumptions += ["resource ledger covers calloc/free, epoll/pipe/timerfd descriptors and pthread_create/join of the library code (link-time wrappers)",
                        "pthread_join of a zero thread id is intercepted and reported instead of crashing glibc"]
