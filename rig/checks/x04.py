"""X04 (growth task) - the retrying connector tp_task_connect_ex_create / _handler / _start (src/threadpool/threadpool_task.c).

Oracle: specs/grow/TpConnectEx.tla (a retry-and-timeout state machine shaped like the code; the stated properties
X04.1 .. X04.8 are in its header comment).  TLC decides everything:
  * model checking   MC_TpConnectEx: every parameter combination (<= 3 addresses, max_tries 0..3, both flags, retry_delay,
                     timeout, time_limit, both task flags), every outcome of every attempt, every callback answer, stop /
                     destroy at every rest point and inside callbacks, the time limit running low / out; invariants =
                     the clauses; liveness (termination, no rest without a final report); reachability; and the two
                     known defects switched on in the model (TLC must find the violated clause).
  * binding          harness/x04_drv.c runs the real connector on a real pool thread.  Link-time wrappers around
                     socket / connect / close / getsockopt(SO_ERROR) / epoll_ctl / timerfd_create / timerfd_settime /
                     clock_gettime make the outcome of each attempt a scenario input (immediate success, in progress
                     then success, refused via SO_ERROR, timeout = the shortened task timer fires, immediate errno,
                     socket() failure, registration failure, a held attempt / pause for stop and destroy, clock jumps
                     for the time limit) and log every attempt (address index, socket), every timer programming (ms),
                     every callback (error, address index, socket) and every close as ndjson.  TLC validates each trace
                     against TraceTpConnectEx: ORDER and COUNT only, never wall-clock values; all waits are bounded.
Python draws the scenarios, shuttles files and turns TLC's notes into keyed findings."""
import json, os, random, re
from concurrent.futures import ThreadPoolExecutor
from rig import common

DRV = os.path.join(common.VERIF, "harness", "x04_drv.c")
WRAPS = "socket,connect,close,getsockopt,epoll_ctl,timerfd_create,timerfd_settime,clock_gettime"
EXTRA = ["src/net/socket.c", "src/net/socket_address.c", "src/net/socket_options.c", "src/utils/sys.c"]
TL, RD_TL, RD, TMO = 600000, 200000, 300, 7000

def build(d, san=None):
    return common.cc([DRV] + EXTRA, os.path.join(d, "x04_drv" + ("_" + san if san else "")),
                     compiler="clang" if san else "gcc", san=san,
                     flags=["-Wno-unused-function", "-Wno-unused-variable", "-Wno-unused-parameter",
                            "-Wl," + ",".join("--wrap=" + w for w in WRAPS.split(","))])

def run_driver(exe, lines, d, tag, timeout=600):
    sc = os.path.join(d, "sc_%s.txt" % tag); tr = os.path.join(d, "tr_%s.ndjson" % tag)
    open(sc, "w").write("\n".join(lines) + "\n")
    if os.path.exists(tr): os.remove(tr)
    rc, out = common.sh([exe, sc, tr], timeout=timeout,
                        env={"ASAN_OPTIONS": "detect_leaks=0:abort_on_error=0", "UBSAN_OPTIONS": "print_stacktrace=1:halt_on_error=1"})
    evs = []
    if os.path.exists(tr):
        for ln in open(tr):
            try: evs.append(json.loads(ln))
            except Exception: pass
    return rc, out, evs

# ------------------------------------------------------------------ scenarios (one connector life each)
def scn(rng, deep):
    """-> (kind, scenario line).  Only INPUTS are drawn here; what must happen is TLC's business."""
    kind = rng.choice(["walk", "walk", "walk", "decline", "limit", "limit", "hold-pause", "hold-pause", "hold-attempt", "faults", "faults",
                       "cb-ops", "invalid", "success"])
    n = rng.choice([1, 2, 2, 3]); mt = rng.choice([0, 1, 2, 2, 3]) if deep else rng.choice([0, 1, 2, 2])
    rr = rng.randint(0, 1); every = rng.randint(0, 1); cod = rng.randint(0, 1)
    tl = TL if (kind == "limit" or rng.random() < 0.15) else 0
    tmo = TMO if (tl or rng.random() < 0.6) else 0
    rd = rng.choice([0, RD_TL if tl else RD, RD_TL if tl else RD])
    idelay = 1 if (rd and rng.random() < 0.3) else 0
    total = (mt if mt else 2) * n
    late = ["R111", "R113", "P", "S"] + (["T", "T"] if tmo else [])
    fails = ["R111", "R111", "R113"] + (["T", "T"] if tmo else [])
    plan = []; dplan = []; fpol = []; finpol = "N"; owner = "none"; release = 0
    ln = rng.randint(1, total + 2)
    if kind == "success":
        ln = rng.randint(1, total)
    for i in range(ln): plan.append(rng.choice(fails))
    if kind in ("walk", "success", "decline", "cb-ops") and rng.random() < (1.0 if kind == "success" else 0.5):
        plan[rng.randrange(len(plan))] = rng.choice(["S", "P"])
    if kind == "faults":
        for i in range(len(plan)):
            if rng.random() < 0.6: plan[i] = rng.choice(["I101", "I111", "I99", "K24", "K23", "A12", "A28", "I4"])
        if rng.random() < 0.4: plan.append(rng.choice(["S", "P"]))
    if kind == "decline":
        every = 1
        k = rng.randint(0, max(0, len(plan) - 1))
        fpol = ["C"] * k + [rng.choice(["N", "E", "X"])]
    if kind == "cb-ops":
        every = rng.choice([1, 1, 0])
        k = rng.randint(0, max(0, len(plan) - 1))
        fpol = ["C"] * k + [rng.choice(["sN", "DN", "N"])] if rng.random() < 0.6 else []
        finpol = rng.choice(["N", "DN", "sN", "C"])
    if kind == "limit":
        k = rng.randrange(len(plan))
        plan[k] = plan[k] + rng.choice(["+X", "+X", "+L"] if rd else ["+X"])
    if kind == "hold-pause":
        if not rd: rd = RD_TL if tl else RD
        if rng.random() < 0.5: tmo = 0 if not tl else tmo
        if not tmo: plan = [p for p in plan if not p.startswith("T")] or ["R111"]
        if rng.random() < 0.4: idelay = 1
        dplan = ["x"] * rng.randint(0, 2) + ["h"]
        owner = rng.choice(["stop", "stop", "destroy", "destroy", "none"]); release = rng.randint(0, 1)
        plan = [p for p in plan if p[0] not in "SP"]
        plan += [rng.choice(fails if tmo else ["R111", "R113"]) for _ in range(6)]
    if kind == "hold-attempt":
        k = rng.randrange(len(plan)); plan = plan[:k] + ["H"]
        owner = rng.choice(["stop", "destroy", "destroy", "none"])
    if kind == "invalid":
        what = rng.choice(["idelay-rd0", "tl-tmo0", "tl-tmo-ge", "tl-rd-ge"])
        if what == "idelay-rd0": idelay, rd = 1, 0
        elif what == "tl-tmo0": tl, tmo = TL, 0
        elif what == "tl-tmo-ge": tl, tmo = 5000, rng.choice([5000, 7000])
        else: tl, tmo, rd = TL, TMO, rng.choice([TL, TL + 1])
    if rd == 0: idelay = idelay if kind == "invalid" else 0
    line = "scn n=%d mt=%d rr=%d idelay=%d rd=%d tmo=%d tl=%d every=%d cod=%d plan=%s" % (n, mt, rr, idelay, rd, tmo, tl, every, cod, ",".join(plan))
    if dplan: line += " dplan=" + ",".join(dplan)
    if fpol: line += " fpol=" + ",".join(fpol)
    line += " finpol=%s owner=%s release=%d" % (finpol, owner, release)
    return kind, line

FIXED = [   # every batch starts with these lives (each clause is exercised at least once per batch)
    ("walk", "scn n=2 mt=2 rr=1 idelay=0 rd=300 tmo=7000 tl=0 every=1 cod=0 plan=R111,T,R113,P fpol=C finpol=N owner=none release=0"),
    ("walk", "scn n=3 mt=2 rr=0 idelay=1 rd=300 tmo=7000 tl=0 every=0 cod=1 plan=T,R111,R111,T,R113,S finpol=N owner=none release=0"),
    ("walk", "scn n=2 mt=2 rr=0 idelay=0 rd=0 tmo=0 tl=0 every=1 cod=0 plan=R111,R111,R111,R111 fpol=C finpol=N owner=none release=0"),
    ("walk", "scn n=3 mt=1 rr=1 idelay=0 rd=300 tmo=7000 tl=0 every=1 cod=0 plan=R111,T,R111 fpol=C finpol=N owner=none release=0"),
    ("limit", "scn n=2 mt=0 rr=0 idelay=0 rd=200000 tmo=7000 tl=600000 every=1 cod=0 plan=R111,T,R111+X fpol=C finpol=N owner=none release=0"),
    ("limit", "scn n=1 mt=3 rr=0 idelay=0 rd=200000 tmo=7000 tl=600000 every=0 cod=0 plan=T+L,R111 finpol=N owner=none release=0"),
    ("hold-pause", "scn n=1 mt=3 rr=0 idelay=0 rd=300 tmo=0 tl=0 every=0 cod=0 plan=R111,R111,R111 dplan=h finpol=N owner=stop release=1"),
    ("hold-pause", "scn n=1 mt=3 rr=0 idelay=1 rd=300 tmo=0 tl=0 every=1 cod=1 plan=R111,R111,R111 dplan=h fpol=C finpol=N owner=destroy release=0"),
    ("hold-pause", "scn n=2 mt=2 rr=1 idelay=0 rd=300 tmo=7000 tl=0 every=1 cod=1 plan=T,R111,R111 dplan=h fpol=C finpol=N owner=stop release=1"),
    ("hold-pause", "scn n=1 mt=2 rr=1 idelay=0 rd=300 tmo=0 tl=0 every=0 cod=0 plan=R111,S dplan=x finpol=N owner=none release=0"),
    ("hold-attempt", "scn n=2 mt=2 rr=1 idelay=0 rd=300 tmo=7000 tl=0 every=0 cod=1 plan=R111,H finpol=N owner=destroy release=0"),
    ("hold-attempt", "scn n=2 mt=2 rr=1 idelay=0 rd=0 tmo=0 tl=0 every=0 cod=0 plan=H finpol=N owner=stop release=0"),
    ("faults", "scn n=2 mt=2 rr=1 idelay=0 rd=300 tmo=7000 tl=0 every=1 cod=0 plan=I101,K24,A12,R111 fpol=C finpol=N owner=none release=0"),
    ("faults", "scn n=2 mt=1 rr=0 idelay=0 rd=0 tmo=7000 tl=0 every=1 cod=0 plan=I101,I101 fpol=C finpol=N owner=none release=0"),
    ("cb-ops", "scn n=2 mt=2 rr=1 idelay=0 rd=300 tmo=7000 tl=0 every=1 cod=1 plan=R111,P fpol=C finpol=DN owner=none release=0"),
    ("cb-ops", "scn n=2 mt=2 rr=1 idelay=0 rd=300 tmo=7000 tl=0 every=1 cod=0 plan=R111,T fpol=C,DN finpol=N owner=none release=0"),
    ("decline", "scn n=2 mt=2 rr=1 idelay=0 rd=300 tmo=7000 tl=0 every=1 cod=0 plan=R111,T fpol=C,N finpol=N owner=none release=0"),
    ("invalid", "scn n=1 mt=1 rr=0 idelay=1 rd=0 tmo=7000 tl=0 every=0 cod=0 plan=S finpol=N owner=none release=0"),
    ("success", "scn n=1 mt=1 rr=0 idelay=0 rd=0 tmo=0 tl=0 every=0 cod=0 plan=S finpol=N owner=none release=0"),
    ("faults", "scn n=1 mt=1 rr=0 idelay=0 rd=300 tmo=7000 tl=0 every=1 cod=0 plan=K24 finpol=N owner=none release=0"),
    ("faults", "scn n=2 mt=1 rr=1 idelay=0 rd=0 tmo=7000 tl=0 every=1 cod=0 plan=I101,I113 finpol=N owner=none release=0"),
]

def observed(evs):
    """what the real code went through (counting logged events; nothing is judged here)"""
    c = {}
    def inc(k): c[k] = c.get(k, 0) + 1
    last_cb = None; hold = False
    for e in evs:
        k = e["e"]
        if k == "cb.begin":
            last_cb = e; inc("report:success" if e["err"] == 0 else "report:giveup" if e["err"] == -1 else "report:failure")
        elif k == "cb.end" and last_cb is not None and last_cb["err"] not in (0, -1) and e["ret"] != 2: inc("retry-declined")
        elif k == "ret.create": inc("create:rc=%d" % e["rc"])
        elif k == "clock.jump": inc("clock:" + e["to"])
        elif k == "ret.stop": inc("stop")
        elif k == "ret.destroy": inc("destroy")
        elif k == "sys.connect": inc("attempt:" + e["plan"])
        elif k == "sys.socket" and e["rc"] != 0: inc("attempt:K")
        elif k == "tmr.set" and e["ms"] > 0: inc("timer:" + e["kind"])
        elif k == "loop.cb": inc("event:" + e["o"])
    return c

NEED = ["report:success", "report:giveup", "report:failure", "retry-declined", "create:rc=0", "create:rc=22", "create:rc=-1", "clock:low", "clock:expired",
        "stop", "destroy", "attempt:S", "attempt:P", "attempt:R", "attempt:T", "attempt:H", "attempt:I", "attempt:A", "attempt:K", "timer:pause", "timer:timeout",
        "event:io", "event:tmr"]

def gen_batch(rng, count, deep):
    tasks = list(FIXED)
    while len(tasks) < count: tasks.append(scn(rng, deep))
    return tasks

# ------------------------------------------------------------------ validation
def segments(evs):
    segs = []; cur = []
    for e in evs:
        if not cur and e["e"] == "loop.turn": continue
        cur.append(e)
        if e["e"] == "Reset": segs.append(cur); cur = []
    if cur: segs.append(cur + [{"e": "Reset", "seq": 0, "t": 100}])
    return segs

def tlc_validate(segs, d, tag):
    """-> (notes [(segment index, note, event)], rejected (segment index, event, context) or None, result)"""
    tr = os.path.join(d, "v_%s.ndjson" % tag)
    flat = [e for s in segs for e in s]
    open(tr, "w").write("".join(json.dumps(e) + "\n" for e in flat))
    r = common.tlc("TraceTpConnectEx", cfg="TraceTpConnectEx.cfg", workers=1, env={"TRACE": tr}, timeout=900, xmx="3g", xss="256m")
    starts = []; a = 0
    for s in segs: starts.append(a); a += len(s)
    def seg_of(line):
        i = 0
        while i + 1 < len(starts) and starts[i + 1] < line: i += 1
        return i
    notes = []
    for o in common.tlc_printed_json(r.out):
        if isinstance(o, dict) and "note" in o: notes.append((seg_of(o["line"]), o["note"], flat[o["line"] - 1]))
    rej = None
    if r.rc != 0:
        m = re.search(r'"REJECTED_AT_LINE",\s*(\d+)', r.out)
        if m:
            ln = int(m.group(1)); rej = (seg_of(ln), flat[ln - 1], flat[max(0, ln - 10):ln])
        elif r.violation and "Invariant" in r.violation:
            ln = min(r.depth or len(flat), len(flat)); rej = (seg_of(ln), {"e": "invariant:" + r.violation}, flat[max(0, ln - 10):ln])
        else:
            raise common.Infra("TraceTpConnectEx failed without a rejection line:\n" + r.out[-3000:])
    return notes, rej, r

def key_of(note):
    kind, rest = note.split(":", 1)
    return ("deviation:" if kind == "DEVIATION" else "connect_ex:") + rest

def crashed(rc, out, evs):
    c = [e for e in evs if e["e"] == "stuck"]
    if c: return "stuck:%s" % c[0].get("where")
    c = [e for e in evs if e["e"] == "Crash"]
    if c: return "sig%s" % c[0].get("sig")
    if rc != 0 and common.san_key(out):
        k = common.san_key(out); return "%s:%s" % (k[0], k[1])
    return None

def fault_key(cr):
    return ("connect_ex:Terminates:" + cr[6:]) if cr.startswith("stuck:") else "connect_ex:fault-in-library:%s" % cr

def report(ctx, exe, task, notes, rej, d, st):
    """a finding is reported only if the scenario alone shows it again (repeat before report); one report per key"""
    kind, line = task
    keys = sorted(set(notes))
    new = [n for n in keys if n not in st["seen"]]
    if rej is not None and "trace:TpConnectEx:rejected-at:%s" % rej[1].get("e") in st["seen"]: rej = None     # one report per key
    if not new and rej is None: return
    st["reruns"] += 1
    rc, out, evs = run_driver(exe, [line], d, "rerun%d" % st["reruns"])
    bad = [e for e in evs if e["e"] in ("Hang", "BadOp")]
    cr = crashed(rc, out, evs)
    if bad or (rc != 0 and not cr): raise common.Infra("x04_drv (re-run) rc=%s %s\n%s" % (rc, bad[:2], out[-1500:]))
    if cr:
        key = fault_key(cr)
        if key not in st["seen"]:
            st["seen"].add(key); ctx.fail(key, "scenario kind %s\n%s\n%s" % (kind, line, out[-2500:]), {"scenario": line})
        return
    notes2, rej2, _ = tlc_validate(segments(evs), d, "rerun%d" % st["reruns"])
    again = set(n for _, n, _ in notes2)
    hit = False
    for n in new:
        if n in again:
            hit = True; st["seen"].add(n)
            st["found"][n] = st["found"].get(n, 0) + 1
            ctx.fail(key_of(n), "scenario kind %s\n%s" % (kind, line), {"scenario": line, "note": n})
    if rej is not None and rej2 is not None and rej2[1].get("e") == rej[1].get("e"):
        hit = True
        key = "trace:TpConnectEx:rejected-at:%s" % rej[1].get("e")
        if key not in st["seen"]:
            st["seen"].add(key)
            ctx.fail(key, json.dumps({"event": rej[1], "context": rej[2]}, indent=1)[:3500] + "\nscenario kind %s\n%s" % (kind, line), {"scenario": line})
    if not hit: ctx.log("finding not reproduced on re-run (not reported): %s %s" % (new, rej[1] if rej else ""))

def validate_batch(ctx, exe, tasks, evs, d, tag, st):
    segs = segments(evs)
    if len(segs) != len(tasks): raise common.Infra("batch %s: %d segments for %d scenarios" % (tag, len(segs), len(tasks)))
    base = 0; todo = segs
    while todo:
        notes, rej, r = tlc_validate(todo, d, "%s_%d" % (tag, base))
        st["tlc_states"] += r.distinct; st["tlc_wall"] += r.wall
        upto = len(todo) if rej is None else rej[0]
        st["events"] += sum(len(todo[i]) for i in range(upto))
        per = {}
        for si, note, ev in notes:
            if rej is not None and si > rej[0]: continue
            per.setdefault(si, []).append(note)
            st["notes"][note] = st["notes"].get(note, 0) + 1
        for si, lst in sorted(per.items()):
            if rej is not None and si == rej[0]: continue
            report(ctx, exe, tasks[base + si], lst, None, d, st)
        if rej is None:
            st["traces"] += len(todo); break
        st["traces"] += rej[0]
        report(ctx, exe, tasks[base + rej[0]], per.get(rej[0], []), rej, d, st)
        base += rej[0] + 1; todo = todo[rej[0] + 1:]
        st["rejections"] = st.get("rejections", 0) + 1
        if st["rejections"] >= 12 and todo:      # the verdict is there; bound the work on a tree that is broken everywhere
            ctx.log("validation stopped after %d rejected traces (%d traces of batch %s not looked at)" % (st["rejections"], len(todo), tag)); break

def process_batch(ctx, exe, tasks, res, d, tag, st, depth=0):
    rc, out, evs = res
    bad = [e for e in evs if e["e"] in ("Hang", "BadOp")]
    cr = crashed(rc, out, evs)
    if bad or (rc != 0 and not cr): raise common.Infra("x04_drv batch %s rc=%s %s\n%s" % (tag, rc, bad[:2], out[-1500:]))
    aborted = any(e["e"] == "aborted" for e in evs)
    nreset = sum(1 for e in evs if e["e"] == "Reset")
    if not cr and not aborted:
        validate_batch(ctx, exe, tasks, evs, d, tag, st); return
    last = max([i for i, e in enumerate(evs) if e["e"] == "Reset"], default=-1)
    if nreset: validate_batch(ctx, exe, tasks[:nreset], evs[:last + 1], d, tag + "p", st)
    if cr and nreset < len(tasks):
        culprit = tasks[nreset]
        st["reruns"] += 1
        rc2, out2, evs2 = run_driver(exe, [culprit[1]], d, "crash%d" % st["reruns"])
        cr2 = crashed(rc2, out2, evs2)
        if cr2:
            key = fault_key(cr2)
            if key not in st["seen"]:
                st["seen"].add(key)
                ctx.fail(key, "the driver died inside the library while running this connector life (twice)\nscenario kind %s\n%s\n%s" %
                         (culprit[0], culprit[1], out2[-2000:]), {"scenario": culprit[1]})
        else:
            ctx.log("fault not reproduced on re-run (not reported): %s" % cr)
        rest = tasks[nreset + 1:]
        st["faults"] = st.get("faults", 0) + 1
        if rest and st["faults"] >= 3:
            ctx.log("the driver died three times inside the library: %d scenarios of batch %s not run" % (len(rest), tag))
        elif rest and depth < 4:
            res2 = run_driver(exe, [t[1] for t in rest], d, tag + "r%d" % depth)
            process_batch(ctx, exe, rest, res2, d, tag + "r%d" % depth, st, depth + 1)
    elif aborted:
        ctx.log("batch %s stopped after three stalled scenarios (%d of %d run)" % (tag, nreset, len(tasks)))

def selftest(ctx, segs, d):
    """the trace spec must notice a tampered log: a changed address index in a report, a dropped close, a wrong timer value,
    a second final report"""
    seg = None
    for s_ in segs:
        if (any(e["e"] == "cb.begin" and e["err"] not in (0, -1) for e in s_) and any(e["e"] == "tmr.set" and e["ms"] > 0 for e in s_)
                and any(e["e"] == "sys.close" for e in s_) and any(e["e"] == "cb.begin" and e["err"] in (0, -1) for e in s_)):
            notes, rej, _ = tlc_validate([s_], d, "self_base")
            if rej is None and not notes: seg = s_; break
    if seg is None: return 0
    def tamper(kind):
        out = [dict(e) for e in seg]
        def first(pred):
            for i, e in enumerate(out):
                if pred(e): return i
            return None
        failrep = lambda e: e["e"] == "cb.begin" and e["err"] not in (0, -1)
        if kind == "ai": i = first(failrep); out[i]["ai"] += 1
        elif kind == "err": i = first(failrep); out[i]["err"] += 1
        elif kind == "close": i = first(lambda e: e["e"] == "sys.close"); del out[i]
        elif kind == "ms": i = first(lambda e: e["e"] == "tmr.set" and e["ms"] > 0); out[i]["ms"] += 1
        elif kind == "addr": i = first(lambda e: e["e"] == "sys.connect"); out[i]["ai"] += 1
        elif kind == "final2":
            i = first(lambda e: e["e"] == "cb.begin" and e["err"] in (0, -1))
            j = i + 1
            while out[j]["e"] != "cb.end": j += 1
            out[j + 1:j + 1] = [dict(out[i]), dict(out[j])]
        return out
    n = 0
    for kind in ("ai", "err", "close", "ms", "addr", "final2"):
        t = tamper(kind)
        notes, rej, r = tlc_validate([t], d, "self_" + kind)
        if rej is None and not any(x[1].startswith("PROPERTY") for x in notes):
            raise common.Infra("selftest: a tampered trace (%s) was accepted without a finding" % kind)
        n += 1
    return n

# ------------------------------------------------------------------ the model
def cfg_variant(name, sub, inv=None, props=None, base="MC_TpConnectEx.cfg"):
    ws = common.tlc_workspace()
    cfg = open(os.path.join(ws, base)).read()
    for a, b in sub.items(): cfg = re.sub(r"%s = .*" % a, "%s = %s" % (a, b), cfg)
    if inv is not None: cfg = re.sub(r"INVARIANTS.*", ("INVARIANTS " + inv) if inv else "", cfg)
    if props: cfg += "\nPROPERTIES " + props + "\n"
    open(os.path.join(ws, name + ".cfg"), "w").write(cfg)
    return name + ".cfg"

def model(ctx):
    big = not ctx.quick
    r = common.tlc("MC_TpConnectEx", cfg="MC_TpConnectEx_big.cfg" if big else "MC_TpConnectEx.cfg", workers=4, timeout=1500, xmx="8g")
    ctx.tlc_stats(r, "MC_TpConnectEx" + ("_big" if big else ""))
    if r.rc != 0: ctx.fail("model:TpConnectEx:" + (r.violation or "error"), r.out[-3000:], {})
    # liveness: termination under fairness, rest without final report only by declining
    for i, (ns, mts) in enumerate([("{1, 2, 3}", "{1, 2}"), ("{1, 2}", "{3}")] if big else [("{1, 2}", "{1, 2}")]):
        live = cfg_variant("MC_TpConnectEx_live%d" % i, {"OwnerOps": "FALSE", "Mts": mts, "Ns": ns, "MaxAtt": "9"}, inv="", props="Terminates IdleOnlyByDeclining")
        r = common.tlc("MC_TpConnectEx", cfg=live, workers=4, timeout=1500, xmx="8g")
        ctx.tlc_stats(r, "MC_TpConnectEx_live Ns=%s Mts=%s" % (ns, mts))
        if r.rc != 0: ctx.fail("model:TpConnectEx:liveness:" + (r.violation or "error"), r.out[-3000:], {})
    # vacuity: the interesting ends are reachable
    for inv in ("ReachSuccessOnLast", "ReachGiveUpByLimit", "ReachGiveUpLow", "ReachDestroyInPause"):
        rr = common.tlc("MC_TpConnectEx", cfg=cfg_variant("MC_TpConnectEx_" + inv, {}, inv=inv), workers=2, timeout=600)
        if rr.rc != 12: raise common.Infra("vacuity: %s is not reachable in MC_TpConnectEx (rc=%s)" % (inv, rr.rc))
    # the known defects, switched on in the model, violate the clauses (the properties can see them)
    sens = []
    for name, sub, inv, props in (("dev_reset_schedule", {"DevReset": "TRUE", "OwnerOps": "FALSE"}, "Schedule", None),
                                  ("dev_reset_finding", {"DevReset": "TRUE", "OwnerOps": "FALSE"}, "NoFinding", None),
                                  ("dev_reset_live", {"DevReset": "TRUE", "OwnerOps": "FALSE", "Mts": "{2}", "Ns": "{2}"}, "", "Terminates"),
                                  ("dev_stop_finding", {"DevStop": "TRUE"}, "NoFinding", None)):
        rr = common.tlc("MC_TpConnectEx", cfg=cfg_variant("MC_TpConnectEx_" + name, sub, inv=inv, props=props), workers=2, timeout=600)
        if rr.rc not in (12, 13): raise common.Infra("sensitivity: the model with %s does not violate %s (rc=%s)" % (sub, inv or props, rr.rc))
        sens.append(name)
    ctx.add(model_defect_variants_violating=sens)

def run(ctx):
    ctx.level = "model_checking"
    d = common.scratch("lcbv-x04-")
    rng = random.Random(ctx.seed * 7919 + 4)
    model(ctx)
    builds = [None] if ctx.quick else [None, "asan"]
    exes = {b: build(d, b) for b in builds}
    nb, per = (5, 160) if ctx.quick else (24, 250)
    st = {"traces": 0, "events": 0, "tlc_states": 0, "tlc_wall": 0.0, "reruns": 0, "seen": set(), "found": {}, "notes": {}}
    jobs = [(b, gen_batch(rng, per, deep=not ctx.quick), builds[b % len(builds)]) for b in range(nb)]
    def runit(j):
        b, tasks, bld = j
        return j, run_driver(exes[bld], [t[1] for t in tasks], d, "b%d" % b)
    with ThreadPoolExecutor(max_workers=3) as ex:
        results = list(ex.map(runit, jobs))
    kinds = {}
    def proc(x):
        (b, tasks, bld), res = x
        process_batch(ctx, exes[bld], tasks, res, d, "b%d" % b, st)
    for x in results: proc(x)
    for (b, tasks, bld), res in results:
        for name, _ in tasks: kinds[name] = kinds.get(name, 0) + 1
    obs = {}
    for _, res in results:
        for k, v in observed(res[2]).items(): obs[k] = obs.get(k, 0) + v
    missing = [k for k in NEED if not obs.get(k)]
    complete = all(res[0] == 0 and not any(e["e"] == "aborted" for e in res[2]) for _, res in results)
    if missing and complete: raise common.Infra("vacuity: the real code never went through %s" % missing)
    ctx.add(observed_in_traces=obs)
    res0 = results[0][1]
    if res0[0] == 0: ctx.add(selftests_tampered_traces_rejected=selftest(ctx, segments(res0[2]), d))
    ctx.add(traces_validated_against_impl=st["traces"], events_validated=st["events"], evaluations=st["traces"],
            distinct_nontrivial=st["traces"], scenario_kinds=kinds, builds=[b or "gcc-O1" for b in builds],
            trace_tlc_states=st["tlc_states"], reruns=st["reruns"], notes_seen=st["notes"],
            samples=[{"scenario": jobs[0][1][0][1]}, {"scenario": jobs[0][1][len(FIXED)][1] if len(jobs[0][1]) > len(FIXED) else None}])
    ctx.cov["rule"] = ("one trace = one connector life (create .. destroy); every logged event (socket, connect with the decoded address index, "
                       "epoll_ctl of the socket, timerfd_settime ms, close, SO_ERROR, loop delivery, callback error/index/socket, return code, "
                       "stop/destroy with the timer state seen by the wrappers) is one step of TpConnectEx evaluated by TLC; non-trivial = every trace")
    ctx.assumptions += ["epoll back end on Linux; the outcome of an attempt (refused, timed out, connected, immediate errno) is environment and is chosen by the scenario through link-time wrappers",
                        "time passes only during attempts (clock jumps are injected in connect()); timers fire as programmed (a pause scheduled within the limit ends within it)",
                        "all API calls are made on the task's pool thread; a callback that stopped/destroyed the task does not return CONTINUE",
                        "not exercised: failure of timerfd_create / of arming the pause timer, IPv6 addresses, kqueue back end, tp_task_restart()/tp_task_enable() on a connector, addrs_count = 0"]
