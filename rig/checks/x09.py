"""X09 (growth task) - three small stateful objects nothing specified before:
  (a) the SAP (RFC 2974) announcement receiver src/proto/sap_rcvr.c on top of the data cache      specs/grow/SapRcvr.tla
  (b) the host name list include/net/hostname_list.h                                               specs/grow/HostNames.tla
  (c) the host address object include/net/host_address.h                                           specs/grow/HostAddr.tla
The stated properties SR1..SR8 / HN1..HN6 / HA1..HA6 are in the header comments of the three modules.  TLC decides everything:
  * model checking   MC_HostNames, MC_HostAddr, MC_SapRcvr (exhaustive, small constants, postconditions of every call in
                     every reachable state); the same models with a deviation of the shipped code switched on must
                     violate the postcondition that names it (negative controls);
  * binding          (i) random walks OUT of the three MC models (simulation, Emit) and (ii) random histories made by the
                     rig are executed call by call on the real code by harness/x09_drv.c (ASan + UBSan, exact accounting of
                     the blocks and descriptors the library owns, allocation failure at every allocation, scripted
                     getaddrinfo, logical clock; the SAP receiver runs in process on the real thread pool and gets its
                     datagrams through its real UDP socket); every line the driver writes (arguments, results, projection
                     of the private state of ALL objects) is validated by TLC against Trace_HostNames / Trace_HostAddr /
                     Trace_SapRcvr.  A line that only a named deviation explains is a keyed finding and the validation
                     goes on; any other difference is a conformance violation;
  * probes           the call shapes on which the shipped code leaves its buffers run in processes of their own
                     (host_addr_clone, 4096-octet datagram, long c= address, longer s= on an incomplete entry, NULL cache
                     after a failed data_cache_create, hostname_list_clone(NULL)); while such a finding is open the walks
                     keep away from that shape, once it is gone the walks include it.
Python renders abstract calls/datagrams to command lines and octets, shuttles files and reads TLC's verdict lines."""
import json, os, re, random, collections, concurrent.futures
from rig import common

DRV = os.path.join(common.VERIF, "harness", "x09_drv.c")
WRAPS = "time,recvmsg,socket,bind,setsockopt,close,malloc,calloc,realloc,reallocarray,free,getaddrinfo,freeaddrinfo"

K_ANY = "hostname_list_check_any:inverted:ENOENT-when-the-any-flag-is-set-and-0-when-it-is-clear"
K_HNLEAK = "hostname_list_clone:leak:names-copied-before-a-failed-malloc-are-not-freed"
K_HNNULL = "hostname_list_clone:null-list-dereferenced"
K_V6 = "host_addr_alloc:ipv6-literal-cut-at-the-last-colon"
K_DEDUP = "host_addr_add_addr:duplicate:lookup-before-the-default-port-is-filled-in"
K_CLONE = "host_addr_clone:heap-buffer-overflow:allocation-sizes-of-object-and-array-swapped"
K_FDLEAK = "sap_receiver_create:socket-leak:failure-after-bind-leaves-the-descriptor-open"
K_DCNULL = "sap_receiver_create:data_cache_create-result-unchecked:create-succeeds-with-a-null-cache"
K_DCNULL_CRASH = "sap_receiver_recv_cb:null-cache-dereferenced-by-the-first-acceptable-announcement"
K_BIG = "sap_receiver_recv_cb:stack-buffer-overflow-WRITE:datagram-fills-the-4096-octet-buffer"
K_LONG = "sap_receiver_recv_cb:stack-buffer-overflow-WRITE:c=-address-longer-than-45-octets"
K_NAME = "sap_receiver_recv_cb:heap-buffer-overflow-WRITE:longer-s=-completes-an-incomplete-entry"
DEV_KEY = {"anyinv": K_ANY, "cloneleak": K_HNLEAK, "v6split": K_V6, "dedup": K_DEDUP, "createfdleak": K_FDLEAK, "dcachenull": K_DCNULL}
DEV_WHAT = {
    "anyinv": "hostname_list_check_any()/hostname_list_check(): the result only matches the specification with the inverted test of the shipped code",
    "cloneleak": "hostname_list_clone() with a failing name allocation: the blocks owned afterwards only match when the names copied so far are counted as leaked",
    "v6split": "host_addr_alloc(): name/port only match when the text is cut at its LAST colon (IPv6 literal mangled)",
    "dedup": "host_addr_add_addr()/host_addr_resolv(): the address list only matches when the duplicate test is made before the default port is applied",
    "createfdleak": "sap_receiver_create() failing after bind(): the open descriptors only match when the socket is counted as leaked",
    "dcachenull": "sap_receiver_create() with a failing data_cache_create(): returns 0 and hands out a receiver without cache"}

# ---------------------------------------------------------------- crash reports
_LIBFRAME = re.compile(r"#\d+ 0x[0-9a-f]+ in (\w+) \S*/(?:src|include)/(\S+?):\d+")
def crash_key(out, rc):
    """(kind, library function, file, summary line) of a sanitizer / fault report"""
    fm = _LIBFRAME.search(out)
    fn, fl = (fm.group(1), os.path.basename(fm.group(2))) if fm else ("", "")
    m = re.search(r"ERROR: AddressSanitizer: (\S+)", out)
    if m:
        acc = "-WRITE" if re.search(r"^WRITE of size", out, re.M) else ("-READ" if re.search(r"^READ of size", out, re.M) else "")
        sm = re.search(r"SUMMARY: .*", out)
        return (m.group(1) + acc, fn, fl, sm.group(0)[:300] if sm else m.group(0))
    m = re.search(r"^(\S+?):(\d+):\d+: runtime error: (.*)$", out, re.M)
    if m: return ("ubsan", fn, os.path.basename(m.group(1)), m.group(0))
    m = re.search(r"FAULT sig=(\d+)", out)
    if m: return ("hang" if m.group(1) == "14" else "fault-sig" + m.group(1), fn, fl, m.group(0))
    m = re.search(r"DRIVER-ERROR (.*)", out)
    if m: raise common.Infra("driver refused a command: %s\n%s" % (m.group(1), out[-1500:]))
    return ("timeout", "", "", "driver timeout") if rc == 124 else ("exit-%s" % rc, "", "", out[-400:])
HANGS = [0]     # watchdog deaths of the driver in this check (Rig.drive)
def crash_text(out):
    """the report itself (not the shadow memory dump that follows it)"""
    for pat in ("==ERROR", "runtime error:", "FAULT sig"):
        k = out.find(pat)
        if k >= 0:
            k = out.rfind("\n", 0, k) + 1
            t = out[k:k + 3500]
            return t.split("Shadow bytes around")[0]
    return out[-2500:]

# ---------------------------------------------------------------- rendering of abstract calls / datagrams
def spec_table(name):
    """the literal tuple `name == << ... >>` of SapRcvr.tla as python values (the corpus lives in the specification)"""
    txt = open(os.path.join(common.VERIF, "specs", "grow", "SapRcvr.tla")).read()
    m = re.search(r"^%s == <<(.*?)>>\s*$" % name, txt, re.M)
    if not m: raise common.Infra("SapRcvr.tla: no table " + name)
    body = m.group(1)
    if "|->" in body:
        return [{"f": int(a), "t": b} for a, b in re.findall(r'\[f \|-> (\d+), t \|-> "([^"]*)"\]', body)]
    return re.findall(r'"([^"]*)"', body)

class SapRender:
    def __init__(self):
        self.origins = spec_table("SapOriginIds"); self.names = spec_table("SapNames"); self.addrs = spec_table("SapAddrs")
    def conn(self, d):
        a = self.addrs[d["ad"] - 1]; t = "IP4" if a["f"] == 4 else "IP6"; cf = d["cf"]
        if cf == "ok": return "IN %s %s" % (t, a["t"])
        if cf == "okttl": return "IN %s %s/64" % (t, a["t"])
        if cf == "fields2": return "IN %s" % t
        if cf == "nettype": return "XX %s %s" % (t, a["t"])
        if cf == "atypelen": return "IN IPv%s %s" % (t[2], a["t"])
        if cf == "shortaddr": return "IN %s %s" % (t, "1.1.1" if a["f"] == 4 else "::1")
        if cf == "atype": return "IN IPX %s" % a["t"]
        if cf == "badaddr": return "IN %s %s" % (t, "239.255.1.999" if a["f"] == 4 else "ff0e::2:7ffg")
        if cf == "fam-mismatch": return "IN %s %s" % ("IP6" if a["f"] == 4 else "IP4", a["t"])
        if cf == "long": return "IN %s %s" % (t, "1" * 60)
        raise common.Infra("conn form " + cf)
    def render(self, d):
        flags = ((d["v"] & 7) << 5) | (d["a"] << 4) | (d["t"] << 2) | (d["e"] << 1) | d["c"]
        hdr = bytes([flags, d["auth"]]) + (b"\x12\x34" if d["hash"] else b"\0\0")
        src = bytes([10, 0, 0, 9]) if d["a"] == 0 else bytes(range(1, 17))
        auth = b"A" * d["auth"] if d["auth"] <= 16 else b""
        mime = {"sdp": b"application/sdp\0", "other": b"text/plain\0", "none": b""}[d["mime"]]
        name = self.names[d["s"] - 1]; origin = self.origins[d["o"] - 1]
        media = "%s %d %s" % (d["mt"], d["port"], d["mp"]) + (" 33" if d["mf"] >= 4 else "")
        L = ["v=0", "o=" + origin, "s=" + name, "c=" + self.conn(d), "t=0 0", "m=" + media]
        k = d["sdp"]
        if k == "nov0": L[0] = "v=1"
        elif k == "ctl": L[2] = "s=" + name + "\x01"
        elif k == "badline": L.insert(3, "Xbad line")
        elif k == "dupo": L.insert(2, "o=" + origin)
        elif k == "dups": L.insert(3, "s=again")
        elif k == "dupv": L.insert(3, "v=0")
        elif k == "not": L = [x for x in L if not x.startswith("t=")]
        elif k == "noc": L = [x for x in L if not x.startswith("c=")]
        elif k == "nom": L = [x for x in L if not x.startswith("m=")]
        elif k == "short": L = ["v=0", "o=a"]
        elif k != "ok": raise common.Infra("sdp kind " + k)
        sdp = ("\r\n".join(L) + "\r\n").encode("latin-1")
        pkt = hdr + src + auth + mime + sdp
        sh = d["shape"]
        if sh in ("big", "huge"):                         # pad with a= lines up to exactly 4096 / 5000 octets
            P = (4096 if sh == "big" else 5000) - len(pkt)
            sizes = [200] * (P // 200); rest = P % 200
            if 0 < rest < 5: sizes[-1] -= 5 - rest; rest = 5
            if rest: sizes.append(rest)
            pkt += b"".join(b"a=" + b"x" * (k - 4) + b"\r\n" for k in sizes)
        elif sh == "hdr3": pkt = pkt[:3]
        elif sh == "pay15": pkt = pkt[:4 + len(src) + d["auth"] + 15]
        if d["auth"] > 16: pkt = pkt[:270]               # hostile auth_len: keep the datagram shorter than header + auth_len + 16
        return pkt

A3 = lambda a: "%d:%d:%d" % tuple(a)
def cmd_of(e, sap=None):
    """(command line, abstract datagram or None)"""
    op = e["op"]
    if op == "hn.new": return "hn.new %d %s %d" % (e["i"], e["kind"], e["fail"]), None
    if op in ("hn.add", "hn.find", "hn.check"): return "%s %d %s %d" % (op, e["i"], e["name"], e["fail"]), None
    if op in ("hn.any", "hn.del", "ha.del"): return "%s %d" % (op, e["i"]), None
    if op in ("hn.clone", "ha.clone"): return "%s %d %d %d" % (op, e["i"], e["j"], e["fail"]), None
    if op == "ha.new": return "ha.new %d %s %d %d" % (e["i"], e["text"], e["port"], e["fail"]), None
    if op in ("ha.add", "ha.is", "ha.isso"): return "%s %d %s %d" % (op, e["i"], A3(e["a"]), e["fail"]), None
    if op == "ha.resolv": return "ha.resolv %d %d %d %d %s" % (e["i"], e["gairc"], e["fail"], len(e["ans"]), " ".join(A3(a) for a in e["ans"])), None
    if op == "sap.create": return "sap.create %d %d %s" % (e["ct"], e["cci"], e["fp"]), None
    if op == "sap.dgram":
        d = dict(e["d"]); pkt = sap.render(d); d["n"] = len(pkt)
        return "sap.dgram %s %d %d" % (pkt.hex(), e["rf"], e["af"]), d
    if op == "sap.cberr": return "sap.cberr %d" % e["err"], None
    if op == "sap.tick": return "sap.tick %d" % e["dt"], None
    if op in ("sap.destroy", "sap.nullcalls", "hn.nullcalls", "ha.nullcalls", "hn.clonenull"): return op, None
    raise common.Infra("unknown op " + op)

# ---------------------------------------------------------------- rig
class Rig:
    def __init__(self, ctx):
        self.ctx = ctx
        self.dir = common.scratch("lcbv-x09-")
        self.exe = common.cc([DRV], self.dir + "/x09_drv", compiler="clang", san="asan",
                             flags=["-fno-sanitize=nonnull-attribute", "-Wno-incompatible-pointer-types", "-Wno-macro-redefined", "-Wno-pointer-sign",
                                    "-Wl," + ",".join("--wrap=" + w for w in WRAPS.split(","))])
        self.env = {"ASAN_OPTIONS": "detect_leaks=0:abort_on_error=0:detect_stack_use_after_return=0:allocator_may_return_null=1",
                    "UBSAN_OPTIONS": "print_stacktrace=1:halt_on_error=1"}
        self.sap = SapRender()
        self.n = 0
        common.tlc_workspace()

    def drive(self, histories, timeout=240):
        """histories: list of lists of (cmd, d).  One driver process runs them all (a "reset" line in front of each); when
        it dies the history it was in ends there and the run goes on with the next history in a new process.
        -> list of (lines[], crash or None, raw) per history; lines = parsed JSON of the driver with `d` merged in"""
        res = [None] * len(histories)
        start = 0
        while start < len(histories):
            flat = []
            for h in histories[start:]:
                flat.append("reset"); flat += [c for c, _ in h]
            rc, out = common.sh([self.exe], stdin=("\n".join(flat) + "\n").encode(), timeout=timeout, env=self.env)
            ans = [l for l in out.splitlines() if l.startswith('{"op"')]
            pos = 0; hi = start; died = False
            while hi < len(histories):
                h = histories[hi]; need = 1 + len(h)
                got = ans[pos:pos + need]
                if len(got) == need:
                    res[hi] = (self.merge(got[1:], h), None, ""); pos += need; hi += 1
                    continue
                if rc == 0: raise common.Infra("driver exited 0 but answered %d of %d lines\n%s" % (len(ans), len(flat), out[-1500:]))
                if "LeakSanitizer" in out and "ERROR: AddressSanitizer" not in out and len(got) == 0 and hi > start:
                    # everything was answered, the process-exit leak report belongs to the whole run: attribute to the last history
                    pass
                res[hi] = (self.merge(got[1:], h), crash_key(out, rc), crash_text(out)); died = True; hi += 1
                if res[hi - 1][1][0] in ("hang", "timeout"):
                    # the driver's watchdog (3 s of CPU time / 60 s of wall clock for a call that takes a millisecond): each death is a
                    # finding of its history; after 6 of them in this check the remaining histories are not run (empty, no verdict
                    # about them) - the check ends in bounded time
                    HANGS[0] += 1
                    if HANGS[0] >= 6:
                        for j in range(hi, len(histories)): res[j] = ([], None, "")
                        self.ctx.add(histories_not_run_after_repeated_watchdog_deaths=len(histories) - hi)
                        return res
                break
            if not died:
                if rc != 0:   # all answered, process failed at exit (LeakSanitizer): blame the run, not a history
                    k = crash_key(out, rc)
                    res[len(histories) - 1] = (res[len(histories) - 1][0], k, crash_text(out))
                break
            start = hi
        return res

    def merge(self, lines, h):
        out = []
        for ln, (c, d) in zip(lines, h):
            try: j = json.loads(ln)
            except Exception: raise common.Infra("driver answered garbage to '%s': %s" % (c[:80], ln[:300]))
            if d is not None and j.get("op") == "sap.dgram": j["d"] = d
            out.append(j)
        return out

    def validate(self, module, results, timeout=600):
        """TLC reads the concatenated histories; -> (verdict records with history index and line, TlcResult)"""
        self.n += 1
        path = os.path.join(self.dir, "t%d.ndjson" % self.n)
        index = []      # trace line -> (history, position)
        with open(path, "w") as f:
            for hi, (lines, crash, raw) in enumerate(results):
                f.write('{"op":"reset"}\n'); index.append((hi, -1))
                for k, j in enumerate(lines):
                    f.write(json.dumps(j) + "\n"); index.append((hi, k))
        r = common.tlc(module, workers=1, env={"TRACE": path}, timeout=timeout, xss="256m")
        if r.rc != 0: raise common.Infra("%s: unexpected TLC result %s\n%s" % (module, r.violation, r.out[-3000:]))
        vs = [v for v in common.tlc_printed_json(r.out) if isinstance(v, dict) and "v" in v]
        if not any(v["v"] == "TRACE-END" and v["l"] == len(index) for v in vs):
            raise common.Infra("%s did not reach the end of the trace (%d lines)\n%s" % (module, len(index), r.out[-2000:]))
        seen = set(); out = []
        for v in vs:
            if v["v"] == "TRACE-END": continue
            key = (v["v"], v["l"])
            if key in seen: continue
            seen.add(key)
            hi, k = index[v["l"] - 1]
            out.append({"kind": v["v"], "fields": sorted(v["f"]), "history": hi, "pos": k})
        return out, r, len(index)

def report(rig, comp, what, histories, results, verdicts):
    """turn crashes / MISMATCH / DEVIATION verdicts into keyed findings; -> counters"""
    ctx = rig.ctx; c = collections.Counter()
    for hi, (lines, crash, raw) in enumerate(results):
        if crash:
            cmds = ["reset"] + [x for x, _ in histories[hi]][:len(lines) + 1]
            shape = cmds[-1].split()[0]
            ctx.fail("%s:%s:%s:%s" % (comp, shape, crash[0], crash[1]),
                     "%s: the driver died in history %d at `%s`: %s\n%s" % (what, hi, cmds[-1][:300], crash[3], raw[-2500:]), {"what": what, "commands": cmds})
            c["crashes"] += 1
    for v in verdicts:
        lines = results[v["history"]][0]; cmds = ["reset"] + [x for x, _ in histories[v["history"]]][:v["pos"] + 1]
        line = json.dumps(lines[v["pos"]])[:900] if v["pos"] >= 0 else ""
        if v["kind"] == "DEVIATION":
            for dname in v["fields"]:
                c["deviation:" + dname] += 1
                if c["deviation:" + dname] <= 2:
                    ctx.fail(DEV_KEY[dname], "%s: %s\nhistory %d, call %d: %s\n(the walk goes on with the state the shipped code produced)"
                             % (what, DEV_WHAT[dname], v["history"], v["pos"], line), {"what": what, "commands": cmds})
        else:
            c["mismatches"] += 1
            op = lines[v["pos"]]["op"] if v["pos"] >= 0 else "?"
            if c["mismatches"] <= 6:
                for f in v["fields"]:
                    ctx.fail("conformance:%s" % f if f.startswith(op) else "conformance:%s:%s" % (op, f),
                             "%s: the real code differs from the specification in %s at call %d of history %d:\n%s\nprevious: %s"
                             % (what, f, v["pos"], v["history"], line, json.dumps(lines[v["pos"] - 1])[:600] if v["pos"] > 0 else "-"),
                             {"what": what, "commands": cmds})
    return c

# ---------------------------------------------------------------- model checking
def mc_jobs(q):
    """(module, cfg, label, expected violated invariant or None)"""
    J = [("MC_HostNames", "MC_HostNames.cfg", "MC_HostNames (2 lists, 5 names, capacity step 2, every allocation failure)", None),
         ("MC_HostNames", "MC_HostNames_anyinv.cfg", "shipped hostname_list_check_any (inverted)", "PostOK"),
         ("MC_HostNames", "MC_HostNames_cloneleak.cfg", "shipped hostname_list_clone failure path", "MemOK"),
         ("MC_HostAddr", "MC_HostAddr.cfg", "MC_HostAddr (2 objects, 4 addresses, resolver answers, capacity step 2)", None),
         ("MC_HostAddr", "MC_HostAddr_parse.cfg", "MC_HostAddr_parse (16 texts x 2 default ports)", None),
         ("MC_HostAddr", "MC_HostAddr_v6split.cfg", "shipped host_addr_alloc (cut at the last colon)", "PostOK"),
         ("MC_HostAddr", "MC_HostAddr_dedup.cfg", "shipped host_addr_add_addr (lookup before default port)", "PostOK|Inv"),
         ("MC_SapRcvr", "MC_SapRcvr.cfg", "MC_SapRcvr filter (one origin, 38 datagram variants, 2 cache times x 2 clean intervals, 5 clock values)", None),
         ("MC_SapRcvr", "MC_SapRcvr_cache.cfg", "MC_SapRcvr cache (2 origins in one bucket, complete/incomplete announcements, expiry)", None),
         ("MC_SapRcvr", "MC_SapRcvr_fdleak.cfg", "shipped sap_receiver_create error path (socket left open)", "FdOK|PostOK"),
         ("MC_SapRcvr", "MC_SapRcvr_dcnull.cfg", "shipped sap_receiver_create (data_cache_create unchecked)", "PostOK")]
    if not q:
        J += [("MC_HostNames", "MC_HostNames_big.cfg", "MC_HostNames_big (3 lists, 6 names, 4 stored)", None),
              ("MC_HostAddr", "MC_HostAddr_big.cfg", "MC_HostAddr_big (7 texts, 2 default ports)", None),
              ("MC_SapRcvr", "MC_SapRcvr_cache3.cfg", "MC_SapRcvr cache (3 origins, 2 names)", None)]
    return J

def model_check(quick):
    """runs in a background thread: only TLC, no bookkeeping"""
    jobs = mc_jobs(quick)
    def one(j):
        module, cfg, label, inv = j
        return j, common.tlc(module, cfg=cfg, workers=1, timeout=900, xss="64m", xmx="3g")
    with concurrent.futures.ThreadPoolExecutor(max_workers=3) as ex:           # + one TLC of the main thread = 4
        return list(ex.map(one, jobs))

def account_mc(ctx, done):
    for (module, cfg, label, inv), r in done:
        if inv is None:
            if r.rc != 0: raise common.Infra("%s/%s: the specification violates its own property (%s)\n%s" % (module, cfg, r.violation, r.out[-3000:]))
            ctx.tlc_stats(r, label)
        else:
            if r.rc != 12 or not any(x in (r.violation or "") for x in inv.split("|")):
                raise common.Infra("%s/%s: expected a violation of %s, got rc=%s %s\n%s" % (module, cfg, inv, r.rc, r.violation, r.out[-1500:]))
            ctx.cov.setdefault("violations_the_model_must_find", []).append({"model": label, "invariant": inv, "states": r.distinct})
            ctx.add(states=r.distinct, transitions=r.generated)
    ctx.log("model checking: %d TLC runs accounted" % len(done))

# ---------------------------------------------------------------- walks out of TLC
def tlc_walks(rig, module, cfg, nbeh, depth):
    r = common.tlc(module, cfg=cfg, workers=1, simulate=nbeh, depth=depth, seed=rig.ctx.seed, timeout=600, xss="64m", xmx="3g")
    if r.rc != 0: raise common.Infra("simulation of %s/%s failed: %s\n%s" % (module, cfg, r.violation, r.out[-2500:]))
    H = []; last = None
    for s in common.tlc_printed_json(r.out):
        if not isinstance(s, dict) or "lvl" not in s or not s.get("ev"): continue
        if s == last: continue                      # the simulator may evaluate the invariant twice on a state
        last = s
        if s["lvl"] == 2: H.append([])
        if not H: continue
        H[-1].append(s["ev"])
    if len(H) < max(1, nbeh // 2): raise common.Infra("simulation of %s emitted too little (%d behaviours)" % (module, len(H)))
    return H

def need(label, have, wanted):
    miss = [w for w in wanted if not have.get(w)]
    if miss and HANGS[0] < 6: raise common.Infra("vacuous corpus (%s): never saw %s in %s" % (label, miss, dict(have)))

def run_histories(rig, comp, trace_module, what, evs_per_history):
    """execute abstract histories on the real code, validate with TLC, report; -> (results, counters)"""
    ctx = rig.ctx
    histories = [[cmd_of(e, rig.sap) for e in h] for h in evs_per_history]
    results = rig.drive(histories)
    verdicts, r, nlines = rig.validate(trace_module, results)
    c = report(rig, comp, what, histories, results, verdicts)
    ctx.add(traces_validated_against_impl=len(histories), trace_events_validated=nlines - len(histories), evaluations=nlines - len(histories))
    ctx.add(states=r.distinct, transitions=r.generated)
    ctx.log("%s: %d histories / %d calls on the real code validated by %s in %.1fs: %d crashes, %d mismatching lines, deviations %s"
            % (what, len(histories), nlines - len(histories), trace_module, r.wall, c["crashes"], c["mismatches"],
               {k[10:]: v for k, v in c.items() if k.startswith("deviation:")}))
    return results, c

def features(results):
    f = collections.Counter()
    for lines, crash, raw in results:
        for j in lines:
            op = j["op"]; f[op] += 1
            st = j.get("st", {})
            if op == "hn.add" and j["rc"] == 12: f["hn.add-enomem"] += 1
            if op == "hn.add" and j["rc"] == 22: f["hn.add-einval"] += 1
            if op == "hn.clone" and j["rc"] == 0 and any(len(o.get("names", [])) >= 2 for o in st.get("o", [])): f["hn.clone-of-names"] += 1
            if op == "hn.clone" and j["rc"] == 12: f["hn.clone-enomem"] += 1
            if op.startswith("hn.") and any(o.get("alloc", 0) >= 16 for o in st.get("o", [])): f["hn.capacity>=16"] += 1
            if op in ("hn.find", "hn.check") and j["rc"] == 0: f[op + "-hit"] += 1
            if op in ("hn.find", "hn.check") and j["rc"] == 2: f[op + "-miss"] += 1
            if op == "ha.add" and j["rc"] == 12: f["ha.add-enomem"] += 1
            if op.startswith("ha.") and any(o.get("alloc", 0) >= 16 for o in st.get("o", [])): f["ha.capacity>=16"] += 1
            if op == "ha.resolv" and j["gairc"] == 0 and j["ans"]: f["ha.resolv-answers"] += 1
            if op == "ha.resolv" and j["gairc"] != 0: f["ha.resolv-error"] += 1
            if op == "ha.clone" and j["rc"] == 0: f["ha.clone-ok"] += 1
            if op in ("ha.is", "ha.isso") and j["rc"] == 1: f[op + "-hit"] += 1
            if op == "sap.create": f["sap.create-" + ("ok" if j["ok"] else "fail:" + j["fp"])] += 1
            if op == "sap.dgram":
                nitems = sum(len(b[1]) for b in st.get("b", []))
                if nitems >= 3: f["sap.cache>=3-entries"] += 1
                if any(len(b[1]) >= 2 for b in st.get("b", [])): f["sap.two-entries-in-one-bucket"] += 1
                if j["rf"]: f["sap.recv-error"] += 1
    return f

def sap_outcomes(H):
    c = collections.Counter()
    for h in H:
        for e in h:
            if e["op"] == "sap.dgram":
                c[e["out"]] += 1
                for pre in ("dropped:sdp", "incomplete:c"):
                    if e["out"].startswith(pre + ":"): c[pre + ":*"] += 1
    return c

# ---------------------------------------------------------------- histories made by the rig (bigger alphabets, longer lists)
def rand_hn(rnd, n):
    names = ["host%d.example.org" % i for i in range(30)] + ["HOST%d.EXAMPLE.ORG" % i for i in range(30)] + \
            ["*", "*", "*.example.org", ".example.org", "a", "A", "Z", "z", "@null", "@empty", "x" * 64, "X" * 64, "[", "{", "@", "`"]
    live = {}; h = []
    for _ in range(n):
        c = rnd.random()
        free = [i for i in range(3) if i not in live]
        if (not live or c < 0.04) and free:
            i = rnd.choice(free); k = rnd.choice("he"); f = 1 if rnd.random() < 0.1 else 0
            h.append({"op": "hn.new", "i": i, "kind": k, "fail": f})
            if not (k == "h" and f == 1): live[i] = 1
        elif not live: continue
        elif c < 0.55: h.append({"op": "hn.add", "i": rnd.choice(list(live)), "name": rnd.choice(names), "fail": rnd.choice([0] * 12 + [1, 2])})
        elif c < 0.70: h.append({"op": "hn.find", "i": rnd.choice(list(live)), "name": rnd.choice(names), "fail": 0})
        elif c < 0.85: h.append({"op": "hn.check", "i": rnd.choice(list(live)), "name": rnd.choice(names), "fail": 0})
        elif c < 0.89: h.append({"op": "hn.any", "i": rnd.choice(list(live))})
        elif c < 0.95 and free:
            # a failing clone is known before the call only to the specification: the rig keeps the slot unknown by deleting nothing
            i = rnd.choice(list(live)); j = rnd.choice(free)
            h.append({"op": "hn.clone", "i": i, "j": j, "fail": 0}); live[j] = 1
        elif c < 0.97: i = rnd.choice(list(live)); h.append({"op": "hn.del", "i": i}); del live[i]
        else: h.append({"op": "hn.nullcalls"})
    return h

def rand_ha(rnd, n, with_clone):
    texts = ["example.org", "example.org:8080", "h:1", "h:65535", "h:65536", "[2001:db8::1]:8443", "[::1]", "::1", "1.2.3.4:80", "1.2.3.4", "h:", ":5", "h:x9y9",
             "@null", "@empty", "a" * 200 + ":77"]
    live = {}; h = []
    A = lambda: [rnd.choice([4, 6]), rnd.randint(1, 30), rnd.choice([0, 0, 80, 8080, 443])]
    for _ in range(n):
        c = rnd.random()
        free = [i for i in range(3) if i not in live]
        if (not live or c < 0.04) and free:
            i = rnd.choice(free); t = rnd.choice(texts); f = 1 if rnd.random() < 0.1 else 0
            h.append({"op": "ha.new", "i": i, "text": t, "port": rnd.choice([0, 80, 443]), "fail": f})
            if f == 0 and not t.startswith("@"): live[i] = 1
        elif not live: continue
        elif c < 0.55: h.append({"op": "ha.add", "i": rnd.choice(list(live)), "a": A(), "fail": rnd.choice([0] * 12 + [1])})
        elif c < 0.65: h.append({"op": "ha.is", "i": rnd.choice(list(live)), "a": A(), "fail": 0})
        elif c < 0.75: h.append({"op": "ha.isso", "i": rnd.choice(list(live)), "a": A(), "fail": 0})
        elif c < 0.87:
            ans = [A() if rnd.random() < 0.85 else [1, 0, 0] for _ in range(rnd.randint(0, 6))]
            h.append({"op": "ha.resolv", "i": rnd.choice(list(live)), "gairc": rnd.choice([0, 0, 0, -2, -3]), "fail": rnd.choice([0, 0, 0, 1, 2]), "ans": ans})
        elif c < 0.93 and free and with_clone:
            i = rnd.choice(list(live)); j = rnd.choice(free)
            h.append({"op": "ha.clone", "i": i, "j": j, "fail": 0}); live[j] = 1
        elif c < 0.96: i = rnd.choice(list(live)); h.append({"op": "ha.del", "i": i}); del live[i]
        else: h.append({"op": "ha.nullcalls"})
    return h

# ---------------------------------------------------------------- probes
def sap_base(o=1, s=1, **kw):
    d = {"shape": "full", "n": 0, "v": 1, "a": 0, "t": 0, "e": 0, "c": 0, "auth": 0, "hash": 1, "mime": "sdp", "sdp": "ok", "o": o, "s": s,
         "mt": "video", "mf": 4, "mp": "RTP/AVP", "port": 5004, "cf": "ok", "ad": 1}
    d.update(kw); return d
def dg(d, rf=0, af=0): return {"op": "sap.dgram", "d": d, "rf": rf, "af": af}
CREATE = {"op": "sap.create", "ct": 10, "cci": 1, "fp": "none"}

def probes(rig):
    """-> dict of booleans: which unsafe shapes are (still) findings"""
    ctx = rig.ctx
    P = [("ha-clone", "host_address", "Trace_HostAddr", K_CLONE, r"heap-buffer-overflow(.|\n)*host_addr_clone",
          [{"op": "ha.new", "i": 0, "text": "example.org:8080", "port": 80, "fail": 0}, {"op": "ha.add", "i": 0, "a": [4, 1, 0], "fail": 0},
           {"op": "ha.add", "i": 0, "a": [6, 2, 443], "fail": 0}, {"op": "ha.clone", "i": 0, "j": 1, "fail": 0}, {"op": "ha.add", "i": 1, "a": [4, 3, 0], "fail": 0},
           {"op": "ha.del", "i": 0}, {"op": "ha.isso", "i": 1, "a": [4, 1, 8080], "fail": 0}, {"op": "ha.del", "i": 1}],
          "host_addr_clone() of an object that holds two addresses"),
         ("ha-clone-empty", "host_address", "Trace_HostAddr", K_CLONE, r"heap-buffer-overflow(.|\n)*host_addr_clone",
          [{"op": "ha.new", "i": 0, "text": "h", "port": 80, "fail": 0}, {"op": "ha.clone", "i": 0, "j": 1, "fail": 0}, {"op": "ha.add", "i": 1, "a": [4, 3, 0], "fail": 0},
           {"op": "ha.del", "i": 0}, {"op": "ha.del", "i": 1}],
          "host_addr_clone() of an object without addresses (allocated == 0: the object is calloc(0, ...))"),
         ("hn-clone-null", "hostname_list", "Trace_HostNames", K_HNNULL, r"(SEGV|FAULT sig=11)(.|\n)*",
          [{"op": "hn.clonenull"}], "hostname_list_clone(NULL): every other function of the header answers EINVAL / returns for a NULL list"),
         ("sap-4096", "sap_rcvr", "Trace_SapRcvr", K_BIG, r"(index 4096 out of bounds|stack-buffer-overflow)(.|\n)*sap_receiver_recv_cb",
          [CREATE, dg(sap_base(shape="big")), {"op": "sap.destroy"}], "a valid announcement of exactly 4096 octets: buf[transfered_size] = 0 with transfered_size == sizeof(buf)"),
         ("sap-5000", "sap_rcvr", "Trace_SapRcvr", K_BIG, r"(index 4096 out of bounds|stack-buffer-overflow)(.|\n)*sap_receiver_recv_cb",
          [CREATE, dg(sap_base(shape="huge", sdp="nom")), {"op": "sap.destroy"}], "a 5000 octet datagram (truncated by recvmsg to the 4096 octet buffer)"),
         ("sap-long-c", "sap_rcvr", "Trace_SapRcvr", K_LONG, r"stack-buffer-overflow(.|\n)*WRITE of size(.|\n)*sap_receiver_recv_cb",
          [CREATE, dg(sap_base(cf="long")), {"op": "sap.destroy"}], "c=IN IP4 <60 digits>: the address text is copied into char straddr[INET6_ADDRSTRLEN]"),
         ("sap-name-grow", "sap_rcvr", "Trace_SapRcvr", K_NAME, r"heap-buffer-overflow(.|\n)*WRITE of size(.|\n)*sap_receiver_recv_cb",
          [CREATE, dg(sap_base(s=1, cf="badaddr")), dg(sap_base(s=5)), dg(sap_base(o=2, s=1, cf="badaddr")), dg(sap_base(o=2, s=6)), {"op": "sap.destroy"}],
          "an incomplete entry made by an announcement with s=N (1 octet) is completed by one with a 15 octet s= value (14 still fit the slack)"),
         ("sap-name-grow-62", "sap_rcvr", "Trace_SapRcvr", K_NAME, r"heap-buffer-overflow(.|\n)*WRITE of size(.|\n)*sap_receiver_recv_cb",
          [CREATE, dg(sap_base(s=4, mf=3)), dg(sap_base(s=3)), {"op": "sap.destroy"}],
          "an incomplete entry made with an empty s= is completed by an announcement with a 62 octet s= value"),
         ("sap-null-cache", "sap_rcvr", "Trace_SapRcvr", K_DCNULL_CRASH, r"(SEGV|FAULT sig=11|runtime error)(.|\n)*data_cache_(item_add|get_bucket)",
          [{"op": "sap.create", "ct": 10, "cci": 1, "fp": "dcache"}, dg(sap_base(sdp="nov0")), dg(sap_base()), {"op": "sap.destroy"}],
          "calloc fails inside data_cache_create(): sap_receiver_create() returns 0, the first acceptable announcement reaches data_cache_item_add(NULL, ...)")]
    open_ = {}
    for name, comp, module, key, expect, evs, what in P:
        h = [[cmd_of(e, rig.sap) for e in evs]]
        results = rig.drive(h, timeout=120)
        lines, crash, raw = results[0]
        ctx.add(probes_run=1)
        if crash:
            expected = re.search(expect, raw) is not None
            k = key if expected else "%s:%s:%s:%s" % (comp, name, crash[0], crash[1])
            ctx.fail(k, "probe %s: %s\n%s\n%s" % (name, what, crash[3], raw[-2200:]), {"what": what, "commands": ["reset"] + [c for c, _ in h[0]]})
            open_[name] = True
            # the part of the history before the crash is still validated
            if lines:
                verdicts, r, n = rig.validate(module, [(lines, None, "")])
                report(rig, comp, "probe " + name, h, [(lines, None, "")], verdicts)
            continue
        open_[name] = False
        verdicts, r, n = rig.validate(module, results)
        report(rig, comp, "probe " + name, h, results, verdicts)
        ctx.add(traces_validated_against_impl=1, trace_events_validated=n - 1)
    ctx.cov["probes"] = {k: ("finding" if v else "clean") for k, v in open_.items()}
    return open_

# ---------------------------------------------------------------- the check
def run(ctx):
    ctx.level = "model_checking"
    q = ctx.quick
    rig = Rig(ctx)
    ctx.log("driver built from %s" % common.REPO)
    bg = concurrent.futures.ThreadPoolExecutor(max_workers=1)
    mc = bg.submit(model_check, ctx.quick)                   # TLC on the models (<= 3 at a time) while the driver and the trace validations run
    try:
        body(ctx, rig)
    finally:
        done = mc.result()
        bg.shutdown()
    account_mc(ctx, done)

def body(ctx, rig):
    q = ctx.quick
    open_ = probes(rig)
    clone_ok = not (open_["ha-clone"] or open_["ha-clone-empty"])
    unsafe = not any(open_[k] for k in ("sap-4096", "sap-5000", "sap-long-c", "sap-name-grow", "sap-name-grow-62", "sap-null-cache"))
    ctx.log("probes: %s -> host_addr_clone %s the walks, unsafe datagram shapes %s" % (ctx.cov["probes"], "in" if clone_ok else "kept out of",
            "in" if unsafe else "kept out"))
    rnd = random.Random(ctx.seed)
    nb = (60, 60, 50) if q else (500, 500, 300)
    dp = (40, 40, 45) if q else (60, 60, 80)
    sims = [("MC_HostNames", "MC_HostNames_sim.cfg", nb[0], dp[0]),
            ("MC_HostAddr", "MC_HostAddr_sim.cfg" if clone_ok else "MC_HostAddr_sim_noclone.cfg", nb[1], dp[1]),
            ("MC_SapRcvr", "MC_SapRcvr_sim_unsafe.cfg" if unsafe else "MC_SapRcvr_sim.cfg", nb[2], dp[2])]
    W = [tlc_walks(rig, *s) for s in sims]
    ctx.add(spec_behaviours_replayed=sum(len(w) for w in W), spec_steps_replayed=sum(len(h) for w in W for h in w))
    # (b) host name list
    res, c = run_histories(rig, "hostname_list", "Trace_HostNames", "hostname_list walks out of MC_HostNames", W[0])
    f = features(res)
    nh = 6 if q else 30
    res2, c2 = run_histories(rig, "hostname_list", "Trace_HostNames", "hostname_list histories made by the rig (60 host names, both spellings, 64 octet names)",
                             [rand_hn(rnd, 250 if q else 600) for _ in range(nh)])
    f.update(features(res2))
    need("hostname_list", f, ["hn.new", "hn.add", "hn.find", "hn.check", "hn.any", "hn.clone", "hn.del", "hn.nullcalls", "hn.add-enomem", "hn.add-einval",
                              "hn.clone-of-names", "hn.clone-enomem", "hn.capacity>=16", "hn.find-hit", "hn.find-miss", "hn.check-hit"])
    ctx.cov.setdefault("calls_and_features_on_the_real_code", {})["hostname_list"] = dict(f)
    # (c) host address
    res, c = run_histories(rig, "host_address", "Trace_HostAddr", "host_address walks out of MC_HostAddr", W[1])
    f = features(res)
    res2, c2 = run_histories(rig, "host_address", "Trace_HostAddr", "host_address histories made by the rig (60 addresses, 16 texts)",
                             [rand_ha(rnd, 250 if q else 600, clone_ok) for _ in range(nh)])
    f.update(features(res2))
    need("host_address", f, ["ha.new", "ha.add", "ha.is", "ha.isso", "ha.resolv", "ha.del", "ha.nullcalls", "ha.add-enomem", "ha.capacity>=16",
                             "ha.resolv-answers", "ha.resolv-error", "ha.is-hit", "ha.isso-hit"] + (["ha.clone-ok"] if clone_ok else []))
    ctx.cov["calls_and_features_on_the_real_code"]["host_address"] = dict(f)
    # (a) SAP receiver
    res, c = run_histories(rig, "sap_rcvr", "Trace_SapRcvr", "SAP receiver walks out of MC_SapRcvr (in process, real thread pool and socket)", W[2])
    f = features(res); oc = sap_outcomes(W[2])
    res2, c2 = run_histories(rig, "sap_rcvr", "Trace_SapRcvr", "SAP receiver: lifecycle and argument table",
                             [[{"op": "sap.nullcalls"}] + [{"op": "sap.create", "ct": 3, "cci": 0, "fp": fp} for fp in
                               ("srcvr", "socket", "bind", "rcvbuf", "lowat", "pktinfo", "task", "none")] + [dg(sap_base()), {"op": "sap.cberr", "err": 5}, {"op": "sap.destroy"}]])
    f.update(features(res2))
    need("sap_rcvr", f, ["sap.create-ok", "sap.dgram", "sap.cberr", "sap.tick", "sap.destroy", "sap.cache>=3-entries", "sap.two-entries-in-one-bucket",
                         "sap.recv-error", "sap.create-fail:bind", "sap.create-fail:task", "sap.nullcalls"])
    need("sap_rcvr outcomes", oc, ["completed", "completed+cleaned", "refreshed", "dropped:enomem", "dropped:recv-error", "dropped:version", "dropped:hash0",
                                   "dropped:length", "dropped:short", "dropped:encrypted-or-compressed", "dropped:media", "incomplete:m-fields",
                                   "incomplete:c:*", "dropped:sdp:*"])
    ctx.cov["calls_and_features_on_the_real_code"]["sap_rcvr"] = dict(f)
    ctx.cov["sap_datagram_outcomes_in_the_walks"] = dict(oc)
    ctx.add(samples=[{"component": "sap_rcvr", "event": W[2][0][-1]}, {"component": "host_address", "call": W[1][0][-1]}, {"component": "hostname_list", "call": W[0][0][-1]}])
    ctx.cov["rule"] = ("states/transitions: TLC exploration of MC_HostNames, MC_HostAddr, MC_SapRcvr within the cfg bounds (+ the states of the trace "
                       "validations); traces_validated_against_impl: histories executed on the real code whose every line (arguments, results, projection "
                       "of the private state of all objects, blocks and descriptors owned) TLC accepted against Trace_HostNames / Trace_HostAddr / Trace_SapRcvr")
    ctx.assumptions += [
        "hostname_list: a list is not used between hostname_list_deinit and the next hostname_list_init (count and any_name are left stale by deinit); "
        "names do not contain NUL (strncasecmp stops there); single thread",
        "host_address: the address argument of add/is_host_* is not NULL for add (add_addr(obj, NULL) appends an empty entry: observed, not filed); single thread",
        "sap_rcvr: one pool thread; datagrams arrive one at a time (the rig waits for recvmsg before it looks); the receiver's socket is moved by the bind() "
        "wrapper from ANY:9875 to 127.0.0.1:<ephemeral>; sap_receiver_listener_add4 (multicast join) is only called with NULL",
        "the SDP parser details below the abstract datagram classes (sdp_msg_sec_chk, sap_packet_is_valid) are property C13's subject; here one representative "
        "octet string per class is sent",
        "model bounds: <= 3 objects; HostNames 5 names / capacity step 2; HostAddr 4 addresses; SapRcvr <= 3 origins, 8 buckets, 5 clock values "
        "(the real code runs with 256 buckets, capacity step 8, up to 20 entries)"]
