"""C02 - elliptic-curve group law and scalar multiplication are correct in every build.

(B) whole small groups, exhaustive: TLC enumerates (specs/ec/EcGenPairs, EcGenTwin, EcGenWalk over the synthetic
    curves of EcCurves) every ordered pair of points for add/sub, every point for dbl / repeated doubling, every
    scalar 0..n+1 x every point for the unknown-point multiplier, every scalar for the base-point multiplier and
    every (k,l) pair for chosen (P,Q) for twin multiplication, computes each expectation with the textbook affine
    law of EcGroup and checks the group axioms on its own rows.  harness/ec_drv.c is compiled once per
    CONFIGURATION of include/math/elliptic_curve.h and must return exactly those points.  One curve per special-cased
    shape (a = -3: E8M3X, a = 0: E8ZX of specs/ec/EcCurvesX, generic a: E8C4) holds points with x = 0 and with y = 0; the
    whole group x group add / sub table and every doubling of every 8-bit curve run in EVERY build of both tiers.
(C) the 32 built-in curves: calls are logged and TLC (EcTrace: division-free relations of EcRel over BigNat)
    decides every logged result; scalar multiples are compared with a ladder whose single steps are decided too.
    Where b is a quadratic residue TLC computes the point (0, sqrt b) (specs/ec/EcX0, Tonelli-Shanks over BigNat); every
    build doubles / adds it on every such curve, its multiples go through the multipliers on the build's own curves.
Python only renders numbers, runs processes and compares values that TLC produced."""
import os, re, json, random, time, itertools, threading, subprocess, shutil
from concurrent.futures import ThreadPoolExecutor
from rig import common

DRV = os.path.join(common.VERIF, "harness", "ec_drv.c")
FXP = {0: "BIN", 1: "PRECALC_DBL", 2: "SLIDING_WIN", 3: "COMB_1T", 4: "COMB_2T"}
UNK = dict(FXP); UNK[5] = "SAME_AS_FXP"
TWIN = {0: "BIN", 1: "FXP_UNKPT", 2: "JOINT", 3: "INTER"}
TABLE_ALGOS = (2, 3, 4)
SUITE = dict(digit=64, mulldiv=1, proj=1, mix=1, rdbl=1, fxp=4, fxpw=9, unk=3, unkw=2, twin=3)   # tests/ecdsa/main.c
TOY8 = ["E8M3", "E8G", "E8Z", "E8C4"]
TOY8X = ["E8M3X", "E8ZX"]           # specs/ec/EcCurvesX: a = -3 / a = 0 groups that contain points with x = 0 and with y = 0
SHAPES = ["E8M3X", "E8ZX", "E8C4"]  # one curve per special-cased shape (a = -3, a = 0, generic a), each with both kinds of point
TOYBIG = ["E13", "E16M3"]
ALIAS = {"E8M3nf": "E8M3", "E8M3Xnf": "E8M3X"}   # same curve loaded without EC_CURVE_FLAG_A_M3 (generic-a code path with a = p-3)

# ------------------------------------------------------------------ configurations
def cfg_name(c):
    return "d%d%s-%s%s%s-fxp%s.w%d-unk%s.w%d-twin%s" % (
        c["digit"], "m" if c["mulldiv"] else "", "proj" if c["proj"] else "aff", "+mix" if c["mix"] else "",
        "+rdbl" if c["rdbl"] else "", FXP[c["fxp"]], c["fxpw"], UNK[c["unk"]], c["unkw"], TWIN[c["twin"]])

def cfg_defs(c):
    # capacity: the widest temporaries (ec_point_proj_dbl_n) take 2 * m + 3 digits = 1426 bits for secp521r1 with 128-bit digits;
    # 1408 (tests/ecdsa/main.c, 64-bit digits: 1234 needed) would make bn_init refuse that curve with EINVAL - a capacity the
    # builder chooses, not part of the property - so the 128-bit-digit builds get the next multiple of the digit size
    d = ["-DBN_DIGIT_BIT_CNT=%d" % c["digit"], "-DBN_BIT_LEN=%d" % (1536 if c["digit"] == 128 else 1408)]
    if c["mulldiv"] and c["digit"] != 128: d.append("-DBN_CC_MULL_DIV=1")
    if c["proj"]: d.append("-DEC_USE_PROJECTIVE=1")
    if c["mix"]: d.append("-DEC_PROJ_ADD_MIX=1")
    if c["rdbl"]: d.append("-DEC_PROJ_REPEAT_DOUBLE=1")
    d += ["-DEC_PF_FXP_MULT_ALGO=%d" % c["fxp"], "-DEC_PF_FXP_MULT_WIN_BITS=%d" % c["fxpw"],
          "-DEC_PF_UNKPT_MULT_ALGO=%d" % c["unk"], "-DEC_PF_UNKPT_MULT_WIN_BITS=%d" % c["unkw"],
          "-DEC_PF_TWIN_MULT_ALGO=%d" % c["twin"]]
    return d

def eff(c):
    """what the header makes of the selection (SAME_AS_FXP, twin fall-backs)"""
    unk, unkw = (c["fxp"], c["fxpw"]) if c["unk"] == 5 else (c["unk"], c["unkw"])
    twin = c["twin"]
    if twin == 1 and c["fxp"] == 0 and unk == 0: twin = 0
    return dict(c, unk_eff=unk, unkw_eff=unkw, twin_eff=twin)

PARAMS = {
    "digit": [8, 16, 32, 64, 128], "mulldiv": [0, 1], "proj": [0, 1], "mix": [0, 1], "rdbl": [0, 1],
    "fxp": [0, 1, 2, 3, 4], "fxpw": [1, 2, 3, 4, 8, 9], "unk": [0, 1, 2, 3, 4, 5], "unkw": [1, 2, 3, 4, 5],
    "twin": [0, 1, 2, 3],
}
def cfg_valid(c):
    """selections the header supports: a sliding window must be a power of two (the precompute refuses others);
    affine + INTER does not link (probed separately, reported as a finding of its own)."""
    if c["fxp"] == 2 and c["fxpw"] not in (1, 2, 4, 8): return False
    if c["unk"] == 2 and c["unkw"] not in (1, 2, 4): return False
    if c["fxp"] == 2 and c["fxpw"] > c["digit"]: return False
    if not c["proj"] and c["twin"] == 3: return False
    return True

def random_cfg(rng):
    while True:
        c = {k: rng.choice(v) for k, v in PARAMS.items()}
        if cfg_valid(c): return c

def pairwise(rng, must=()):
    """greedy pairwise covering array over PARAMS subject to cfg_valid"""
    keys = [k for k in PARAMS if k != "mulldiv"]
    need = set()
    for a, b in itertools.combinations(keys, 2):
        for va in PARAMS[a]:
            for vb in PARAMS[b]:
                need.add((a, va, b, vb))
    def pairs_of(c):
        return {(a, c[a], b, c[b]) for a, b in itertools.combinations(keys, 2)}
    # pairs that no valid configuration can contain are not owed
    feasible = set()
    for _ in range(20000):
        feasible |= pairs_of(random_cfg(rng))
    need &= feasible
    out = []
    for c in must:
        out.append(c); need -= pairs_of(c)
    while need and len(out) < 90:
        best, bestn = None, -1
        for _ in range(300):
            c = random_cfg(rng)
            seedp = rng.choice(sorted(need))            # force one still-uncovered pair in
            c[seedp[0]] = seedp[1]; c[seedp[2]] = seedp[3]
            if not cfg_valid(c): continue
            n = len(pairs_of(c) & need)
            if n > bestn: best, bestn = c, n
        if best is None or bestn <= 0: break
        out.append(best); need -= pairs_of(best)
    return out, len(need)

# ------------------------------------------------------------------ rendering (no arithmetic on values)
def pt(P):
    return "inf" if not P else "%x,%x" % (P[0], P[1])
def limbs13(hexs):
    v = int(hexs, 16); out = []
    while v: out.append(v & 8191); v >>= 13
    return out
def pt_limbs(s):
    if s == "inf": return []
    x, y = s.split(",")
    return [limbs13(x), limbs13(y)]

# ------------------------------------------------------------------ processes
def build(cfg, outdir, kind="asan"):
    """kind 'fast': -O2 without sanitizers (runs the whole corpus); 'asan': -O1 ASan+UBSan (runs a sample of it, so
    that memory corruption inside a multiplier is reported where it happens instead of as a wrong point later)"""
    exe = os.path.join(outdir, "ec_%s_%s" % (kind, cfg_name(cfg)))
    flags = ["-Wno-incompatible-pointer-types", "-Wno-implicit-function-declaration"]
    if kind == "asan": flags += ["-fsanitize=address,undefined", "-fsanitize-recover=undefined"]
    common.cc([DRV], exe, compiler="clang", opt="-O1" if kind == "asan" else "-O2", defs=cfg_defs(cfg), flags=flags,
              hooks=False, san=None, timeout=300)
    return exe

ENV = {"ASAN_OPTIONS": "detect_leaks=0:abort_on_error=0:detect_stack_use_after_return=0:allocator_may_return_null=1",
       "UBSAN_OPTIONS": "print_stacktrace=0:halt_on_error=0"}

# Non-termination.  The driver re-arms a watchdog before every library call (WD_CPU seconds of CPU time, 6 x that of wall clock;
# expiry = FAULT sig=14).  A library call killed by it is a violation of its own (key <function>:fault-sig14), recorded here
# whatever the caller of drive() does with the dead line.  Every such death costs WD_CPU seconds, so the whole check has a budget
# of them: after HANG_BUDGET deaths the check stops driving (HangStop) and ends with the verdict it has - in bounded time.
WD_CPU = [60]; HANG_BUDGET = [24]
HANGS = {}; _hang_n = [0]; _hang_lock = threading.Lock()
OP_FN = {"add": "ec_point_add", "sub": "ec_point_sub", "dbl": "ec_point_add", "dbln": "ec_point_dbl_n", "mul": "ec_point_unknown_pt_mult",
         "mulbp": "ec_point_mult_bp", "twinbp": "ec_point_twin_mult_bp", "twin": "ec_point_twin_mult", "ladder": "ec_point_add",
         "validate": "ec_curve_validate", "chk": "ec_point_check_affine", "curve": "ecdsa_curve_from_str"}
class HangStop(Exception):
    pass
def set_tier(ctx):
    WD_CPU[0], HANG_BUDGET[0] = (20, 6) if ctx.quick else (60, 24)

def drive(exe, lines, timeout=900, max_crashes=6):
    """run the driver over `lines`; returns (answers parallel to lines, stderr text).  An answer is the list of
    result tokens, or {'crash': key, 'raw': text} for the line the process died on; lines after the
    max_crashes-th crash are returned as None (not run)."""
    res = [None] * len(lines); err_all = []; i = 0; crashes = 0
    e = dict(os.environ); e.update(ENV); e["EC_DRV_WD_CPU"] = str(WD_CPU[0])
    while i < len(lines):
        if _hang_n[0] >= HANG_BUDGET[0]: raise HangStop()
        data = ("\n".join(lines[i:]) + "\n").encode()
        try:
            p = subprocess.run([exe], input=data, stdout=subprocess.PIPE, stderr=subprocess.PIPE, timeout=timeout, env=e)
            rc, out, err = p.returncode, p.stdout.decode("utf-8", "replace"), p.stderr.decode("utf-8", "replace")
        except subprocess.TimeoutExpired as ex:
            rc, out, err = 124, (ex.stdout or b"").decode("utf-8", "replace"), (ex.stderr or b"").decode("utf-8", "replace") + "\n[rig] TIMEOUT"
        err_all.append(err[-20000:])
        k = 0
        for ln in out.split("\n"):
            if ln.startswith("FATAL") or " FATAL " in ln:
                raise common.Infra("driver protocol error: %s (line: %s)" % (ln[:200], lines[min(i + k, len(lines) - 1)][:200]))
            if ln.startswith("FAULT"): break
            if not (ln.startswith("ok") or ln.startswith("cfg ") or ln.startswith("curve") ):
                continue
            if i + k >= len(lines): break
            if ln.startswith("ok"):
                t = ln.split()
                if t[-1] != ";": break                   # row cut short: the process died inside it
                res[i + k] = t[1:-1]
            else:
                res[i + k] = ln
            k += 1
        if rc == 0 and i + k >= len(lines): break
        if i + k >= len(lines):
            raise common.Infra("driver exited rc=%s after answering everything:\n%s" % (rc, err[-1500:]))
        key = common.san_key(err) or common.san_key(out) or \
            (("timeout", "", "", "driver timeout") if rc in (124, 99) and "sig=14" in out + err or rc == 124
             else ("exit-%s" % rc, "", "", (out[-200:] + err[-300:])))
        res[i + k] = {"crash": key, "raw": (out[-600:] + "\n" + err[-2500:])}
        if key[0] in ("timeout", "fault-sig14"):
            op = lines[i + k].split(" ", 1)[0]
            with _hang_lock:
                _hang_n[0] += 1
                HANGS.setdefault("%s:%s" % (OP_FN.get(op, op), "fault-sig14" if key[0] == "fault-sig14" else "timeout"), []).append(
                    (os.path.basename(exe), lines[i + k][:600], (out[-300:] + "\n" + err[-600:])))
        i = i + k + 1; crashes += 1
        if crashes >= max_crashes: break
    return res, "\n".join(err_all)

_tlc_lock = threading.Semaphore(4)
def tlc_job(module, cfgtext, tag, env=None, timeout=1500, xss="256m"):
    ws = common.tlc_workspace()
    cfgname = "%s__%s.cfg" % (module, tag)
    with open(os.path.join(ws, cfgname), "w") as f: f.write(cfgtext)
    with _tlc_lock:
        r = common.tlc(module, cfg=cfgname, workers=1, timeout=timeout, xss=xss, env=env, xmx="3g")
    return r

# ------------------------------------------------------------------ corpus from TLC (mode B)
def gen_cfg(consts, invs):
    s = "SPECIFICATION Spec\nCONSTANTS\n" + "".join("  %s = %s\n" % kv for kv in consts)
    return s + "INVARIANTS " + " ".join(invs) + "\nCONSTRAINT Emit\nCHECK_DEADLOCK FALSE\n"

def tset(xs): return "{" + ", ".join(('"%s"' % x) if isinstance(x, str) else str(x) for x in xs) + "}"

def generate_corpus(ctx, rng):
    heavy = "FALSE" if ctx.quick else "TRUE"
    jobs = []
    # twin: (full, P, Q) with P, Q as point numbers; -1 = G, -2 = -G, -3 = 2G.  full = every l, else every 8th + corners
    rq = lambda: rng.randrange(1, 236)
    if ctx.quick:
        pq = [(1, -1, rq()), (0, -1, 0), (0, -1, -1), (0, -1, -2), (0, -1, 118), (0, rq(), rq())]
    else:
        pq = [(1, -1, rq()), (1, rq(), rq()), (0, -1, -1), (0, -1, -2), (0, -1, 0), (0, -1, -3), (0, -1, 118), (0, -1, 59),
              (0, 0, -1), (0, -2, -3), (0, 118, 177), (0, -1, rq()), (0, rq(), rq())]
    codes = sorted({f * 1000000 + (p + 10) * 1000 + (q + 10) for f, p, q in pq})
    def walk(nm, tag, bases, kfrom, kto, stride, dstride):
        consts = [("CurveNames", tset([nm])), ("Bases", tset(bases)), ("KFrom", kfrom), ("KTo", kto),
                  ("Stride", stride), ("DStride", dstride)]
        jobs.append(("EcGenWalk", tag, gen_cfg(consts, ["Closed", "Cycle", "Ladder", "Special", "DblOk"])))
    if ctx.quick:       # 16-bit group: the first and the last 5000 scalars; 13-bit group: everything + part of a 2nd base
        walk("E13", "E13", [1], 0, 0, 8, 16)
        walk("E16M3", "E16M3.lo", [1], 0, 5000, 8, 32)
        walk("E16M3", "E16M3.hi", [1], 60184, 0, 8, 32)
        walk("E13", "E13.b", [rng.randrange(2, 4000)], 0, 2500, 8, 16)
    else:
        walk("E16M3", "E16M3", [1], 0, 0, 2, 64)
        walk("E16M3", "E16M3.b", [rng.randrange(2, 60000)], 0, 0, 2, 64)
        walk("E13", "E13", [1, rng.randrange(2, 4000), rng.randrange(4000, 8000)], 0, 0, 1, 16)
    for nm in TOY8:
        jobs.append(("EcGenTwin", nm, gen_cfg([("CurveNames", tset([nm])), ("PQ", tset(codes)), ("LStride", 8 if ctx.quick else 4), ("Heavy", heavy)],
                                              ["Closed", "Corners", "Diagonal", "AllAgree", "RowSteps"])))
    for nm in TOY8 + TOY8X:
        jobs.append(("EcGenPairs", nm, gen_cfg([("CurveNames", tset([nm])), ("Heavy", heavy)],
                     ["WholeGroup", "Closed", "Commutes", "SubUndoes", "Neutral", "MulCorners", "DblNIsMul", "RelAgrees",
                      "MulAgrees", "Assoc"])))
    jobs.sort(key=lambda j: 0 if j[0] == "EcGenPairs" else 1)      # the long jobs first: 4 TLC processes stay busy to the end
    results = {}
    def run(j):
        mod, nm, cfgtext = j
        r = tlc_job(mod, cfgtext, nm)
        ctx.log("TLC %s/%s: %d states, %.0fs" % (mod, nm, r.distinct, r.wall))
        return j, r
    r0 = tlc_job("EcCurvesCount", "", "assume")          # ASSUMEs of EcGroup, EcCurves, EcCurvesCount
    if r0.rc != 0:
        raise common.Infra("curve validation (ASSUMEs) failed inside TLC: %s\n%s" % (r0.violation, r0.out[-2000:]))
    ctx.tlc_stats(r0, "EcCurvesCount (ASSUME: primes, discriminant, G on curve, n*G=Inf, point counts)")
    with ThreadPoolExecutor(max_workers=4) as ex:
        for j, r in ex.map(run, jobs):
            mod, nm, _ = j
            ctx.tlc_stats(r, "%s/%s" % (mod, nm))
            if r.rc != 0:
                raise common.Infra("reference algebra failed inside TLC (%s/%s; spec bug, not a code verdict): %s\n%s"
                                   % (mod, nm, r.violation, r.out[-2500:]))
            cases = common.tlc_printed_json(r.out)
            if len(cases) != r.distinct or not cases:
                raise common.Infra("corpus emission lost cases in %s/%s: %d printed vs %d distinct" % (mod, nm, len(cases), r.distinct))
            results.setdefault((mod, nm.split(".")[0]), []).extend(cases)
    return results

class Corpus:
    """driver lines + expected token lists + meta, identical for every build"""
    def __init__(self):
        self.lines = []; self.expect = []; self.meta = []; self.curves = {}
    def add(self, line, exp, **meta):
        self.lines.append(line); self.expect.append(exp); self.meta.append(meta)

def scalar_class(ks):
    return "zero-scalar" if any(k == 0 for k in ks) else "generic"

def walk_rows(ctx, C, name, cv, cs, rng, caps):
    """EcGenWalk states (one per scalar) -> rows of up to 256 consecutive scalars per base, plus the per-point rows"""
    hexs = lambda ks: " ".join("%x" % k for k in ks)
    n = cv["n"]; G = [cv["gx"], cv["gy"]]
    runs = {}
    for c in cs: runs.setdefault(c["s"], []).append(c)
    for sv, sts in sorted(runs.items()):
        sts.sort(key=lambda c: c["k"])
        B = sts[0]["base"]
        i = 0
        while i < len(sts):
            j = i
            while j + 1 < len(sts) and j + 1 - i < 256 and sts[j + 1]["k"] == sts[j]["k"] + 1: j += 1
            seg = sts[i:j + 1]; i = j + 1
            ks = [c["k"] for c in seg]; exp = [pt(c["P"]) for c in seg]
            exc = ks[0] == 0 or ks[-1] >= n - 1
            if sv == 1:
                for cap in caps():
                    C.add("mulbp %s %s %s" % (name, cap, hexs(ks)), exp, op="mulbp", curve=name, cap=cap, P=B, args=ks, exc=exc)
            for cap in caps():
                C.add("mul %s %s %s %s" % (name, cap, pt(B), hexs(ks)), exp, op="mul", curve=name, cap=cap, P=B, args=ks, exc=exc)
        for c in sts:
            if not c["sel"]: continue
            P = c["P"]; e = c["ext"]; exc = c["k"] <= 2 or c["k"] >= n - 1
            d2 = pt(e["dbl"]); ng = e["neg"]
            C.add("dbl %s D %s" % (name, pt(P)), [d2], op="dbl", curve=name, cap="D", P=P, args=[P], exc=exc)
            # operands G, P, -P, Inf: P + G, 2P, Inf, P  /  P - G, Inf, 2P, P   (every value emitted by TLC)
            C.add("add %s D %s %s %s %s inf" % (name, pt(P), pt(G), pt(P), pt(ng)),
                  [pt(e["next"]), d2, "inf", pt(P)], op="add", curve=name, cap="D", P=P, args=[G, P, ng, []], exc=exc)
            C.add("sub %s D %s %s %s %s inf" % (name, pt(P), pt(G), pt(P), pt(ng)),
                  [pt(e["prev"]), "inf", d2, pt(P)], op="sub", curve=name, cap="D", P=P, args=[G, P, ng, []], exc=exc)
            # 0P, 1P, 2P, (n-1)P = -P, nP = Inf, (n+1)P = P   (EcGenWalk!Special / Cycle)
            sk = [0, 1, 2, n - 1, n, n + 1]
            C.add("mul %s D %s %s" % (name, pt(P), hexs(sk)), ["inf", pt(P), d2, pt(ng), "inf", pt(P)],
                  op="mul", curve=name, cap="D", P=P, args=sk, exc=exc)
            for j, r in enumerate(e["dbln"]):
                for kind in "ap":
                    C.add("dbln %s D %s %d %s" % (name, kind, j + 1, pt(P)), [pt(r)], op="dbln_" + kind,
                          curve=name, cap="D", P=P, args=[j + 1], exc=exc)

def make_corpus(ctx, cases, rng):
    """rows of TLC -> protocol lines (identical for every build).  cap D for every row; a seeded share of the rows is
    repeated with cap M.  meta['curve'] / meta['exc'] let run_build select rows per build."""
    C = Corpus()
    mshare = 0.12 if ctx.quick else 0.2
    def caps(): return "DM" if rng.random() < mshare else "D"
    hexs = lambda ks: " ".join("%x" % k for k in ks)
    for (mod, nm), cs in sorted(cases.items()):
        for c in cs:
            if c["curve"]: C.curves[c["curve"]["name"]] = c["curve"]
        if mod == "EcGenWalk":
            walk_rows(ctx, C, nm, C.curves[nm], cs, rng, caps)
            continue
        names = [nm] + [a for a, b in ALIAS.items() if b == nm]
        for c in cs:
            cv = c["curve"]; G = [cv["gx"], cv["gy"]]
            for name in names:
                alias = name != nm
                if mod == "EcGenPairs":
                    P = c["P"]; Q = c["Q"]; ks = list(range(len(c["mul"]))); qs = " ".join(pt(q) for q in Q)
                    exc = (not P) or P[1] == 0 or P[0] == 0 or c["idx"] <= 3
                    for cap in caps():
                        C.add("add %s %s %s %s" % (name, cap, pt(P), qs), [pt(r) for r in c["add"]],
                              op="add", curve=name, cap=cap, P=P, args=Q, exc=exc)
                        C.add("sub %s %s %s %s" % (name, cap, pt(P), qs), [pt(r) for r in c["sub"]],
                              op="sub", curve=name, cap=cap, P=P, args=Q, exc=exc)
                        C.add("mul %s %s %s %s" % (name, cap, pt(P), hexs(ks)), [pt(r) for r in c["mul"]],
                              op="mul", curve=name, cap=cap, P=P, args=ks, exc=exc)
                    C.add("dbl %s D %s" % (name, pt(P)), [pt(c["dbl"])], op="dbl", curve=name, cap="D", P=P, args=[P], exc=exc)
                    for j, r in enumerate(c["dbln"]):
                        for kind in "ap":
                            C.add("dbln %s D %s %d %s" % (name, kind, j + 1, pt(P)), [pt(r)], op="dbln_" + kind, curve=name,
                                  cap="D", P=P, args=[j + 1], exc=exc)
                    if P == G:
                        for cap in "DM":
                            C.add("mulbp %s %s %s" % (name, cap, hexs(ks)), [pt(r) for r in c["mul"]],
                                  op="mulbp", curve=name, cap=cap, P=P, args=ks, exc=True)
                elif mod == "EcGenTwin":
                    if alias: continue
                    if not c["row"]: continue                 # sparse pair: this l carries no row
                    P, Q, l = c["P"], c["Q"], c["l"]; ks = list(range(len(c["row"]))); exp = [pt(r) for r in c["row"]]
                    exc = l in (0, 1, cv["n"] - 1, cv["n"]) or not Q
                    for cap in caps():
                        if c["bp"]:
                            C.add("twinbp %s %s %s %x %s" % (name, cap, pt(Q), l, hexs(ks)), exp,
                                  op="twinbp", curve=name, cap=cap, P=P, Q=Q, l=l, args=ks, exc=exc)
                    if (not c["bp"]) or l % 4 == 0 or exc:
                        C.add("twin %s D %s %s %x %s" % (name, pt(P), pt(Q), l, hexs(ks)), exp,
                              op="twin", curve=name, cap="D", P=P, Q=Q, l=l, args=ks, exc=exc)
    # every special-cased curve shape must bring its special operands: P + P (distinct objects), 2P (one object) and k*P
    # for a P with x = 0 and for a P with y = 0, and the neutral element as either operand
    for nm in SHAPES + [a for a, b in ALIAS.items() if b in SHAPES]:
        for what, sel in (("x = 0", lambda P: P and P[0] == 0), ("y = 0", lambda P: P and P[1] == 0), ("infinity", lambda P: not P)):
            for op in ("add", "dbl", "mul"):
                if not any(m["curve"] == nm and m["op"] == op and sel(m["P"]) and (op != "add" or m["P"] in m["args"]) for m in C.meta):
                    raise common.Infra("corpus lacks the %s row of a point with %s on %s" % (op, what, nm))
    return C

# ------------------------------------------------------------------ keys
def input_class(m, idx):
    op = m["op"]
    if op in ("add", "sub"):
        Q = m["args"][idx]; P = m["P"]
        if not P or not Q: return "inf-operand"
        if P == Q: return "P==Q"
        if P[0] == Q[0]: return "P==-Q"
        return "generic"
    if op in ("dbl",):
        return "inf-operand" if not m["args"][idx] else ("y==0" if m["args"][idx][1] == 0 else "generic")
    if op.startswith("dbln"):
        return "inf-operand" if not m["P"] else "generic"
    if op in ("mul", "mulbp"):
        if not m["P"]: return "inf-operand"
        return "zero-scalar" if m["args"][idx] == 0 else "generic"
    if op in ("twinbp", "twin"):
        if m["args"][idx] == 0 or m["l"] == 0: return "zero-scalar"
        if not m["P"] or not m["Q"]: return "inf-operand"
        return "generic"
    return "generic"

def curve_fail_key(cfg, kind):
    """ecdsa_curve_from_str fails: the only thing it computes is the base point table of the fixed-point multiplier"""
    if not cfg["proj"] and cfg["fxp"] == 1: return "pre_dbl_mult:affine:" + kind
    return "curve_from_str:fxp=%s:%s:%s" % (FXP[cfg["fxp"]], "proj" if cfg["proj"] else "affine", kind)

def fail_key(cfg, m, idx, kind):
    """WHAT fails: <entry point>:<algorithm that serves it>:<coordinates>:<input class>:<crash|wrong-result>.
    Failures that come from one component whatever the entry point are keyed by the component."""
    e = eff(cfg); op = m["op"]
    coords = ("proj" + ("+mix" if cfg["mix"] else "")) if cfg["proj"] else "affine"
    uses_unk = op == "mul" or (op == "twinbp" and e["twin_eff"] == 1)
    uses_fxp = op == "mulbp" or (op == "twinbp" and e["twin_eff"] == 1)
    if uses_unk and e["unk_eff"] in TABLE_ALGOS and e["unkw_eff"] > cfg["fxpw"]:
        return "unknown_pt_mult:table-sized-by-fxp-window:unkpt_win_bits>fxp_win_bits:" + kind
    if not cfg["proj"] and ((uses_unk and e["unk_eff"] == 1) or (uses_fxp and cfg["fxp"] == 1)):
        return "pre_dbl_mult:affine:" + kind
    if m.get("long") and ((uses_unk and e["unk_eff"] == 1) or (uses_fxp and cfg["fxp"] == 1)):
        return "pre_dbl_mult:scalar-longer-than-field-bits:" + kind
    if (uses_unk and e["unk_eff"] in (3, 4) and e["unkw_eff"] > cfg["digit"]) or \
       (uses_fxp and cfg["fxp"] in (3, 4) and cfg["fxpw"] > cfg["digit"]):
        return "comb_mult:window-bits>digit-bits:" + kind
    ic = input_class(m, idx)
    if op in ("twinbp", "twin"):
        algo = TWIN[e["twin_eff"]] if op == "twinbp" else TWIN[0 if e["twin_eff"] == 1 else e["twin_eff"]]
        if algo == "JOINT" and ic == "zero-scalar":
            return "twin_mult:JOINT:zero-scalar:" + kind
        return "%s:%s:%s:%s:%s" % ("twin_mult_bp" if op == "twinbp" else "twin_mult", algo, coords, ic, kind)
    if op == "mul": return "unknown_pt_mult:%s:%s:%s:%s" % (FXP[e["unk_eff"]], coords, ic, kind)
    if op == "mulbp": return "mult_bp:%s:%s:%s:%s" % (FXP[cfg["fxp"]], coords, ic, kind)
    if op == "dbln_p": return "proj_dbl_n:%s:%s:%s" % ("repeat_double" if cfg["rdbl"] else "loop", ic, kind)
    if op == "dbln_a": return "affine_dbl_n:%s:%s" % (ic, kind)
    return "ec_point_%s:%s:%s:%s" % (op, coords, ic, kind)

# ------------------------------------------------------------------ run one build over the corpus
def check_curve_tables(exe, C, cfg):
    names = sorted(C.curves) + sorted(ALIAS)
    res, _ = drive(exe, ["cfg"] + ["curve %s" % n for n in names])
    kv = dict(t.split("=") for t in res[0].split()[1:])
    want = dict(digit=cfg["digit"], proj=cfg["proj"], mix=cfg["mix"], rdbl=cfg["rdbl"], fxp=cfg["fxp"], fxpw=cfg["fxpw"],
                twin=eff(cfg)["twin_eff"], unk=eff(cfg)["unk_eff"], unkw=eff(cfg)["unkw_eff"])
    for k, v in want.items():
        if int(kv[k]) != v:
            raise common.Infra("driver built with %s=%s but the rig asked for %s (%s)" % (k, kv[k], v, cfg_name(cfg)))
    for n, ln in zip(names, res[1:]):
        if isinstance(ln, dict): return {"crash": ln, "curve": n}
        f = dict(t.split("=") for t in ln.split()[1:])
        cv = C.curves[ALIAS.get(n, n)]
        if int(f["rc"]) != 0: return {"rc": f["rc"], "curve": n}
        for a, b in (("p", "p"), ("a", "a"), ("b", "b"), ("gx", "gx"), ("gy", "gy"), ("n", "n")):
            if int(f[a], 16) != cv[b]:
                raise common.Infra("curve tables differ: %s.%s driver=%s spec=%s" % (n, a, f[a], cv[b]))
        if int(f["m"]) != cv["m"] or int(f["h"]) != cv["h"]:
            raise common.Infra("curve tables differ: %s m/h" % n)
    return None

def unk_share(cfg):
    """share of the rows that call the unknown-point multiplier: it builds its whole table (2^w - 1 points, twice for
    COMB_2T) on every call, so wide windows are sampled"""
    e = eff(cfg)
    if e["unk_eff"] not in TABLE_ALGOS: return 1.0
    return min(1.0, 12.0 / ((1 << e["unkw_eff"]) * (2 if e["unk_eff"] == 4 else 1) * (1 if cfg["proj"] else 2)))

def select_rows(ctx, cfg, bi, C, rng):
    """which rows this build runs.  The suite's configuration (bi = 0) runs everything.  The other builds run add / sub /
    dbl / dbl_n everywhere (both tiers: the WHOLE group x group add table of every 8-bit curve, affine and projective; quick:
    the sub table only on the build's own curves and for the special operands elsewhere), the
    multiplier rows (mul, mulbp, twin) of the 8-bit curves on one (quick) or two (thorough) of the four EcCurves curves,
    rotating with the build number, plus the multiples of the special points of the EcCurvesX curves, E13 always and E16M3
    always (thorough) or when the digit size lets the comb / window code see its scalars (quick).  Multiplier rows that build a wide table per call, and the
    multiplier rows of 128-bit-digit builds in the thorough tier, are sampled (seeded); stats["rows"] says how many ran."""
    e = eff(cfg)
    allowed = None; mult_on = None
    xnames = set(TOY8X) | {a for a, b in ALIAS.items() if b in TOY8X}
    if bi > 0:
        if ctx.quick:
            one = TOY8[(bi - 1) % 4]
            allowed = {one, "E13"} | {a for a, b in ALIAS.items() if b == one}
            if cfg["digit"] <= 16: allowed.add("E16M3")
        else:
            two = {TOY8[bi % 4], TOY8[(bi // 4 + bi + 1) % 4]}
            mult_on = two | {a for a, b in ALIAS.items() if b in two} | set(TOYBIG)
    share = unk_share(cfg)
    slow = 0.5 if (cfg["digit"] == 128 and bi > 0 and not ctx.quick) else 1.0    # no double-digit type: 3x slower builds
    sel = []
    for i, m in enumerate(C.meta):
        mult = m["op"] in ("mul", "mulbp", "twin", "twinbp")
        # the multiples of the special points (x = 0, y = 0, infinity) of the special-shape curves: every build
        special = m["op"] == "mul" and m["exc"] and m["curve"] in xnames
        if allowed is not None and mult and m["curve"] not in allowed and not special: continue
        # quick, curves this build does not multiply on: P - Q is P + (-Q) of the add table; the sub rows of the special operands stay
        if allowed is not None and m["op"] == "sub" and m["curve"] not in allowed and not m["exc"]: continue
        if mult_on is not None and mult and m["curve"] not in mult_on and not special: continue
        if slow < 1.0 and mult and not m["exc"] and rng.random() > slow: continue
        if share < 1.0 and (m["op"] == "mul" or (m["op"] == "twinbp" and e["twin_eff"] == 1)):
            if rng.random() > share * (2 if m["exc"] else 1): continue
        sel.append(i)
    return sel

MAX_PER_KEY = 3
def one_line(m, j):
    """the single-operand form of a row (used to find out which operand of a row kills the driver)"""
    op = m["op"]; nm = m["curve"]; cap = m["cap"]; a = m["args"][j] if j < len(m["args"]) else None
    if op in ("add", "sub"): return "%s %s %s %s %s" % (op, nm, cap, pt(m["P"]), pt(a))
    if op == "dbl": return "dbl %s %s %s" % (nm, cap, pt(a))
    if op.startswith("dbln"): return "dbln %s %s %s %d %s" % (nm, cap, op[-1], a, pt(m["P"]))
    if op == "mul": return "mul %s %s %s %x" % (nm, cap, pt(m["P"]), a)
    if op == "mulbp": return "mulbp %s %s %x" % (nm, cap, a)
    if op == "twinbp": return "twinbp %s %s %s %x %x" % (nm, cap, pt(m["Q"]), m["l"], a)
    if op == "twin": return "twin %s %s %s %s %x %x" % (nm, cap, pt(m["P"]), pt(m["Q"]), m["l"], a)
    raise common.Infra("one_line: unknown op " + op)

def run_rows(cfg, exe, C, sel, fails, stats, per_key):
    by_op = {}
    for i in sel: by_op.setdefault(C.meta[i]["op"], []).append(i)
    for op, idxs in sorted(by_op.items()):
        t0 = time.time()
        res, err = drive(exe, [C.lines[i] for i in idxs], timeout=1500)
        for e_ in set(re.findall(r"(\S+?:\d+):\d+: runtime error: ([^\n]{0,80})", err)):
            u = "%s %s" % (os.path.basename(e_[0]), re.sub(r"0x[0-9a-f]+", "X", e_[1]))
            if u not in stats["ubsan"]: stats["ubsan"].append(u)
        for i, r in zip(idxs, res):
            m = C.meta[i]; exp = C.expect[i]
            if r is None:
                stats["skipped_rows"] += 1; continue
            stats["rows"] += 1
            if isinstance(r, dict) or len(r) != len(exp):
                # the driver died somewhere inside this row, or (memory corruption in the build without sanitizers, e.g.
                # the loop counter of the driver overwritten) answered it short: run its operands one by one to see which
                if not isinstance(r, dict):
                    r = {"crash": ("short-answer", "", "", "%d results for %d operands" % (len(r), len(exp))), "raw": " ".join(r[:6])}
                stats["crashed_rows"] = stats.get("crashed_rows", 0) + 1
                if stats["crashed_rows"] > 12: stats["skipped_rows"] += 1; continue
                sub, _ = drive(exe, [one_line(m, j) for j in range(len(exp))], timeout=600, max_crashes=4)
                ncr = 0
                for j, rj in enumerate(sub):
                    if rj is None: break
                    if isinstance(rj, dict):
                        k = rj["crash"]; key = fail_key(cfg, m, j, "crash"); ncr += 1
                        per_key[key] = per_key.get(key, 0) + 1
                        if per_key[key] <= MAX_PER_KEY:
                            fails.append((key, "config %s\ncase %s\n%s: %s %s\n%s" % (cfg_name(cfg), one_line(m, j), k[0], k[1], k[2], rj["raw"][-1500:]),
                                          {"config": cfg_defs(cfg), "line": one_line(m, j), "crash": list(k)}))
                    elif rj != [exp[j]]:
                        g = rj[0] if len(rj) == 1 else "?(%d results)" % len(rj)
                        key = fail_key(cfg, m, j, "wrong-result")
                        per_key[key] = per_key.get(key, 0) + 1
                        if per_key[key] <= MAX_PER_KEY:
                            fails.append((key, "config %s\ncase %s\nexpected %s\ngot      %s" % (cfg_name(cfg), one_line(m, j), exp[j], g),
                                          {"config": cfg_defs(cfg), "line": one_line(m, j), "expected": exp[j], "got": g}))
                    else:
                        stats["evaluations"] += 1
                if ncr == 0:       # the row as a whole dies but no single operand does (depends on the call history)
                    k = r["crash"]; key = fail_key(cfg, m, len(exp) - 1, "crash")
                    per_key[key] = per_key.get(key, 0) + 1
                    if per_key[key] <= MAX_PER_KEY:
                        fails.append((key, "config %s\ncase %s\n%s: %s %s\n%s" % (cfg_name(cfg), C.lines[i][:300], k[0], k[1], k[2], r["raw"][-1500:]),
                                      {"config": cfg_defs(cfg), "line": C.lines[i][:2000], "crash": list(k)}))
                continue
            stats["evaluations"] += len(exp)
            if r == exp: continue
            seen = set()
            for j, (g, x) in enumerate(zip(r, exp)):
                if g == x: continue
                kind = "wrong-result"
                key = fail_key(cfg, m, j, kind)
                if key in seen: continue
                seen.add(key)
                per_key[key] = per_key.get(key, 0) + 1
                if per_key[key] <= MAX_PER_KEY:
                    fails.append((key, "config %s\ncase: %s ... operand #%d (%s)\nexpected %s\ngot      %s" %
                                  (cfg_name(cfg), C.lines[i][:120], j, str(m["args"][j])[:60] if j < len(m["args"]) else "", x, g),
                                  {"config": cfg_defs(cfg), "line": C.lines[i][:4000], "index": j, "expected": x, "got": g}))
        stats["op_wall_s"][op] = round(stats["op_wall_s"].get(op, 0) + time.time() - t0, 1)

def run_build(ctx, cfg, bi, exes, C):
    """-> (failures [(key, detail, replay)], stats)"""
    fails = []
    stats = {"config": cfg_name(cfg), "evaluations": 0, "rows": 0, "skipped_rows": 0, "ubsan": [], "op_wall_s": {}, "asan_rows": 0}
    for exe in exes.values():
        bad = check_curve_tables(exe, C, cfg)
        if bad:
            fails.append((curve_fail_key(cfg, "wrong-result"),
                          "config %s: loading a synthetic curve through ecdsa_curve_from_str failed: %s" % (cfg_name(cfg), str(bad)[:1500]),
                          {"config": cfg_defs(cfg), "info": str(bad)[:3000]}))
            return fails, stats
    rng = random.Random("%s/%s" % (ctx.seed, cfg_name(cfg)))
    sel = select_rows(ctx, cfg, bi, C, rng)
    per_key = {}
    run_rows(cfg, exes["fast"], C, sel, fails, stats, per_key)
    share = 0.04 if ctx.quick else 0.06
    asel = [i for i in sel if rng.random() < (share * (4 if C.meta[i]["exc"] else 1))]
    n0 = stats["rows"]
    run_rows(cfg, exes["asan"], C, asel, fails, stats, per_key)
    stats["asan_rows"] = stats["rows"] - n0
    stats["fail_counts"] = per_key
    return fails, stats

# ------------------------------------------------------------------ mode C: built-in curves
def modec_ops(exe, cfg, names, rng, ctx):
    """ask the driver for sampled/exceptional operations on built-in curves; returns ndjson events (limbs) + meta"""
    res, _ = drive(exe, ["curves"])
    fails = []; events = []; meta = []
    lines = ["curve %s" % n for n in names]
    cres, _ = drive(exe, lines)
    curves = {}
    for n, ln in zip(names, cres):
        if isinstance(ln, dict):
            fails.append((curve_fail_key(cfg, "crash"), "%s: %s" % (n, ln["raw"][-800:]), {"config": cfg_defs(cfg), "curve": n})); continue
        f = dict(t.split("=") for t in ln.split()[1:])
        if int(f["rc"]) != 0:
            fails.append((curve_fail_key(cfg, "wrong-result"), "ecdsa_curve_from_str(%s) rc=%s" % (n, f["rc"]), {"config": cfg_defs(cfg), "curve": n})); continue
        curves[n] = f
    return curves, fails

def hx(v): return "%x" % v

def hp(sx):
    if sx == "inf": return []
    x, y = sx.split(","); return [int(x, 16), int(y, 16)]
def pseudo_meta(kind, x, mbits=0):
    """meta record (as for mode B rows) of a mode C call, so that both modes key a failure the same way"""
    m_ = pseudo_meta0(kind, x)
    ks = [a for a in m_["args"] if isinstance(a, int)] + ([m_["l"]] if "l" in m_ else [])
    m_["long"] = bool(mbits) and any(k.bit_length() > mbits for k in ks)
    return m_
def pseudo_meta0(kind, x):
    if kind in ("add", "sub"): return {"op": kind, "P": hp(x[3]), "args": [hp(x[4])]}
    if kind == "dbl": return {"op": "dbl", "P": hp(x[3]), "args": [hp(x[3])]}
    if kind == "bp": return {"op": "mulbp", "P": hp(x[3]), "args": [x[4]]}
    if kind == "unk": return {"op": "mul", "P": hp(x[3]), "args": [x[4]]}
    if kind in ("twinbp", "twin"): return {"op": kind, "P": hp(x[3][0]), "Q": hp(x[4][0]), "l": x[4][1], "args": [x[3][1]]}
    if kind == "lad": return {"op": "add", "P": hp(x[3]), "args": [hp(x[3])]}
    raise common.Infra("pseudo_meta " + kind)

def unlimbs13(ls):
    v = 0
    for i, l in enumerate(ls): v |= l << (13 * i)
    return v

def x0_points(ctx, exe, names, d):
    """{curve name: "0,<y>"} for the built-in curves whose b is a quadratic residue.  The curve parameters are read from
    the library's table (inputs); the root y of y^2 = b is computed by TLC (specs/ec/EcX0, Tonelli-Shanks over BigNat)."""
    cres, _ = drive(exe, ["curve %s" % n for n in names])
    path = os.path.join(d, "x0_curves.ndjson"); listed = []
    with open(path, "w") as f:
        for n, ln in zip(names, cres):
            if not isinstance(ln, str): continue              # a curve that does not load is reported by modec_ops
            kv = dict(t.split("=") for t in ln.split()[1:])
            if int(kv["rc"]) != 0: continue
            f.write(json.dumps({"name": n, "p": limbs13(kv["p"]), "b": limbs13(kv["b"])}) + "\n"); listed.append(n)
    if not listed: return {}
    r = tlc_job("EcX0", "SPECIFICATION Spec\nINVARIANT RootOk\nCONSTRAINT Emit\nCHECK_DEADLOCK FALSE\n", "x0", env={"TRACE": path}, timeout=900)
    ctx.tlc_stats(r, "EcX0 (roots of b on the built-in curves)")
    if r.rc != 0:
        raise common.Infra("EcX0 failed (spec error, not a code verdict): %s\n%s" % (r.violation, r.out[-2500:]))
    out = {}
    rows = common.tlc_printed_json(r.out)
    if len(rows) != len(listed):
        raise common.Infra("EcX0 printed %d rows for %d curves" % (len(rows), len(listed)))
    for i, nm, y in rows:
        if nm != listed[i - 1]: raise common.Infra("EcX0 rows out of order")
        if y: out[nm] = "0,%x" % unlimbs13(y)
    ctx.log("x = 0: b is a quadratic residue on %d of the %d built-in curves (roots by TLC in %.0fs)" % (len(out), len(listed), r.wall))
    return out

def modec(ctx, cfg, exe, names, rng, full_names, nsample, x0=None, x0_only=()):
    """drive the library on built-in curves and assemble the events TLC will decide.
    Ladders of curves in `full_names` are certified step by step; the others at `nsample` seeded positions.
    x0: {curve: point with x = 0} (from TLC); curves in `x0_only` are loaded for the add / sub / dbl calls on that point alone.
    returns (failures, events, evmeta, stats)"""
    x0 = x0 or {}
    x0_only = [n for n in x0_only if n in x0 and n not in names]
    curves, fails = modec_ops(exe, cfg, list(names) + x0_only, rng, ctx)
    stats = {"config": cfg_name(cfg), "curves": len(curves) - len(x0_only), "x0_curves": len([n for n in curves if n in x0]),
             "events": 0, "validate": {}, "ladder_steps": 0, "ladder_steps_decided": 0}
    vnames = [n for n in curves if n not in x0_only]
    vres, _ = drive(exe, ["validate %s" % n for n in vnames], timeout=900, max_crashes=40)
    for n, r in zip(vnames, vres):
        # the only group computation of ec_curve_validate is n*G through the unknown-point multiplier
        longn = int(curves[n]["n"], 16).bit_length() > int(curves[n]["m"])
        mk = lambda kind: fail_key(cfg, {"op": "mul", "P": [1, 1], "args": [2], "long": longn}, 0, kind)
        generic = "unknown_pt_mult:%s:" % FXP[eff(cfg)["unk_eff"]]
        if r is None: continue
        if isinstance(r, dict):
            k_ = mk("crash")
            fails.append((k_ if not k_.startswith(generic) else "ec_curve_validate:built-in:crash",
                          "ec_curve_validate(%s) in %s\n%s" % (n, cfg_name(cfg), r["raw"][-1200:]), {"config": cfg_defs(cfg), "curve": n}))
            continue
        stats["validate"][n] = int(r[0])
        if int(r[0]) != 0:
            k_ = mk("wrong-result")
            fails.append((k_ if not k_.startswith(generic) else "ec_curve_validate:built-in:nonzero",
                          "ec_curve_validate(%s) = %s in %s" % (n, r[0], cfg_name(cfg)), {"config": cfg_defs(cfg), "curve": n}))
    OPN = {"bp": "mult_bp", "unk": "unknown_pt_mult", "twinbp": "twin_mult_bp", "twin": "twin_mult", "lad": "ladder(ec_point_add)"}
    # round 1: a random multiple P1 = k1*G from the base-point multiplier (certified by its ladder in round 2)
    info = {}
    l1 = []
    for n, f in curves.items():
        if n in x0_only: continue
        nn = int(f["n"], 16); G = "%s,%s" % (f["gx"], f["gy"]); k1 = rng.randrange(3, nn - 1)
        info[n] = (nn, G, k1)
        l1.append("mulbp %s D %s" % (n, hx(k1)))
    r1, _ = drive(exe, l1, timeout=900)
    # round 2
    l2 = []       # (line, curve, kind, a, b)
    for (n, (nn, G, k1)), r in zip(info.items(), r1):
        if isinstance(r, dict):
            fails.append((fail_key(cfg, {"op": "mulbp", "P": [1, 1], "args": [k1]}, 0, "crash"),
                          "config %s built-in curve %s k=%x\n%s" % (cfg_name(cfg), n, k1, r["raw"][-1200:]), {"config": cfg_defs(cfg)})); continue
        if not r or "," not in r[0]:
            fails.append((fail_key(cfg, {"op": "mulbp", "P": [1, 1], "args": [k1]}, 0, "wrong-result"),
                          "config %s built-in curve %s k=%x -> %s" % (cfg_name(cfg), n, k1, r), {"config": cfg_defs(cfg)})); continue
        P1 = r[0]
        for a, b in ((P1, G), (G, P1), (P1, P1), (P1, "inf"), ("inf", P1), ("inf", "inf")):
            l2.append(("add %s D %s %s" % (n, a, b), n, "add", a, b))
            l2.append(("sub %s D %s %s" % (n, a, b), n, "sub", a, b))
        for a in (P1, G, "inf"):
            l2.append(("dbl %s D %s" % (n, a), n, "dbl", a, None))
        kr = rng.randrange(3, nn - 1); lr = rng.randrange(3, nn - 1)
        lads = set()
        def lad(Pt, k):
            if (Pt, k) not in lads:
                lads.add((Pt, k)); l2.append(("ladder %s D %s %s" % (n, Pt, hx(k)), n, "lad", Pt, k))
        for k in (k1, 0, 1, 2, nn - 1, nn):                       # base point: fixed-point and unknown-point multiplier
            lad(G, k)
            l2.append(("mulbp %s M %s" % (n, hx(k)), n, "bp", G, k))
            l2.append(("mul %s D %s %s" % (n, G, hx(k)), n, "unk", G, k))
        for k in (0, 1, 2, nn - 1, nn, kr):                       # arbitrary point
            lad(P1, k)
            l2.append(("mul %s M %s %s" % (n, P1, hx(k)), n, "unk", P1, k))
        for (k, l) in ((k1, lr), (0, kr), (kr, 0), (nn - 1, 1), (1, nn - 1)):     # k*G + l*P1
            lad(G, k); lad(P1, l)
            l2.append(("twinbp %s M %s %s %s" % (n, P1, hx(l), hx(k)), n, "twinbp", (G, k), (P1, l)))
            l2.append(("twin %s D %s %s %s %s" % (n, G, P1, hx(l), hx(k)), n, "twin", (G, k), (P1, l)))
        if n in x0:                                                   # the point with x = 0: its multiples through the multiplier
            P0 = x0[n]
            for k in (2, 3, 5, kr):
                lad(P0, k)
                l2.append(("mul %s D %s %s" % (n, P0, hx(k)), n, "unk", P0, k))
            lad(P0, lr); lad(G, 2)
            l2.append(("twin %s D %s %s %s %s" % (n, G, P0, hx(lr), hx(2)), n, "twin", (G, 2), (P0, lr)))
    for n, f in curves.items():                                       # the point with x = 0: P0 + P0 (equal copy), 2*P0 (one object), ...
        if n not in x0: continue
        P0 = x0[n]; G = "%s,%s" % (f["gx"], f["gy"])
        for a, b in ((P0, P0), (P0, G), (G, P0), (P0, "inf")):
            l2.append(("add %s D %s %s" % (n, a, b), n, "add", a, b))
            l2.append(("sub %s D %s %s" % (n, a, b), n, "sub", a, b))
        l2.append(("add %s M %s %s" % (n, P0, P0), n, "add", P0, P0))
        l2.append(("dbl %s D %s" % (n, P0), n, "dbl", P0, None)); l2.append(("dbl %s M %s" % (n, P0), n, "dbl", P0, None))
    # one process per entry point, so that memory damage done by one of them cannot surface as a crash of another
    r2 = [None] * len(l2)
    for grp in (("lad", "add", "sub", "dbl"), ("bp",), ("unk",), ("twinbp",), ("twin",)):
        ix = [i for i, x in enumerate(l2) if x[2] in grp]
        rr, _ = drive(exe, [l2[i][0] for i in ix], timeout=1500, max_crashes=20)
        for i, r in zip(ix, rr): r2[i] = r
    ladders = {}
    for x, r in zip(l2, r2):
        if x[2] == "lad": ladders[(x[1], x[3], x[4])] = r
    # ---- events
    ev = []; evmeta = []; cidx = {}
    for n, f in curves.items():
        ev.append({"op": "curve", "name": n, "p": limbs13(f["p"]), "a": limbs13(f["a"]), "b": limbs13(f["b"]),
                   "n": limbs13(f["n"]), "G": [limbs13(f["gx"]), limbs13(f["gy"])]})
        evmeta.append(None); cidx[n] = len(ev)
    def tok_ok(r): return isinstance(r, list) and all(not t.startswith("err") for t in r)
    def chk_of(n, steps):
        stats["ladder_steps"] += len(steps)
        if n in full_names or len(steps) <= nsample:
            stats["ladder_steps_decided"] += len(steps); return []
        stats["ladder_steps_decided"] += nsample
        return sorted(rng.sample(range(1, len(steps) + 1), nsample))
    def steps_of(st, chk):
        """all steps, or (sampled ladders) only the steps TLC looks at: j-1 and j for j in chk, and the last one"""
        if not chk: return [pt_limbs(t) for t in st]
        need = {len(st)} | set(chk) | {j - 1 for j in chk}
        return [pt_limbs(t) if (j + 1) in need else [] for j, t in enumerate(st)]
    for x, r in zip(l2, r2):
        line, n, kind = x[0], x[1], x[2]
        if r is None: continue
        if isinstance(r, dict):
            k = r["crash"]
            fails.append((fail_key(cfg, pseudo_meta(kind, x, int(curves[n]["m"])), 0, "crash"),
                          "config %s built-in curve %s\n%s\n%s: %s\n%s" % (cfg_name(cfg), n, line[:200], k[0], k[1], r["raw"][-1200:]),
                          {"config": cfg_defs(cfg), "line": line[:1500]})); continue
        if not tok_ok(r):
            fails.append((fail_key(cfg, pseudo_meta(kind, x, int(curves[n]["m"])), 0, "wrong-result"),
                          "config %s built-in curve %s: %s -> %s" % (cfg_name(cfg), n, line[:160], r[:2]),
                          {"config": cfg_defs(cfg), "line": line[:1500]})); continue
        if kind == "lad": continue
        if kind in ("add", "sub"):
            ev.append({"op": kind, "ci": cidx[n], "P": pt_limbs(x[3]), "Q": pt_limbs(x[4]), "R": pt_limbs(r[0])})
        elif kind == "dbl":
            ev.append({"op": "dbl", "ci": cidx[n], "P": pt_limbs(x[3]), "R": pt_limbs(r[0])})
        elif kind in ("bp", "unk"):
            st = ladders.get((n, x[3], x[4]))
            if not tok_ok(st): continue
            ch = chk_of(n, st)
            ev.append({"op": "mul", "ci": cidx[n], "P": pt_limbs(x[3]), "k": limbs13(hx(x[4])), "steps": steps_of(st, ch),
                       "chk": ch, "R": [pt_limbs(r[0])]})
        elif kind in ("twinbp", "twin"):
            (Pa, k), (Qa, l) = x[3], x[4]
            sp = ladders.get((n, Pa, k)); sq = ladders.get((n, Qa, l))
            if not (tok_ok(sp) and tok_ok(sq)): continue
            cp, cq = chk_of(n, sp), chk_of(n, sq)
            ev.append({"op": "twin", "ci": cidx[n], "P": pt_limbs(Pa), "k": limbs13(hx(k)), "stepsP": steps_of(sp, cp),
                       "chkP": cp, "Q": pt_limbs(Qa), "l": limbs13(hx(l)), "stepsQ": steps_of(sq, cq),
                       "chkQ": cq, "R": [pt_limbs(r[0])]})
        evmeta.append((kind, n, line[:300], pseudo_meta(kind, x, int(curves[n]["m"]))))
    stats["events"] = len(ev) - len(curves)
    return fails, ev, evmeta, stats

def ev_cost(e):
    def c(st, ch): return len(ch) if ch else len(st)
    if e["op"] == "mul": return 2 + c(e["steps"], e["chk"])
    if e["op"] == "twin": return 4 + c(e["stepsP"], e["chkP"]) + c(e["stepsQ"], e["chkQ"])
    return 3

def validate_events(ctx, cfg, ev, evmeta, d, tag, nsh=4):
    """TLC decides every event (up to nsh single-worker runs; each trace starts with the curve lines)"""
    fails = []
    ncur = sum(1 for e in ev if e["op"] == "curve")
    head = ev[:ncur]; body = sorted(zip(ev[ncur:], evmeta[ncur:]), key=lambda em: -ev_cost(em[0]))
    if not body: return fails, 0
    nsh = min(nsh, max(1, len(body) // 6))
    shards = [[] for _ in range(nsh)]; load = [0] * nsh
    for em in body:                                   # greedy balancing by the number of relations to decide
        t = load.index(min(load)); shards[t].append(em); load[t] += ev_cost(em[0])
    def run(si):
        path = os.path.join(d, "trace_%s_%d.ndjson" % (tag, si))
        with open(path, "w") as f:
            for e in head: f.write(json.dumps(e) + "\n")
            for e, _ in shards[si]: f.write(json.dumps(e) + "\n")
        r = tlc_job("EcTrace", "SPECIFICATION Spec\nINVARIANT OverrideOk\nCONSTRAINT Emit\nCHECK_DEADLOCK FALSE\n",
                    "%s_%d" % (tag, si), env={"TRACE": path}, timeout=1500)
        return si, r
    nval = 0
    OPN = {"bp": "mult_bp", "unk": "unknown_pt_mult", "twinbp": "twin_mult_bp", "twin": "twin_mult"}
    with ThreadPoolExecutor(max_workers=4) as ex:
        for si, r in ex.map(run, range(nsh)):
            ctx.tlc_stats(r, "EcTrace/%s/shard%d" % (cfg_name(cfg), si))
            if r.rc != 0:
                raise common.Infra("EcTrace failed (%s): %s\n%s" % (cfg_name(cfg), r.violation, r.out[-2500:]))
            verd = {}
            for v in common.tlc_printed_json(r.out): verd[v[0]] = v[1]
            total = ncur + len(shards[si])
            if len(verd) != total:
                raise common.Infra("EcTrace printed %d verdicts for %d events" % (len(verd), total))
            for i in range(1, ncur + 1):
                if verd[i] != "ok":
                    fails.append(("built-in:curve-table:%s" % verd[i], "curve %s: %s" % (head[i - 1]["name"], verd[i]), {"config": cfg_defs(cfg)}))
            for j, (e, m) in enumerate(shards[si]):
                v = verd[ncur + 1 + j]; nval += 1
                if v == "ok": continue
                if v == "operand-not-on-curve":
                    # the operand is P1 = k1*G as returned by ec_point_mult_bp in round 1: that result is not on the curve
                    key = fail_key(cfg, {"op": "mulbp", "P": [1, 1], "args": [2]}, 0, "wrong-result")
                elif v.startswith("ladder-"):
                    # a step of the driver's own add/double ladder (ec_point_add) is wrong
                    key = fail_key(cfg, {"op": "add", "P": [1, 1], "args": [[2, 2]]}, 0, "wrong-result")
                else:
                    key = fail_key(cfg, m[3], 0, "wrong-result")
                fails.append((key, "config %s built-in curve %s: %s\nTLC verdict: %s" % (cfg_name(cfg), m[1], m[2], v),
                              {"config": cfg_defs(cfg), "curve": m[1], "line": m[2], "event": json.dumps(e)[:6000], "verdict": v}))
    return fails, nval

# ------------------------------------------------------------------ the affine + INTER selection
def build_pair(cfg, d):
    return {"fast": build(cfg, d, "fast"), "asan": build(cfg, d, "asan")}

def probe_affine_inter(ctx, d):
    cfg = dict(SUITE, proj=0, mix=0, rdbl=0, twin=3)
    try:
        return cfg, build_pair(cfg, d)
    except common.Infra as e:
        msg = str(e)
        if "ec_point_affine_inter_twin_mult" in msg and ("undefined reference" in msg or "undefined symbol" in msg):
            ctx.fail("build:affine+twin=INTER:undefined-reference:ec_point_affine_inter_twin_mult",
                     "EC_PF_TWIN_MULT_ALGO_INTER without EC_USE_PROJECTIVE passes the header's own selection check but "
                     "ec_point_affine_inter_twin_mult is not defined anywhere: the configuration does not link\n" + msg[-1200:],
                     {"config": cfg_defs(cfg)})
            return None
        raise

def quick_configs(rng):
    """the suite's configuration + 4 seed-chosen ones.  Whatever the seed: one affine build, one with 8-bit digits (so that
    the comb / window code really runs on the 8-bit curves instead of the 'dont know how to mult' fall-back), one JOINT,
    one FXP_UNKPT, and every fixed-point and every unknown-point algorithm in at least one of the five builds."""
    cfgs = [dict(SUITE)]
    forced = [dict(proj=0, fxp=3, unk=2, twin=rng.choice([0, 1, 2])),        # affine; COMB_1T / SLIDING_WIN
              dict(digit=8, proj=1, fxp=2, unk=4),                           # 8-bit digits; SLIDING_WIN / COMB_2T
              dict(proj=1, fxp=1, unk=rng.choice([0, 5]), twin=2),           # PRECALC_DBL / BIN or SAME_AS_FXP; JOINT
              dict(proj=1, fxp=0, unk=1, twin=1)]                            # BIN / PRECALC_DBL; FXP_UNKPT
    for fz in forced:
        for _ in range(5000):
            c = random_cfg(rng); c.update(fz)
            e = eff(c)
            if e["unk_eff"] in TABLE_ALGOS and (e["unkw_eff"] >= 8 or e["unkw_eff"] > c["fxpw"]): continue   # thorough tier
            if cfg_valid(c) and c not in cfgs:
                cfgs.append(c); break
    return cfgs

# ------------------------------------------------------------------ main
def run(ctx):
    set_tier(ctx)
    try:
        run_body(ctx)
    except HangStop:
        ctx.log("stopped driving: %d library calls did not return within %d s of CPU time (budget of the %s tier)" % (_hang_n[0], WD_CPU[0], ctx.tier))
        ctx.add(stopped_after_watchdog_deaths=_hang_n[0])
    finally:
        for key, occ in sorted(HANGS.items()):
            ctx.fail(key, "%d call(s) killed by the driver's watchdog (%d s of CPU time; the slowest row of the unchanged tree needs 0.2 s); first:\n%s"
                     % (len(occ), WD_CPU[0], "\n---\n".join("build %s\ncase %s\n%s" % o for o in occ[:3])),
                     [{"build": o[0], "line": o[1]} for o in occ[:3]])

def run_body(ctx):
    ctx.level = "exploration"
    rng = random.Random(ctx.seed)
    d = common.scratch("lcbv-c02-")
    ws = common.tlc_workspace()
    rc, out = common.sh(["javac", "-cp", common.TLAJAR, "-d", ws, os.path.join(common.VERIF, "specs/num/BigNatX.java")], timeout=180)
    accel = rc == 0
    if not accel: ctx.log("javac failed for BigNatX; EcTrace falls back to the pure TLA+ product (slow):", out[-300:])
    if ctx.quick:
        cfgs = quick_configs(rng); uncovered = None
    else:
        cfgs, uncovered = pairwise(rng, must=[dict(SUITE)])
    ctx.log("%d configurations%s" % (len(cfgs), "" if uncovered is None else " (pairwise array, %d feasible pairs left uncovered)" % uncovered))
    # builds in the background while TLC produces the corpus (<= 4 single-worker TLC runs)
    bex = ThreadPoolExecutor(max_workers=2 if ctx.quick else 3)
    bfut = [(c, bex.submit(build_pair, c, d)) for c in cfgs]
    pfut = bex.submit(probe_affine_inter, ctx, d)
    t0 = time.time()
    cases = generate_corpus(ctx, rng)
    ctx.log("corpus generated by TLC in %.0fs: %s" % (time.time() - t0, {("%s/%s" % k): len(v) for k, v in cases.items()}))
    C = make_corpus(ctx, cases, rng)
    ctx.log("%d driver rows, %d expected points (whole corpus)" % (len(C.lines), sum(len(e) for e in C.expect)))
    builds = [(c, f.result()) for c, f in bfut]
    ai = pfut.result()
    if ai: builds.append(ai)
    bex.shutdown()
    res, _ = drive(builds[0][1]["fast"], ["curves"])
    names = res[0].split()[1:] if isinstance(res[0], str) else []
    if len(names) != 32:
        raise common.Infra("expected 32 built-in curves, driver lists %d" % len(names))
    x0ex = ThreadPoolExecutor(max_workers=1)               # TLC finds the x = 0 points of the built-in curves while mode B runs
    x0f = x0ex.submit(x0_points, ctx, builds[0][1]["fast"], names, d)
    # ---- mode B on every build
    allstats = []
    def job(a):
        bi, (c, exes) = a
        return c, run_build(ctx, c, bi, exes, C)
    with ThreadPoolExecutor(max_workers=4) as ex:
        for c, (fails, st) in ex.map(job, list(enumerate(builds))):
            allstats.append(st)
            for f in fails: ctx.fail(*f)
            ctx.add(evaluations=st["evaluations"])
            ctx.log("build %-66s rows=%d results=%d fails=%s %s" % (st["config"], st["rows"], st["evaluations"],
                    st.get("fail_counts") or len(fails), st.get("op_wall_s")))
    # ---- mode C: built-in curves
    plan = []
    # curves whose ladders are certified step by step (the others: seeded sample of the steps of every ladder)
    full0 = set(rng.sample(names[:24], 1)) if ctx.quick else set(rng.sample(names, 10))
    for bi, (c, exes) in enumerate(builds):
        if bi == 0:
            sub, full = names, full0                                    # the suite's configuration: all 32 curves
        else:
            k = 3 if ctx.quick else 5
            sub = sorted({names[(bi * 7 + j * 11) % 32] for j in range(k)}, key=names.index)
            full = set()
        plan.append((c, exes["asan"] if (bi == 0 and not ctx.quick) else exes["fast"], sub, full))
    x0 = x0f.result(); x0ex.shutdown()
    ctx.cov["builtin_curves_with_x0_point"] = sorted(x0)
    def cjob(p):
        c, exe, sub, full = p
        r = random.Random("%s/%s/C" % (ctx.seed, cfg_name(c)))
        # every build meets the x = 0 point of EVERY built-in curve that has one (add / sub / dbl); its multiples on the build's own curves
        return p, modec(ctx, c, exe, sub, r, full, 3 if ctx.quick else 12, x0=x0, x0_only=names)
    t0 = time.time()
    with ThreadPoolExecutor(max_workers=4) as ex:
        modec_out = list(ex.map(cjob, plan))
    ctx.log("mode C: library driven on the built-in curves in %.0fs" % (time.time() - t0))
    nval_total = 0; cstats = []
    def vjob(a):
        bi, ((c, exe, sub, full), (fails, ev, evmeta, st)) = a
        return a, validate_events(ctx, c, ev, evmeta, d, "b%d" % bi, nsh=4 if bi == 0 else (1 if ctx.quick else 2))
    with ThreadPoolExecutor(max_workers=4) as ex:
        vout = list(ex.map(vjob, list(enumerate(modec_out))))
    for (bi, ((c, exe, sub, full), (fails, ev, evmeta, st))), (vf, nval) in vout:
        for f in fails: ctx.fail(*f)
        for f in vf: ctx.fail(*f)
        nval_total += nval; st["validated"] = nval; cstats.append(st)
        ctx.log("mode C %-66s curves=%d events=%d ladder steps decided %d/%d fails=%d" % (st["config"], st["curves"], nval,
                st["ladder_steps_decided"], st["ladder_steps"], len(fails) + len(vf)))
    # ---- evidence
    ctx.add(traces_validated_against_impl=nval_total)
    ctx.add(distinct_nontrivial=sum(1 for e in C.expect for x in e if x != "inf"))
    ctx.cov["configurations"] = [s_["config"] for s_ in allstats]
    ctx.cov["per_build"] = allstats
    ctx.cov["mode_c"] = [{k: v for k, v in s_.items() if k != "validate"} for s_ in cstats]
    ctx.cov["ec_curve_validate_zero_for"] = sorted({n for s_ in cstats for n, v in s_["validate"].items() if v == 0})
    ctx.cov["bignat_accelerator"] = accel
    ub = sorted({u for s_ in allstats for u in s_["ubsan"]})
    if ub: ctx.cov["sanitizer_diagnostics_outside_this_property"] = ub[:20]
    if uncovered is not None: ctx.cov["pairwise_pairs_uncovered"] = uncovered
    ctx.cov["rule"] = ("mode B: every point of every row that TLC emitted (whole groups of the 8-bit curves pairwise; the 13/16-bit "
                       "groups point-wise) is one evaluation per build that runs the row; non-trivial = expected point is finite; "
                       "mode C: one event per library call on a built-in curve, decided by TLC (EcTrace)")
    mid = len(C.lines) // 3
    ctx.add(samples=[{"line": C.lines[mid][:160], "expect_first": C.expect[mid][:3]}])
    ctx.assumptions += [
        "specs/ec/EcGroup.tla (textbook affine law) is the oracle; EcCurves/EcCurvesCount ASSUMEs re-derive every fact about the synthetic curves",
        "built-in curves: results are decided by the division-free relations of EcRel over BigNat (specs/num); the java.math.BigInteger "
        "product XMulMod is checked against the TLA+ product on operands of every trace (OverrideOk)",
        "scalars are initialised with EC_CURVE_CALC_BITS_DBL bits like every caller in ecdsa.h; points with the same (cap D) or with curve->m bits (cap M)",
        "32 KiB of stack are filled with 0xA5 before each call so that reads of uninitialised locals give reproducible results",
        "each configuration is built twice: -O2 without sanitizers (whole selection of rows) and -O1 ASan+UBSan (seeded sample of them)",
        "dbl_n with n = 0 is not exercised (no caller uses it)",
        "BN_BIT_LEN = 1408 as in tests/ecdsa/main.c; 1536 in the builds with 128-bit digits (2 * 521 + 3 digits = 1426 bits are needed there: with 1408 "
        "ecdsa_curve_from_str(secp521r1) fails with EINVAL from bn_init in ec_point_proj_dbl_n, an explicit capacity error, not a wrong point)",
        "special-shape curves E8M3X (a = p-3, h = 2) and E8ZX (a = 0, h = 6): add / sub / dbl / dbl_n / unknown-point and base-point multiples only (no twin rows); "
        "their multiplier rows run in the suite's configuration, the multiples of their special points (x = 0, y = 0, infinity) in every build",
        "built-in curves: the x = 0 operand exists on the curves whose b is a quadratic residue (ctx.cov['builtin_curves_with_x0_point']); the root is computed by TLC from the p, b the library's table reports",
    ]
