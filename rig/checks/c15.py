"""C15 - DNS and RADIUS messages built by the library parse back and authenticate per RFC (modes B + C).

DNS   : TLC enumerates builder histories (GenDnsMsg) and names (GenDnsName) from the RFC 1035 reference, checks
        Parse(Build(h)) = h / Validate(Build(h)) / name round trips ON THE SPEC, and emits every state; the real
        builder must produce byte-identical messages and the same return classes, the real parser must hand
        back what the reference parser hands back.  GenDnsName_many walks the one-octet-label names of 1..128 labels;
        GenDnsCompr puts names of 1, 2, 63, 64, 65, 127 labels and of 253 octets into the question, owner names and RDATA
        (CNAME/NS/PTR/MX/SOA), uncompressed (built by the library) and with RFC 1035 4.1.4 pointers (read by the library).
RADIUS: GenRadius enumerates Init/Add* histories (type-specific length rules, listing); the signing part is
        mode C: the driver logs packets/secrets/authenticators, TraceRadius (TLA+ MD5/HMAC-MD5 evaluated by TLC)
        recomputes RFC 2865/2869 values and the verdict for every single-byte corruption / wrong secret.
Python renders cases to driver lines and compares values; it computes no expectation."""
import json, os, random, threading
from rig import common
from rig.common import hexs, unhex, kv

EOVERFLOW = 75
DRV = "/verif/harness/c15_drv.c"

def batch(exe, lines, timeout):
    """common.batch_run, cut short after 8 deaths of the driver (each one is reported): code that never returns must end in a
    verdict within the tier's time, not in a rig timeout; the lines behind the cut are not run (not_run)"""
    return common.batch_run(exe, lines, timeout=timeout, max_crashes=8, on_excess="skip")
def not_run(a):
    return isinstance(a, dict) and bool(a.get("skipped"))

def hx(seq): return hexs(bytes(seq))

def par(jobs, n=4):
    """run callables in <= n threads, return results in order; first exception is re-raised"""
    res = [None] * len(jobs); err = []
    sem = threading.Semaphore(n)
    def w(i, f):
        with sem:
            try: res[i] = f()
            except BaseException as e: err.append(e)
    ts = [threading.Thread(target=w, args=(i, f)) for i, f in enumerate(jobs)]
    for t in ts: t.start()
    for t in ts: t.join()
    if err: raise err[0]
    return res

def compact(x):
    """octet lists -> bytes (the thorough corpora hold some 10^5 cases)"""
    if isinstance(x, list):
        if x and all(isinstance(e, int) and 0 <= e <= 255 for e in x): return bytes(x)
        return [compact(e) for e in x]
    if isinstance(x, dict): return {k: compact(v) for k, v in x.items()}
    return x

def gen(ctx, module, cfg, label=None, timeout=1500):
    r = common.tlc(module, cfg=cfg, workers=1, xss="256m", xmx="3g", timeout=timeout)
    if r.rc != 0:
        raise common.Infra("reference property failed inside TLC on %s/%s (spec bug, not a code verdict): %s\n%s"
                           % (module, cfg, r.violation, r.out[-3000:]))
    cases = [compact(c) for c in common.tlc_printed_json(r.out)]
    r.out = r.out[-2000:]
    if "_chain" in cfg:        # only the long histories (EmitFrom) are printed there
        if not cases: raise common.Infra("no case emitted on %s" % cfg)
    elif len(cases) != r.distinct:
        raise common.Infra("corpus emission lost cases on %s: %d printed vs %d distinct" % (cfg, len(cases), r.distinct))
    return r, cases

# ------------------------------------------------------------------------------------------------ DNS messages
OPFN = {"hdr": "dns_hdr_create", "q": "dns_msg_question_add", "rr": "dns_msg_rr_add", "opt": "dns_msg_optrr_add"}

def dns_op_token(o):
    if o["op"] == "hdr": return "h,%s,%s" % (hx(o["id"]), hx(o["flags"]))
    if o["op"] == "q": return "q,%s,%d,%d" % (hx(o["name"]), o["t"], o["c"])
    if o["op"] == "rr":
        return "r,%s,%s,%d,%d,%04x%04x,%s" % (o["sec"], hx(o["name"]), o["t"], o["c"], o["ttl"][0], o["ttl"][1], hx(o["rd"]))
    return "o,%d,%d,%d,%s,%s" % (o["udp"], o["ver"], o["exrc"], hx(o["exfl"]), hx(o["rd"]))

def dns_items(lst, is_q):
    if not lst: return "-"
    out = []
    for it in lst:
        s = "%s/%d/%d" % (hx(it["name"]), it["t"], it["c"])
        if not is_q: s += "/%04x%04x/%s" % (it["ttl"][0], it["ttl"][1], hx(it["rd"]))
        out.append(s)
    return "|".join(out)

def dns_msg_part(ctx, exe, cfgs, G):
    results = [G.pop(("GenDnsMsg", c)) for c in cfgs]
    seen = set(); nontriv = 0; classes = {}
    for cfg, (r, cases) in zip(cfgs, results):
        ctx.tlc_stats(r, "GenDnsMsg/" + cfg)
        lines = ["dnsmsg %d %s" % (c["cap"], ";".join(dns_op_token(o) for o in c["ops"])) for c in cases]
        idx = [i for i, c in enumerate(cases) if c["ops"]]
        runs = []
        for bname, bexe in exe:
            runs += [(i, a, bname) for i, a in zip(idx, batch(bexe, [lines[i] for i in idx], 600))]
        for i, a, bname in runs:
            if not_run(a): continue
            c = cases[i]; ln = lines[i]; ops = c["ops"]; last = ops[-1]
            ctx.add(evaluations=1)
            classes[(last["op"], last["rc"])] = classes.get((last["op"], last["rc"]), 0) + 1
            if ln not in seen:
                seen.add(ln)
                if len(ops) > 1: nontriv += 1
            rp = {"case": ln, "cfg": cfg, "build": bname}
            if isinstance(a, dict):
                k = a["crash"]; ctx.fail("dns:%s:%s:%s" % (OPFN[last["op"]], k[0], k[1]), a["raw"], rp); continue
            _, f = kv(a)
            rcs = [int(x) for x in f["rcs"].split(",")]; needs = [int(x) for x in f["needs"].split(",")]
            bad = False; accepted_unspec = False
            for j, (o, rc, need) in enumerate(zip(ops, rcs, needs)):
                if bad: break            # later steps only echo the first divergence
                fn = OPFN[o["op"]]
                if o["rc"] == "ok":
                    if rc != 0: ctx.fail("dns:%s:refused-step-that-fits:rc=%d" % (fn, rc), "step %d of %s\n%s" % (j, ln, a), rp); bad = True
                    elif need != o["need"]: ctx.fail("dns:%s:reported-size" % fn, "step %d expected size %d got %d\n%s\n%s" % (j, o["need"], need, ln, a), rp); bad = True
                elif o["rc"] == "nospace":
                    if rc != EOVERFLOW: ctx.fail("dns:%s:no-space-not-reported:rc=%d" % (fn, rc), "step %d needs %d of cap %d\n%s\n%s" % (j, o["need"], c["cap"], ln, a), rp); bad = True
                elif o["rc"] in ("invalid", "fail"):
                    if rc == 0: ctx.fail("dns:%s:accepted-unencodable-name" % fn, "step %d\n%s\n%s" % (j, ln, a), rp); bad = True
                elif o["rc"] == "unspec":
                    accepted_unspec = (rc == 0)
            if bad: continue
            exp = c["alt"] if accepted_unspec else c["msg"]
            if f["msg"].startswith("OVERCAP"):
                ctx.fail("dns:%s:size-beyond-capacity" % OPFN[last["op"]], ln + "\n" + a, rp); continue
            got = unhex(f["msg"])
            if got != bytes(exp):
                # name the step whose record holds the first differing octet
                d = next((k for k in range(min(len(got), len(exp))) if got[k] != exp[k]), min(len(got), len(exp)))
                who, start, prev = "hdr", 0, 0
                for o in ops:
                    if o["rc"] == "ok" or (o["rc"] == "unspec" and accepted_unspec):
                        if d >= prev: who, start = o["op"], prev
                        prev = o["need"]
                if 4 <= d < 12: who, start = "hdr-counters", 0
                ctx.fail("dns:%s:message-bytes-differ:rec+%d" % (who, d - start),
                         "%s\nexpected %s\ngot      %s" % (ln, hx(exp), hx(got)), rp)
                continue
            if last["rc"] == "ok" or accepted_unspec:
                p = c["parsed"]
                want = {"val": "0", "sizeget": str(p["size"]),
                        "info": "0,%d,%d,%d,%d,%d,%d" % (p["qd_off"], p["an_off"], p["ns_off"], p["ar_off"],
                                                         len(p["an"]) + len(p["ns"]) + len(p["ar"]), p["size"]),
                        "cnt": "%d,%d,%d,%d" % (len(p["qd"]), len(p["an"]), len(p["ns"]), len(p["ar"])),
                        "qd": dns_items(p["qd"], True), "an": dns_items(p["an"], False),
                        "ns": dns_items(p["ns"], False), "ar": dns_items(p["ar"], False), "perr": "0"}
                ctx.add(traces_validated_against_impl=1)
                if len(ops) >= 4 and "dns_sample" not in ctx.cov:
                    ctx.cov["dns_sample"] = 1
                    ctx.add(samples=[{"dns_history": ln, "reference_message": hx(c["msg"]), "driver": a[:300]}])
                for k2 in ("val", "sizeget", "info", "cnt", "qd", "an", "ns", "ar", "perr"):
                    if f.get(k2) != want[k2]:
                        ctx.fail("dns:parse-back:%s" % {"val": "dns_msg_validate", "sizeget": "dns_msg_size_get", "info": "dns_msg_info_get",
                                                        "cnt": "counters", "qd": "question", "perr": "get_data-error"}.get(k2, "rr-" + k2),
                                 "%s\nfield %s expected %s\ngot %s" % (ln, k2, want[k2], a), rp)
                        break
    ctx.cov.pop("dns_sample", None)
    ctx.add(distinct_nontrivial=nontriv, dns_histories=len(seen))
    # vacuity: every builder step must have been seen succeeding and being refused for lack of space
    for op in ("hdr", "q", "rr", "opt"):
        for rc in ("ok", "nospace"):
            if not classes.get((op, rc)): raise common.Infra("vacuous DNS corpus: no history ends in %s/%s" % (op, rc))
    if not any(k[1] in ("invalid", "fail") for k in classes): raise common.Infra("vacuous DNS corpus: no invalid name")
    ctx.cov["dns_last_step_classes"] = {"%s/%s" % k: v for k, v in sorted(classes.items())}

def dns_name_part(ctx, exe, cfgs, G):
    results = [G.pop(("GenDnsName", c)) for c in cfgs]
    n = 0; cls = {}
    for cfg, (r, cases) in zip(cfgs, results):
        ctx.tlc_stats(r, "GenDnsName/" + cfg)
        lines = ["dnsname %s %s" % (hx(c["name"]), hx(c["wire"])) for c in cases]
        runs = []
        for bname, bexe in exe:
            runs += [(c, ln, a, bname) for c, ln, a in zip(cases, lines, batch(bexe, lines, 300))]
        for c, ln, a, bname in runs:
            if not_run(a): continue
            ctx.add(evaluations=1); cls[c["class"]] = cls.get(c["class"], 0) + 1
            rp = {"case": ln, "cfg": cfg, "lens": str(c["lens"]), "build": bname}
            if isinstance(a, dict):
                k = a["crash"]; ctx.fail("dnsname:%s:%s" % (k[0], k[1]), a["raw"], rp); continue
            _, f = kv(a)
            g = {k: v.split(",") for k, v in f.items()}
            name = hx(c["name"]); wire = hx(c["wire"]); tl = len(c["name"]); wl = len(c["wire"])
            def bad(what, fld):
                ctx.fail("dnsname:%s" % what, "lens=%s field %s\n%s\n%s" % (c["lens"], fld, ln, a), rp)
            if c["class"] in ("valid", "root"):
                n += 1
                for fld, fn in (("enc0", "DomainNameToSequenceOfLabels"), ("menc", "dns_msg_name2sequence_of_labels")):
                    if g[fld] != ["0", str(wl), wire]: bad("%s:encoding" % fn, fld); break
                else:
                    if g["enc1"][0] != str(EOVERFLOW): bad("DomainNameToSequenceOfLabels:short-buffer-accepted", "enc1")
                    if c["class"] == "valid":
                        if g["gsz"] != ["0", str(wl)]: bad("SequenceOfLabelsGetSize", "gsz")
                        if g["dec0"][0] != "0" or g["dec0"][2] != name: bad("SequenceOfLabelsToDomainName:decoding", "dec0")
                        if g["dec1"][0] == "0": bad("SequenceOfLabelsToDomainName:short-buffer-accepted", "dec1")
                        if g["mlen"] != ["0", str(tl)]: bad("dns_msg_sequence_of_labels_get_name_len", "mlen")
                        if g["mdec0"] != ["0", str(tl), name]: bad("dns_msg_sequence_of_labels2name:decoding", "mdec0")
                        if g["mdec1"][0] == "0" and g["mdec1"][1:] != [str(tl), name]: bad("dns_msg_sequence_of_labels2name:decoding", "mdec1")
                        if g["mdec2"][0] == "0": bad("dns_msg_sequence_of_labels2name:short-buffer-accepted", "mdec2")
            elif c["class"] == "invalid":
                if g["enc0"][0] == "0": bad("DomainNameToSequenceOfLabels:accepted-unencodable-name", "enc0")
                if g["menc"][0] == "0": bad("dns_msg_name2sequence_of_labels:accepted-unencodable-name", "menc")
            else:   # toolong: outside the quantifier; if accepted it must still be the label-by-label encoding
                if g["enc0"][0] == "0" and g["enc0"][1:] != [str(wl), wire]: bad("DomainNameToSequenceOfLabels:encoding", "enc0")
    ctx.add(distinct_nontrivial=n, dns_names=sum(cls.values()))
    ctx.cov["dns_name_classes"] = cls
    for k in ("valid", "invalid"):
        if not cls.get(k): raise common.Infra("vacuous name corpus: no %s name" % k)


# ------------------------------------------------------------------------------------------------ DNS names at the RFC limits / in RDATA / compressed
def rd_token(rd): return "+".join("%s:%s" % (p["k"], hx(p["v"])) for p in rd) or "-"
def rd_shape(rd): return "+".join("n" if p["k"] == "n" else "b%d" % len(p["v"]) for p in rd) or "-"

def dns_compr_part(ctx, exe, cfgs, G):
    """GenDnsCompr scenarios: the real builder assembles the uncompressed message (byte-identical to the reference), the
    real parser reads back the uncompressed and the reference-compressed message: same names, types, classes, TTLs, data"""
    n = 0; nlab = set(); ncomp = 0
    for cfg in cfgs:
        r, cases = G.pop(("GenDnsCompr", cfg))
        ctx.tlc_stats(r, "GenDnsCompr/" + cfg)
        lines = []; meta = []
        for c in cases:
            recs = c["recs"]; plain = bytes(c["plain"]); comp = bytes(c["comp"])
            ops = ["h,%s,%s" % (hx(plain[0:2]), hx(plain[2:4]))]
            for x in recs:
                if x["sec"] == "qd": ops.append("q,%s,%d,%d" % (hx(x["name"]), x["t"], x["c"]))
                else: ops.append("r,%s,%s,%d,%d,%04x%04x,%s" % (x["sec"], hx(x["name"]), x["t"], x["c"], x["ttl"][0], x["ttl"][1], rd_token(x["rd"])))
            shapes = "|".join(rd_shape(x["rd"]) for x in recs if x["sec"] != "qd") or "-"
            for cap in (len(plain), len(plain) + 7):
                lines.append("dnsx %d %s" % (cap, ";".join(ops))); meta.append((c, "built", plain))
            lines.append("dnsp %s %s" % (hx(plain), shapes)); meta.append((c, "plain", plain))
            lines.append("dnsp %s %s" % (hx(comp), shapes)); meta.append((c, "compressed", comp))
            nlab |= {x["nlabels"] for x in recs}
            ncomp += 1
        for bname, bexe in exe:
            for ln, (c, how, msg), a in zip(lines, meta, batch(bexe, lines, 300)):
                if not_run(a): continue
                ctx.add(evaluations=1); recs = c["recs"]
                rp = {"case": ln, "cfg": cfg, "scenario": c["no"], "build": bname}
                tagc = "" if how != "compressed" else ":compressed"
                if isinstance(a, dict):
                    k = a["crash"]; ctx.fail("dns:names%s:%s:%s" % (tagc, k[0], k[1]), a["raw"], rp); continue
                _, f = kv(a)
                if how == "built":
                    rcs = [int(x) for x in f["rcs"].split(",")]
                    badstep = next((j for j, rc in enumerate(rcs) if rc != 0), None)
                    if badstep is not None:
                        fn = "dns_hdr_create" if badstep == 0 else "DomainNameToSequenceOfLabels" if rcs[badstep] >= 900 else OPFN["q" if recs[badstep - 1]["sec"] == "qd" else "rr"]
                        ctx.fail("dns:%s:refused-step-that-fits:rc=%d" % (fn, rcs[badstep] - (1000 if rcs[badstep] >= 900 else 0)),
                                 "step %d (a name of %d labels)\n%s\n%s" % (badstep, recs[badstep - 1]["nlabels"] if badstep else 0, ln, a[:600]), rp); continue
                    if f["msg"].startswith("OVERCAP") or unhex(f["msg"]) != msg:
                        ctx.fail("dns:names:message-bytes-differ", "%s\nexpected %s\ngot      %s" % (ln, hx(msg), f["msg"]), rp); continue
                qs = [x for x in recs if x["sec"] == "qd"]; rrs = [x for x in recs if x["sec"] != "qd"]
                want = {"val": "0", "sizeget": str(len(msg)), "info": "0,%d" % len(msg),
                        "cnt": "%d,%d,%d,%d" % tuple(sum(1 for x in recs if x["sec"] == s_) for s_ in ("qd", "an", "ns", "ar")),
                        "qd": "|".join("%s/%d/%d" % (hx(x["name"]), x["t"], x["c"]) for x in qs) or "-",
                        "rr": "|".join("%s/%s/%d/%d/%04x%04x/%s" % (x["sec"], hx(x["name"]), x["t"], x["c"], x["ttl"][0], x["ttl"][1], rd_token(x["rd"])) for x in rrs) or "-"}
                # dns_msg_rr_find by every record's own owner name, over all records: the first record (in message order) whose
                # name is equal ignoring letter case, with the number of records behind it (names and order come from the spec)
                if 0 < len(rrs) <= 256:       # (the driver's offset table holds 256 records)
                    low = [bytes(x["name"]).lower() for x in rrs]
                    want["find"] = ",".join("0:%d:%d" % (low.index(nm), len(rrs) - 1 - low.index(nm)) for nm in low)
                ok = True
                for k2 in ("val", "sizeget", "info", "cnt", "qd", "rr") + (("find",) if "find" in want else ()):
                    if f.get(k2) != want[k2]:
                        what = {"val": "dns_msg_validate", "sizeget": "dns_msg_size_get", "info": "dns_msg_info_get", "cnt": "counters", "qd": "question", "rr": "rr", "find": "dns_msg_rr_find"}[k2]
                        if k2 == "rr":     # name the first record that differs: owner name / RDATA name / other fields
                            g = (f.get("rr") or "").split("|"); w = want["rr"].split("|")
                            j = next((q for q in range(min(len(g), len(w))) if g[q] != w[q]), min(len(g), len(w)))
                            gi = g[j].split("/") if j < len(g) else []; wi = w[j].split("/") if j < len(w) else []
                            what = "rr-" + (wi[0] if wi else "count")
                            if len(gi) == len(wi) == 6 and gi[:5] == wi[:5]: what += ":rdata"
                        ctx.fail("dns:parse-back%s:%s" % (tagc, what), "%s message of scenario %d (names of %s labels)\nfield %s expected %s\ngot %s\n%s"
                                 % (how, c["no"], sorted({x["nlabels"] for x in recs}), k2, want[k2][:700], (f.get(k2) or "")[:700], ln[:300]), rp)
                        ok = False; break
                if ok:
                    ctx.add(traces_validated_against_impl=1); n += 1
    if ncomp == 0 or not {1, 2, 63, 64, 65, 127} <= nlab: raise common.Infra("vacuous name-limit corpus: label counts %s" % sorted(nlab))
    ctx.add(distinct_nontrivial=3 * ncomp, dns_limit_scenarios=ncomp)
    ctx.cov["dns_name_limit_label_counts"] = sorted(nlab)

# ------------------------------------------------------------------------------------------------ RADIUS builder
RFN = {"init": "radius_pkt_init", "add": "radius_pkt_attr_add", "raw": "radius_pkt_attr_add_raw",
       "u32": "radius_pkt_attr_add_uint32", "addr": "radius_pkt_attr_add_addr", "port": "radius_pkt_attr_add_port"}
PROBE_TYPES = [1, 2, 26, 79, 80, 200]

def rad_fn(o):
    fn = RFN[o["op"]]
    if o["op"] == "add" and o["t"] == 2: fn += "(User-Password)"
    if o["op"] == "add" and o["t"] == 80: fn += "(Message-Authenticator)"
    return fn

def rad_op_token(o, staged=None):
    if o["op"] == "init": return "i,%d,%d,%s" % (o["code"], o["id"], hx(o["auth"]) if o["hasauth"] else "-")
    if o["op"] == "add":
        if staged is not None and o["t"] == 2: return "w,2,%s" % hx(staged)     # same octets through the raw entry point
        return "a,%d,%s" % (o["t"], hx(o["v"]))
    if o["op"] == "raw": return "w,%d,%s" % (o["t"], hx(o["v"]))
    if o["op"] == "u32": return "u,%d,%s" % (o["t"], hx(o["v"]))
    if o["op"] == "addr": return "d,%d,%d,%d,%s" % (o["t4"], o["t6"], o["fam"], hx(o["a"]))
    return "p,%d,%d,%d" % (o["t"], o["fam"], o["port"])

def rad_steps_ok(ctx, ops, rcs, ln, a, rp, report=True):
    """compare the return class of every step; -> (all as specified, an 'unspec' step was accepted)"""
    good = True; acc = False
    for j, (o, rc) in enumerate(zip(ops, rcs)):
        fn = rad_fn(o); k = None
        # one key per function and code: "fits but refused" and "no space reported as something else" are the same symptom
        if o["rc"] == "ok" and rc != 0: k = "radius:%s:wrong-return:rc=%d" % (fn, rc)
        elif o["rc"] == "nospace" and rc != EOVERFLOW: k = "radius:%s:wrong-return:rc=%d" % (fn, rc)
        elif o["rc"] in ("invalid", "fail") and rc == 0: k = "radius:%s:accepted-invalid-step" % fn
        elif o["rc"] == "exists" and rc == 0: k = "radius:%s:accepted-duplicate" % fn
        elif o["rc"] == "unspec": acc = (rc == 0)
        if k:
            good = False
            if report: ctx.fail(k, "step %d %s\n%s\n%s" % (j, json.dumps(o, default=str), ln, a), rp)
            break
    return good, acc

def rad_build_part(ctx, exe, cfgs, G):
    results = [G.pop(("GenRadius", c)) for c in cfgs]
    corpus = []; classes = {}; seen = set(); nontriv = 0
    for cfg, (r, cases) in zip(cfgs, results):
        ctx.tlc_stats(r, "GenRadius/" + cfg)
        idx = [i for i, c in enumerate(cases) if c["ops"]]
        lines = ["radb %d %s" % (cases[i]["cap"], ";".join(rad_op_token(o) for o in cases[i]["ops"])) for i in idx]
        runs = []
        for bname, bexe in exe:
            runs += [(i, ln, a, bname) for i, ln, a in zip(idx, lines, batch(bexe, lines, 600))]
        for i, ln, a, bname in runs:
            if not_run(a): continue
            c = cases[i]; ops = c["ops"]; last = ops[-1]
            ctx.add(evaluations=1)
            kcls = (last["op"] if last["op"] != "add" else "add", last["rc"]); classes[kcls] = classes.get(kcls, 0) + 1
            if ln not in seen:
                seen.add(ln); nontriv += 1 if len(ops) > 1 else 0
            rp = {"case": ln, "cfg": cfg, "build": bname}
            if isinstance(a, dict):
                k = a["crash"]; ctx.fail("radius:%s:%s:%s" % (rad_fn(last), k[0], k[1]), a["raw"], rp); continue
            _, f = kv(a)
            rcs = [int(x) for x in f["rcs"].split(",")]
            good, acc = rad_steps_ok(ctx, ops, rcs, ln, a, rp)
            if not good: continue
            exp = bytes(c["alt"] if acc else c["pkt"])
            if f["pkt"].startswith("OVERCAP"):
                ctx.fail("radius:%s:length-beyond-capacity" % rad_fn(last), ln + "\n" + a, rp); continue
            got = unhex(f["pkt"])
            if got != exp:
                d = next((k for k in range(min(len(got), len(exp))) if got[k] != exp[k]), min(len(got), len(exp)))
                who, pos = ops[0], 20
                for o in ops[1:]:
                    if o["rc"] == "ok" or (o["rc"] == "unspec" and acc):
                        if d >= pos: who = o
                        pos += 2 + (exp[pos + 1] - 2 if pos + 1 < len(exp) else 0)
                if d < 20: who = ops[0]
                ctx.fail("radius:%s:packet-octets-differ" % rad_fn(who), "%s\nexpected %s\ngot      %s" % (ln, hx(exp), hx(got)), rp)
                continue
            if last["rc"] == "ok" and ops[0]["rc"] == "ok":
                ctx.add(traces_validated_against_impl=1)
                if len(ops) >= 4 and "rad_sample" not in ctx.cov:
                    ctx.cov["rad_sample"] = 1
                    ctx.add(samples=[{"radius_history": ln, "reference_packet": hx(c["pkt"]), "driver": a[:300]}])
                if bname == exe[0][0] and (len(corpus) < 4000 or i % 37 == 0): corpus.append(c)
                if (f["chk"] == "0") != c["wf"]:
                    ctx.fail("radius:radius_pkt_chk:verdict-on-built-packet", "%s\nreference well-formed=%s\n%s" % (ln, c["wf"], a), rp); continue
                want_attrs = "|".join("%d:%s" % (x["t"], hx(x["v"])) for x in c["attrs"]) or "-"
                if f["attrs"] != want_attrs:
                    ctx.fail("radius:listing:radius_pkt_attr_get_data_ptr_raw", "%s\nexpected %s\n%s" % (ln, want_attrs, a), rp); continue
                if f["find"] != ",".join(str(x) for x in c["find"]):
                    ctx.fail("radius:listing:radius_pkt_attr_find", "%s\nexpected %s\n%s" % (ln, c["find"], a), rp); continue
                got_c = f["concat"].split(",")
                for k, t in enumerate(PROBE_TYPES):
                    if t == 2: continue       # handed out up to the first NUL after un-hiding: not a plain concatenation
                    want = ("0:%s" % hx(c["concat"][k])) if c["find"][k] != 65535 else "-1:-"
                    if got_c[k] != want:
                        ctx.fail("radius:listing:radius_pkt_attr_get_data_to_buf", "%s\ntype %d expected %s\n%s" % (ln, t, want, a), rp); break
    ctx.cov.pop("rad_sample", None)
    ctx.add(distinct_nontrivial=nontriv, radius_histories=len(seen))
    ctx.cov["radius_last_step_classes"] = {"%s/%s" % k: v for k, v in sorted(classes.items())}
    for need in (("init", "ok"), ("init", "nospace"), ("init", "invalid"), ("add", "ok"), ("add", "nospace"), ("add", "invalid"), ("add", "exists")):
        if not any(k == need for k in classes):
            if need == ("add", "exists") and not any("GenRadius.cfg" in c or "thorough" in c for c in cfgs): continue
            raise common.Infra("vacuous RADIUS corpus: no history ends in %s/%s" % need)
    return corpus

# ------------------------------------------------------------------------------------------------ RADIUS signing (mode C)
REQ_OF = {2: 1, 3: 1, 11: 1, 5: 4, 41: 40, 42: 40, 44: 43, 45: 43}
CODE_NAME = {1: "Access-Request", 2: "Access-Accept", 3: "Access-Reject", 4: "Accounting-Request", 5: "Accounting-Response",
             11: "Access-Challenge", 12: "Status-Server", 13: "Status-Client", 40: "Disconnect-Request", 41: "Disconnect-ACK",
             42: "Disconnect-NAK", 43: "CoA-Request", 44: "CoA-ACK", 45: "CoA-NAK"}

def rb(rng, n): return bytes(rng.randrange(256) for _ in range(n))
def nz(rng, n): return bytes(rng.randrange(1, 256) for _ in range(n))

def sign_scenarios(ctx, corpus, rng):
    """abstract scenarios: dict(cap, secret, addma, req, ops(tokens), mask, alts, deep, tag). Inputs only."""
    quick = ctx.quick
    secrets = [b"s", b"xyzzy5461", nz(rng, 16), nz(rng, 55), nz(rng, 64), nz(rng, 65)] + ([] if quick else [b"", nz(rng, 100)])
    sc = []
    def add(ops, cap=400, addma=0, req=None, secret=None, mask=None, alts=None, deep=0, tag=""):
        sc.append(dict(cap=cap, secret=secret if secret is not None else rng.choice(secrets), addma=addma, req=req,
                       ops=ops, mask=mask, alts=alts, deep=deep, tag=tag))
    def reqhdr(code): return bytes([code, rng.randrange(256), 0, 20]) + rb(rng, 16)
    def alts_for(s): return [bytes([s[0] ^ 1]) + s[1:], s[:-1], s + b"x"] if s else [b"x"]
    # every code x Message-Authenticator variant (none / appended by sign / placed early by the builder)
    for code, reqcode in ([(c, REQ_OF.get(c)) for c in sorted(CODE_NAME)] + [(5, 12), (2, 12)]) * (1 if quick else 4):   # RFC 5997: replies to Status-Server
        req = reqhdr(reqcode) if reqcode else None
        au = hx(req[4:20]) if req else hx(rb(rng, 16))
        for var in (0, 1, 2):
            if code == 12 and var == 0: continue                        # Status-Server without Message-Authenticator is malformed
            ops = ["i,%d,%d,%s" % (code, req[1] if req else rng.randrange(256), au if code not in (4, 40, 43) or rng.random() < 0.5 else "-")]
            if var == 2: ops.append("a,80,-")
            if rng.random() < 0.7: ops.append("a,18,%s" % hx(nz(rng, rng.choice([1, 7, 30]))))
            if rng.random() < 0.4: ops.append("u,27,%s" % hx(rb(rng, 4)))
            add(ops, addma=1 if var == 1 else 0, req=req, deep=1 if (var and code in (1, 2, 4, 44)) else 0, tag="code")
    # Access-Requests with User-Password of boundary sizes (staged through the raw entry point: the typed one is keyed separately)
    pwl = [0, 1, 15, 16, 17, 32, 127, 128] if quick else [0, 1, 2, 15, 16, 17, 31, 32, 33, 48, 64, 100, 112, 113, 127, 128]
    for n in pwl:
        pw = nz(rng, n); padded = pw + bytes((-n) % 16 if n else 16)
        ops = ["i,1,%d,%s" % (rng.randrange(256), hx(rb(rng, 16))), "a,1,%s" % hx(nz(rng, 4)), "w,2,%s" % hx(padded)]
        if rng.random() < 0.5: ops.append("a,4,%s" % hx(rb(rng, 4)))
        add(ops, addma=rng.choice([0, 1]), deep=1 if n in (0, 17, 128) else 0, tag="password")
    add(["i,1,9,%s" % hx(rb(rng, 16)), "a,2,%s" % hx(nz(rng, 9))], addma=1, tag="password-typed")
    add(["i,1,9,%s" % hx(rb(rng, 16)), "a,2,%s" % hx(nz(rng, 16)), "a,1,6162"], addma=0, tag="password-typed")
    # no room for the Message-Authenticator
    add(["i,1,3,%s" % hx(rb(rng, 16)), "a,1,616263"], cap=25 + 17, addma=1, tag="nospace")
    add(["i,1,3,%s" % hx(rb(rng, 16)), "a,1,616263"], cap=25 + 18, addma=1, tag="fits-exactly")
    # a long packet (several MD5 blocks) and an EAP packet
    add(["i,1,3,%s" % hx(rb(rng, 16)), "a,1,%s" % hx(nz(rng, 200)), "a,79,%s" % hx(rb(rng, 100)), "a,80,-", "a,79,%s" % hx(rb(rng, 33))], addma=0, tag="long")
    # histories out of the TLC corpus (typed User-Password replaced by the same staged octets through the raw entry point)
    pick = [c for c in corpus if not any(o["rc"] == "unspec" for o in c["ops"]) and len(c["ops"]) > 1]
    rng.shuffle(pick)
    for c in pick[:(40 if quick else 200)]:
        staged = next((bytes(x["v"]) for x in c["attrs"] if x["t"] == 2), None)
        ops = [rad_op_token(o, staged) for o in c["ops"]]
        has_ma = any(x["t"] == 80 for x in c["attrs"])
        add(ops, cap=c["cap"] + rng.choice([0, 18, 40]), addma=0 if has_ma else rng.choice([0, 1]), tag="tlc-history")
    # single-octet corruptions and wrong secrets of a few signed packets
    def corrupt(ops, addma, req, secret, tag):
        masks = [rng.choice([0x01, 0x80, 0xFF, 0x10, 0x55])] if quick else [0x01, 0x80, 0xFF, rng.randrange(2, 255)]
        for mk in masks:
            add(ops, addma=addma, req=req, secret=secret, mask=mk, alts=alts_for(secret) if mk == masks[0] else None, deep=1 if mk == masks[0] else 0, tag=tag)
    s1, s2, s3 = b"xyzzy5461", nz(rng, 16), nz(rng, 20)
    corrupt(["i,1,%d,%s" % (rng.randrange(256), hx(rb(rng, 16))), "a,1,%s" % hx(nz(rng, 3))], 1, None, s1, "corrupt:Access-Request+MA")
    rq = reqhdr(1)
    corrupt(["i,2,%d,%s" % (rq[1], hx(rq[4:20])), "a,18,%s" % hx(nz(rng, 2))], 1, rq, s2, "corrupt:Access-Accept+MA")
    corrupt(["i,4,%d,-" % rng.randrange(256), "u,40,00000001", "a,44,%s" % hx(nz(rng, 3))], 0, None, s3, "corrupt:Accounting-Request")
    if True:
        if not quick:     # several MD5 blocks, Message-Authenticator in the middle
            corrupt(["i,1,%d,%s" % (rng.randrange(256), hx(rb(rng, 16))), "a,1,%s" % hx(nz(rng, 70)), "a,80,-", "a,24,%s" % hx(rb(rng, 60))], 0, None, nz(rng, 30), "corrupt:Access-Request+MA:long")
        rq = reqhdr(43)
        corrupt(["i,44,%d,%s" % (rq[1], hx(rq[4:20])), "a,80,-", "a,18,6f6b"], 0, rq, nz(rng, 65), "corrupt:CoA-ACK+MA")
        corrupt(["i,1,%d,%s" % (rng.randrange(256), hx(rb(rng, 16))), "w,2,%s" % hx(nz(rng, 5) + bytes(11)), "a,1,6162"], 1, None, nz(rng, 9), "corrupt:Access-Request+password+MA")
        rq = reqhdr(4)
        corrupt(["i,5,%d,%s" % (rq[1], hx(rq[4:20]))], 0, rq, s1, "corrupt:Accounting-Response")
        corrupt(["i,12,%d,%s" % (rng.randrange(256), hx(rb(rng, 16)))], 1, None, s2, "corrupt:Status-Server")
        rq = reqhdr(40)
        corrupt(["i,42,%d,%s" % (rq[1], hx(rq[4:20])), "u,101,000001f7"], 0, rq, s3, "corrupt:Disconnect-NAK")
    return sc

def rad_sign_part(ctx, exes, corpus):
    exe = exes[0][1]
    rng = random.Random(ctx.seed * 7919 + (0 if ctx.quick else 1))
    sc = sign_scenarios(ctx, corpus, rng)
    lines = ["rads %d %s %d %s %s %s %s" % (s["cap"], hx(s["secret"]), s["addma"], hx(s["req"]) if s["req"] else "-",
                                            ("%02x" % s["mask"]) if s["mask"] else "-",
                                            ",".join(hx(x) for x in s["alts"]) if s["alts"] else "-", ";".join(s["ops"])) for s in sc]
    pwl = [0, 1, 15, 16, 17, 31, 32, 33, 127, 128, 129] if ctx.quick else list(range(0, 131))
    pws = []
    for n in pwl:
        pws.append((rb(rng, 16), nz(rng, n), rng.choice([b"k", b"xyzzy5461", nz(rng, 39), nz(rng, 40), nz(rng, 70)])))
    lines += ["radp %s %s %s" % (hx(a), hx(p), hx(k)) for a, p, k in pws]
    res = batch(exe, lines, 600)
    events = []; meta = []
    L = lambda b: list(b)
    for i, (ln, a) in enumerate(zip(lines, res)):
        if not_run(a): continue
        rp = {"case": ln}
        if isinstance(a, dict):
            k = a["crash"]; ctx.fail("radius:%s:%s:%s" % ("sign-verify" if ln.startswith("rads") else "password", k[0], k[1]), a["raw"], rp); continue
        op, f = kv(a)
        if op == "radp":
            au, pw, key = pws[i - len(sc)]
            events.append({"e": "pw", "auth": L(au), "pw": L(pw), "secret": L(key), "rc": int(f["rc"]), "enc": L(unhex(f["enc"])),
                           "short": int(f["short"]), "drc": int(f.get("drc", -1)), "dec": L(unhex(f.get("dec", "-")))})
            meta.append({"case": ln, "out": a, "tag": "pw"}); continue
        s = sc[i]
        rcs = [int(x) for x in f["rcs"].split(",")]
        if any(rcs) or f.get("pre", "-") == "-":
            # the staging steps themselves did not go through: that is the builder part's business (reported there with
            # its own key); for the typed User-Password scenarios say so here as well
            if s["tag"] == "password-typed":
                ctx.fail("radius:radius_pkt_attr_add(User-Password):wrong-return:rc=%d" % next(r for r in rcs if r), ln + "\n" + a, rp)
            else:
                ctx.fail("radius:sign-scenario:staging-step-refused:%s" % s["tag"], ln + "\n" + a, rp)
            continue
        if "sign" not in f or f.get("post", "").startswith("OVERCAP"):
            ctx.fail("radius:radius_pkt_sign:length-beyond-capacity", ln + "\n" + a, rp); continue
        rc = int(f["sign"]); post = unhex(f["post"]); req = s["req"] or b""
        events.append({"e": "sign", "cap": s["cap"], "pre": L(unhex(f["pre"])), "secret": L(s["secret"]), "addma": s["addma"],
                       "req": L(req), "rc": rc, "post": L(post), "chk": int(f.get("chk", -1)), "ver": int(f.get("ver", -1)),
                       "vpost": L(unhex(f.get("vpost", "-"))), "deep": s["deep"]})
        meta.append({"case": ln, "out": a, "tag": s["tag"], "code": post[0], "post": post})
        for item in (f.get("cor", "").split(",") if f.get("cor") else []):
            pos, chk, ver = (int(x) for x in item.split(":"))
            c = bytearray(post); c[pos] ^= s["mask"]
            events.append({"e": "recv", "pkt": L(c), "secret": L(s["secret"]), "req": L(req), "chk": chk, "ver": ver})
            meta.append({"case": ln, "tag": s["tag"], "what": "corrupted-octet", "pos": pos, "mask": s["mask"], "code": post[0], "post": post, "res": item})
        for item in (f.get("ws", "").split(",") if f.get("ws") else []):
            k2, chk, ver = item.split(":")
            events.append({"e": "recv", "pkt": L(post), "secret": L(unhex(k2)), "req": L(req), "chk": int(chk), "ver": int(ver)})
            meta.append({"case": ln, "tag": s["tag"], "what": "wrong-secret", "pos": -1, "code": post[0], "post": post, "res": item, "secret": k2})
    # TLC evaluates the reference on the trace, <= 4 processes side by side
    d = common.scratch(); nchunks = 4
    order = sorted(range(len(events)), key=lambda i: -len(events[i].get("pkt", events[i].get("pre", []))))
    chunks = [order[k::nchunks] for k in range(nchunks)]
    common.tlc_workspace()
    def run_chunk(k):
        path = os.path.join(d, "radius-%d.ndjson" % k)
        with open(path, "w") as fh:
            for i in chunks[k]: fh.write(json.dumps(events[i]) + "\n")
        r = common.tlc("TraceRadius", workers=1, xss="256m", xmx="2g", env={"TRACE": path}, timeout=1500)
        if r.rc != 0: raise common.Infra("TraceRadius failed: %s\n%s" % (r.violation, r.out[-3000:]))
        v = common.tlc_printed_json(r.out)
        if len(v) != len(chunks[k]): raise common.Infra("TraceRadius lost verdicts: %d of %d\n%s" % (len(v), len(chunks[k]), r.out[-2000:]))
        return r, v
    outs = par([(lambda k=k: run_chunk(k)) for k in range(nchunks) if chunks[k]])
    stats = {"sign": 0, "recv": 0, "pw": 0, "recv_still_authentic_skipped": 0, "recv_rejected_as_required": 0}
    for k, (r, vs) in zip([k for k in range(nchunks) if chunks[k]], outs):
        ctx.tlc_stats(r, "TraceRadius/chunk%d" % k)
        for v in vs:
            i = chunks[k][v["i"] - 1]; m = meta[i]; ev = events[i]; rp = {"case": m["case"], "event": ev}
            stats[v["e"]] += 1; ctx.add(evaluations=1)
            if v.get("self_ok") is False:
                raise common.Infra("reference self-check failed (spec bug): %s\n%s" % (m["case"], v))
            if v["e"] == "sign":
                code = m["code"]; ma = int(v["ma"])
                tagc = "code=%d(%s):ma=%d" % (code, CODE_NAME.get(code, "?"), ma)
                detail = "%s\n%s\nreference: class=%s well-formed=%s expected octets %s" % (m["case"], m["out"], v["class"], v["wf"], hx(v["expect"]))
                if not v["rc_ok"] or not v["nospace_ok"]:
                    ctx.fail("radius:radius_pkt_sign:return-class:reference=%s:rc=%d" % (v["class"], ev["rc"]), detail, rp)
                elif not v["bytes_ok"]:
                    exp = bytes(v["expect"]); got = m["post"]
                    dpos = next((q for q in range(min(len(got), len(exp))) if got[q] != exp[q]), min(len(got), len(exp)))
                    region = "header" if dpos < 4 else "authenticator" if dpos < 20 else "attributes"
                    pos = 20
                    while region == "attributes" and pos + 1 < len(exp):
                        if pos <= dpos < pos + exp[pos + 1]:
                            region = {2: "user-password", 80: "message-authenticator"}.get(exp[pos], "attribute-%d" % exp[pos]); break
                        pos += max(exp[pos + 1], 2)
                    ctx.fail("radius:radius_pkt_sign:signed-octets-differ:%s:%s" % (region, tagc), detail, rp)
                elif not v["chk_ok"]:
                    ctx.fail("radius:radius_pkt_chk:verdict-on-signed-packet:%s" % tagc, detail, rp)
                elif not v["accept_ok"]:
                    ctx.fail("radius:radius_pkt_verify:own-signed-packet-rejected:%s" % tagc, detail, rp)
                elif not v["unhide_ok"]:
                    ctx.fail("radius:radius_pkt_verify:user-password-not-restored", detail, rp)
                elif v["class"] == "ok" and ev["rc"] == 0:
                    ctx.add(traces_validated_against_impl=1)
            elif v["e"] == "recv":
                if not v["ok"]:
                    pos = m["pos"]
                    region = "wrong-secret" if pos < 0 else "header" if pos < 4 else "authenticator" if pos < 20 else "attributes"
                    ctx.fail("radius:radius_pkt_verify:accepted-%s:%s:code=%d" % (m["what"], region, m["code"]),
                             "%s\nresult %s\nreceived %s\nthe reference says these octets are NOT authentic under the secret" % (m["case"], m["res"], hx(ev["pkt"])), rp)
                elif v["authentic"]: stats["recv_still_authentic_skipped"] += 1
                else: stats["recv_rejected_as_required"] += 1
            else:
                bad = [q for q in ("rc_ok", "enc_ok", "short_ok", "dec_ok") if not v[q]]
                if bad:
                    fn = "radius_pkt_attr_password_decode" if bad[0] == "dec_ok" else "radius_pkt_attr_password_encode"
                    ctx.fail("radius:%s:%s:len=%d" % (fn, bad[0][:-3], v["n"]), "%s\n%s\nreference hidden value %s" % (m["case"], m["out"], hx(v["expect"])), rp)
                else: ctx.add(traces_validated_against_impl=1)
    ctx.cov["radius_trace_events"] = stats
    if stats["recv_rejected_as_required"] == 0 or stats["sign"] == 0 or stats["pw"] == 0:
        raise common.Infra("vacuous RADIUS trace: %s" % stats)
    smp = next((m for m in meta if m.get("tag") == "corrupt:Access-Request+MA" and "out" in m), None)
    if smp: ctx.add(samples=[{"radius_sign_case": smp["case"], "driver": smp["out"][:400]}])

def run(ctx):
    ctx.level = "exploration"
    d = common.scratch()
    exe = [("clang-O1-asan-ubsan", common.cc([DRV], d + "/c15", compiler="clang", san="asan", hooks=False))]
    if not ctx.quick:
        exe.append(("gcc-O2", common.cc([DRV], d + "/c15g", compiler="gcc", opt="-O2", hooks=False)))
    ctx.cov["builds"] = [b for b, _ in exe]
    t = "" if ctx.quick else "_thorough"
    plan = [("GenDnsMsg", ["GenDnsMsg%s.cfg" % t, "GenDnsMsg_bound.cfg", "GenDnsMsg_chain.cfg"]),
            ("GenDnsName", ["GenDnsName%s.cfg" % t, "GenDnsName_bound.cfg", "GenDnsName_many.cfg"]),
            ("GenDnsCompr", ["GenDnsCompr%s.cfg" % t]),
            ("GenRadius", ["GenRadius_rules.cfg", "GenRadius%s.cfg" % t])]
    PL = dict(plan)
    jobs = [(m, c) for m, cs in plan for c in cs]
    jobs.sort(key=lambda j: 0 if ("bound" in j[1] or "thorough" in j[1] or "chain" in j[1]) else 1)      # long ones first
    common.tlc_workspace()
    G = dict(zip(jobs, par([(lambda j=j: gen(ctx, j[0], j[1])) for j in jobs], n=4)))
    ctx.log("generators done: %s" % ", ".join("%s=%d" % (c, G[(m, c)][0].distinct) for m, c in jobs))
    dns_msg_part(ctx, exe, PL["GenDnsMsg"], G)
    dns_name_part(ctx, exe, PL["GenDnsName"], G)
    dns_compr_part(ctx, exe, PL["GenDnsCompr"], G)
    corpus = rad_build_part(ctx, exe, PL["GenRadius"], G)
    ctx.log("builders replayed")
    rad_sign_part(ctx, exe, corpus)
    ctx.cov["rule"] = ("cases are the reachable states of the generator specs (every history of builder steps over the configured "
                       "alphabets until a step is refused) and the lines of the signing trace; non-trivial = history with at least "
                       "one step after the header / a valid name / a trace line whose reference verdict was decisive")
    ctx.assumptions += ["TLA+ modules specs/wire/{DnsName,DnsMsg,Radius}.tla over specs/crypto/Md5.tla are the oracle (RFC 1035, 2671, 2865, 2866, 2869, 2104, 5176, 5997)",
                        "memory accesses are observed by ASan/UBSan on exact-size heap blocks",
                        "names longer than 253 octets are outside the quantifier (accepted or refused; if accepted the label-by-label encoding); compressed messages are written by the reference (the library's builder does not compress) with pointer chains of at most 3 jumps, the library only reads them",
                        "DNS id/flags and EDNS flags are opaque two-octet strings; RADIUS add_uint32 takes the value octets in memory order"]
