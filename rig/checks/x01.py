"""X01 (growth task) - the containers include/utils/hash_bucket.h and src/utils/data_cache.c.

Oracle: specs/grow/HashBucket.tla + DataCache.tla (state machines shaped like the implementation; the stated properties
HB1..HB6 / DC1..DC5 are in the header comments of the two modules).  TLC decides everything:
  * model checking   MC_HbApi (atomic API calls, 2 threads: structure, counters, map semantics, exact enumeration, lock
                     effect table), MC_HbConc (usage protocols, one step per critical section: unique keys, no use
                     after free, locks released, enumeration under concurrent removal, liveness; AtomicTotal = FALSE
                     is the shipped counter update, on which TLC finds the lost update), MC_DataCache;
  * binding (i)      behaviours OUT of TLC (simulation of MC_HbApi / MC_DataCache with Emit) are replayed call by call
                     on the real containers (harness/x01_drv.c, ASan+UBSan, real threads for the lock owner); results
                     and the projected state are compared after every call;
  * binding (ii)     histories produced by the real code are validated line by line by TLC (Trace_Hb, Trace_DataCache):
                     'rand' several threads, rig lock around call + log line; 'free' no rig lock, protocol steps ordered
                     by tickets taken under the zone mutex, full state at quiescence; 'tight' add/remove storm in
                     private zones (total counter); 'drand' random data cache histories with a controlled clock;
  * probes           argument table of hbucket_create, a 2^28 zone table, data_cache_enum whose callback frees the
                     visited item, data_cache_item_add(NULL cache) - each in a process of its own.
Python renders calls, shuttles files and compares JSON values."""
import json, os, re, random, collections
from rig import common

DRV = os.path.join(common.VERIF, "harness", "x01_drv.c")
LDWRAP = "-Wl,--wrap=pthread_mutex_lock,--wrap=pthread_mutex_unlock,--wrap=time"
# MaxItems of MC_DataCache_sim.cfg: the driver's alloc_data_fn fails beyond it, like the model's
DC_SIM_MAXITEMS = int(re.search(r"MaxItems = (\d+)", open(os.path.join(common.VERIF, "specs", "grow", "MC_DataCache_sim.cfg")).read()).group(1))
KEY_TOTAL = "hbucket:hbskt-count:lost-update-under-concurrent-add-remove"
KEY_BIG = "hbucket_create:heap-buffer-overflow-WRITE:hashsize>=2^28-size-computed-in-32-bits"
KEY_ENUMRM = "data_cache_enum:heap-use-after-free-READ:callback-frees-visited-item"
KEY_ADDNULL = "data_cache_item_add:null-cache-dereferenced"

_SUM = re.compile(r"SUMMARY: \w+Sanitizer: (\S+) (\S+?)(?::\d+)* in (\S+)")
def crash_key(out, rc, fallback=None):
    """(kind, function, file, detail) of a sanitizer / fault report; ASan summaries of inlined header code carry no line"""
    if "LeakSanitizer: detected memory leaks" in out:
        fm = re.search(r"#\d+ 0x[0-9a-f]+ in (\S+) \S*/(?:src|include)/utils/(\S+?):\d+", out)
        return ("memory-leak", fm.group(1) if fm else "", fm.group(2) if fm else "", "LeakSanitizer: " + (re.search(r"SUMMARY: .*", out) or [""])[0])
    m = _SUM.search(out)
    if m:
        acc = "-WRITE" if re.search(r"^WRITE of size", out, re.M) else ("-READ" if re.search(r"^READ of size", out, re.M) else "")
        return (m.group(1) + acc, m.group(3), os.path.basename(m.group(2)), m.group(0))
    m = re.search(r"^(\S+?):(\d+):\d+: runtime error: (.*)$", out, re.M)
    if m:
        fm = re.search(r"#0 0x[0-9a-f]+ in (\S+)", out)
        return ("ubsan", fm.group(1) if fm else "", os.path.basename(m.group(1)), m.group(0))
    m = re.search(r"FAULT sig=(\d+)( blocked-on-zone-mutex)?", out)
    if m:
        # the watchdog (sig 14: the call did not return) names no function: the command the driver was executing does (case=<op> ...)
        cm = re.search(r"case=(\w+)", out[m.start():m.start() + 300].split("\n")[0]) if m.group(1) == "14" else None
        return ("zone-mutex-still-held" if m.group(2) else "fault-sig" + m.group(1), cm.group(1) if cm else "", "", out[m.start():m.start() + 300].split("\n")[0])
    if fallback: return fallback
    return ("timeout", "", "", "driver timeout") if rc == 124 else ("exit-%s" % rc, "", "", out[-400:])

class Rig:
    def __init__(self, ctx):
        self.ctx = ctx
        self.dir = common.scratch("lcbv-x01-")
        self.exe = common.cc([DRV], self.dir + "/x01_drv", compiler="clang", san="asan", hooks=False,
                             flags=["-Wall", "-Wno-unused-parameter", LDWRAP])
        self.env = {"ASAN_OPTIONS": "detect_leaks=0:abort_on_error=0:allocator_may_return_null=1:max_allocation_size_mb=512",
                    "UBSAN_OPTIONS": "print_stacktrace=1:halt_on_error=1"}
        if ctx.quick: self.env["X01_WD_HIST_CPU"] = "30"       # watchdog of one random / free-running history (quick tier: <= 1 s of CPU time each)
        self.n = 0

    def drive(self, lines, timeout=300, leaks=False):
        env = dict(self.env)
        if leaks: env["ASAN_OPTIONS"] = env["ASAN_OPTIONS"].replace("detect_leaks=0", "detect_leaks=1")
        rc, out = common.sh([self.exe], stdin=("\n".join(lines) + "\n").encode(), timeout=timeout, env=env)
        evs = [l for l in out.splitlines() if l.startswith('{"op"') and not l.startswith('{"op":"skipped"')]   # skipped: no object
        crash = None
        if rc != 0:
            crash = crash_key(out, rc)
        return evs, crash, out

    def validate(self, module, evs, timeout=600):
        """-> dict(accepted, line, mismatch[], seen{class: line}, r)"""
        self.n += 1
        path = os.path.join(self.dir, "t%d.ndjson" % self.n)
        open(path, "w").write("\n".join(evs) + "\n")
        r = common.tlc(module, workers=1, env={"TRACE": path}, extra=["-noGenerateSpecTE"], timeout=timeout)
        res = {"accepted": False, "mismatch": None, "seen": {}, "line": r.distinct, "r": r}
        i = r.out.find('"TRACE-ACCEPTED"')
        if r.rc == 0 and i >= 0:
            tail = r.out[i:].split("Model checking completed")[0]
            res["accepted"] = True
            res["seen"] = {m.group(1): int(m.group(2)) for m in re.finditer(r'<<"([^"]+)",\s*(\d+)>>', tail)}
        elif r.rc == 12:
            ms = re.findall(r"mismatch = (\{[^}]*\})", r.out)
            res["mismatch"] = re.findall(r'"([^"]+)"', ms[-1]) if ms else []
            ls = re.findall(r"/\\ l = (\d+)", r.out)
            res["line"] = int(ls[-1]) - 1 if ls else r.distinct
        elif r.rc != 0:
            raise common.Infra("%s: unexpected TLC result %s\n%s" % (module, r.violation, r.out[-3000:]))
        return res

    def report(self, res, evs, what, replay):
        """findings from a validation result; True when the history conformed"""
        ctx = self.ctx
        if res["accepted"]:
            for cls, line in res["seen"].items():
                if cls in ("total-count", "total-negative"):
                    ctx.fail(KEY_TOTAL, "%s: after all threads were joined hbucket_get_entries_count() differs from the number of "
                             "entries in the table (class %s):\n%s\nhbskt->count is updated with ++/-- under the mutex of ONE zone, "
                             "calls on different zones race (TLC: MC_HbConc_racy_total.cfg)" % (what, cls, evs[line - 1][:600]), replay)
                else:
                    ctx.fail("hbucket:" + cls, "%s: class %s at line %d\n%s" % (what, cls, line, evs[line - 1][:600]), replay)
            return True
        line = res["line"]
        ctxt = "\n".join(e[:700] for e in evs[max(0, line - 4):line])
        if res["mismatch"]:
            for f in res["mismatch"]:
                ctx.fail("conformance:" + f, "%s: the real code differs from the specification in %s at line %d:\n%s" % (what, f, line, ctxt), replay)
            return False
        ctx.fail("conformance:call-not-allowed-by-spec", "%s: TLC could not take line %d (the specification says the call would "
                 "block / is not possible in this state):\n%s\n%s" % (what, line, "\n".join(e[:500] for e in evs[max(0, line - 3):line + 1]),
                 res["r"].out[-1200:]), replay)
        return False

    def history(self, module, cmds, what, keyprefix, timeout=600, leaks=False):
        """run the driver on cmds, validate its log; returns (res, evs) or (None, evs) when the driver died"""
        ctx = self.ctx
        evs, crash, out = self.drive(cmds, timeout=timeout, leaks=leaks)
        replay = {"what": what, "commands": cmds}
        if crash:
            ctx.fail("%s:%s:%s" % (keyprefix, crash[0], crash[1]), "%s: driver died: %s\n%s" % (what, crash[3], out[-2500:]), replay)
            return None, evs
        if not evs: raise common.Infra("driver produced no events for %s\n%s" % (cmds, out[-1000:]))
        res = self.validate(module, evs, timeout=timeout)
        self.report(res, evs, what, replay)
        ctx.add(traces_validated_against_impl=1, trace_events_validated=len(evs))
        return res, evs

# ---------------------------------------------------------------- model checking
def expect_ok(ctx, module, cfg, label, workers=4, timeout=900):
    r = common.tlc(module, cfg=cfg, workers=workers, timeout=timeout)
    if r.rc != 0:
        raise common.Infra("%s/%s: the specification violates its own property (%s)\n%s" % (module, cfg, r.violation, r.out[-3000:]))
    ctx.tlc_stats(r, label)
    return r

def expect_violation(ctx, module, cfg, inv, label, timeout=600):
    """negative controls: the model must be able to see the failure"""
    r = common.tlc(module, cfg=cfg, workers=2, timeout=timeout, extra=["-noGenerateSpecTE"])
    if r.rc != 12 or inv not in (r.violation or ""):
        raise common.Infra("%s/%s: expected a violation of %s, got rc=%s %s" % (module, cfg, inv, r.rc, r.violation))
    ctx.cov.setdefault("violations_the_model_must_find", []).append({"model": label, "invariant": inv, "states": r.distinct})
    ctx.add(states=r.distinct, transitions=r.generated)

def model_check(ctx):
    q = ctx.quick
    expect_ok(ctx, "MC_HbApi", "MC_HbApi.cfg", "MC_HbApi (2 zones, 3 entries, 2 keys, 2 threads, depth<=2)")
    if not q:
        expect_ok(ctx, "MC_HbApi", "MC_HbApi_big.cfg", "MC_HbApi_big (2 zones, 4 entries, 3 keys, 2 threads)")
        expect_ok(ctx, "MC_HbApi", "MC_HbApi_st.cfg", "MC_HbApi_st (multi_thread = 0)")
        expect_ok(ctx, "MC_HbApi", "MC_HbApi_z4.cfg", "MC_HbApi_z4 (4 zones)", timeout=1200)
    ctx.log("API level model done")
    expect_ok(ctx, "MC_HbConc", "MC_HbConc.cfg", "MC_HbConc (atomic total; uadd/del/look/enum, 2 threads)")
    expect_ok(ctx, "MC_HbConc", "MC_HbConc_racy.cfg", "MC_HbConc_racy (shipped counter update; everything but the total)")
    expect_violation(ctx, "MC_HbConc", "MC_HbConc_racy_total.cfg", "TotalQuiescent", "shipped hbskt->count++/-- (two zones, two threads)")
    expect_violation(ctx, "MC_HbConc", "MC_HbConc_nadd.cfg", "UniqueKeys", "negative control: get(0) -> add(0) is not a unique add")
    expect_violation(ctx, "MC_HbConc", "MC_HbConc_cdel.cfg", "NoBad", "negative control: get(S_UNLOCK) -> remove -> free races")
    if not q:
        expect_violation(ctx, "MC_HbConc", "MC_HbConc_racy_neg.cfg", "TotalNonNeg", "shipped hbskt->count goes below zero")
        expect_ok(ctx, "MC_HbConc", "MC_HbConc_live.cfg", "MC_HbConc_live (every started protocol unit ends, strong fairness)")
        expect_ok(ctx, "MC_HbConc", "MC_HbConc_big.cfg", "MC_HbConc_big (4 entries, 3 keys)", timeout=1200)
        expect_ok(ctx, "MC_HbConc", "MC_HbConc_t3.cfg", "MC_HbConc_t3 (3 threads)", timeout=1200)
    ctx.log("concurrent model done")
    expect_ok(ctx, "MC_DataCache", "MC_DataCache.cfg", "MC_DataCache (2 buckets, 3 keys, 2 items)")
    if not q:
        expect_ok(ctx, "MC_DataCache", "MC_DataCache_big.cfg", "MC_DataCache_big (3 items, 4 keys)", timeout=1200)
    ctx.log("data cache model done")

# ---------------------------------------------------------------- binding (i): behaviours out of TLC on the real code
def cmd_of(e):
    op = e["op"]
    if op == "new": return "new %d %d %d %s" % (e["mt"], e["nz"], len(e["keys"]), " ".join(map(str, e["keys"])))
    if op == "get": return "get %d %d %d" % (e["t"], e["k"], e["fl"])
    if op == "add": return "add %d %d %d %d" % (e["t"], e["e"], e["fl"], e["zarg"])
    if op in ("rm", "elock", "eunlock"): return "%s %d %d" % (op, e["t"], e["e"])
    if op in ("zlock", "zunlock"): return "%s %d %d" % (op, e["t"], e["z"])
    if op == "zenum": return "zenum %d %d %d %d %s" % (e["t"], e["z"], e["stop"], len(e["rm"]), " ".join(map(str, sorted(e["rm"]))))
    if op == "enum": return "enum %d %d %d %s" % (e["t"], e["stop"], len(e["rm"]), " ".join(map(str, sorted(e["rm"]))))
    if op == "destroy": return "destroy %d" % e["t"]
    if op == "dnew": return "dnew %d %d %d %d" % (e["iv"], e["nb"], e["now"], DC_SIM_MAXITEMS)
    if op == "dadd": return "dadd %d %d" % (e["k"], e["fail"])
    if op in ("dget", "dget0"): return "%s %d" % (op, e["k"])
    if op == "dfree": return "dfree %d" % e["i"]
    if op == "dset": return "dset %d %d %d %d" % (e["i"], e["vu"], e["upd"], e["inc"])
    if op == "dclean": return "dclean"
    if op == "dtick": return "dtick %d" % e["dt"]
    if op == "denum": return "denum %d" % e["stop"]
    if op == "ddestroy": return "ddestroy"
    raise common.Infra("unknown op " + op)

def diff_step(exp, act):
    """names of the fields in which the real call differs from what TLC computed"""
    d = []
    e = exp["ev"]
    for k, v in e.items():
        a = act.get(k)
        if k == "rm": v = sorted(v); a = sorted(a or [])
        if a != v: d.append(k)
    if act.get("st") != exp["st"]:
        s, t = exp["st"], act.get("st") or {}
        d += ["st." + k for k in s if t.get(k) != s[k]] or ["st"]
    return d

def replay_behaviours(rig, module, cfg, first_op, nbeh, depth, label, keyprefix):
    ctx = rig.ctx
    r = common.tlc(module, cfg=cfg, workers=1, simulate=nbeh, depth=depth, seed=ctx.seed, timeout=900)
    if r.rc != 0: raise common.Infra("simulation of %s failed: %s\n%s" % (module, r.violation, r.out[-2000:]))
    states = []
    for s in common.tlc_printed_json(r.out):        # TLC's simulator may evaluate the invariant more than once per state
        if s.get("ev") and not (states and states[-1] == s): states.append(s)
    lines, meta = [], []
    b = -1; new_ev = None
    for s in states:
        if s["ev"]["op"] == first_op and s["lvl"] <= 2: new_ev = s
    for s in states:
        if s["lvl"] == 1: new_ev = s; continue            # initial state of the model: the create call
        if s["lvl"] == 2:
            b += 1
            if s["ev"]["op"] != first_op:
                if new_ev is None: raise common.Infra("no initial %s state printed" % first_op)
                lines.append(cmd_of(new_ev["ev"])); meta.append((b, new_ev))
        lines.append(cmd_of(s["ev"])); meta.append((b, s))
    if b + 1 < nbeh // 2: raise common.Infra("simulation emitted too little (%d behaviours)" % (b + 1))
    # the driver dies on call after call (each death reported, the rest of its behaviour skipped): after 8 deaths the remaining
    # behaviours are not run - the check ends with its verdict in bounded time (and does not judge the vacuity of a cut corpus)
    res = common.batch_run(rig.exe, lines, timeout=900, env=rig.env, max_crashes=8, on_excess="skip")
    if any(isinstance(a, dict) and a.get("skipped") for a in res): CUT[0] = True
    dead = -1; nsteps = 0; nbad = 0; start = 0
    ops = collections.Counter(); feats = collections.Counter()
    for i, (ln, (bid, s), a) in enumerate(zip(lines, meta, res)):
        if i == 0 or meta[i - 1][0] != bid: start = i
        if bid == dead: continue
        if isinstance(a, dict) and a.get("skipped"): continue
        if isinstance(a, dict):
            c = crash_key(a["raw"], 1, a["crash"]); dead = bid
            ctx.fail("%s:%s:%s" % (keyprefix, c[0], c[1]), "%s: %s\n%s" % (label, c[3], a["raw"]), {"commands": lines[start:i + 1]})
            continue
        try: act = json.loads(a)
        except Exception: raise common.Infra("driver answered garbage to '%s': %s" % (ln, a[:300]))
        if act.get("op") == "skipped": continue
        nsteps += 1
        e = s["ev"]; ops[e["op"]] += 1
        if e["op"] == "get": feats["get-found" if e["rc"] == 0 else "get-not-found"] += 1
        if e["op"] in ("zenum", "enum") and set(e["rm"]) & set(e["vis"]): feats["enumeration-removing-visited-entries"] += 1
        if e["op"] in ("zenum", "enum") and e["ret"] == 1: feats["enumeration-stopped-by-callback"] += 1
        if "own" in s["st"] and len({o for o in s["st"]["own"] if o}) > 1: feats["two-threads-holding-zones"] += 1
        if "dep" in s["st"] and max(s["st"]["dep"] or [0]) > 1: feats["recursive-lock-depth>1"] += 1
        if e["op"] == "dclean" and e["freed"]: feats["clean-removing-items"] += 1
        if e["op"] == "dclean" and not e["freed"] and s["st"].get("live"): feats["clean-keeping-items"] += 1
        if e["op"] == "dadd" and e["rc"] == 12: feats["add-alloc-failure"] += 1
        if e["op"] == "dadd" and e["rc"] == 0: feats["add-ok"] += 1
        if e["op"] == "ddestroy" and e["freed"]: feats["destroy-with-items"] += 1
        if e["op"] == "destroy" and e["vis"]: feats["destroy-with-entries"] += 1
        df = diff_step(s, act)
        if df:
            dead = bid; nbad += 1
            if nbad <= 5:
                for f in df:
                    ctx.fail("conformance:%s:%s" % (e["op"], f), "%s: the real call differs from the specification in %s\ncall: %s\n"
                             "TLC expects: %s\nreal:        %s" % (label, f, ln, json.dumps(s)[:1500], a[:1500]), {"commands": lines[start:i + 1]})
    ctx.add(evaluations=nsteps, traces_validated_against_impl=b + 1, spec_behaviours_replayed=b + 1, spec_steps_replayed=nsteps)
    ctx.cov.setdefault("replayed_calls_per_function", {})[label] = dict(ops)
    ctx.cov.setdefault("replayed_behaviour_features", {})[label] = dict(feats)
    ctx.log("%s: %d behaviours / %d calls replayed on the real code, %d diverging" % (label, b + 1, nsteps, nbad))
    if states: ctx.add(samples=[{"call": lines[-1], "expected": states[-1]["ev"]}])
    return ops, feats

CUT = [False]       # a replay was cut short after repeated deaths of the driver
def need(label, have, wanted):
    miss = [w for w in wanted if not have.get(w)]
    if miss and not CUT[0]: raise common.Infra("vacuous corpus (%s): never saw %s in %s" % (label, miss, dict(have)))

# ---------------------------------------------------------------- binding (ii): real histories validated by TLC
def real_histories(rig):
    ctx = rig.ctx
    rnd = random.Random(ctx.seed)
    q = ctx.quick
    # serialised multi-thread histories: (mt, nz, keys, threads, calls)
    plan = [(1, 2, [0, 1, 2, 0], 3, 4000), (0, 4, [0, 1, 2, 3, 5, 1], 1, 2500), (1, 4, [0, 4, 1, 5, 2, 0, 3], 4, 3000)]
    if not q:
        plan = [(1, 2, [0, 1, 2, 0], 3, 30000), (0, 4, [0, 1, 2, 3, 5, 1], 1, 20000), (1, 4, [0, 4, 1, 5, 2, 0, 3], 4, 30000),
                (1, 1, [0, 1, 2], 2, 20000), (1, 8, [0, 8, 16, 1, 9, 3, 3, 7], 4, 30000), (1, 16, list(range(12)), 3, 20000)]
    for (mt, nz, keys, nt, n) in plan:
        seed = rnd.randrange(1, 1 << 30)
        what = "serialised history mt=%d hashsize=%d keys=%s threads=%d calls=%d seed=%d" % (mt, nz, keys, nt, n, seed)
        res, evs = rig.history("Trace_Hb", ["new %d %d %d %s" % (mt, nz, len(keys), " ".join(map(str, keys))),
                                            "rand %d %d %d" % (seed, n, nt), "destroy 1"], what, "hbucket")
        if res is not None:
            c = collections.Counter(json.loads(e)["op"] for e in evs)
            held2 = sum(1 for e in evs if len({o for o in json.loads(e)["st"].get("own", []) if o}) > 1)
            ctx.cov.setdefault("serialised_histories", []).append({"mt": mt, "hashsize": nz, "threads": nt, "calls": len(evs),
                "accepted": res["accepted"], "calls_per_function": dict(c), "states_with_two_lock_holders": held2,
                "tlc_wall_s": round(res["r"].wall, 1)})
            if res["accepted"]:
                need(what, c, ["get", "add", "rm", "zlock", "zunlock", "elock", "eunlock", "zenum", "enum", "destroy"])
                if mt and nt > 1 and nz > 1 and not held2: raise common.Infra("vacuous: never two lock holders in " + what)
    # free running histories (no rig lock), then the add/remove storm.  (hashsize, shared keys, threads, units, private entries)
    fplan = [(4, [0, 0, 1, 1, 2, 2, 3, 3], 4, 20000, 6), (2, [0, 0, 1, 1, 2, 2], 3, 15000, 4)]
    if not q: fplan = [(4, [0, 0, 1, 1, 2, 2, 3, 3], 4, 150000, 6), (2, [0, 0, 1, 1, 2, 2], 3, 100000, 4), (1, [0, 0, 1, 1], 4, 60000, 4),
                       (8, [0, 0, 1, 1, 2, 2, 3, 3, 4, 4, 5, 5], 4, 150000, 8), (2, [0, 0, 2, 2], 2, 150000, 2)]
    for (nz, shared, nt, n, npriv) in fplan:
        seed = rnd.randrange(1, 1 << 30)
        keys = shared + [100 + i for i in range(npriv)]
        what = "free running history hashsize=%d shared keys=%s private entries=%d threads=%d units=%d seed=%d" % (nz, shared, npriv, nt, n, seed)
        res, evs = rig.history("Trace_Hb", ["new 1 %d %d %s" % (nz, len(keys), " ".join(map(str, keys))),
                                            "free %d %d %d %d" % (seed, n, nt, len(shared))], what, "hbucket", timeout=900)
        if res is not None:
            c = collections.Counter(re.match(r'\{"op":"(\w+)"', e).group(1) for e in evs)
            c["add(0)-of-private-entry"] = sum(1 for e in evs if e.startswith('{"op":"add"') and '"fl":0' in e)
            ctx.cov.setdefault("free_running_histories", []).append({"hashsize": nz, "threads": nt, "lines": len(evs),
                "accepted": res["accepted"], "classes": sorted(res["seen"]), "lines_per_function": dict(c), "tlc_wall_s": round(res["r"].wall, 1)})
            if res["accepted"]: need(what, c, ["get", "add", "rm", "zenum", "zunlock", "quiesce", "add(0)-of-private-entry"])
    for (nt, iters) in ([(4, 100000)] if q else [(4, 400000), (2, 400000)]):
        what = "add/remove storm: %d threads, each %d x (add, remove) of a private entry in a private zone" % (nt, iters)
        res, evs = rig.history("Trace_Hb", ["new 1 4 4 0 1 2 3", "tight %d %d" % (nt, iters)], what, "hbucket")
        if res is not None:
            ctx.cov.setdefault("storms", []).append({"threads": nt, "iterations": iters, "classes": sorted(res["seen"]),
                                                     "total_reported": json.loads(evs[-1])["st"]["total"]})
    # argument validation of hbucket_create
    rig.history("Trace_Hb", ["createrc"], "hbucket_create argument table", "hbucket_create")
    # data cache
    dplan = [(3, 7, 6000), (2, 5, 4000), (1, 3, 2000)] if q else [(3, 7, 60000), (2, 5, 40000), (1, 3, 20000), (5, 16, 60000), (4, 40, 40000)]
    for (nb, nk, n) in dplan:
        seed = rnd.randrange(1, 1 << 30)
        what = "data cache history buckets=%d keys=%d calls=%d seed=%d" % (nb, nk, n, seed)
        res, evs = rig.history("Trace_DataCache", ["dnew 1 %d 1000" % nb, "drand %d %d %d" % (seed, n, nk), "ddestroy"], what, "data_cache", leaks=True)
        if res is not None:
            c = collections.Counter()
            for e in evs:
                j = json.loads(e); c[j["op"]] += 1
                if j["op"] == "dclean" and j["freed"]: c["clean-removing-items"] += 1
                if j["op"] == "dclean" and not j["freed"] and j["st"].get("live"): c["clean-keeping-items"] += 1
                if j["op"] == "dadd" and j["rc"] == 12: c["add-alloc-failure"] += 1
                if j["op"] == "ddestroy" and j["freed"]: c["destroy-with-items"] += 1
                if j["op"] == "denum" and len(j["vis"]) > 1: c["enum-several-items"] += 1
            ctx.cov.setdefault("data_cache_histories", []).append({"buckets": nb, "keys": nk, "calls": len(evs), "accepted": res["accepted"],
                                                                   "features": dict(c), "tlc_wall_s": round(res["r"].wall, 1)})
            if res["accepted"] and nb > 1:
                need(what, c, ["dadd", "dget", "dget0", "dfree", "dset", "dclean", "denum", "ddestroy", "clean-removing-items",
                               "clean-keeping-items", "add-alloc-failure", "destroy-with-items", "enum-several-items"])

# ---------------------------------------------------------------- probes (own process each: they may die in ASan)
def probes(rig):
    ctx = rig.ctx
    for (module, cmds, key, what) in [
        ("Trace_Hb", ["bigcreate 28"], KEY_BIG,
         "hbucket_create(hashsize = 2^28): sizeof(hbucket_t) + sizeof(hbucket_zone_t) * hashsize is computed in a uint32_t"),
        ("Trace_Hb", ["bigcreate 31"], KEY_BIG, "hbucket_create(hashsize = 2^31)"),
        ("Trace_DataCache", ["dnew 2 3 100", "dadd 1 0", "dadd 4 0", "dadd 2 0", "denumrm 2", "denum 0", "ddestroy"], KEY_ENUMRM,
         "data_cache_enum with a callback that calls data_cache_item_free() on the item it is visiting (TAILQ_FOREACH, not _SAFE)"),
        ("Trace_DataCache", ["daddnull"], KEY_ADDNULL,
         "data_cache_item_add(NULL, ...): get/enum/clean/destroy check the cache pointer, item_add dereferences it")]:
        evs, crash, out = rig.drive(cmds, timeout=120)
        if crash:
            loc = "%s %s %s" % (crash[0], crash[1], crash[2])
            expected_site = {KEY_BIG: "hbucket_create", KEY_ENUMRM: "data_cache_enum", KEY_ADDNULL: "data_cache"}[key]
            k = key if (expected_site in out and ("heap-" in out or "runtime error" in out or "SEGV" in out or "FAULT" in out)) \
                else "%s:%s:%s" % (cmds[-1].split()[0], crash[0], crash[1])
            ctx.fail(k, "%s\n%s (%s)\n%s" % (what, crash[3], loc, out[-1800:]), {"commands": cmds})
            ctx.add(probes_run=1)
            continue
        res = rig.validate(module, evs)
        rig.report(res, evs, what, {"commands": cmds})
        ctx.add(probes_run=1, traces_validated_against_impl=1, trace_events_validated=len(evs))

def run(ctx):
    ctx.level = "model_checking"
    rig = Rig(ctx)
    ctx.log("driver built from %s" % common.REPO)
    model_check(ctx)
    q = ctx.quick
    ops, feats = replay_behaviours(rig, "MC_HbApi", "MC_HbApi_sim.cfg", "new", 120 if q else 1000, 40, "hash bucket behaviours (2 threads)", "hbucket")
    need("hash bucket replay", ops, ["get", "add", "rm", "zlock", "zunlock", "elock", "eunlock", "zenum", "enum", "destroy"])
    need("hash bucket replay", feats, ["get-found", "get-not-found", "enumeration-removing-visited-entries", "enumeration-stopped-by-callback",
                                       "two-threads-holding-zones", "recursive-lock-depth>1"])
    replay_behaviours(rig, "MC_HbApi", "MC_HbApi_sim_st.cfg", "new", 50 if q else 300, 40, "hash bucket behaviours (multi_thread = 0, 4 zones)", "hbucket")
    ops, feats = replay_behaviours(rig, "MC_DataCache", "MC_DataCache_sim.cfg", "dnew", 250 if q else 4000, 50, "data cache behaviours", "data_cache")
    need("data cache replay", ops, ["dnew", "dadd", "dget", "dget0", "dfree", "dset", "dclean", "dtick", "denum", "ddestroy"])
    need("data cache replay", feats, ["clean-removing-items", "clean-keeping-items", "add-alloc-failure", "add-ok", "destroy-with-items"])
    real_histories(rig)
    probes(rig)
    ctx.cov["rule"] = ("states/transitions: TLC exploration of MC_HbApi, MC_HbConc, MC_DataCache within the cfg bounds; "
                       "traces_validated_against_impl: TLC behaviours replayed on the real containers + real histories accepted by "
                       "Trace_Hb / Trace_DataCache (every call: results + zone lists, counters, entry->zone, mutex owner/depth resp. "
                       "bucket lists, item fields, next_clean_time, outstanding data objects)")
    ctx.assumptions += [
        "hash bucket users obey the header: an entry object is added once (not while linked), NO_LOCK flags only while holding the zone, "
        "entries are touched only between a get that returned them locked and the zone unlock, destroy only when no zone is held",
        "the data cache hash_fn returns a bucket index < DATA_CACHE_BUCKETS (the code does not mask it); single thread (its locks are commented out)",
        "free running histories: the linearisation is the order of tickets taken while the zone mutex is held; hbskt->count is only "
        "compared at quiescence",
        "model bounds: <= 4 zones, <= 4 entries, <= 3 threads (model checking); real histories use up to 16 zones / 12 entries / 4 threads"]
