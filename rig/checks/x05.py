"""X05 (growth) - the HTTP server connection state machine src/proto/http_server.c on the thread pool's I/O tasks:
accept -> client object -> receive (partial reads, header / body limits, pipelining, half-close, reset, timeout) ->
user callbacks (on_conn / on_req_rcv / on_rep_snd / on_destroy, every return code, deferred reply) -> response (short
writes, EAGAIN, send error) -> keep-alive or close -> next request or destroy; bind add / shutdown / remove, server
shutdown / destroy with clients alive.

Oracle: specs/grow/HttpSrv.tla - a state machine shaped like the implementation (one operator per function / label of
http_server.c, one step per system call or user callback inside a handler run); its "Properties" block states what a
user relies on (P1..P9).  TLC decides everything:
  * MC_HttpSrv     exhaustive exploration with an adversarial client / kernel / timer / user: the repaired model
                   (Fix = AllFix) satisfies every invariant and the termination property; for each of the thirteen
                   places where the shipped code does not have a property the variant AllFix minus {f} is explored too
                   and TLC must find the violated property (the properties are not vacuous).
  * Trace_HttpSrv  binding: harness/x05_drv.c runs the REAL server on the REAL thread pool (one worker) and the real I/O
                   tasks over TCP loopback against scripted clients in the same process; accept4 / recv / send / sendmsg /
                   close / timerfd_settime are observed (and short reads / writes, EAGAIN, errors injected) through
                   link-time wrappers, handler dispatch through the pool's guarded hook, the user callbacks log what they
                   see; I/O timeouts run on a logical clock.  TLC validates every line: ORDER and COUNT of system calls,
                   callbacks, closes, the byte counts the code asks for, registrations, buffer sizes, statistics, what
                   each client received and the final ledger (descriptors, LeakSanitizer).
                   Witness scenarios (one per deviation) are validated against a family of variants of the model; they
                   tell which repairs the tree has.  Every other scenario must then be explained by exactly that variant.
                   A missing repair is a finding (keyed by WHAT fails); a history the variant does not explain is a
                   conformance violation.
Python only renders scenarios, shuttles files and reads TLC's verdicts."""
import json, os, re, random, collections, time, threading
from concurrent.futures import ThreadPoolExecutor
from rig import common

DRV = os.path.join(common.VERIF, "harness", "x05_drv.c")
SPEC_DIR = os.path.join(common.VERIF, "specs", "grow")
ALLFIX = ["reallocptrs", "realloctr", "pipebody", "pipeasync", "resumetr", "hdrgrow", "halfclose", "eofbody", "errpage",
          "sndagain", "shutdown", "destroyall", "destroylive"]
KEYS = {
    "reallocptrs": "http_srv_recv_done_cb:request-pointers-dangle-after-rcv_buf-realloc-use-after-free",
    "realloctr": "http_srv_recv_done_cb:io_buf_realloc-cuts-transfer-size-truncated-body-delivered",
    "pipebody": "http_srv_recv_done_cb:pipelined-request-with-incomplete-body-left-without-read-registration",
    "pipeasync": "http_srv_resume_next_request:buffered-pipelined-request-not-processed-after-async-send",
    "resumetr": "http_srv_resume_responce:overwrites-transfer-size-pipelined-body-never-completes",
    "hdrgrow": "http_srv_recv_done_cb:header-filling-initial-buffer-dropped-instead-of-growing-to-max",
    "halfclose": "http_srv_recv_done_cb:fin-flag-taken-for-end-of-data-complete-request-refused",
    "eofbody": "http_srv_recv_done_cb:eof-inside-body-delivered-as-complete-request",
    "errpage": "http_srv_snd:generated-error-page-content-length-0-and-no-blank-line",
    "sndagain": "http_srv_snd:eagain-from-sendmsg-drops-client-instead-of-scheduling-write",
    "shutdown": "http_srv_shutdown:inverted-test-never-stops-listening",
    "destroyall": "http_srv_destroy:loop-skips-every-second-bind-leak",
    "destroylive": "http_srv_bind_remove:clients-alive-keep-dangling-bind-use-after-free",
}
WHAT = {
    "reallocptrs": "when the body of a request does not fit the receive buffer the buffer is reallocated (io_buf_realloc moves it) but "
                   "cli->req.hdr / req.data / req.line.* keep pointing into the old block: heap-use-after-free in "
                   "http_srv_recv_done_cb (http_hdr_val_get / next-byte save) and in the user's on_req_rcv",
    "realloctr": "io_buf_realloc() cuts transfer_size down to used: a body whose missing part is larger than what is buffered is "
                 "'complete' after used more bytes - on_req_rcv gets data_size bytes of which the tail was never received, and "
                 "http_srv_cli_next_req then memmoves a negative (wrapped) size",
    "pipebody": "second request of a pipeline found in the buffer after a synchronous send, headers complete, body incomplete: the "
                "callback returns TP_TASK_CB_CONTINUE for a task it stopped itself; only the timer is re-armed, the socket is not "
                "registered any more - the request waits for the I/O timeout and is lost",
    "pipeasync": "after a response that needed the write handler, http_srv_resume_next_request only tries recv(): a complete "
                 "pipelined request that is already in the buffer is not looked at until more bytes arrive or the timeout drops the client",
    "resumetr": "http_srv_resume_responce overwrites the transfer size and TP_TASK_F_CB_AFTER_EVERY_READ that "
                "http_srv_recv_done_cb has just set for the missing body bytes: the body is never seen as complete",
    "hdrgrow": "tp_task_cb_check() answers NONE when the buffer is full, so the 'try realloc more' branch is never reached for "
               "headers: a header block >= rcv_io_buf_init_size is dropped without any status although rcv_io_buf_max_size allows it",
    "halfclose": "TP_TASK_IOF_F_SYS (the poller saw the peer's FIN) is read as 'nothing more to receive' although the rest of the "
                 "request is still in the socket buffer: a complete request of a client that half-closed is answered 400 / dropped",
    "eofbody": "end of stream in the middle of an announced body goes to req_received: on_req_rcv is called with data_size = "
               "Content-Length although fewer bytes arrived (stale / uninitialised buffer bytes are handed to the user)",
    "errpage": "generated error pages carry 'Content-Length: 0' (computed before the page is printed) and no empty line between the "
               "headers and the page: every automatic 400/404/411/413/500 answer is a malformed HTTP message",
    "sndagain": "sendmsg() == -1/EAGAIN (socket buffer full, e.g. a pipelining client that does not read yet) is returned as an "
                "error: the client is destroyed and the response lost instead of the write being scheduled",
    "shutdown": "http_srv_shutdown() returns immediately when srv->bnd is set (and has nothing to do when it is not): it never "
                "stops accepting",
    "destroyall": "http_srv_destroy() walks srv->bnd[i] upwards while http_srv_bind_remove() shifts the array down: every second "
                  "bind (listening socket, accept task, memory) is leaked and stays registered with a freed server",
    "destroylive": "http_srv_bind_remove() / http_srv_destroy() free the bind while accepted clients still point to it (cli->bnd): "
                   "the next event of such a client reads freed memory; the server keeps no track of its clients",
}

# ------------------------------------------------------------------------------------------------ scenarios
def _s(name, text): return (name, "\n".join(l.strip() for l in text.strip().splitlines()) + "\nend\n")
KA = "cfg reqconn=1 respclose=0"
SCENARIOS = [
 _s("b01-two-requests-keepalive-then-timeout", KA + """
    bind 1
    req 1 1 kind=GET blen=10
    req 1 2 kind=POST cl=5 blen=3
    connect 1 1
    send 1 1.e
    sync
    send 1 2.h+2
    sync
    send 1 all
    sync
    stat
    timeout 1
    sync"""),
 _s("b02-three-pipelined-last-close", KA + """
    bind 1
    req 1 1 kind=GET blen=10
    req 1 2 kind=GET blen=4
    req 1 3 kind=GET blen=5 conn=close
    connect 1 1
    send 1 all
    sync"""),
 _s("b03-header-and-body-in-pieces", KA + """
    bind 1
    req 1 1 kind=POST cl=40 blen=7 pad=30
    connect 1 1
    send 1 7
    send 1 1.h-1
    sync
    send 1 1.h
    send 1 1.h+13
    sync
    send 1 1.e-1
    send 1 all
    sync
    cclose 1
    sync"""),
 _s("b04-short-writes-then-next-request", KA + """
    bind 1
    req 1 1 kind=GET blen=300
    req 1 2 kind=GET blen=2 conn=close
    connect 1 1
    txlim 1 50,20,EAGAIN,100
    send 1 1.e
    sync
    send 1 all
    sync"""),
 _s("b05-callback-destroy", KA + """
    bind 1
    req 1 1 kind=GET act=D
    connect 1 1
    send 1 all
    sync"""),
 _s("b06-deferred-reply-resume", KA + """
    bind 1
    req 1 1 kind=GET act=N blen=9
    req 1 2 kind=GET blen=1 conn=close
    connect 1 1
    send 1 1.e
    sync
    resume 1
    sync
    send 1 all
    sync"""),
 _s("b07-deferred-reply-client-freed-by-user", KA + """
    bind 1
    req 1 1 kind=POST cl=3 act=N
    connect 1 1
    send 1 all
    sync
    cli_free 1
    sync"""),
 _s("b08-after-send-none-then-resume-next", KA + """
    bind 1
    req 1 1 kind=GET blen=100 snd=N
    req 1 2 kind=GET blen=2 snd=D
    connect 1 1
    txlim 1 30
    send 1 1.e
    sync
    resume_next 1
    sync
    txlim 1 10
    send 1 all
    sync"""),
 _s("b09a-bad-request-line", KA + """
    bind 1
    req 1 1 kind=GET blen=3
    req 1 2 kind=BADLINE
    connect 1 1
    send 1 all
    sync"""),
 _s("b09b-post-without-length-insecure-too-big", "cfg reqconn=1 respclose=0 init=1 max=2" + """
    bind 1
    req 1 1 kind=POSTNOCL
    req 2 1 kind=INSEC cl=3 bl=3
    req 3 1 kind=POST cl=3000 bl=10
    connect 1 1
    connect 2 1
    connect 3 1
    send 1 all
    send 2 all
    send 3 all
    sync
    stat"""),
 _s("b09c-nobody-listening-404", "cfg reqconn=1 respclose=0 reqcb=0" + """
    bind 1
    req 1 1 kind=GET
    connect 1 1
    send 1 all
    sync"""),
 _s("b10-http10-close-and-keepalive", KA + """
    bind 1
    req 1 1 kind=GET ver=10 blen=3
    req 2 1 kind=GET ver=10 conn=ka blen=3
    req 2 2 kind=GET ver=11 conn=close blen=2
    connect 1 1
    connect 2 1
    send 1 all
    send 2 1.e
    sync
    send 2 all
    sync"""),
 _s("b11-server-forces-close", "cfg reqconn=0 respclose=1" + """
    bind 1
    req 1 1 kind=GET blen=3 conn=ka
    req 1 2 kind=GET blen=3
    connect 1 1
    send 1 all
    sync"""),
 _s("b12-peer-closes-idle-and-reset", KA + """
    bind 1
    req 1 1 kind=GET blen=3
    req 2 1 kind=GET blen=3
    connect 1 1
    connect 2 1
    send 1 all
    send 2 7
    sync
    cclose 1
    sync
    rst 2
    sync
    stat"""),
 _s("b13-send-errors", KA + """
    bind 1
    req 1 1 kind=GET blen=50
    req 2 1 kind=GET blen=50
    connect 1 1
    connect 2 1
    txlim 1 ERR
    send 1 all
    sync
    txlim 2 40,EAGAIN,ERR
    send 2 all
    sync
    stat"""),
 _s("b14-timeout-while-sending-and-while-receiving-body", KA + """
    bind 1
    req 1 1 kind=GET blen=50
    req 2 1 kind=POST cl=30
    connect 1 1
    connect 2 1
    txlim 1 40,EAGAIN
    send 1 all
    sync
    timeout 1
    sync
    send 2 1.h+4
    sync
    timeout 2
    sync
    stat"""),
 _s("b15-on-conn-refuses-or-takes-the-socket", KA + """
    bind 1
    onconn 1 D
    onconn 2 N
    req 3 1 kind=GET blen=1 conn=close
    connect 1 1
    connect 2 1
    connect 3 1
    send 3 all
    sync"""),
 _s("b16-accept-filter-first-read-inside-accept", "cfg reqconn=1 respclose=0 accfilter=1" + """
    bind 1
    req 1 1 kind=GET blen=3
    req 1 2 kind=GET blen=3 conn=close
    hold
    connect 1 1
    send_nosync 1 1.e
    release
    sync
    send 1 all
    sync"""),
 _s("b17-two-clients-interleaved", KA + """
    bind 1
    req 1 1 kind=POST cl=10 blen=5
    req 2 1 kind=GET blen=200
    req 2 2 kind=GET blen=1 conn=close
    connect 1 1
    connect 2 1
    send 1 1.h+3
    txlim 2 100
    send 2 all
    sync
    send 1 all
    sync
    shut 1
    sync"""),
 _s("b18-bind-shutdown-remove-add-in-use", KA + """
    bind 1
    bind 2 sameport=1
    bind 3
    req 1 1 kind=GET blen=1 conn=close
    connect 1 1
    send 1 all
    sync
    bind_shutdown 1
    bind_remove 3
    bind_remove 1
    stat
    srv_destroy"""),
 _s("b19-user-sets-close", KA + """
    bind 1
    req 1 1 kind=GET blen=3 rclose=1
    req 1 2 kind=GET blen=3
    connect 1 1
    send 1 all
    sync"""),
 _s("b20-short-reads", KA + """
    bind 1
    req 1 1 kind=POST cl=12 blen=3
    req 1 2 kind=GET blen=2 conn=close
    connect 1 1
    rxlim 1 5,20,30,3,100,10,1
    hold
    send_nosync 1 all
    release
    sync"""),
 _s("b22-connection-header-ignored-when-not-asked", "cfg reqconn=0 respclose=0" + """
    bind 1
    req 1 1 kind=GET blen=3 conn=close
    req 1 2 kind=GET ver=10 blen=3
    connect 1 1
    send 1 all
    sync
    timeout 1
    sync"""),
 _s("b23-half-close-after-complete-request", KA + """
    bind 1
    req 1 1 kind=GET blen=3
    connect 1 1
    hold
    send_nosync 1 all
    shut_nosync 1
    release
    sync"""),
 _s("b24-no-destroy-no-sent-callbacks", "cfg reqconn=1 respclose=0 dstcb=0 sndcb=0 conncb=0" + """
    bind 1
    req 1 1 kind=GET blen=120
    req 1 2 kind=GET blen=2 conn=close
    connect 1 1
    txlim 1 60
    send 1 1.e
    sync
    send 1 all
    sync"""),
 _s("b25-no-header-then-fin", KA + """
    bind 1
    req 1 1 kind=NOHDR pad=20
    connect 1 1
    send 1 all
    sync
    shut 1
    sync
    stat"""),
 _s("b26-unknown-method-with-and-without-length", KA + """
    bind 1
    req 1 1 kind=UNK blen=2
    req 1 2 kind=UNKCL cl=6 blen=2
    req 1 3 kind=GET blen=2 conn=close
    connect 1 1
    send 1 2.h+2
    sync
    send 1 all
    sync"""),
 _s("b27-body-exactly-fills-the-buffer", "cfg reqconn=1 respclose=0 init=1 max=1" + """
    bind 1
    req 1 1 kind=POST cl=900 blen=1 pad=60
    connect 1 1
    send 1 all
    sync
    srv_destroy"""),
 _s("b28-no-timeouts-configured", "cfg reqconn=1 respclose=0 rcvtmo=0 sndtmo=0" + """
    bind 1
    req 1 1 kind=GET blen=80
    req 1 2 kind=GET blen=2
    connect 1 1
    txlim 1 33
    send 1 all
    sync
    cclose 1
    sync"""),
 _s("b29-header-and-body-over-the-limit-dropped", "cfg reqconn=1 respclose=0 init=1 max=2" + """
    bind 1
    req 1 1 kind=POST cl=2000 bl=100 pad=100
    connect 1 1
    send 1 all
    sync
    stat"""),
 _s("b30-body-exactly-at-and-just-above-the-limit", "cfg reqconn=1 respclose=0 init=1 max=2" + """
    bind 1
    req 1 1 kind=POST cl=2048 bl=300
    req 2 1 kind=POST cl=2049 bl=300
    req 3 1 kind=POST cl=1900 blen=2 conn=close
    connect 1 1
    connect 2 1
    connect 3 1
    send 1 all
    send 2 all
    send 3 1.h+10
    sync
    send 3 all
    sync
    stat"""),
 # ---- witnesses: each reaches exactly one (at most two) of the places where the shipped code deviates
 _s("d-reallocptrs-body-needs-realloc", "cfg reqconn=1 respclose=0 init=1 max=8" + """
    bind 1
    req 1 1 kind=POST cl=1500 blen=3 conn=close
    connect 1 1
    send 1 1.e-100
    sync
    send 1 all
    sync"""),
 _s("d-realloctr-missing-part-larger-than-buffered", "cfg reqconn=1 respclose=0 init=1 max=8" + """
    bind 1
    req 1 1 kind=POST cl=3000 blen=3
    connect 1 1
    send 1 1.h+900
    sync
    send 1 1.h+910
    sync
    timeout 1
    sync"""),
 _s("d-pipebody-second-request-body-incomplete", KA + """
    bind 1
    req 1 1 kind=GET blen=10
    req 1 2 kind=POST cl=8 blen=4 conn=close
    connect 1 1
    send 1 2.h+3
    sync
    send 1 all
    sync
    timeout 1
    sync"""),
 _s("d-pipeasync-request-buffered-behind-async-send", KA + """
    bind 1
    req 1 1 kind=GET blen=10
    req 1 2 kind=GET blen=4 conn=close
    connect 1 1
    txlim 1 50
    send 1 all
    sync
    timeout 1
    sync"""),
 _s("d-resumetr-deferred-reply-then-pipelined-body", KA + """
    bind 1
    req 1 1 kind=GET blen=10 act=N
    req 1 2 kind=POST cl=8 blen=4 conn=close
    connect 1 1
    send 1 2.h+3
    sync
    resume 1
    sync
    send 1 all
    sync
    timeout 1
    sync"""),
 _s("d-hdrgrow-header-larger-than-initial-buffer", "cfg reqconn=1 respclose=0 init=1 max=8" + """
    bind 1
    req 1 1 kind=GET blen=10 pad=1100 conn=close
    connect 1 1
    send 1 all
    sync"""),
 _s("d-halfclose-fin-seen-before-the-rest-is-read", KA + """
    bind 1
    req 1 1 kind=POST cl=20 blen=3
    connect 1 1
    rxlim 1 70
    hold
    send_nosync 1 all
    shut_nosync 1
    release
    sync"""),
 _s("d-eofbody-stream-ends-inside-body", KA + """
    bind 1
    req 1 1 kind=POST cl=10 bl=4 blen=3
    connect 1 1
    send 1 all
    sync
    shut 1
    sync"""),
 _s("d-errpage-generated-page", KA + """
    bind 1
    req 1 1 kind=POSTNOCL
    connect 1 1
    send 1 all
    sync"""),
 _s("d-sndagain-socket-buffer-full", KA + """
    bind 1
    req 1 1 kind=GET blen=10 conn=close
    connect 1 1
    txlim 1 EAGAIN
    send 1 all
    sync"""),
 _s("d-shutdown-still-accepting", KA + """
    bind 1
    srv_shutdown
    req 1 1 kind=GET blen=10 conn=close
    connect 1 1
    send 1 all
    sync
    stat
    srv_destroy"""),
 _s("d-destroyall-three-binds", KA + """
    bind 1
    bind 2
    bind 3
    stat
    srv_destroy"""),
 _s("d-destroylive-client-alive-at-destroy", KA + """
    bind 1
    req 1 1 kind=GET blen=10
    connect 1 1
    send 1 all
    sync
    srv_destroy
    timeout 1
    sync"""),
 _s("d-destroylive-bind-removed-under-client", KA + """
    bind 1
    bind 2
    req 1 1 kind=GET blen=10
    req 1 2 kind=GET blen=2 conn=close
    connect 1 2
    send 1 1.e
    sync
    bind_remove 2
    send 1 all
    sync
    srv_destroy"""),
]
WITNESS = {"reallocptrs": ["d-reallocptrs-body-needs-realloc"], "realloctr": ["d-realloctr-missing-part-larger-than-buffered"],
           "pipebody": ["d-pipebody-second-request-body-incomplete"], "pipeasync": ["d-pipeasync-request-buffered-behind-async-send"],
           "resumetr": ["d-resumetr-deferred-reply-then-pipelined-body"], "hdrgrow": ["d-hdrgrow-header-larger-than-initial-buffer"],
           "halfclose": ["d-halfclose-fin-seen-before-the-rest-is-read"], "eofbody": ["d-eofbody-stream-ends-inside-body"],
           "errpage": ["d-errpage-generated-page"], "sndagain": ["d-sndagain-socket-buffer-full"],
           "shutdown": ["d-shutdown-still-accepting"], "destroyall": ["d-destroyall-three-binds"],
           "destroylive": ["d-destroylive-client-alive-at-destroy", "d-destroylive-bind-removed-under-client"]}

# ------------------------------------------------------------------------------------------------ random scenarios
def random_scenario(rng, idx):
    """a seeded random walk over the scenario commands; guards in the driver keep it a legal use of the API"""
    L = ["cfg reqconn=%d respclose=%d init=%d max=%d rcvtmo=%d sndtmo=%d sndcb=%d accfilter=0" % (
        rng.choice([1, 1, 0]), rng.choice([0, 0, 0, 1]), rng.choice([1, 1, 2]), rng.choice([2, 4, 8]),
        rng.choice([30, 30, 0]), rng.choice([30, 30, 0]), rng.choice([1, 1, 0])), "bind 1"]
    nc = rng.choice([1, 1, 2])
    nreq = {}
    for c in range(1, nc + 1):
        nreq[c] = rng.randint(1, 4)
        for k in range(1, nreq[c] + 1):
            kind = rng.choice(["GET", "GET", "GET", "POST", "POST", "UNK", "UNKCL", "BADLINE", "POSTNOCL", "INSEC"])
            cl = rng.choice([0, 1, 7, 40, 300, 1200, 2500, 5000]) if kind in ("POST", "UNKCL", "INSEC") else 0
            a = ["req %d %d kind=%s" % (c, k, kind)]
            if cl or kind in ("POST", "UNKCL", "INSEC"): a.append("cl=%d" % cl)
            if kind in ("POST", "UNKCL") and k == nreq[c] and rng.random() < 0.15: a.append("bl=%d" % rng.randint(0, cl))
            a.append("blen=%d" % rng.choice([0, 1, 10, 100, 700, 3000]))
            if rng.random() < 0.3: a.append("pad=%d" % rng.choice([10, 200, 900, 1100, 2100]))
            if rng.random() < 0.25: a.append("ver=10")
            r = rng.random()
            if r < 0.2: a.append("conn=close")
            elif r < 0.35: a.append("conn=ka")
            r = rng.random()
            if r < 0.08: a.append("act=D")
            elif r < 0.25: a.append("act=N")
            if rng.random() < 0.1: a.append("rclose=1")
            r = rng.random()
            if r < 0.08: a.append("snd=D")
            elif r < 0.2: a.append("snd=N")
            L.append(" ".join(a))
        if rng.random() < 0.05: L.append("onconn %d %s" % (c, rng.choice("DN")))
    for c in range(1, nc + 1): L.append("connect %d 1" % c)
    lims = ["%d" % rng.choice([1, 17, 40, 90, 200, 1000]) for _ in range(6)]
    for _ in range(rng.randint(4, 16)):
        c = rng.randint(1, nc); r = rng.random()
        if r < 0.40:
            k = rng.randint(1, nreq[c])
            L.append("send %d %s" % (c, rng.choice(["%d.h" % k, "%d.e" % k, "%d.h-%d" % (k, rng.randint(1, 9)), "%d.h+%d" % (k, rng.randint(1, 30)),
                                                    "%d.e-%d" % (k, rng.randint(1, 5)), "all", "%d" % rng.randint(1, 60)])))
        elif r < 0.50:
            n = rng.randint(1, 4)
            L.append("txlim %d %s" % (c, ",".join(rng.choice(lims + ["EAGAIN", "EAGAIN", "ERR"]) for _ in range(n))))
        elif r < 0.56:
            L.append("rxlim %d %s" % (c, ",".join(rng.choice(lims) for _ in range(rng.randint(1, 4)))))
        elif r < 0.70: L.append("resume %d" % c)
        elif r < 0.78: L.append("resume_next %d" % c)
        elif r < 0.84: L.append("timeout %d" % c)
        elif r < 0.88: L.append("shut %d" % c)
        elif r < 0.91: L.append("cclose %d" % c)
        elif r < 0.93: L.append("rst %d" % c)
        elif r < 0.95: L.append("cli_free %d" % c)
        elif r < 0.97: L.append("stat")
        else: L.append("sync")
    L.append("sync")
    for c in range(1, nc + 1):
        if rng.random() < 0.5: L.append("resume %d" % c); L.append("resume_next %d" % c)
    if rng.random() < 0.3: L.append("srv_destroy")
    return ("r%03d" % idx, "\n".join(L) + "\nend\n")

# ------------------------------------------------------------------------------------------------ rig
WRAPS = "accept4,recv,send,sendmsg,close,timerfd_settime"
def build(d):
    return common.cc([DRV], os.path.join(d, "x05_drv"), compiler="clang", san="asan",
                     flags=["-fno-sanitize=nonnull-attribute", "-Wno-incompatible-pointer-types", "-Wno-macro-redefined", "-Wno-pointer-sign",
                            "-Wl," + ",".join("--wrap=" + w for w in WRAPS.split(","))])

def run_scenario(exe, d, name, text, tag=""):
    sc = os.path.join(d, name + tag + ".txt"); tr = os.path.join(d, name + tag + ".ndjson")
    open(sc, "w").write(text)
    if os.path.exists(tr): os.remove(tr)
    env = {"ASAN_OPTIONS": "detect_leaks=1:abort_on_error=0:detect_stack_use_after_return=0:exitcode=97",
           "LSAN_OPTIONS": "exitcode=0", "UBSAN_OPTIONS": "print_stacktrace=1:halt_on_error=1"}
    rc, out = common.sh([exe, sc, tr], timeout=100, env=env)
    evs = []
    if os.path.exists(tr):
        for ln in open(tr):
            try: evs.append(json.loads(ln))
            except Exception: pass
    if rc == 3 or not evs or evs[0].get("e") != "create":
        raise common.Infra("driver could not set the scenario up (%s rc=%s):\n%s" % (name, rc, out[-1500:]))
    if rc == 124: evs.append({"e": "hang"})
    return {"name": name, "text": text, "rc": rc, "out": out, "evs": evs}

def normalise(evs):
    return [e for e in evs if e["e"] != "dbg"] + [{"e": "eos"}]

def family():
    """the empty variant, the full one, every single repair, every full-minus-one"""
    return [[], list(ALLFIX)] + [[f] for f in ALLFIX] + [[g for g in ALLFIX if g != f] for f in ALLFIX]

def tlc_validate(runs, d, tag, variants, workers=2, timeout=900):
    """-> {scenario index (1-based): [verdict records]}"""
    path = os.path.join(d, "trace_%s.ndjson" % tag); vpath = os.path.join(d, "variants_%s.ndjson" % tag)
    with open(path, "w") as f:
        for r in runs:
            for e in normalise(r["evs"]): f.write(json.dumps(e) + "\n")
    with open(vpath, "w") as f:
        for v in variants: f.write(json.dumps({"fx": v}) + "\n")
    r = common.tlc("Trace_HttpSrv", workers=workers, env={"TRACE": path, "VARIANTS": vpath}, timeout=timeout, xmx="4g", xss="128m")
    if r.rc != 0:
        raise common.Infra("trace specification failed (rc=%s, %s):\n%s" % (r.rc, r.violation, r.out[-3000:]))
    by = collections.defaultdict(list)
    for v in common.tlc_printed_json(r.out):
        if isinstance(v, dict) and "verdict" in v: by[v["sc"]].append(v)
    for k in range(1, len(runs) + 1):
        if len(by.get(k, [])) != len(variants):
            raise common.Infra("trace specification gave %d verdicts for scenario %d (%s), %d variants" % (len(by.get(k, [])), k, runs[k - 1]["name"], len(variants)))
    return by, r

def crash_key(out):
    k = common.san_key(out)
    if k: return "%s:%s" % (k[0], k[1] or k[2])
    m = re.search(r"runtime error: ([a-z ]+)", out)
    return "crash:" + (m.group(1).strip().replace(" ", "-") if m else "unknown")

def mc_cfg(name, over, props=None):
    ws = common.tlc_workspace()
    cfg = open(os.path.join(SPEC_DIR, "MC_HttpSrv.cfg")).read()
    for k, v in over.items():
        cfg, n = re.subn(r"(?m)^  %s = .*$" % re.escape(k), "  %s = %s" % (k, v), cfg)
        if n != 1: raise common.Infra("MC_HttpSrv.cfg has no constant %s" % k)
    if props:
        cfg = cfg.replace("SPECIFICATION Spec", "SPECIFICATION LiveSpec") + "\nPROPERTIES %s\n" % props
    open(os.path.join(ws, name), "w").write(cfg)
    return name
def sset(xs): return "{" + ", ".join('"%s"' % x for x in xs) + "}"

ALLSCN = ["pipeline", "pipeline2", "twoget", "bigbody", "toobig", "bighdr", "hugehdr", "errors", "nohdr", "http10", "http10ka", "truncated"]
WIDE = {"ReqRcs": sset("CDN"), "SndRcs": sset("CDN"), "UserClose": "TRUE", "ShortReads": "TRUE", "MaxAgain": 1, "MaxErr": 1, "MaxPart": 2}
MC_QUICK = [
    ("1conn-all-scripts-wide", dict(WIDE, Scns=sset(ALLSCN), SrvOps=sset(["rst", "cli_free"])), None, 2),
    ("1conn-accfilter-conncb", dict(WIDE, Scns=sset(["pipeline", "twoget", "errors", "truncated"]), AccFilter="TRUE", ConnCbOn="TRUE", ConnRcs=sset("CDN"),
                                    MaxErr=0, ShortReads="FALSE"), None, 2),
    ("2conn-2binds-server-ops", {"Conns": "{1, 2}", "Binds": "{1, 2}", "NBinds": 2, "Scns": sset(["nohdr"]), "SrvOps": sset(["shutdown", "destroy", "bind_remove"])}, None, 2),
    ("2conn-destroy-with-live-clients", {"Conns": "{1, 2}", "Scns": sset(["twoget"]), "SrvOps": sset(["destroy", "bind_remove"]), "MaxPart": 0}, None, 2),
    ("liveness-pipeline", {"Scns": sset(["pipeline", "twoget", "bigbody", "truncated"]), "ReqRcs": sset("CN"), "SndRcs": sset("CN"), "MaxAgain": 1, "MaxPart": 1},
     "Terminates", 2),
]
MC_THOROUGH = [
    ("2conn-server-ops-conncb", {"Conns": "{1, 2}", "Binds": "{1, 2}", "NBinds": 2, "Scns": sset(["errors"]), "SrvOps": sset(["shutdown", "destroy", "bind_remove"]),
                                 "ConnCbOn": "TRUE", "ConnRcs": sset("CDN")}, None, 4),
    ("2conn-2binds-pipeline-server-ops", {"Conns": "{1, 2}", "Binds": "{1, 2}", "NBinds": 2, "Scns": sset(["twoget"]), "SrvOps": sset(["shutdown", "destroy", "bind_remove"]),
                                          "MaxPart": 0}, None, 4),
    ("2conn-destroy-live-clients", {"Conns": "{1, 2}", "Scns": sset(["twoget", "pipeline2"]), "SrvOps": sset(["destroy", "cli_free", "rst"]), "ReqRcs": sset("CN"),
                                    "MaxPart": 1, "AccFilter": "TRUE"}, None, 4),
    ("2conn-callback-codes-reset", {"Conns": "{1, 2}", "Scns": sset(["pipeline2", "bigbody"]), "ReqRcs": sset("CN"), "SndRcs": sset("CN"), "MaxPart": 1,
                                    "UserClose": "TRUE", "SrvOps": sset(["rst"])}, None, 4),
    ("1conn-bigger-buffers", dict(WIDE, Scns=sset(ALLSCN), Init0=6, Max0=12, SrvOps=sset(["rst", "cli_free", "shutdown", "destroy"])), None, 4),
    ("1conn-tiny-buffers", dict(WIDE, Scns=sset(ALLSCN), Init0=3, Max0=7, SrvOps=sset(["rst", "cli_free"])), None, 4),
    ("1conn-no-timeouts-no-callbacks", dict(WIDE, Scns=sset(ALLSCN), RcvTmo="FALSE", SndTmo="FALSE", ReqCbOn="FALSE", SndCbOn="FALSE"), None, 4),
    ("1conn-server-close-flag", dict(WIDE, Scns=sset(ALLSCN), RespClose="TRUE", ReqConn="FALSE"), None, 4),
    ("liveness-2conn", {"Conns": "{1, 2}", "Scns": sset(["twoget"]), "ReqRcs": sset("CN"), "MaxPart": 1}, "Terminates", 4),
]
NEG = {   # the small world in which the model without repair f violates a stated property
    "reallocptrs": {"Scns": sset(["bigbody"])},
    "realloctr": {"Scns": sset(["bigbody"]), "ShortReads": "TRUE"},
    "pipebody": {"Scns": sset(["pipeline"])},
    "pipeasync": {"Scns": sset(["twoget"]), "MaxPart": 1},
    "resumetr": {"Scns": sset(["pipeline"]), "ReqRcs": sset("CN"), "Init0": 6},
    "hdrgrow": {"Scns": sset(["bighdr"])},
    "halfclose": {"Scns": sset(["pipeline2"]), "ShortReads": "TRUE"},
    "eofbody": {"Scns": sset(["truncated"])},
    "errpage": {"Scns": sset(["errors"])},
    "sndagain": {"Scns": sset(["pipeline"]), "MaxAgain": 1},
    "shutdown": {"Scns": sset(["pipeline"]), "SrvOps": sset(["shutdown"])},
    "destroyall": {"Scns": sset(["pipeline"]), "SrvOps": sset(["destroy"]), "NBinds": 2, "Binds": "{1, 2}"},
    "destroylive": {"Scns": sset(["pipeline"]), "SrvOps": sset(["destroy"])},
}
MC_ACTIONS = ["ClientConnect", "ClientSend", "ClientShut", "ClientRst", "PollL", "PollR", "PollW", "PollT", "StepAccept", "StepConnCb", "StepRecv",
              "StepReqCb", "StepSendMsg", "StepSend", "StepSndCb", "UserResume", "UserResumeNext", "UserCliFree", "UserShutdown", "UserBindRemove", "UserDestroy"]

class _Rec:
    """stand-in for ctx inside the model-checking threads: records, replayed on the main thread after the join"""
    def __init__(self, ctx): self.ctx = ctx; self.calls = []; self.quick = ctx.quick; self.cov = {}
    def log(self, *a): self.ctx.log(*a)
    def tlc_stats(self, r, label): self.calls.append(("tlc_stats", (r, label)))
    def fail(self, *a): self.calls.append(("fail", a))
    def replay(self):
        for m, a in self.calls: getattr(self.ctx, m)(*a)
        self.ctx.cov.update(self.cov)

def model_checking(ctx, others_done):
    """the repaired model has every property.  At most 4 TLC workers run at any time: one here while the trace validation (2)
    and the negative variants (1) are busy, four once they are done."""
    todo = list(MC_QUICK) + ([] if ctx.quick else list(MC_THOROUGH))
    for label, over, props, _w in todo:
        cfg = mc_cfg("_x05_mc_%s.cfg" % label, over, props)
        workers = 4 if all(e.is_set() for e in others_done) else 1
        r = common.tlc("MC_HttpSrv", cfg=cfg, workers=workers, timeout=1500, xmx="8g", xss="128m")
        ctx.tlc_stats(r, "MC_HttpSrv/" + label)
        ctx.log("model %s: rc=%s distinct=%d depth=%d wall=%.0fs %s" % (label, r.rc, r.distinct, r.depth, r.wall, r.violation or ""))
        if r.rc != 0:
            ctx.fail("model:%s:%s" % (label, (r.violation or "error").replace(" ", "-")),
                     "the repaired model violates a stated property:\n" + r.out[-3500:], {"cfg": over})

def model_negatives(ctx):
    """every repair is needed (without it TLC finds a violated property); every action of the model is taken"""
    over = dict(WIDE, Scns=sset(["pipeline", "errors"]), SrvOps=sset(["rst", "cli_free", "shutdown", "destroy", "bind_remove"]), ConnCbOn="TRUE", ConnRcs=sset("CDN"),
                ShortReads="FALSE", MaxErr=0)
    r = common.tlc("MC_HttpSrv", cfg=mc_cfg("_x05_cov.cfg", over), workers=1, timeout=900, xmx="4g", xss="128m", coverage=True)
    ctx.tlc_stats(r, "MC_HttpSrv/every-action-taken")
    idle = [a for a in MC_ACTIONS if r.coverage.get(a, (0, 0))[1] == 0]
    if r.rc != 0 or idle:
        raise common.Infra("vacuity probe: rc=%s, actions of MC_HttpSrv never taken: %s" % (r.rc, idle))
    def neg(f):
        over = dict(NEG[f]); over["Fix"] = sset([x for x in ALLFIX if x != f])
        return f, common.tlc("MC_HttpSrv", cfg=mc_cfg("_x05_neg_%s.cfg" % f, over), workers=1, timeout=900, xmx="3g", xss="128m")
    with ThreadPoolExecutor(max_workers=1) as ex:
        for f, r in ex.map(neg, ALLFIX):
            ctx.tlc_stats(r, "MC_HttpSrv/without-" + f)
            viol = re.findall(r"viol \|-> (\{[^}]*\})", r.out)
            ctx.log("model without %-12s: %s %s (%d states)" % (f, r.violation, viol[-1] if viol else "", r.distinct))
            ctx.cov.setdefault("property_violated_without_repair", {})[f] = (viol[-1] if viol and viol[-1] != "{}" else r.violation)
            if r.rc != 12:
                ctx.fail("model:vacuous:" + f, "the model variant without repair '%s' violates no stated property: the deviation would "
                         "not be a defect under the properties (rc=%s)" % (f, r.rc), {"fix": f})

def decide_tree(ctx, wruns, by):
    """which repairs does the tree have?  -> (present set, absent {f: witness run}, problems [(run, why)])"""
    name2k = {r["name"]: k for k, r in enumerate(wruns, 1)}
    present, absent, problems = set(), {}, []
    for f in ALLFIX:
        votes = []
        for wn in WITNESS[f]:
            k = name2k[wn]; acc = [set(v["fx"]) for v in by[k] if v["verdict"] == "ACCEPT"]
            if not acc: problems.append((wruns[k - 1], by[k])); continue
            if all(f in a for a in acc): votes.append(("present", wruns[k - 1]))
            elif all(f not in a for a in acc): votes.append(("absent", wruns[k - 1]))
            else: votes.append(("unreached", wruns[k - 1]))
        kinds = set(v[0] for v in votes) - {"unreached"}
        if kinds == {"present"}: present.add(f)
        elif kinds == {"absent"}: absent[f] = [v[1] for v in votes if v[0] == "absent"][0]
        elif not kinds:
            if votes: raise common.Infra("witness scenarios of '%s' did not reach the deviation (%s)" % (f, [v[1]["name"] for v in votes]))
        else:
            ctx.fail("conformance:inconsistent:" + f, "repair %s is shown both present and absent by its witness scenarios" % f,
                     {"scenarios": [v[1]["name"] for v in votes]})
            present.add(f)
    return present, absent, problems

def reject_key(run, v):
    why = v["why"]
    last = run["evs"][-1]["e"] if run["evs"] else ""
    if "crash" in why and any(e["e"] == "crash" for e in run["evs"]): return "server:" + crash_key(run["out"])
    if last == "hang": return "server:hang"
    return "conformance:" + re.sub(r"[^a-z_0-9]+", "-", re.sub(r"[0-9]+", "N", why.split(";")[0].split(":")[0].lower())).strip("-")[:80]

def describe_reject(run, runs, k, v):
    evs = normalise(run["evs"])
    off = sum(len(normalise(r2["evs"])) for r2 in runs[:k - 1])
    loc = max(0, v["line"] - off - 1)
    return ("scenario %s: the real server's history is not explained by the model variant of this tree (repairs %s).\n"
            "line %d: %s\ncontext:\n%s\n--- scenario:\n%s--- driver output:\n%s"
            % (run["name"], v["fx"], loc + 1, v["why"], "\n".join(json.dumps(e) for e in evs[max(0, loc - 10):loc + 1]), run["text"], run["out"][-1500:]))

def run(ctx):
    ctx.level = "model_checking"
    ctx.cov["rule"] = ("exhaustive TLC exploration of the implementation-shaped model (all invariants + termination on the repaired variant, a "
                       "violated property for each unrepaired variant) and TLC trace validation of the real server + thread pool + I/O tasks "
                       "against the variant of the model that the tree is shown to implement")
    ctx.assumptions += [
        "one worker thread: all clients of the server live on one pool thread (the per-client code has no shared state except srv->stat)",
        "logical clock: I/O timeouts are armed by the real code on real timerfds but expire only when the scenario says so",
        "request parsing itself (request line, header security checks) is property C20; here requests come from a fixed alphabet of shapes",
        "sanitizer build (ASan/UBSan/LSan): realloc always moves the block, freed memory is poisoned",
    ]
    d = common.scratch("lcbv-x05-")
    common.tlc_workspace()            # (created once, before the threads below ask for it)
    exe = build(d)
    rng = random.Random(ctx.seed * 7919 + 5)
    nrand = 24 if ctx.quick else 600
    rand = [random_scenario(rng, i) for i in range(nrand)]
    wnames = set(n for ns in WITNESS.values() for n in ns)
    t0 = time.time()
    with ThreadPoolExecutor(max_workers=6) as ex:
        rec1, rec2 = _Rec(ctx), _Rec(ctx)
        neg_done, trace_done = threading.Event(), threading.Event()
        def _neg():
            try: model_negatives(rec2)
            finally: neg_done.set()
        fut_mc = ex.submit(model_checking, rec1, (neg_done, trace_done))
        fut_neg = ex.submit(_neg)
        runs = list(ex.map(lambda s: run_scenario(exe, d, s[0], s[1]), list(SCENARIOS) + rand))
        ctx.log("driver: %d scenarios executed in %.0fs" % (len(runs), time.time() - t0))
        wruns = [r for r in runs if r["name"] in wnames]
        others = [r for r in runs if r["name"] not in wnames]
        # 1. which repairs does this tree have: the witnesses against the family of variants
        by, r1 = tlc_validate(wruns, d, "witness", family(), workers=2)
        ctx.tlc_stats(r1, "Trace_HttpSrv/witnesses-against-%d-variants" % len(family()))
        present, absent, problems = decide_tree(ctx, wruns, by)
        if problems:   # repeat before reporting any rejection
            again = list(ex.map(lambda r: run_scenario(exe, d, r["name"], r["text"], ".2"), [r for r, _ in problems]))
            by2, r1b = tlc_validate(again, d, "witness2", family(), workers=2)
            ctx.tlc_stats(r1b, "Trace_HttpSrv/witnesses-repeated")
            for k, rn in enumerate(again, 1):
                if not [v for v in by2[k] if v["verdict"] == "ACCEPT"]:
                    v = [x for x in by2[k] if not x["fx"]][0]
                    ctx.fail(reject_key(rn, v), "no variant of the model explains this witness scenario (twice).\n" + describe_reject(rn, again, k, v),
                             {"scenario": rn["name"], "text": rn["text"]})
                else:
                    ctx.notes.append("%s: rejected once, accepted when repeated" % rn["name"])
                    wruns[[w["name"] for w in wruns].index(rn["name"])] = rn
            by, _ = tlc_validate(wruns, d, "witness3", family(), workers=2)
            present, absent, _p = decide_tree(ctx, wruns, by)
        tree = [f for f in ALLFIX if f in present]
        ctx.cov["repairs_present_in_tree"] = tree; ctx.cov["repairs_absent_in_tree"] = sorted(absent)
        ctx.log("the tree implements the variant with repairs %s; absent: %s" % (tree, sorted(absent)))
        # 2. everything (witnesses included) against exactly that variant
        allruns = wruns + others
        by3, r3 = tlc_validate(allruns, d, "all", [tree], workers=2)
        ctx.tlc_stats(r3, "Trace_HttpSrv/all-scenarios-against-the-tree-variant")
        bad = [(k, rn) for k, rn in enumerate(allruns, 1) if by3[k][0]["verdict"] != "ACCEPT"]
        if bad:   # repeat before reporting any rejection
            # scenarios that ended in the driver's watchdog (event "hang") all carry the same key: four of them are repeated, the
            # others would only cost the watchdog period again - the check ends with its verdict in bounded time
            hung = [x for x in bad if any(e.get("e") == "hang" for e in x[1]["evs"])]
            if len(hung) > 4:
                drop = set(id(x[1]) for x in hung[4:]); bad = [x for x in bad if id(x[1]) not in drop]
                ctx.add(hung_scenarios_not_repeated=len(drop))
            again = list(ex.map(lambda rn: run_scenario(exe, d, rn["name"], rn["text"], ".2"), [rn for _, rn in bad]))
            by4, r4 = tlc_validate(again, d, "again", [tree], workers=2)
            ctx.tlc_stats(r4, "Trace_HttpSrv/rejected-scenarios-repeated")
            seen = {}
            for k, rn in enumerate(again, 1):
                v = by4[k][0]
                if v["verdict"] == "ACCEPT":
                    ctx.notes.append("%s: rejected once, accepted when repeated" % rn["name"]); continue
                key = reject_key(rn, v)
                if key in seen: seen[key]["more"].append(rn["name"]); continue
                seen[key] = {"detail": describe_reject(rn, again, k, v), "replay": {"scenario": rn["name"], "text": rn["text"]}, "more": []}
            for key, rj in sorted(seen.items()):
                ctx.fail(key, rj["detail"] + ("\n(also: %s)" % ", ".join(rj["more"][:20]) if rj["more"] else ""), rj["replay"])
        okruns = [rn for k, rn in enumerate(allruns, 1) if by3[k][0]["verdict"] == "ACCEPT"]
        for rn in okruns:
            miss = [e for e in rn["evs"] if e["e"] == "script.miss"]
            ctx.add(traces_validated_against_impl=1, trace_events_validated=len(rn["evs"]), scenario_waits_missed=len(miss))
        # a fully repaired tree must not violate a property on any validated history
        if not absent:
            for k, rn in enumerate(allruns, 1):
                v = by3[k][0]
                if v["verdict"] == "ACCEPT" and v["viol"]:
                    ctx.fail("property:" + sorted(v["viol"])[0], "scenario %s: the validated history violates %s in the repaired model" % (rn["name"], v["viol"]),
                             {"scenario": rn["name"], "text": rn["text"]})
        # 3. findings: the repairs the tree does not have
        for f, rn in sorted(absent.items()):
            tail = [json.dumps(e) for e in rn["evs"][-14:]]
            ctx.fail(KEYS[f], "%s.\nWitness scenario %s: only variants of the model WITHOUT the repair '%s' explain the recorded history "
                     "(TLC, Trace_HttpSrv); the repaired model rejects it.\n%s\n%s"
                     % (WHAT[f], rn["name"], f, "\n".join(tail), rn["out"][-1200:] if rn["rc"] not in (0,) else ""),
                     {"scenario": rn["name"], "text": rn["text"], "repair": f})
        trace_done.set()
        fut_mc.result(); fut_neg.result()
        rec1.replay(); rec2.replay()
    kinds = collections.Counter(e["e"] for r in runs for e in r["evs"])
    ctx.cov["trace_event_kinds"] = dict(kinds)
    for need in ("ev", "ev.l", "acc", "conn", "rx", "tx", "req", "snt", "dst", "cls", "cls.l", "api", "api.ret", "state", "stat", "c.eos", "fin"):
        if kinds.get(need, 0) == 0: raise common.Infra("no '%s' event in any trace: the binding is vacuous" % need)
    ctx.cov["scenarios"] = len(runs)
    ctx.cov["scenarios_accepted"] = len(okruns)
    ctx.add(evaluations=len(runs), distinct_nontrivial=len(runs), samples=[r["name"] for r in runs[:12]])
