"""X02 (growth) - the RADIUS client src/proto/radius_client.c on top of the thread pool: query life cycle.

Oracle: specs/grow/RadiusClient.tla - a state machine shaped like the implementation (one handler per entry point of
the client on the pool thread: query message, timer expiry, datagram arrival, destroy message; one per API call), each
handler a pure function state -> (state, sequence of externally visible effects).  The properties are stated at the top
of that module (CompleteOnce, TxBound, IdExclusive, MatchSound, Delivered, Failover, Resources, Armed/Termination,
NasIdentifier, MemorySafe).
  (a) MC_X02: TLC explores every interleaving of the handlers with API calls and a hostile network/environment for small
      plans (1-2 servers, 2-3 queries, <= 3 transmissions, identifier space 2); the repaired design (Dev = {}) must
      satisfy every invariant and Termination; each named deviation of the unchanged code alone must break the invariant
      it is filed under (sensitivity of the model).
  (b) X02Trace: harness/x02_drv.c builds the REAL client + thread pool + I/O task + socket code (unity build) against
      scripted fake servers on UDP loopback in the same process; link-time wrappers (sendto, recvfrom, socket, close,
      timerfd_*, clock_gettime, calloc/free), the pool's guarded hooks and the user callback write an ndjson log; TLC
      accepts the log only if every line is the next step / next owed effect of the specification.  Where the unchanged
      code deviates the validator follows the named deviation and reports its name: a KNOWN-FINDING when registered,
      otherwise a VIOLATION.  Anything else the specification does not allow is a VIOLATION.
Python renders scenarios, runs the driver, filters lines, and reads TLC's verdict; it computes no expectation."""
import json, os, random, re
from rig import common

SPEC_DIR = os.path.join(common.VERIF, "specs", "grow")
DRV = os.path.join(common.VERIF, "harness", "x02_drv.c")
WRAPS = "sendto,recvfrom,socket,close,timerfd_create,timerfd_settime,clock_gettime,calloc,free,setsockopt"
DROP = {"srv.idle", "skip.cancel", "donemsg", "BadOp"}      # lines that carry no observation of the client
ASAN_ENV = {"ASAN_OPTIONS": "detect_leaks=0:abort_on_error=0:detect_stack_use_after_return=1",
            "UBSAN_OPTIONS": "print_stacktrace=1:halt_on_error=1"}

# repaired-design configurations: (cfg, workers) ; all invariants of the cfg must hold
MC_QUICK = ["MC_X02_one.cfg", "MC_X02_two.cfg", "MC_X02_mixed.cfg", "MC_X02_three.cfg", "MC_X02_mrd.cfg", "MC_X02_fixed_q.cfg", "MC_X02_thr2.cfg"]
MC_THOROUGH = ["MC_X02_one_t.cfg", "MC_X02_two_t.cfg", "MC_X02_mixed_t.cfg", "MC_X02_three_t.cfg", "MC_X02_mrd.cfg", "MC_X02_fixed.cfg", "MC_X02_thr2.cfg"]
MC_LIVE = ["MC_X02_live.cfg", "MC_X02_live_two.cfg"]
# sensitivity: deviation -> (cfg, what TLC must report)
MC_DEV = {
    "reply-not-delivered-to-callback": ("MC_X02_dev_reply.cfg", "IDelivered"),
    "nas-identifier-not-added": ("MC_X02_dev_nas.cfg", "INas"),
    "no-failover-after-timeout": ("MC_X02_dev_nofotime.cfg", "IFailover"),
    "no-failover-when-first-send-fails": ("MC_X02_dev_nofostart.cfg", "IFailover"),
    "failover-resign-fails-eexist": ("MC_X02_dev_resign.cfg", "IFailover"),
    "cancel-leaves-query-retransmitting": ("MC_X02_dev_cancel.cfg", "INoTxAfterDone"),
    "request-code-datagram-accepted-without-authenticator": ("MC_X02_dev_reqcode.cfg", "IMatch"),
    "zero-retransmission-time-disarms-timer": ("MC_X02_dev_zerort.cfg", "IArmed"),
    "socket-create-failure-null-deref": ("MC_X02_dev_socknull.cfg", "IMemSafe"),
    "socket-freed-inside-its-receive-callback": ("MC_X02_dev_selffree.cfg", "IMemSafe"),
    "destroy-frees-every-other-socket": ("MC_X02_dev_destroyhalf.cfg", "IDestroyed"),
    "destroy-leaves-timers-of-pending-queries": ("MC_X02_dev_destroytmr.cfg", "IDestroyed"),
    "socket-buffer-kilobytes-passed-as-bytes": ("MC_X02_dev_bufunits.cfg", "IBufUnits"),
}
DEV_WHERE = {
    "reply-not-delivered-to-callback": "radius_client_query_done() (src/proto/radius_client.c:691-695) calls the user callback with query->pkt/query->buf = the REQUEST; the reply is copied only on the never-taken cross-thread path",
    "nas-identifier-not-added": "radius_client_query() (radius_client.c:729) tests ((rad_pkt_hdr_p)buf)->code - the first octet of the io_buf_t struct, not of the packet",
    "no-failover-after-timeout": "radius_client_query_timeout_cb() (radius_client.c:959-988): the exhausted cases jump to err_out behind the 'try next server' loop",
    "no-failover-when-first-send-fails": "radius_client_query_tpt_msg_cb() (radius_client.c:768-771) completes the query on the first send error without trying the next server",
    "failover-resign-fails-eexist": "radius_client_send_new() re-signs with radius_pkt_sign(add_msg_authr = 1), which returns EEXIST for the Message-Authenticator it added itself (radius.h:1513-1516)",
    "cancel-leaves-query-retransmitting": "radius_client_query_cancel() (radius_client.c:775-782) only clears cb_func: the query keeps its slot, timer and the caller's buffer and keeps transmitting",
    "request-code-datagram-accepted-without-authenticator": "radius_client_recv_cb() accepts a datagram of code Access-Request/Status-Client as reply: radius_pkt_authenticator_chk() skips the check for request codes (radius.h:1392-1397)",
    "zero-retransmission-time-disarms-timer": "radius_client_rnd_factor() (radius_client.c:316-335) returns +-data for divisor 1: retrans_time = IRT - IRT = 0 programs a disarmed timerfd",
    "socket-create-failure-null-deref": "radius_client_socket_alloc() error path calls radius_client_socket_free() before skt->thr is set (radius_client.c:536-580)",
    "socket-freed-inside-its-receive-callback": "radius_client_recv_cb() -> query_done -> unlink_skt -> radius_client_socket_free(skt) frees the socket and its receive task, then recv_cb / tp_task_pkt_rcvr_handler keep using them (radius_client.c:1029-1034)",
    "destroy-frees-every-other-socket": "radius_client_destroy_tpt_msg_cb() (radius_client.c:442-444) iterates i < skt_count while radius_client_socket_free() decrements skt_count",
    "socket-buffer-kilobytes-passed-as-bytes": "radius_client_socket_alloc() (radius_client.c:541-544) passes skt_snd_buf / skt_rcv_buf, documented and defaulted in kilobytes (256 / 128), to SO_SNDBUF / SO_RCVBUF as bytes: the kernel clamps to its minimum and drops back-to-back replies",
    "destroy-leaves-timers-of-pending-queries": "radius_client_socket_free() (radius_client.c:602-609) completes pending queries without deleting their timers (timerfd leaked, epoll data points into freed memory)",
}

def key_of(dev):
    return "deviation:" + dev

# ------------------------------------------------------------------ scenarios
class Sc:
    """one scenario = one driver process; lines are driver commands"""
    def __init__(self, family, nthr=1, smin=1, smax=2, nas=1, crashy=False):
        self.family = family; self.crashy = crashy
        self.lines = ["pool %d" % nthr, "client %d %d %d" % (smin, smax, nas)]
        self.nsrv = 0; self.q = 0; self.rx = {}; self.rnd = {}
    def server(self, fam, irt, mult, mrd, mrc, sec=None, mrt=None):
        self.nsrv += 1; k = self.nsrv
        mrt = mrt if mrt is not None else irt * mult
        self.lines.append("server %d %d %d %d %d %d %d" % (k, fam, irt, mrt, mrd, mrc, sec if sec else k))
        v = irt
        while v <= mrt:
            self.rnd.setdefault(v, "zero"); v *= 2
        self.rnd.setdefault(mrt, "zero")
        self.rx[k] = 0
        return k
    def jitter(self, over=None):
        m = dict(self.rnd)
        if over: m.update(over)
        self.lines.append("rnd " + " ".join("%d:%s" % (d, c) for d, c in sorted(m.items())))
    def query(self, thr=0, ident="auto", nonce=None, pwd=0, chain=None, how="query"):
        self.q += 1; q = self.q
        args = "%d %s %d 1 %d" % (thr, ident, nonce if nonce is not None else q, pwd)
        if how == "query": ln = "query %d %s" % (q, args)
        else: ln = "%s %d %d %s" % (how, thr, q, args)       # tquery / tqc
        if chain:
            self.q += 1
            ln += " chain=%d:%d %s %d 1 0" % (self.q, thr, chain, self.q)
        self.lines.append(ln)
        return q
    def srvrx(self, k, ms=3000):
        self.lines.append("srvrx %d %d" % (k, ms)); n = self.rx[k]; self.rx[k] += 1; return n
    def reply(self, k, n, kind="good", times=1):
        self.lines.append("reply %d %d %s %d" % (k, n, kind, times))
    def add(self, *ls): self.lines.extend(ls)
    def end(self, destroy=True):
        if destroy: self.lines += ["settle", "destroy"]
        self.lines.append("poolstop")
    def text(self): return "\n".join(self.lines) + "\n"

BAD_KINDS = ["badauth", "wrongsecret", "wrongid", "wrongsrc", "malformed", "short", "reqcode", "stcode"]

def sc_basic(rng):
    sc = Sc("basic", nas=rng.choice([0, 1, 1]))
    irt = rng.randint(10, 29); mrc = rng.randint(1, 3)
    k = sc.server(4, irt, rng.choice([1, 2, 4]), 0, mrc)
    sc.jitter()
    for _ in range(rng.randint(2, 4)):
        fate = rng.choice(["good", "drop", "bad-then-good", "dup", "late", "reject"])
        q = sc.query(ident=rng.choice(["auto", "auto", str(rng.randint(0, 255))]), pwd=rng.randint(0, 1))
        if fate == "drop":
            for _ in range(mrc): sc.srvrx(k)
            sc.srvrx(k, 150)
            sc.add("waitcb %d 10000" % q)
        elif fate == "late":
            ns = [sc.srvrx(k) for _ in range(mrc)]
            sc.add("waitcb %d 10000" % q)
            sc.reply(k, rng.choice(ns), "good")
            sc.add("sleep 30")
        else:
            j = rng.randint(1, mrc); n = 0
            for _ in range(j): n = sc.srvrx(k)
            if fate == "bad-then-good":
                for kind in rng.sample(BAD_KINDS, rng.randint(1, 4)): sc.reply(k, n, kind)
            sc.reply(k, n, "reject" if fate == "reject" else "good", 2 if fate == "dup" else 1)
            sc.add("waitcb %d 10000" % q)
        sc.add("settle")
    sc.end()
    return sc

def sc_concurrent(rng):
    """several queries in flight on one socket; answers in random order, some never"""
    sc = Sc("concurrent", smax=2)
    irt = rng.randint(12, 29); mrc = rng.randint(2, 3)
    k = sc.server(4, irt, 2, 0, mrc)
    sc.jitter()
    nq = rng.randint(3, 6); qs = []
    for _ in range(nq): qs.append(sc.query(ident="auto"))
    ns = [sc.srvrx(k) for _ in qs]
    order = list(range(nq)); rng.shuffle(order)
    for i in order:
        c = rng.random()
        if c < 0.6: sc.reply(k, ns[i], "good")
        elif c < 0.8: sc.reply(k, ns[i], rng.choice(BAD_KINDS))
    for q in qs: sc.add("waitcb %d 10000" % q)
    sc.add("settle")
    sc.end()
    return sc

def sc_failover(rng, mixed=False):
    sc = Sc("failover-mixed" if mixed else "failover", nthr=1, smax=2)
    irt = rng.randint(10, 25)
    k1 = sc.server(4, irt, 2, 0, rng.randint(1, 2))
    k2 = sc.server(6 if mixed else 4, rng.randint(10, 25), 2, 0, rng.randint(1, 2))
    if rng.random() < 0.4: sc.server(4, rng.randint(10, 25), 1, 0, 1)
    sc.jitter()
    for _ in range(rng.randint(1, 3)):
        fate = rng.choice(["s1-timeout", "s1-unreach-start", "s1-unreach-mid", "s1-good", "all-unreach"])
        if fate in ("s1-unreach-start", "all-unreach"): sc.add("unreach 1 113")
        if fate == "all-unreach":
            for k in range(2, sc.nsrv + 1): sc.add("unreach %d 101" % k)
        q = sc.query(pwd=rng.randint(0, 1))
        if fate == "s1-good":
            n = sc.srvrx(k1); sc.reply(k1, n, "good")
        elif fate == "s1-unreach-mid":
            sc.srvrx(k1); sc.add("unreach 1 113")
        elif fate == "s1-timeout":
            sc.srvrx(k1); sc.srvrx(k1, 400)
        if fate != "s1-good" and fate != "all-unreach":
            # what the next server gets (if the client fails over): answer it or not
            n = sc.srvrx(k2, 600)
            if rng.random() < 0.5: sc.reply(k2, n, "good")
            else:
                sc.srvrx(k2, 400)
                if sc.nsrv == 3: sc.srvrx(3, 400)
        sc.add("waitcb %d 10000" % q, "settle")
        for k in range(1, sc.nsrv + 1): sc.add("unreach %d 0" % k)
    sc.end()
    return sc

def sc_twosock(rng):
    """fixed identifiers collide: a second (third) socket; the extra socket is released when it empties"""
    smax = rng.choice([2, 3])
    sc = Sc("twosock", smax=smax, crashy=True)
    irt = rng.randint(12, 29)
    k = sc.server(4, irt, 2, 0, 3)
    sc.jitter()
    ident = str(rng.randint(0, 255))
    nq = rng.randint(2, smax + 1)
    qs = [sc.query(ident=ident) for _ in range(nq)]
    ns = [sc.srvrx(k, 3000 if i < smax else 300) for i in range(nq)]
    order = list(range(min(nq, smax))); rng.shuffle(order)
    for i in order:
        sc.reply(k, ns[i], "good")
        sc.add("waitcb %d 10000" % qs[i])
    sc.add("settle")
    q = sc.query(ident=ident); n = sc.srvrx(k); sc.reply(k, n, "good"); sc.add("waitcb %d 10000" % q, "settle")
    sc.end()
    return sc

def sc_cancel(rng):
    sc = Sc("cancel")
    irt = rng.randint(12, 29); mrc = rng.randint(2, 3)
    k = sc.server(4, irt, 2, 0, mrc)
    sc.jitter()
    for _ in range(rng.randint(2, 3)):
        mode = rng.choice(["before-start", "active-then-silence", "active-then-reply", "after-retransmit"])
        if mode == "before-start":
            sc.query(how="tqc")
            sc.srvrx(k, 300)
        else:
            q = sc.query()
            n = sc.srvrx(k)
            if mode == "after-retransmit": n = sc.srvrx(k)
            sc.add("cancel %d" % q)
            if mode == "active-then-reply": sc.reply(k, n, "good"); sc.add("sleep 20")
            else: sc.srvrx(k, 300)
        sc.add("settle")
    sc.add("sleep %d" % (irt * 8), "settle")
    sc.end()
    return sc

def sc_destroy(rng):
    nsock = rng.choice([1, 2, 3])
    sc = Sc("destroy", smax=3)
    irt = rng.randint(15, 29)
    k = sc.server(4, irt, 2, 0, 3)
    sc.jitter()
    ident = str(rng.randint(0, 255))
    for _ in range(nsock): sc.query(ident=ident); sc.srvrx(k)
    for _ in range(rng.randint(0, 2)): sc.query(ident="auto"); sc.srvrx(k)
    if rng.random() < 0.3:
        q = sc.query(ident="auto"); sc.srvrx(k); sc.add("cancel %d" % q)
    sc.lines.append("destroy")
    sc.end(destroy=False)
    return sc

def sc_sockfail(rng):
    sc = Sc("sockfail", crashy=True)
    irt = rng.randint(12, 29)
    k = sc.server(4, irt, 2, 0, 2)
    if rng.random() < 0.5: sc.server(4, irt, 2, 0, 2)
    sc.jitter()
    if rng.random() < 0.5:
        q = sc.query(ident="7"); sc.srvrx(k)     # first socket exists, the second one fails
        sc.add("sockfail 24"); q2 = sc.query(ident="7"); sc.add("waitcb %d 10000" % q2)
    else:
        sc.add("sockfail 24"); q = sc.query(); sc.add("waitcb %d 10000" % q)
    sc.add("sockfail 0", "settle")
    q = sc.query(); n = sc.srvrx(k); sc.reply(k, n, "good"); sc.add("waitcb %d 10000" % q, "settle")
    sc.end()
    return sc

def sc_jitter(rng):
    cls = rng.choice(["neg1", "pos1", "neg1-cap"])
    sc = Sc("jitter-" + cls)
    irt = rng.randint(10, 40)
    if cls == "neg1-cap":          # IRT + IRT exceeds MRT already at the first transmission
        irt = 2 * rng.randint(6, 20)
        k = sc.server(4, irt, 1, 0, 3, mrt=irt * 3 // 2)
        sc.jitter({irt: "neg1"})
    else:
        k = sc.server(4, irt, 2, 0, 3)
        sc.jitter({irt: cls})
    q = sc.query()
    if cls != "pos1":
        for _ in range(3): sc.srvrx(k)
        sc.add("waitcb %d 10000" % q, "settle")
    else:
        sc.srvrx(k); sc.srvrx(k, 300)
        sc.add("waitcb %d %d" % (q, 600 + irt * 20))
    sc.end()
    return sc

def sc_mrd(rng):
    sc = Sc("mrd")
    irt = rng.randint(8, 15); mult = rng.choice([2, 4])
    mrd = rng.choice([rng.randint(irt * 2, irt * 9), 4 * irt, 8 * irt if mult == 4 else 4 * irt])   # incl. remainders that equal IRT exactly
    k = sc.server(4, irt, mult, mrd, rng.choice([0, 0, 5]))
    sc.jitter()
    q = sc.query()
    for _ in range(7): sc.srvrx(k, 400)
    sc.add("waitcb %d 10000" % q, "settle")
    sc.end()
    return sc

def sc_threads(rng):
    nthr = rng.choice([2, 3])
    sc = Sc("threads", nthr=nthr)
    irt = rng.randint(12, 29)
    k = sc.server(4, irt, 2, 0, 2)
    sc.jitter()
    qs = []
    for t in range(nthr):
        how = rng.choice(["query", "tquery"])
        q = sc.query(thr=t, how=how, chain="auto" if rng.random() < 0.4 else None)
        n = sc.srvrx(k)
        if rng.random() < 0.7:
            sc.reply(k, n, "good"); sc.add("waitcb %d 10000" % q)
            if sc.q != q:      # chained query
                n2 = sc.srvrx(k); sc.reply(k, n2, "good"); sc.add("waitcb %d 10000" % sc.q)
        else:
            sc.srvrx(k); sc.add("waitcb %d 10000" % q)
            if sc.q != q: sc.srvrx(k); sc.srvrx(k); sc.add("waitcb %d 10000" % sc.q)
    sc.add("settle")
    sc.end()
    return sc

def sc_idwrap(rng):
    """more than 256 automatic identifiers in flight: the identifier space of the first socket fills up"""
    sc = Sc("idwrap", smax=2)
    k = sc.server(4, 120, 1, 0, 3)       # long timer, three transmissions: (nearly) all stay in flight while we fill
    sc.jitter()
    n = 256 + rng.randint(1, 6)
    qs = [sc.query() for _ in range(n)]
    ns = [sc.srvrx(k, 500) for _ in range(n)]
    pick = rng.sample(range(n), 12) + [255, 256, n - 1]
    for i in pick: sc.reply(k, ns[i], "good")
    for q in qs: sc.add("waitcb %d 15000" % q)
    sc.add("settle")
    q = sc.query(); nn = sc.srvrx(k); sc.reply(k, nn, "good"); sc.add("waitcb %d 10000" % q, "settle")
    sc.end()
    return sc

def witnesses():
    """directed scenarios: one per named deviation point of the specification (always run, fixed parameters)"""
    W = []
    def lit(family, lines, crashy=False, jit=None):
        sc = Sc(family, crashy=crashy); sc.lines = list(lines); return sc
    base = ["pool 1", "client 1 2 1", "server 1 4 20 80 0 3 1", "rnd 20:zero 40:zero 80:zero"]
    W.append(lit("w-reply+timeout", base + [
        "query 1 0 auto 1 1 0", "srvrx 1 3000", "reply 1 0 good", "waitcb 1 10000", "settle",
        "query 2 0 auto 2 1 1", "srvrx 1 3000", "srvrx 1 3000", "srvrx 1 3000", "srvrx 1 300", "waitcb 2 10000", "settle",
        "destroy", "poolstop"]))
    W.append(lit("w-forgeries", base + [
        "query 1 0 auto 1 1 0", "srvrx 1 3000", "reply 1 0 badauth", "reply 1 0 wrongsecret", "reply 1 0 wrongid", "reply 1 0 wrongsrc",
        "reply 1 0 malformed", "reply 1 0 short", "reply 1 0 good 2", "waitcb 1 10000", "settle",
        "query 2 0 7 2 1 0", "srvrx 1 3000", "reply 1 1 reqcode", "reply 1 1 good", "waitcb 2 10000", "settle",
        "query 3 0 7 3 1 0", "srvrx 1 3000", "reply 1 1 good", "reply 1 2 stcode", "reply 1 2 reject", "waitcb 3 10000", "settle",
        "destroy", "poolstop"]))
    fo = ["pool 1", "client 1 2 1", "server 1 4 20 40 0 2 1", "server 2 4 30 60 0 2 2", "rnd 20:zero 40:zero 30:zero 60:zero"]
    W.append(lit("w-failover", fo + [
        "query 1 0 auto 1 1 1", "srvrx 1 3000", "srvrx 1 3000", "srvrx 2 800", "reply 2 0 good", "waitcb 1 10000", "settle",
        "unreach 1 113", "query 2 0 auto 2 1 1", "srvrx 2 800", "reply 2 1 good", "waitcb 2 10000", "settle", "unreach 1 0",
        "query 3 0 auto 3 1 1", "srvrx 1 3000", "unreach 1 113", "srvrx 2 800", "srvrx 2 800", "waitcb 3 10000", "settle",
        "destroy", "poolstop"]))
    W.append(lit("w-failover-mixed", ["pool 1", "client 1 2 1", "server 1 4 20 40 0 2 1", "server 2 6 20 40 0 2 2", "rnd 20:zero 40:zero",
        "query 1 0 auto 1 1 1", "srvrx 1 3000", "unreach 1 101", "srvrx 2 800", "reply 2 0 good", "waitcb 1 10000", "settle",
        "destroy", "poolstop"]))
    W.append(lit("w-twosock", base + [
        "query 1 0 5 1 1 0", "srvrx 1 3000", "query 2 0 5 2 1 0", "srvrx 1 3000", "reply 1 1 good", "waitcb 2 10000",
        "reply 1 0 good", "waitcb 1 10000", "settle", "destroy", "poolstop"], crashy=True))
    W.append(lit("w-cancel", ["pool 1", "client 1 2 1", "server 1 4 20 40 0 3 1", "rnd 20:zero 40:zero",
        "query 1 0 auto 1 1 0", "srvrx 1 3000", "cancel 1", "srvrx 1 400", "srvrx 1 400", "settle", "sleep 150", "settle",
        "tqc 0 2 0 auto 2 1 0", "srvrx 1 300", "settle", "sleep 150", "settle",
        "query 3 0 auto 3 1 0", "srvrx 1 3000", "cancel 3", "reply 1 3 good", "sleep 50", "settle", "sleep 150", "settle",
        "destroy", "poolstop"]))
    W.append(lit("w-destroy", ["pool 1", "client 1 3 1", "server 1 4 20 40 0 3 1", "rnd 20:zero 40:zero",
        "query 1 0 9 1 1 0", "srvrx 1 3000", "query 2 0 9 2 1 0", "srvrx 1 3000", "query 3 0 9 3 1 0", "srvrx 1 3000",
        "query 4 0 auto 4 1 0", "srvrx 1 3000", "destroy", "poolstop"]))
    W.append(lit("w-sockfail", ["pool 1", "client 1 2 1", "server 1 4 20 40 0 3 1", "rnd 20:zero 40:zero",
        "sockfail 24", "query 1 0 auto 1 1 0", "waitcb 1 10000", "settle", "destroy", "poolstop"], crashy=True))
    W.append(lit("w-jitter-neg1", ["pool 1", "client 1 2 1", "server 1 4 24 48 0 3 1", "rnd 24:neg1 48:zero",
        "query 1 0 auto 1 1 0", "srvrx 1 3000", "srvrx 1 3000", "srvrx 1 3000", "waitcb 1 10000", "settle", "destroy", "poolstop"]))
    W.append(lit("w-jitter-pos1", ["pool 1", "client 1 2 1", "server 1 4 24 48 0 3 1", "rnd 24:pos1 48:zero",
        "query 1 0 auto 1 1 0", "srvrx 1 3000", "srvrx 1 400", "waitcb 1 1200", "settle", "destroy", "poolstop"]))
    W.append(lit("w-mrd-boundary", ["pool 1", "client 1 1 1", "server 1 4 10 40 40 0 1", "rnd 10:zero 20:zero 40:zero",
        "query 1 0 auto 1 1 0", "srvrx 1 3000", "srvrx 1 3000", "srvrx 1 3000", "srvrx 1 400", "waitcb 1 10000", "settle", "destroy", "poolstop"]))
    W.append(lit("w-jitter-neg1-cap", ["pool 1", "client 1 2 1", "server 1 4 20 30 0 3 1", "rnd 20:neg1 30:zero",
        "query 1 0 auto 1 1 0", "srvrx 1 3000", "srvrx 1 3000", "srvrx 1 3000", "waitcb 1 10000", "settle", "destroy", "poolstop"]))
    W.append(lit("w-mrd", ["pool 2", "client 1 1 0", "server 1 4 10 40 65 0 1", "rnd 10:zero 20:zero 40:zero",
        "query 1 1 auto 1 1 0", "srvrx 1 3000", "srvrx 1 3000", "srvrx 1 3000", "srvrx 1 3000", "srvrx 1 400", "waitcb 1 10000", "settle",
        "query 2 0 auto 2 1 0 chain=3:0 auto 3 1 0", "srvrx 1 3000", "reply 1 4 good", "waitcb 2 10000", "srvrx 1 3000", "reply 1 5 good",
        "waitcb 3 10000", "settle", "destroy", "poolstop"]))
    return W

FAMILIES_QUICK = [(sc_basic, 4), (sc_concurrent, 3), (sc_failover, 3), (lambda r: sc_failover(r, True), 2), (sc_twosock, 2),
                  (sc_cancel, 2), (sc_destroy, 3), (sc_sockfail, 1), (sc_jitter, 2), (sc_mrd, 2), (sc_threads, 2)]
FAMILIES_THOROUGH = [(sc_basic, 40), (sc_concurrent, 25), (sc_failover, 30), (lambda r: sc_failover(r, True), 25), (sc_twosock, 20),
                     (sc_cancel, 20), (sc_destroy, 25), (sc_sockfail, 10), (sc_jitter, 12), (sc_mrd, 20), (sc_threads, 15),
                     (sc_idwrap, 2)]

# ------------------------------------------------------------------ rig
class Rig:
    def __init__(self, ctx):
        self.ctx = ctx
        self.dir = common.scratch("lcbv-x02-")
        self.n = 0
    def build(self, san="asan", compiler=None, opt="-O1"):
        compiler = compiler or ("clang" if san else "gcc")
        out = os.path.join(self.dir, "x02_drv_%s_%s%s" % (compiler, opt.strip("-"), "_" + san if san else ""))
        return common.cc([DRV], out, compiler=compiler, opt=opt, san=san,
                         flags=["-Wl," + ",".join("--wrap=" + w for w in WRAPS.split(","))])
    def drive(self, exe, text, timeout=150):
        self.n += 1
        scf = os.path.join(self.dir, "sc_%d.txt" % self.n); trf = os.path.join(self.dir, "tr_%d.ndjson" % self.n)
        open(scf, "w").write(text)
        # wall clock part of the driver's scenario watchdog: a quick-tier scenario ends within 4 s (its timers are real time)
        rc, out = common.sh([exe, scf, trf], timeout=timeout, env=dict(ASAN_ENV, X02_WD_WALL="40" if self.ctx.quick else "120"))
        evs = []
        if os.path.exists(trf):
            for ln in open(trf):
                try: evs.append(json.loads(ln))
                except Exception: pass
        if rc == 124: raise common.Infra("driver timeout:\n" + text[-600:] + out[-1500:])
        return rc, out, [e for e in evs if e["e"] not in DROP]
    def feasible(self, exe, sc):
        """the jitter classes a scenario asks for must be realisable by some clock value (driver search)"""
        rl = [l for l in sc.lines if l.startswith("rnd ")]
        rc, out, evs = self.drive(exe, "\n".join(rl) + "\n")
        return all(e.get("found") == 1 for e in evs if e["e"] == "rnd") and len(evs) == len(rl)
    def validate(self, evs, timeout=900):
        tr = os.path.join(self.dir, "v_%d.ndjson" % self.n); self.n += 1
        open(tr, "w").write("".join(json.dumps(e) + "\n" for e in evs))
        r = common.tlc("X02Trace", cfg="X02Trace.cfg", workers=1, env={"TRACE": tr}, timeout=timeout, xmx="4g", xss="256m",
                       extra=["-noGenerateSpecTE"])
        acc = re.findall(r'<<\s*"TRACE-ACCEPTED",\s*(\d+),\s*(\{[^}]*\})\s*>>', r.out, re.S)
        mx = re.findall(r'<<"MAXLINE", (\d+)>>', r.out)
        if r.rc != 0 and not mx:
            raise common.Infra("TLC failed on a trace:\n" + r.out[-3000:])
        if acc:
            sets = [set(re.findall(r'"([^"]+)"', a[1])) for a in acc]
            return True, min(sets, key=len), r, len(evs)
        return False, set(), r, int(mx[-1]) if mx else 0

def run_model(ctx):
    quick = ctx.quick
    for cfg in (MC_QUICK if quick else MC_THOROUGH):
        r = common.tlc("MC_X02", cfg=cfg, workers=4, timeout=1500, extra=["-noGenerateSpecTE"])
        ctx.tlc_stats(r, cfg)
        ctx.log("model %s: %d distinct states, depth %d, %.0fs, %s" % (cfg, r.distinct, r.depth, r.wall, "ok" if r.rc == 0 else r.violation))
        if r.rc != 0:
            ctx.fail("model:%s:%s" % (cfg, (r.violation or "error").replace(" ", "-")),
                     "the repaired design violates a property of RadiusClient in %s:\n%s" % (cfg, r.out[-3500:]), {"cfg": cfg})
    for cfg in MC_LIVE[:1 if quick else 2]:
        r = common.tlc("MC_X02", cfg=cfg, workers=4, timeout=1500, extra=["-noGenerateSpecTE"])
        ctx.tlc_stats(r, cfg + " (Termination under fairness)")
        ctx.log("liveness %s: %d distinct states, %.0fs, %s" % (cfg, r.distinct, r.wall, "ok" if r.rc == 0 else r.violation))
        if r.rc != 0:
            ctx.fail("model:%s:termination" % cfg, "Termination does not hold for the repaired design:\n" + r.out[-3500:], {"cfg": cfg})
    sens = {}
    for dev, (cfg, inv) in sorted(MC_DEV.items()):
        r = common.tlc("MC_X02", cfg=cfg, workers=2, timeout=900, extra=["-noGenerateSpecTE"])
        hit = r.rc == 12 and r.violation and inv in r.violation
        sens[dev] = inv if hit else None
        if not hit:
            ctx.fail("spec:sensitivity:" + dev, "the model with deviation %s does not violate %s (%s): the specification lost "
                     "the property\n%s" % (dev, inv, cfg, r.out[-1500:]), {"cfg": cfg})
    r = common.tlc("MC_X02", cfg="MC_X02_dev_zerort_live.cfg", workers=2, timeout=900, extra=["-noGenerateSpecTE"])
    if r.rc != 13:
        ctx.fail("spec:sensitivity:zero-retransmission-time:termination", "Termination should fail when the jitter can be -IRT:\n" + r.out[-1500:], None)
    ctx.add(model_deviation_sensitivity=sens)
    ctx.log("sensitivity: %d/%d deviations break their invariant in the model" % (sum(1 for v in sens.values() if v), len(sens)))

def gen_scenarios(ctx, rig, exe, families, rng, with_witnesses=True):
    scs = []; skipped = {}
    for sc in (witnesses() if with_witnesses else []):
        if rig.feasible(exe, sc): scs.append(sc)
        else: skipped[sc.family] = skipped.get(sc.family, 0) + 1
    for fam, count in families:
        for _ in range(count):
            sc = None
            for attempt in range(12):
                cand = fam(rng)
                if rig.feasible(exe, cand): sc = cand; break
            if sc is None:
                name = cand.family; skipped[name] = skipped.get(name, 0) + 1
                continue
            scs.append(sc)
    if skipped:
        ctx.log("scenarios whose jitter class this tree cannot produce (skipped): %s" % skipped)
        ctx.add(scenarios_skipped_jitter_infeasible=skipped)
    return scs

def report_reject(ctx, sc, evs, line, r, build):
    ev = evs[line] if line < len(evs) else {"e": "(end)"}
    ctx.fail("trace:%s:rejected-at:%s" % (sc.family, ev.get("e")),
             "the real client (build %s) did something the specification does not allow, scenario family %s, at trace line %d:\n%s\n"
             "--- scenario ---\n%s" % (build, sc.family, line + 1, "\n".join(json.dumps(e) for e in evs[max(0, line - 8):line + 2]), sc.text()),
             {"family": sc.family, "scenario": sc.lines, "line": line + 1})

def run_traces(ctx, rig, exe, scs, build, seen):
    """run every scenario, validate in batches; returns number of accepted scenarios"""
    runs = []; hung = 0
    for si, sc in enumerate(scs):
        if hung >= 3:
            # three scenarios already ended in the driver's watchdog (each is judged below, re-tried once, and reported): every further one
            # costs the watchdog period again - the rest is not run, the check ends with its verdict in bounded time
            ctx.add(scenarios_not_run_after_repeated_hangs=len(scs) - si); break
        rc, out, evs = rig.drive(exe, sc.text())
        if not evs or evs[0]["e"] != "pool":
            raise common.Infra("driver produced no trace:\n" + out[-2000:])
        if any(e["e"] == "Hang" and e.get("where") == "watchdog" for e in evs): hung += 1
        if any(e["e"] == "rnd" and e.get("found") != 1 for e in evs):
            ctx.add(scenarios_skipped_jitter_search_failed=1); continue
        runs.append((sc, evs, rc, out))
    ok = 0; nev = 0; scs_run = len(runs)
    def validate_group(group, depth=0):
        nonlocal ok, nev
        if not group: return
        allev = [e for (_, evs, _, _) in group for e in evs]
        acc, devs, r, info = rig.validate(allev)
        ctx.add(states=r.distinct, transitions=r.generated)
        if acc:
            ok += len(group); nev += len(allev)
            for d in devs: seen.setdefault(d, []).extend(g[0].family for g in group)
            return
        if len(group) == 1:
            sc, evs, rc, out = group[0]
            line = info
            # a bounded wait that expired on a loaded machine is re-tried once before it counts
            timing = line < len(evs) and (evs[line]["e"] == "Hang" or (evs[line]["e"] == "settled" and evs[line].get("unread", 0) > 0))
            if timing and depth < 50:
                rc2, out2, evs2 = rig.drive(exe, sc.text())
                acc2, devs2, r2, info2 = rig.validate(evs2)
                if acc2:
                    ok += 1; nev += len(evs2); ctx.add(retried_after_expired_wait=1)
                    for d in devs2: seen.setdefault(d, []).append(sc.family)
                    return
                evs, line, out = evs2, info2, out2
            report_reject(ctx, sc, evs, line, r, build)
            san = common.san_key(out)
            if san: ctx.notes.append("sanitizer: %s" % (san,))
            return
        # find the offender: split
        mid = len(group) // 2
        validate_group(group[:mid], depth + 1); validate_group(group[mid:], depth + 1)
    B = 12
    for i in range(0, len(runs), B):
        validate_group(runs[i:i + B])
    # attribute deviations to families (cheap: validate the deviating families' traces one by one only in thorough)
    ctx.add(traces_validated_against_impl=ok, trace_events=nev)
    return ok

def run(ctx):
    ctx.level = "model_checking"
    ctx.assumptions += [
        "epoll/timerfd backend (Linux); UDP over loopback delivers in order and without loss between the client's sendto and the fake server's queue",
        "timer-driven steps are validated as order/count and as the programmed timerfd values, never against the wall clock; the jitter of radius_client_rnd_factor is pinned by choosing the clock value it hashes (link-time wrapper), classes zero/+IRT/-IRT",
        "cancel is exercised on the owning pool thread only (from another thread it is an unsynchronised write in the unchanged code)",
    ]
    rng = random.Random(ctx.seed * 7919 + (0 if ctx.quick else 1))
    if os.environ.get("X02_ONLY") != "traces":      # development switch: the model part does not depend on the tree under test
        run_model(ctx)
    rig = Rig(ctx)
    exe = rig.build("asan")
    seen = {}
    scs = gen_scenarios(ctx, rig, exe, FAMILIES_QUICK if ctx.quick else FAMILIES_THOROUGH, rng)
    ctx.log("running %d scenarios on the real client (clang -O1, ASan/UBSan)" % len(scs))
    ok = run_traces(ctx, rig, exe, scs, "clang-O1-asan", seen)
    ctx.log("accepted %d/%d scenario traces; deviations taken: %s" % (ok, len(scs), sorted(seen)))
    fams = {}
    for sc in scs: fams[sc.family] = fams.get(sc.family, 0) + 1
    ctx.add(scenario_families=fams)
    if not ctx.quick:
        exe2 = rig.build(None, compiler="gcc", opt="-O2")
        # without a sanitizer a use-after-free / NULL dereference is undefined behaviour: those families only when the ASan run met none
        ub = bool({"socket-freed-inside-its-receive-callback", "socket-create-failure-null-deref"} & set(seen))
        scs2 = gen_scenarios(ctx, rig, exe2, [(f, max(2, c // 3)) for f, c in FAMILIES_THOROUGH
                                              if f is not sc_idwrap and not (ub and f in (sc_twosock, sc_sockfail))], rng)
        ctx.log("running %d scenarios on the real client (gcc -O2, no sanitizer)" % len(scs2))
        ok2 = run_traces(ctx, rig, exe2, scs2, "gcc-O2", seen)
        ctx.log("accepted %d/%d scenario traces (gcc -O2)" % (ok2, len(scs2)))
    for dev in sorted(seen):
        if dev not in MC_DEV:
            ctx.fail("deviation:unknown:" + dev, "TLC reported an unnamed deviation", None); continue
        ctx.fail(key_of(dev), "the real client takes the named deviation '%s' of specs/grow/RadiusClient.tla (seen in scenario families %s): %s; "
                 "the model shows that it breaks %s" % (dev, sorted(set(seen[dev])), DEV_WHERE[dev], MC_DEV[dev][1]),
                 {"deviation": dev, "families": sorted(set(seen[dev]))})
    ctx.add(deviations_observed=sorted(seen), evaluations=len(scs),
            samples=["basic: query -> sendto -> reply/timeout -> callback", "failover over 2-3 servers (same / mixed family), unreachable servers",
                     "identifier collision -> second socket -> release", "cancel before start / in flight", "destroy with queries in flight",
                     "socket() failure", "jitter +-IRT", "MRD bound", "2-3 pool threads, query from callback"])
    ctx.cov["rule"] = ("every line of every scenario log must be the next step / owed effect of RadiusClient (X02Trace); "
                       "named deviations are findings; MC_X02 proves the properties on the repaired design and shows each deviation breaks one")
