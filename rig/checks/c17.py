"""C17 - the INI store behaves like an ordered map and survives a text round trip (mode A, both directions).

Oracle: specs/seq/IniStore.tla (store `lines` shaped after ini_line_t + ghost ordered dictionary `model`).
  1. TLC model-checks the properties ON THE SPEC (MC_IniStore*.cfg): LookupIsLastWrite (both case modes), SetThenGet,
     SetKeepsOrder, EnumInFileOrder, EnumIsFilter, RoundTrip, CalcEqualsGen, GenRespectsCap over every history.
  2. direction (i): behaviours OUT of TLC (Beh_IniStore: every history up to a depth, every byte string as a parse
     text, random walks from -simulate) are replayed on a real ini_p by harness/ini_drv.c (ASan build); after the
     last operation the driver observes the store through the public enumerators/getters and runs ini_buf_gen for
     EVERY capacity 0..size+1; the observation must EQUAL the one TLC printed.
  3. direction (ii): long seeded random histories run on the real store (ASan build and a plain -O2 build whose
     realloc may extend in place), logged as ndjson and validated by TLC against Trace_IniStore.
Python only renders inputs, shuttles JSON and compares JSON values for equality."""
import json, os, random, re, threading
from rig import common

SRC = ["/verif/harness/ini_drv.c", "src/utils/ini.c", "src/utils/buf_str.c"]
KEY_FIND = "ini_val_get:ini_sect_val_find-compares-value-names-ignoring-case"
KEY_GEN = "ini_buf_gen:capacity-test-ignores-running-offset"
XSS = "128m"


_seen = {}
def fail_once(ctx, key, detail, replay):
    """one report per key (what fails); further occurrences are only counted"""
    _seen[key] = _seen.get(key, 0) + 1
    if _seen[key] == 1:
        ctx.fail(key, detail, replay)


_ASAN_ENV = {"ASAN_OPTIONS": "detect_leaks=0:abort_on_error=0:detect_stack_use_after_return=1:allocator_may_return_null=1:print_legend=0",
             "UBSAN_OPTIONS": "print_stacktrace=1:halt_on_error=1"}
def crash_key(exe, case, ans):
    """(kind, function) of a driver crash.  common.san_key does not recognise reports whose innermost frame is an
    interceptor (memcpy into a too small block): the single case is run again and the first repository frame taken."""
    k = ans["crash"]
    if not k[0].startswith("exit-"):
        return k[0], (k[1] or "?"), ans["raw"]
    rc, out = common.sh([exe], stdin=(case + "\n").encode(), timeout=120, env=_ASAN_ENV)
    m = re.search(r"ERROR: AddressSanitizer: (\S+)", out)
    if not m:
        m2 = re.search(r"^(free\(\)|malloc\(\)|munmap_chunk\(\)|double free|corrupted|realloc\(\))[^\n]*", out, re.M)
        return ("heap-corruption-abort" if m2 else k[0]), "?", out[-2500:]
    kind = m.group(1)
    acc = "WRITE" if re.search(r"^WRITE of size", out, re.M) else ("READ" if re.search(r"^READ of size", out, re.M) else "")
    fn = "?"
    for fm in re.finditer(r"#\d+ 0x[0-9a-f]+ in (\S+) (/\S+?):(\d+)", out):
        if fm.group(2).startswith(common.REPO + "/"):
            fn = fm.group(1); break
    return kind + ("-" + acc if acc else ""), fn, out[:3500]


def hx(arr):
    return bytes(arr).hex() if len(arr) else "-"


# ------------------------------------------------------------------ 1. properties on the spec
def spec_part(ctx):
    runs = [("MC_IniStore_cov.cfg", True, 300)]
    runs += [("MC_IniStore.cfg", False, 600)] if ctx.quick else \
            [("MC_IniStore_wide.cfg", False, 1500), ("MC_IniStore_deep.cfg", False, 2400)]
    for cfg, cov, to in runs:
        r = common.tlc("MC_IniStore", cfg=cfg, workers=3, coverage=cov, timeout=to, xss=XSS, seed=ctx.seed)
        ctx.tlc_stats(r, "MC_IniStore/" + cfg)
        ctx.log("TLC %s: %d distinct states, %d transitions, depth %d, %.0fs" % (cfg, r.distinct, r.generated, r.depth, r.wall))
        if r.rc != 0:
            # the model is the REPAIRED behaviour; a violation here means specification and property disagree
            raise common.Infra("property violated ON THE SPEC (%s, %s) - specification error, not a code verdict\n%s"
                               % (cfg, r.violation, r.out[-3000:]))
        if cov:
            need = ["MCParse", "MCSetNewSect", "MCSetInsert", "MCSetInPlace", "MCSetRealloc"]
            missing = [a for a in need if r.coverage.get(a, (0, 0))[1] == 0]     # (new states, transitions)
            if missing:
                raise common.Infra("vacuous model: actions never taken: %s" % missing)
            # TLC reports new-states:transitions per action; tlc_stats keeps the first number, which is 0 for an
            # action whose successors Parse had already produced - the transitions are the vacuity evidence
            ctx.cov["action_transitions"] = {a: r.coverage[a][1] for a in need}
    # the invariants are not vacuous: on the model of the code AS SHIPPED, TLC finds both registered defects
    for cfg, want in (("MC_IniStore_shipfind.cfg", ("Inv_LookupS", "Inv_SetGet")),
                      ("MC_IniStore_shipgen.cfg", ("GenRespectsCap",))):
        r = common.tlc("MC_IniStore", cfg=cfg, workers=2, timeout=300, xss=XSS)
        if r.rc != 12 or not any(w in (r.violation or "") for w in want):
            raise common.Infra("selftest: TLC did not refute %s on the as-shipped model %s (rc=%s %s)" % (want, cfg, r.rc, r.violation))
        ctx.add(spec_selftests_refuted=1)
    if not ctx.quick:
        for inv in ("Reach_DictBig", "Reach_DupSOnly", "Reach_DupIOnly", "Reach_BlankTail"):
            cfgp = os.path.join(common.tlc_workspace(), "MC_reach_%s.cfg" % inv)
            base = open(os.path.join(common.tlc_workspace(), "MC_IniStore_reach.cfg")).read()
            open(cfgp, "w").write("\n".join(l if not l.startswith("INVARIANTS") else "INVARIANTS " + inv for l in base.splitlines()) + "\n")
            r = common.tlc("MC_IniStore", cfg=os.path.basename(cfgp), workers=2, timeout=600, xss=XSS)
            if r.rc != 12:
                raise common.Infra("vacuity companion %s is not reachable (rc=%s)" % (inv, r.rc))
            ctx.add(reachability_companions_witnessed=1)


# ------------------------------------------------------------------ 2. behaviours out of TLC, replayed
def case_of(Q, hist):
    ops = ["Q " + " ".join("%s %s" % (hx(s), hx(n)) for s, n in Q)]
    for h in hist:
        if h["op"] == "P":
            ops.append("P " + hx(h["text"]))
        else:
            ops.append("S %s %s %s" % (hx(h["s"]), hx(h["n"]), hx(h["v"])))
    ops.append("O")
    return ";".join(ops)


def first_diff(a, b, fields):
    for f in fields:
        if a.get(f) != b.get(f):
            return f
    return "shape"


def last_op(hist):
    if not hist:
        return "create"
    h = hist[-1]
    return "Parse" if h["op"] == "P" else "Set-" + h.get("path", "")


def judge(ctx, ln, ans, label, stats):
    """compare one replayed behaviour with the line TLC printed for it"""
    hist = ln["hist"]
    rp = {"model": label, "hist": hist, "driver_case": case_of(stats["Q"], hist)}
    if isinstance(ans, dict):
        kind, fn, raw = crash_key(stats["exe"], rp["driver_case"], ans)
        fail_once(ctx, "ini:%s:%s:after-%s" % (kind, fn, last_op(hist)), raw, rp)
        return
    try:
        evs = json.loads(ans)
        obs = evs[-1]
        real_store, real_gen = obs["store"], obs["gen"]
        rcs = [e.get("rc", 0) for e in evs[:-1]]
    except Exception:
        fail_once(ctx, "ini:driver-answer-unreadable:after-%s" % last_op(hist), ans[:2000], rp)
        return
    if any(rcs):
        fail_once(ctx, "ini:%s-returned-error" % ("ini_buf_parse" if hist[[i for i, x in enumerate(rcs) if x][0]]["op"] == "P" else "ini_val_set"),
                 "rc list %s" % rcs, rp)
        return
    if real_store == ln["store"]:
        good, ship = ln["gen"], ln.get("genS", ln["gen"])
    elif "store0" in ln and real_store == ln["store0"]:
        stats["known_find"] += 1
        fail_once(ctx, KEY_FIND, "history %s\nreal store == model of the shipped name matching\nexpected %s\nreal     %s"
                 % (json.dumps(hist), json.dumps(ln["store"]), json.dumps(real_store)), rp)
        good, ship = ln["gen0"], ln["gen0S"]
    else:
        f = first_diff(real_store, ln["store"], ("sects", "get", "geti", "size"))
        fail_once(ctx, "ini_store:%s-differ:after-%s" % (f, last_op(hist)),
                 "history %s\nexpected %s\nreal     %s" % (json.dumps(hist), json.dumps(ln["store"]), json.dumps(real_store)), rp)
        return
    if real_gen == good:
        return
    if real_gen == ship:
        stats["known_gen"] += 1
        fail_once(ctx, KEY_GEN, "history %s\nini_buf_gen for every capacity 0..size+1 (run-length coded)\nexpected %s\nreal     %s"
                 % (json.dumps(hist), json.dumps(good), json.dumps(real_gen)), rp)
        return
    f = first_diff(real_gen, good, ("ok", "over", "n", "outs"))
    fail_once(ctx, "ini_buf_gen:%s-differ:after-%s" % (f, last_op(hist)),
             "history %s\nexpected %s\nreal     %s" % (json.dumps(hist), json.dumps(good), json.dumps(real_gen)), rp)


def beh_run(ctx, exe, cfg, label, simulate=None, depth=None, timeout=900):
    r = common.tlc("Beh_IniStore", cfg=cfg, workers=1, simulate=simulate, depth=depth, timeout=timeout, xss=XSS,
                   seed=ctx.seed if simulate else None)
    if r.rc != 0:
        raise common.Infra("Beh_IniStore/%s: TLC rc=%s %s\n%s" % (cfg, r.rc, r.violation, r.out[-3000:]))
    lines = common.tlc_printed_json(r.out)
    Q = [x for x in lines if "Q" in x]
    cases = [x for x in lines if "hist" in x]
    if not Q or not cases:
        raise common.Infra("Beh_IniStore/%s printed nothing" % cfg)
    if not simulate:
        ctx.tlc_stats(r, "Beh_IniStore/" + cfg)
        if len(cases) != r.distinct:
            raise common.Infra("behaviour emission lost lines: %d printed vs %d distinct states" % (len(cases), r.distinct))
    else:
        ctx.add(simulated_steps=len(cases))
    stats = {"Q": Q[0]["Q"], "known_find": 0, "known_gen": 0, "exe": exe}
    res = common.batch_run(exe, [case_of(stats["Q"], c["hist"]) for c in cases], timeout=900, max_crashes=12, on_excess="skip")
    paths = {}
    for c, a in zip(cases, res):
        if isinstance(a, dict) and a.get("skipped"): continue      # batch cut short after repeated deaths (each one reported)
        judge(ctx, c, a, label, stats)
        lo = last_op(c["hist"]); paths[lo] = paths.get(lo, 0) + 1
    ctx.add(evaluations=len(cases), traces_validated_against_impl=len(cases),
            distinct_nontrivial=sum(1 for c in cases if len(c["hist"]) > 0))
    ctx.cov.setdefault("replayed_last_operation", {})
    for k, v in paths.items():
        ctx.cov["replayed_last_operation"][k] = ctx.cov["replayed_last_operation"].get(k, 0) + v
    ctx.log("%s: %d behaviours replayed (%s); shipped-defect matches: find=%d gen=%d; tlc %.0fs"
            % (label, len(cases), ", ".join("%s=%d" % kv for kv in sorted(paths.items())), stats["known_find"], stats["known_gen"], r.wall))
    return cases


def beh_part(ctx, exe):
    if ctx.quick:
        cs = beh_run(ctx, exe, "Beh_IniStore.cfg", "all histories <= 2 ops")
        beh_run(ctx, exe, "Beh_IniStore_text.cfg", "every text <= 4 bytes")
        beh_run(ctx, exe, "Beh_IniStore_sim.cfg", "random walks", simulate=40, depth=9)
    else:
        cs = beh_run(ctx, exe, "Beh_IniStore_d3.cfg", "all histories <= 3 ops", timeout=1500)
        beh_run(ctx, exe, "Beh_IniStore_text5.cfg", "every text <= 5 bytes", timeout=1500)
        beh_run(ctx, exe, "Beh_IniStore_sim.cfg", "random walks", simulate=800, depth=12, timeout=1500)
    c = cs[min(len(cs) - 1, 700)]
    ctx.add(samples=[{"behaviour": c["hist"], "expected_store": c["store"]}])


# ------------------------------------------------------------------ 3. random histories, validated by TLC
SECTS = [b"Main", b"main", b"MAIN", b"M", b"net", b"Net", b"s2", b"s", b"x" * 40, b"A.b c", b"Z", b"s@t", b"s`t"]
# "It[0"/"It{0" and "a@b"/"a`b": octets next to 'A'..'Z' that differ from their neighbour by 32 exactly like a letter
# from its lower case - a case fold whose range is off by one aliases them (seed C17-8)
NAMES = [b"key", b"Key", b"KEY", b"k", b"K", b"n", b"long_name_" * 4, b"a b", b"port", b"Port", b"It[0", b"It{0", b"a@b", b"a`b"]
FOLD_EDGE = [b"It[0", b"It{0", b"a@b", b"a`b"]


def rnd_bytes(rng, n):
    alpha = b"abcXYZ019 =[];#\t.-_" + bytes([0xC3, 0xA9, 0xFF])
    return bytes(rng.choice(alpha) for _ in range(n))


def rnd_value(rng, big, last=None):
    """a value; `last` = length this key was given before (input bookkeeping only): replacements then grow or
    shrink by small and large steps around it, which is what decides in-place update vs realloc in ini_val_set"""
    c = rng.random()
    if last is not None and c < 0.55:
        n = max(0, last + rng.choice([1, 1, 2, 3, 5, 8, 13, 15, 16, 17, 18, 33, -1, -2, -5, -16, -17, -last, 0]))
    elif c < 0.65: n = 0
    elif c < 0.8: n = rng.randint(1, 4)
    elif c < 0.93: n = rng.randint(5, 40)
    else: n = rng.randint(41, 300 if big else 90)
    return rnd_bytes(rng, n)


def rnd_text(rng, maxlines, sects, names):
    out = b""
    nl = rng.randint(1, maxlines)
    for i in range(nl):
        k = rng.random()
        if k < 0.15: ln = b""
        elif k < 0.25: ln = rng.choice([b";comment", b"#c", b";"])
        elif k < 0.35: ln = rng.choice([b"junk", b"[nosect", b" ", b"\r", b"a\rb", b"]"])
        elif k < 0.55: ln = b"[" + rng.choice(sects) + b"]" + rng.choice([b"", b"", b"", b" ; tail", b"]"])
        else: ln = rng.choice(names + [b"", b" sp"]) + b"=" + rnd_value(rng, False)
        eol = rng.choice([b"\n", b"\n", b"\r\n", b"\r\n", b"\r\r\n"])
        if i == nl - 1 and rng.random() < 0.3: eol = b""
        out += ln + eol
    return out


def rnd_script(rng, nops, big):
    # few keys per execution, so that the same entry is replaced many times
    sects = rng.sample(SECTS, rng.choice([1, 2, 3, 4]))
    names = rng.sample(NAMES, rng.choice([2, 3, 4]))
    if rng.random() < 0.25:
        names = list({*names, *(FOLD_EDGE[:2] if rng.random() < 0.5 else FOLD_EDGE[2:])})
    if rng.random() < 0.5:          # make sure letter-case variants of one name / section meet
        names = list({*names, *rng.sample([b"key", b"Key", b"KEY"], 2)})
        sects = list({*sects, *rng.sample([b"Main", b"main", b"MAIN", b"M"], 2)})
    lastlen = {}
    ops = []
    if big:
        ops += ["P " + rnd_text(rng, 45, sects, names).hex() for _ in range(4)]
    for i in range(nops):
        c = rng.random()
        s, n = rng.choice(sects), rng.choice(names)
        if c < 0.32:
            v = rnd_value(rng, big, lastlen.get((s, n)))
            lastlen[(s, n)] = len(v)
            ops.append("%s %s %s %s" % (rng.choice(["S", "S", "S", "Sz"]), s.hex(), n.hex(), v.hex() or "-"))
        elif c < 0.36:
            v = rng.choice([0, 1, 9, 10, 11, 99, 100, 101, 999999999, 1000000000, 1000000001, 10 ** 18, 2 ** 31, 2 ** 63 - 1,
                            rng.randrange(0, 2 ** 63)])
            if rng.random() < 0.5: ops.append("SU %s %s %d" % (s.hex(), n.hex(), rng.choice([v, 2 ** 64 - 1, 10 ** 19])))
            else: ops.append("SI %s %s %d" % (s.hex(), n.hex(), v * rng.choice([1, -1])))
            lastlen.pop((s, n), None)
        elif c < 0.44:
            ops.append("P " + (rnd_text(rng, 40 if big else 5, sects, names).hex() or "-"))
        elif c < 0.60:
            ops.append("%s %s %s" % (rng.choice(["G", "G", "Gz"]), s.hex(), n.hex()))
        elif c < 0.72:
            ops.append("%s %s %s" % (rng.choice(["GI", "GI", "GIz"]), s.hex(), n.hex()))
        elif c < 0.76:
            ops.append("%s %s %s" % (rng.choice(["GN", "GU", "GIN", "GIU"]), s.hex(), n.hex()))
        elif c < (0.80 if big else 0.84):
            ops.append("E")
        elif c < 0.87:
            ops.append("C")
        elif c < 0.89:
            ops.append("RT")
        else:
            ops.append(rng.choice(["N r -1", "N r 0", "N r 1", "N a 0", "N a 1", "N r -2", "N r -%d" % rng.randint(1, 60),
                                   "N a %d" % rng.randint(2, 200)]))
    ops += ["E", "C", "RT", "N r 0", "N r -1"]
    return ";".join(ops)


def fold_edge_script():
    """directed history: names / sections that differ only in an octet next to 'A'..'Z' ('@' 0x40 vs '`' 0x60, '[' 0x5B
    vs '{' 0x7B - 32 apart like a letter and its lower case) live side by side with letter-case variants; every one is
    set, looked up with and without case folding, replaced, and looked up again after generate + parse (seed C17-8)"""
    ops = []
    pairs = [(b"It[0", b"It{0"), (b"a@b", b"a`b"), (b"key", b"KEY")]
    for s in (b"Main", b"s@t", b"s`t", b"MAIN"):
        for a, b in pairs:
            for n, v in ((a, b"1" + a), (b, b"2" + b)):
                ops.append("S %s %s %s" % (s.hex(), n.hex(), (v + s).hex()))
    for rnd in range(2):
        for s in (b"Main", b"s@t", b"s`t", b"main", b"S@T", b"S`T"):
            for a, b in pairs:
                for n in (a, b, a.upper(), b.lower()):
                    ops.append("GI %s %s" % (s.hex(), n.hex())); ops.append("G %s %s" % (s.hex(), n.hex()))
        ops += ["E", "RT", "S %s %s %s" % (b"s`t".hex(), b"It{0".hex(), b"late".hex()), "S %s %s %s" % (b"s@t".hex(), b"It[0".hex(), b"later".hex())]
    ops += ["E", "C", "RT", "N r 0", "N r -1"]
    return ";".join(ops)


def growth_scripts(rng, top):
    """Histories in which the NUMBER OF LINES of the store walks through every value 2..top (top >= 130: past two
    steps of the line-pointer array, which ini.c grows 64 slots at a time), the crossing made by each operation that
    adds lines:  one line (set: existing section, new key), two lines at once (set: new section AND new key; both
    parities, so the pair starts at an even and at an odd count: 62+2, 63+2, 126+2, 127+2), and ini_buf_parse of a text of
    exactly 63/64/65/127/128/129 lines followed by sets of every kind (add key, add section, replace in place,
    replace by a longer value).  The store has no delete operation.  Like the random histories these are only
    inputs: what the store must answer afterwards (enumeration, lookups, size, text, round trip) is decided by TLC
    replaying the log against IniStore; ASan watches the accesses."""
    def S(s, n, v): return "S %s %s %s" % (s.encode().hex(), n.encode().hex(), v.encode().hex() or "-")
    def val(): return "".join(rng.choice("abcXYZ019 .") for _ in range(rng.choice([0, 1, 2, 3, 7])))
    edge = {c for m in range(64, top + 1, 64) for c in (m - 1, m, m + 1)}
    look = ";".join(["E", "C", "G 7330 6b30", "N r 0"])           # observations (section s0, key k0)
    out = []
    # (a) one line per set
    ops = [S("s0", "k0", val())]; cnt = 2
    while cnt < top + 1:
        ops.append(S("s0", "k%d" % cnt, val())); cnt += 1
        if cnt in edge: ops.append(look)
    ops += [S("s0", "k5", "replaced-by-a-longer-value-" * 3), S("s0", "k70", ""), "E", "C", "RT", "N r -1"]
    out.append(("set-newkey", ";".join(ops)))
    # (b) two lines per set, from an even and from an odd count
    for par in (0, 1):
        ops = []; cnt = 0
        if par: ops.append("P " + b";c\n".hex()); cnt = 1
        while cnt < top + 1:
            ops.append(S("s%d" % cnt, "k", val())); cnt += 2
            if cnt in edge or cnt - 1 in edge: ops.append(look.replace("7330 6b30", ("s%d" % (cnt - 2)).encode().hex() + " 6b"))
        ops += [S("s%d" % (2 + par), "k2", val()), "E", "C", "RT", "N r -1"]
        out.append(("set-newsect-parity%d" % par, ";".join(ops)))
    # (c) parse of a text of exactly n lines, then sets
    for n in sorted(edge):
        for first in ("newsect", "newkey"):
            tl = ["[s0]", "k0=" + val()]
            while len(tl) < n:
                r = rng.random()
                tl.append("" if r < 0.08 else ";c" if r < 0.14 else "[t%d]" % len(tl) if r < 0.24 else "k%d=%s" % (len(tl), val()))
            if tl[-1] == "": tl[-1] = "last=1"
            text = "\n".join(tl) + rng.choice(["\n", "\r\n", ""])          # a last line without end-of-line is a line too
            adds = [S("zz", "k", val()), S("s0", "knew", val())]
            if first == "newkey": adds.reverse()
            ops = ["P " + text.encode().hex(), "C"] + adds + [look, S("zy", "k", "v"), S("s0", "k0", "longer-" * 6), S("zz", "k", ""), "E", "C", "N r -1"]
            if n in (63, 129): ops.append("RT")
            out.append(("parse-%d-then-%s" % (n, first), ";".join(ops)))
    return out


def trace_part(ctx, exes):
    rng = random.Random(ctx.seed * 7919 + 17)
    nexec, nops = (12, 100) if ctx.quick else (90, 160)
    scripts = []
    for i in range(nexec):
        big = (i % 7 == 3)              # parse-heavy executions cross the 64/128-line reallocation of the line array
        scripts.append(rnd_script(rng, nops if not big else nops // 2, big))
    scripts.insert(0, fold_edge_script())
    nrandom = len(scripts)
    growth = growth_scripts(rng, 130 if ctx.quick else 260)
    glabel = {nrandom + i: g[0] for i, g in enumerate(growth)}
    scripts += [g[1] for g in growth]
    d = common.scratch()
    total_ev = 0; seg_info = []     # (build, script index, first line, last line)
    path = os.path.join(d, "trace.ndjson")
    with open(path, "w") as f:
        nline = 0
        for bi, (bname, exe) in enumerate(exes):
            # the growth histories need the ASan build (first in the list); the quick tier runs them only there
            todo = list(range(len(scripts) if (bi == 0 or not ctx.quick) else nrandom))
            res = common.batch_run(exe, [scripts[i] for i in todo], timeout=600, max_crashes=12, on_excess="skip")
            for i, a in zip(todo, res):
                if isinstance(a, dict) and a.get("skipped"): continue
                rp = {"build": bname, "script": scripts[i]}
                if i in glabel: rp["growth_history"] = glabel[i]
                if isinstance(a, dict):
                    kind, fn, raw = crash_key(exe, scripts[i], a)
                    fail_once(ctx, "ini:%s:%s:%s" % (kind, fn, "line-array-growth" if i in glabel else "random-history"), raw, rp)
                    continue
                try:
                    evs = json.loads(a)
                except Exception:
                    fail_once(ctx, "ini:driver-answer-unreadable:random-history", a[:2000], rp); continue
                first = nline + 1
                f.write('{"e":"Reset"}\n'); nline += 1
                for e in evs:
                    f.write(json.dumps(e, separators=(",", ":")) + "\n"); nline += 1
                seg_info.append((bname, i, first, nline))
                total_ev += len(evs)
    r = common.tlc("Trace_IniStore", workers=2, env={"TRACE": path}, timeout=1500, xss=XSS, xmx="6g")
    if r.rc != 0:
        raise common.Infra("Trace_IniStore: TLC rc=%s %s\n%s" % (r.rc, r.violation, r.out[-3000:]))
    printed = common.tlc_printed_json(r.out)
    done = {(x["mf"], x["mg"]) for x in printed if x.get("done")}
    if len(done) != 4:
        raise common.Infra("Trace_IniStore: not every model reached the end of the trace: %s\n%s" % (done, r.out[-2000:]))
    rej = {}
    for x in printed:
        if "reject" in x:
            rej.setdefault((x["mf"], x["mg"]), []).append(x)
    ok_seg = 0
    for bname, i, a, b in seg_info:
        def rejects(m):
            return [x for x in rej.get(m, []) if a <= x["reject"] <= b]
        if not rejects((True, True)):
            ok_seg += 1; continue
        rp = {"build": bname, "script": scripts[i], "rejected_at_event": rejects((True, True))[0]["reject"] - a}
        detail = "execution %d (%s build): the specification rejects event %s\n%s" % (
            i, bname, rp["rejected_at_event"], json.dumps(rejects((True, True))[0])[:1500])
        if not rejects((False, True)): fail_once(ctx, KEY_FIND, detail, rp)
        elif not rejects((True, False)): fail_once(ctx, KEY_GEN, detail, rp)
        elif not rejects((False, False)): fail_once(ctx, KEY_FIND, detail, rp); fail_once(ctx, KEY_GEN, detail, rp)
        else:
            best = max(((m, rejects(m)[0]) for m in ((True, True), (False, True), (True, False), (False, False))),
                       key=lambda t: t[1]["reject"])
            fail_once(ctx, "ini_trace:%s-rejected" % best[1]["why"],
                     detail + "\nclosest model mf=%s mg=%s rejects at %d: %s" % (best[0][0], best[0][1], best[1]["reject"] - a, json.dumps(best[1])[:1500]), rp)
    ctx.add(traces_validated_against_impl=len(seg_info), trace_events=total_ev, evaluations=total_ev,
            distinct_nontrivial=len(seg_info), trace_executions_accepted=ok_seg)
    ctx.cov.setdefault("tlc_runs", []).append({"model": "Trace_IniStore", "events": total_ev, "executions": len(seg_info),
                                               "generated": r.generated, "wall_s": round(r.wall, 1)})
    ctx.log("trace validation: %d executions, %d events, %d accepted by the repaired model, tlc %.0fs"
            % (len(seg_info), total_ev, ok_seg, r.wall))
    ctx.add(samples=[{"random_history_head": scripts[0][:300]}])
    gseg = [x for x in seg_info if x[1] in glabel]
    ctx.cov["line_array_growth_histories"] = {"executions": len(gseg), "kinds": sorted({glabel[x[1]] for x in gseg}),
                                               "events": sum(x[3] - x[2] for x in gseg)}
    if len(gseg) < len(growth):
        ctx.log("growth histories: only %d of %d executions reached the validation" % (len(gseg), len(growth)))


def run(ctx):
    ctx.level = "model_checking"
    d = common.scratch()
    asan = common.cc(SRC, d + "/ini_asan", compiler="clang", san="asan", hooks=False)
    plain = common.cc(SRC, d + "/ini_plain", compiler="gcc", opt="-O2", hooks=False)
    # mem_cmpi / mem_cmpin without strncasecmp(): the portable byte loop of mem_utils.h (platforms without HAVE_STRNCASECMP)
    nocase = common.cc(SRC, d + "/ini_nostrncasecmp", compiler="gcc", opt="-O1", hooks=False, flags=["-UHAVE_STRNCASECMP"])
    # the model-checking runs (3 workers) go on beside the replay/trace runs (1-2 workers): <= 4-5 cores in total
    common.tlc_workspace()
    err = []
    def bg():
        try:
            spec_part(ctx)
        except BaseException as e:      # re-raised in the main thread
            err.append(e)
    th = threading.Thread(target=bg); th.start()
    try:
        beh_part(ctx, asan)
        trace_part(ctx, [("clang-asan-ubsan", asan), ("gcc-O2", plain), ("gcc-O1-no-strncasecmp", nocase)])
    finally:
        th.join()
    if err:
        raise err[0]
    ctx.cov["failure_occurrences_by_key"] = dict(_seen)
    ctx.cov["rule"] = ("model checking: every Parse/Set history over stores bounded by the cfg constants; replay: one real execution "
                       "per emitted behaviour (every history up to the depth, every byte string up to the length, random walks), "
                       "non-trivial = non-empty history; traces: one per random execution and build")
    ctx.assumptions += [
        "names are non-empty and contain no '=' ']' CR LF, do not start with '[' ';' '#'; values contain no CR LF (format domain, DESIGN.md App. E)",
        "keys defined twice by PARSED text (repeated header or name) have no single 'most recently parsed' value: the literal "
        "dictionary laws are demanded only for histories without such repeats; first match in file order is what is compared then",
        "data_allocated_size is modelled as if realloc always moved the block (unobservable through the interface; the plain "
        "build exercises the in-place case)",
        "memory accesses are observed by ASan/UBSan on exact-size blocks; overruns of ini_buf_gen are measured with a canary zone",
    ]
