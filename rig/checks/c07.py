"""C07 - HMAC over MD5, SHA-1, SHA-224/256/384/512, GOST R 34.11-2012 (256/512) equals RFC 2104 for every key length
(empty, shorter than, equal to, longer than the block), message and chunking, one call or incremental, every build;
the keyed pads are wiped when the computation finishes.

(i)  TLC model-checks specs/crypto/Hmac.tla (MCHmac): the init/update/final state machine of the headers, layered on the
     HashStream machine, against the RFC 2104 equation over an UNINTERPRETED hash (free term algebra), B=4, every key over
     two symbols of length 0..B+2 plus one key of each length up to 3B, messages <= B+1 in <=3 update calls:
     mac = HmacRFC, key>block branch exactly for longer keys, k_opad zero and context empty at final.
(ii) harness/hash_drv.c runs hmac_*_init/_update/_final, the one-shot and the hex-string entry points in every build
     variant for key lengths {0,1,B-1,B,B+1,2B,3B} (+ more in the thorough tier), TLC-generated chunkings scaled to the
     real block size, seeded content and alignments; it records k_opad after init, count/buffer after each update, the MAC,
     and whether k_opad and the hash context are all-zero after final.
(iii) TLC (specs/crypto/TraceHash.tla) replays every run: k_opad after init = K0 xor 0x5c.., inner stream count/buffer
     after each call, MAC of all three entry points = HmacRFC over the concrete TLA+ hash references, pads wiped."""
import random
from concurrent.futures import ThreadPoolExecutor
from rig import common, hashrig
from rig.hashrig import ALGS, COST_MS

def model_check(ctx):
    r = common.tlc("MCHmac", cfg="MCHmac.cfg" if ctx.quick else "MCHmacThorough.cfg", workers=4, coverage=True, timeout=1500)
    ctx.tlc_stats(r, "MCHmac")
    if r.rc != 0:
        raise common.Infra("HMAC specification violates its own invariant (spec bug, not a code verdict): %s\n%s" % (r.violation, r.out[-3000:]))
    for act in ("Init", "Update", "Final"):
        if r.coverage.get(act, (0, 0))[0] == 0:
            raise common.Infra("vacuous model: action %s never taken" % act)
    for cfg in ("MCHmacReach1.cfg", "MCHmacReach2.cfg"):
        r = common.tlc("MCHmac", cfg=cfg, workers=1, timeout=600)
        if r.rc != 12:
            raise common.Infra("vacuity witness %s not reachable (rc=%s)" % (cfg, r.rc))
        ctx.add(reachability_witnesses=1)

def scenarios(ctx, shapes, rnd):
    budget_ms = (30000 if ctx.quick else 500000)
    scen = []; blocks = {}; keylens = {}
    fam_algs = {}
    for a, (B, L, fam) in ALGS.items(): fam_algs.setdefault(fam, []).append(a)
    for fam, algs in fam_algs.items():
        cap = budget_ms // COST_MS[fam]; used = 0
        B, L, _ = ALGS[algs[0]]
        def add(alg, kl):
            nonlocal used
            sh = shapes[rnd.randrange(len(shapes))]
            chunks = hashrig.scale_shape(sh, B, L, rnd)
            if ctx.quick and sum(chunks) > B + 1 and rnd.random() < 0.7:       # keep most quick messages within two blocks
                chunks = [c % (B // 2 + 1) for c in chunks]
            msg = hashrig.rbytes(rnd, sum(chunks)); key = hashrig.rbytes(rnd, kl)
            scen.append({"kind": "hmac", "alg": alg, "align": rnd.randint(0, 63), "msg": msg, "chunks": chunks, "key": key})
            used += hashrig.est_blocks(alg, len(msg), key)
            keylens.setdefault(alg, set()).add(kl)
        for alg in algs:                                                     # the mandatory key lengths for every variant
            for kl in (0, 1, B - 1, B, B + 1, 2 * B, 3 * B):
                add(alg, kl)
        more = list(range(0, 3 * B + 1)); rnd.shuffle(more)
        while used < cap and more:
            add(algs[len(scen) % len(algs)], more.pop())
        blocks[fam] = used
    return scen, blocks, keylens

def run(ctx):
    ctx.level = "model_checking"
    rnd = random.Random(ctx.seed * 104729 + 7)
    with ThreadPoolExecutor(max_workers=1) as ex:
        fut = ex.submit(hashrig.build_all, ctx, hashrig.build_matrix(ctx))
        model_check(ctx)
        shapes = hashrig.tlc_shapes(ctx)
        builds = fut.result()
    scen, blocks, keylens = scenarios(ctx, shapes, rnd)
    ctx.log("%d scenarios, estimated reference blocks per family: %s" % (len(scen), blocks))
    paths = hashrig.run_scenarios(ctx, builds, scen, "hmac", tlc_timeout=(600 if ctx.quick else 4000))
    nontriv = set((s["alg"], s["key"], s["msg"], tuple(s["chunks"])) for s in scen if len(s["msg"]) + len(s["key"]) > 0)
    ctx.add(distinct_nontrivial=len(nontriv), scenarios=len(scen), builds=[b for b, _ in builds],
            reference_blocks_evaluated_by_TLC=blocks,
            key_lengths_exercised={a: sorted(v) if len(v) < 12 else "%d distinct lengths in %d..%d" % (len(v), min(v), max(v)) for a, v in keylens.items()},
            transform_paths_executed={"%s:%s" % k: v for k, v in sorted(paths.items())},
            samples=[{"alg": s["alg"], "keylen": len(s["key"]), "msglen": len(s["msg"]), "chunks": s["chunks"], "align": s["align"]} for s in scen[:3] + scen[-3:]])
    ctx.cov["rule"] = ("scenario = (hash variant, key, message, chunking, alignment) run in every build through hmac_*_init/update/final, the "
                       "one-shot and the hex entry point; non-trivial = key or message non-empty; distinct by (variant, key, message, chunk lengths)")
    ctx.assumptions += ["oracle: HmacRFC (RFC 2104 equation, specs/crypto/Hmac.tla) over the TLA+ hash references, evaluated by TLC",
                        "MAC correctness is sampled (mode C); the HMAC construction itself is model-checked over an uninterpreted hash",
                        "the local k_ipad of hmac_*_init lives on the callee's stack and cannot be observed after return; 'pads wiped' is "
                        "checked on k_opad and on the hash context inside the hmac context",
                        "include/proto/radius.h users of hmac_md5 are covered by C15, not here"]
