"""C07 - HMAC over MD5, SHA-1, SHA-224/256/384/512, GOST R 34.11-2012 (256/512) equals RFC 2104 for every key length
(empty, shorter than, equal to, longer than the block), message and chunking, one call or incremental, every build;
the keyed pads are wiped when the computation finishes.

(i)  TLC model-checks specs/crypto/Hmac.tla (MCHmac): the init/update/final state machine of the headers, layered on the
     HashStream machine, against the RFC 2104 equation over an UNINTERPRETED hash (free term algebra), B=4, every key over
     two symbols of length 0..B+2 plus one key of each length up to 3B, messages <= B+1 in <=3 update calls:
     mac = HmacRFC, key>block branch exactly for longer keys, k_opad zero and context empty at final.
(ii) harness/hmac_drv.c (harness/hash_drv.c + explicit variant argument + pad probe) runs hmac_*_init/_update/_final, the
     one-shot and the hex-string entry points in every build variant for key lengths {0,1,B-1,B,B+1,2B,3B} (+ more in the
     thorough tier) UNDER EVERY ACCEPTED SPELLING OF THE VARIANT ARGUMENT (specs/crypto/HmacPads.tla, HpArgs: digest size
     in bits or in bytes for the SHA-2 and GOST entry points), TLC-generated chunkings scaled to the real block size,
     seeded content and alignments; it records k_opad after init, count/buffer after each update, the MAC, and whether
     k_opad and the hash context are all-zero after final.
(iii) TLC (specs/crypto/TraceHash.tla) replays every run: k_opad after init = K0 xor 0x5c.., inner stream count/buffer
     after each call, MAC of all three entry points = HmacRFC over the concrete TLA+ hash references, pads wiped.  One
     trace record per input carries the observations of every (build, spelling): the reference is evaluated once.
(iv) pad residue: TLC (HmacPads!HpPads) computes K0 xor ipad / K0 xor opad for seeded keys shorter than, equal to and
     longer than the block; in every build without a sanitizer the driver runs init alone, init+update+final, the one-shot
     and the hex entry point far below a probing frame and searches the dead stack (and the finished context) for the two
     complete pads.  Any hit is `<alg>[<build>]:hmac:pad-residue-on-stack` / `...:pad-residue-in-context`."""
import json, os, random, time
from concurrent.futures import ThreadPoolExecutor
from rig import common, hashrig
from rig.hashrig import ALGS, COST_MS, VARIANTS, hexs, ints

DRV = os.path.join(common.VERIF, "harness", "hmac_drv.c")

def model_check(ctx):
    r = common.tlc("MCHmac", cfg="MCHmac.cfg" if ctx.quick else "MCHmacThorough.cfg", workers=4, coverage=True, timeout=1500)
    ctx.tlc_stats(r, "MCHmac")
    if r.rc != 0:
        raise common.Infra("HMAC specification violates its own invariant (spec bug, not a code verdict): %s\n%s" % (r.violation, r.out[-3000:]))
    for act in ("Init", "Update", "Final"):
        if r.coverage.get(act, (0, 0))[0] == 0:
            raise common.Infra("vacuous model: action %s never taken" % act)
    for cfg in ("MCHmacReach1.cfg", "MCHmacReach2.cfg"):
        r = common.tlc("MCHmac", cfg=cfg, workers=1, timeout=600)
        if r.rc != 12:
            raise common.Infra("vacuity witness %s not reachable (rc=%s)" % (cfg, r.rc))
        ctx.add(reachability_witnesses=1)

def build_all(ctx, matrix):
    """hashrig.build_all for harness/hmac_drv.c; returns [(name, exe, sanitizer)]"""
    d = common.scratch("lcbv-hmac-")
    def one(spec):
        v, comp, opt, san = spec
        name = "%s-%s%s%s" % (v, comp, opt, "-asan" if san else "")
        defs, flags = VARIANTS[v]
        exe = os.path.join(d, name)
        common.cc([DRV], exe, compiler=comp, opt=opt, defs=defs, flags=flags, hooks=False, san=san, timeout=900)
        return name, exe, san
    t0 = time.time()
    with ThreadPoolExecutor(max_workers=4) as ex:
        res = list(ex.map(one, matrix))
    ctx.log("built %d driver variants in %.1fs" % (len(res), time.time() - t0))
    return res

# ------------------------------------------------------------------ specification side: variant spellings, keyed pads
def probe_keys(ctx, rnd):
    """seeded keys for the residue probe: shorter than / exactly / longer than one block for every variant.  Keys of
    fewer than 8 bytes are left out: their pads are (almost) the constants 0x36.. / 0x5c.., finding those bytes
    somewhere would not show keyed material (the SSE SHA-1 schedule of an all-0x36 block is that block)."""
    ks = []
    for alg, (B, L, fam) in ALGS.items():
        lens = [rnd.randint(8, B - 1), B, rnd.randint(B + 1, 3 * B)]
        if not ctx.quick: lens += [8, B - 1, B + 1, 2 * B, 3 * B]
        for kl in lens:
            ks.append({"alg": alg, "key": hashrig.rbytes(rnd, kl), "msg": hashrig.rbytes(rnd, rnd.choice([0, 1, B - 1, B, B + 3, 2 * B + 5]))})
    return ks

def spec_contract(ctx, keys):
    """one TLC run of HmacPads: the table of accepted variant-argument spellings and the pads of `keys`"""
    d = common.scratch("lcbv-hpads-")
    path = os.path.join(d, "keys.ndjson")
    with open(path, "w") as f:
        for k in keys:
            f.write(json.dumps({"alg": k["alg"], "key": list(k["key"])}, separators=(",", ":")) + "\n")
    r = common.tlc("HmacPads", workers=4, xss="256m", env={"TRACE": path}, timeout=900, xmx="4g")
    if r.rc != 0 or r.distinct != 2 * len(keys):
        raise common.Infra("HmacPads rc=%s, %d distinct states for %d keys\n%s" % (r.rc, r.distinct, len(keys), r.out[-2500:]))
    printed = common.tlc_printed_json(r.out)
    tab = [x for x in printed if isinstance(x, dict) and "variants" in x]
    pads = {x["tid"]: x for x in printed if isinstance(x, dict) and "ipad" in x}
    if len(tab) != 1 or len(pads) != len(keys):
        raise common.Infra("HmacPads printed %d tables, %d pad records for %d keys" % (len(tab), len(pads), len(keys)))
    args = {}
    for v in tab[0]["variants"]:
        if v["alg"] not in ALGS or v["block"] != ALGS[v["alg"]][0]:
            raise common.Infra("HmacPads variant table and rig.hashrig.ALGS disagree on %s" % v)
        args[v["alg"]] = [str(a) for a in v["args"]] or ["-"]
    if set(args) != set(ALGS):
        raise common.Infra("HmacPads variant table does not list the variants of the rig: %s" % sorted(args))
    for i, k in enumerate(keys):
        p = pads[i + 1]
        if p["rfc"] is not True:
            raise common.Infra("specification self-check failed: HpPads is not what HmacRFC is built from (%s, key %s)" % (k["alg"], k["key"].hex()))
        k["ipad"] = bytes(p["ipad"]); k["opad"] = bytes(p["opad"])
    return args, r          # (the caller records r: ctx is updated from the main thread only)

# ------------------------------------------------------------------ (iv) residue probe
def residue_probe(ctx, builds, keys, args):
    targets = [(b, exe) for b, exe, san in builds if not san]
    first = {}; nprobe = 0; depth = {}; unjudged = {}
    for bname, exe in targets:
        # After init ALONE the search also sees what the compression function left of the block it was given (= the
        # inner pad).  Optimised code keeps that in registers; -O0 code with SSE/AVX/SHA-NI intrinsics spills it, and
        # the next block overwrites it (nothing is left after final in any build: findings_inbox/C07-pad-residue-O0-simd.md).
        # The property speaks of the moment the computation finishes, so -O0 builds are judged on the three complete
        # computations only; in optimised builds the init-only search is what exposes an elided wipe of k_ipad.
        judge_init = "-O0" not in bname
        lines = ["selftest " + keys[0]["ipad"].hex()]
        for n, k in enumerate(keys):
            a = args[k["alg"]]
            lines.append("probe %s %s %s %s %s %s" % (k["alg"], a[n % len(a)], hexs(k["key"]), hexs(k["msg"]), k["ipad"].hex(), k["opad"].hex()))
        res = common.batch_run(exe, lines, timeout=300, max_crashes=8, on_excess="skip")    # repeated deaths (each one reported): the rest is not run
        for ln, a in zip(lines, res):
            if isinstance(a, dict) and a.get("skipped"): continue
            if isinstance(a, dict):
                alg = ln.split()[1] if ln.startswith("probe") else "probe"
                ctx.fail("%s:hmac:%s:%s" % (alg, a["crash"][0], a["crash"][1] or "driver"), "build %s\ncase %s\n%s" % (bname, ln[:300], a["raw"]),
                         {"build": bname, "case": ln})
                continue
            try:
                o = json.loads(a)
            except Exception:
                raise common.Infra("driver %s answered garbage for %s: %s" % (bname, ln[:200], a[:300]))
            if "selftest" in o:
                if not (o["left"] > 0 and o["wiped"] == 0):
                    raise common.Infra("residue probe is blind in build %s (self test %s): no verdict possible" % (bname, o))
                continue
            if "probe" not in o:
                raise common.Infra("driver %s refused %s: %s" % (bname, ln[:200], a[:300]))
            alg = ln.split()[1]; nprobe += 1
            for m in o["probe"]:
                if m["mode"] == "init" and not judge_init:
                    if m["ipad_stack"] or m["opad_stack"]: unjudged[bname] = unjudged.get(bname, 0) + 1
                    continue
                depth[m["mode"]] = max(depth.get(m["mode"], 0), m["depth"])
                # geometry: the library ran below the spacer and inside the prepared region, else the search says nothing
                if o["spacer"] < 8192 or m["depth"] <= o["spacer"] or m["depth"] >= o["region"]:
                    raise common.Infra("residue probe geometry: %s/%s reached %d bytes below the probing frame (spacer %d, region %d) in build %s"
                                       % (alg, m["mode"], m["depth"], o["spacer"], o["region"], bname))
                for where, fields in (("on-stack", ("ipad_stack", "opad_stack")), ("in-context", ("ipad_ctx", "opad_ctx"))):
                    if any(m[f] for f in fields):
                        key = "%s[%s]:hmac:pad-residue-%s" % (alg, bname, where)
                        first.setdefault(key, []).append({"mode": m["mode"], "found": {f: m[f] for f in fields if m[f]},
                                                          "bytes_below_probing_frame": m["first"], "key_length": len(ln.split()[3]) // 2 if ln.split()[3] != "-" else 0,
                                                          "variant_arg": ln.split()[2], "case": ln})
    for key, occ in first.items():
        ctx.fail(key, "after the call(s) returned, a complete keyed pad (K0 xor 0x36.. / K0 xor 0x5c.., computed by HmacPads!HpPads) is still readable:\n"
                 + json.dumps([{k: v for k, v in o.items() if k != "case"} for o in occ[:8]], indent=1), {"driver_line": occ[0]["case"], "build": key.split("[")[1].split("]")[0]})
    ctx.add(evaluations=nprobe * 4, pad_residue_probes={"builds": [b for b, _ in targets], "keys_per_build": len(keys),
            "modes": ["init", "stream", "oneshot", "hex"], "deepest_stack_use_seen_bytes": depth,
            "init_only_mode_not_judged_in_O0_builds_hits": unjudged})

# ------------------------------------------------------------------ (ii)+(iii) scenarios under every spelling, validated by TLC
def scenarios(ctx, shapes, rnd):
    budget_ms = (30000 if ctx.quick else 500000)
    scen = []; blocks = {}; keylens = {}
    fam_algs = {}
    for a, (B, L, fam) in ALGS.items(): fam_algs.setdefault(fam, []).append(a)
    for fam, algs in fam_algs.items():
        cap = budget_ms // COST_MS[fam]; used = 0
        B, L, _ = ALGS[algs[0]]
        def add(alg, kl):
            nonlocal used
            sh = shapes[rnd.randrange(len(shapes))]
            chunks = hashrig.scale_shape(sh, B, L, rnd)
            if ctx.quick and sum(chunks) > B + 1 and rnd.random() < 0.7:       # keep most quick messages within two blocks
                chunks = [c % (B // 2 + 1) for c in chunks]
            msg = hashrig.rbytes(rnd, sum(chunks)); key = hashrig.rbytes(rnd, kl)
            scen.append({"kind": "hmac", "alg": alg, "align": rnd.randint(0, 63), "msg": msg, "chunks": chunks, "key": key})
            used += hashrig.est_blocks(alg, len(msg), key)
            keylens.setdefault(alg, set()).add(kl)
        for alg in algs:                                                     # the mandatory key lengths for every variant
            for kl in (0, 1, B - 1, B, B + 1, 2 * B, 3 * B):
                add(alg, kl)
        more = list(range(0, 3 * B + 1)); rnd.shuffle(more)
        while used < cap and more:
            add(algs[len(scen) % len(algs)], more.pop())
        blocks[fam] = used
    return scen, blocks, keylens

def run_hmac(ctx, builds, scen, args, tlc_timeout):
    """hashrig.run_scenarios for HMAC scenarios, each driven once per accepted spelling of the variant argument; the
    observations of every (build, spelling) of one input go into one TraceHash record (tag build/path@arg)."""
    def line(s, arg):
        cs = ",".join(str(c) for c in s["chunks"]) if s["chunks"] else "-"
        return "hmac %s %d %s %s %s %s" % (s["alg"], s["align"], hexs(s["key"]), hexs(s["msg"]), cs, arg)
    jobs = [(i, arg) for i, s in enumerate(scen) for arg in args[s["alg"]]]
    lines = [line(scen[i], arg) for i, arg in jobs]
    obs = [[] for _ in scen]; paths = {}; nanswers = 0
    for bname, exe, _ in builds:
        res = common.batch_run(exe, lines, timeout=600, max_crashes=8, on_excess="skip")    # repeated deaths (each one reported): the rest is not run
        for (i, arg), ln, a in zip(jobs, lines, res):
            s = scen[i]
            if isinstance(a, dict) and a.get("skipped"): continue
            if isinstance(a, dict):
                k = a["crash"]
                ctx.fail("%s:%s:%s:%s" % (s["alg"], s["kind"], k[0], k[1] or "driver"), "build %s\ncase %s\n%s" % (bname, ln[:300], a["raw"]),
                         {"build": bname, "case": ln})
                continue
            try:
                o = json.loads(a)
            except Exception:
                raise common.Infra("driver %s answered garbage for %s: %s" % (bname, ln[:200], a[:300]))
            if o.get("consumed") != len(s["msg"]) or len(o.get("ups", ())) != len(s["chunks"]):
                raise common.Infra("driver %s did not consume the scenario: %s -> %s" % (bname, ln[:200], a[:300]))
            nanswers += 1
            pk = (ALGS[s["alg"]][2], o["path"] + ("" if arg == "-" else "/arg-in-" + ("bits" if arg == args[s["alg"]][0] else "bytes")))
            paths[pk] = paths.get(pk, 0) + 1
            rec = {"b": ["%s/%s@%s" % (bname, o["path"], arg)], "ups": [{"count": u["count"], "buf": ints(u["buf"])} for u in o["ups"]],
                   "one": ints(o["one"]), "hex": ints(o["hex"]) if o["hexnul"] else [0], "zero": o["zero"],
                   "mac": ints(o["mac"]), "kopad": ints(o["kopad"]), "count0": o["count0"], "padzero": o["padzero"]}
            same = [x for x in obs[i] if all(x[k] == rec[k] for k in rec if k != "b")]
            if same: same[0]["b"] += rec["b"]
            else: obs[i].append(rec)
    d = common.scratch("lcbv-htr-")
    path = os.path.join(d, "trace.ndjson")
    kept = []
    with open(path, "w") as f:
        for i, (s, ob) in enumerate(zip(scen, obs)):
            if not ob: continue
            for o in ob: o["b"] = ",".join(o["b"])
            off = 0; cs = []
            for c in s["chunks"]:
                cs.append(list(s["msg"][off:off + c])); off += c
            f.write(json.dumps({"k": "hmac", "alg": s["alg"], "cs": cs, "obs": ob, "key": list(s["key"])}, separators=(",", ":")) + "\n")
            kept.append(i)
    if not kept:
        return paths
    expected_states = sum(len(scen[i]["chunks"]) + 3 for i in kept)
    r = common.tlc("TraceHash", workers=4, xss="256m", env={"TRACE": path}, timeout=tlc_timeout, xmx="6g")
    ctx.tlc_stats(r, "TraceHash/hmac")
    reports = [x for x in common.tlc_printed_json(r.out) if isinstance(x, dict) and "bad" in x]
    # accounting as in hashrig.run_scenarios: a report at step pos cuts the remaining states of its scenario
    if r.rc != 0:
        raise common.Infra("TraceHash rc=%s\n%s" % (r.rc, r.out[-3000:]))
    missing = sum(len(scen[kept[rp["tid"] - 1]]["chunks"]) + 2 - rp["pos"] for rp in reports)
    if r.distinct + missing != expected_states or len(set(rp["tid"] for rp in reports)) != len(reports):
        raise common.Infra("TraceHash consumed %d states (+%d cut by %d reports), expected %d\n%s"
                           % (r.distinct, missing, len(reports), expected_states, r.out[-1500:]))
    seen = {}
    for rp in reports:
        i = kept[rp["tid"] - 1]; s = scen[i]
        if rp["bad"].startswith("spec:"):
            raise common.Infra("specification self-check failed inside TraceHash (spec bug, not a code verdict): %s on %s" % (rp, line(s, "*")[:300]))
        grp = [(g.split("/")[0], g.split("/")[1].split("@")[0], g.split("@")[1]) for g in rp["build"].split(",")]
        sargs = args[s["alg"]]
        gb = set(g[0] for g in grp); ga = set(g[2] for g in grp)
        # which builds / which spellings of the variant argument disagree with the reference (all of them: "all-builds")
        bpath = "all-builds" if len(gb) == len(builds) and len(builds) > 1 else "+".join(sorted(set(g[1] for g in grp)))
        if len(ga) < len(sargs): bpath += ",arg=" + "+".join(sorted(ga, key=int))
        key = "%s[%s]:%s" % (s["alg"], bpath, rp["bad"])
        ob = [o for o in obs[i] if o["b"] == rp["build"]]
        a0 = grp[0][2]
        detail = {"build": rp["build"], "step": rp["pos"], "what": rp["bad"], "driver_line": line(s, a0)[:2000],
                  "expected_by_TLA_reference": bytes(rp["expected"]).hex() if rp["expected"] and max(rp["expected"]) < 256 else rp["expected"],
                  "observed": {k: (bytes(v).hex() if isinstance(v, list) and v and isinstance(v[0], int) else v)
                               for k, v in (ob[0].items() if ob else []) if k != "ups"},
                  "observed_updates": [(u["count"], bytes(u["buf"]).hex()) for u in ob[0]["ups"]] if ob else None}
        seen[key] = seen.get(key, 0) + 1
        if seen[key] == 1:          # one violation per key; the count of further scenarios with the same key goes to the log
            ctx.fail(key, json.dumps(detail, indent=1), {"driver_line": line(s, a0), "build": rp["build"], "report": rp})
    for k, n in seen.items():
        if n > 1: ctx.log("key %s: %d scenarios failed in total" % (k, n))
    ctx.add(evaluations=nanswers, traces_validated_against_impl=len(kept), events_validated=expected_states - len(kept))
    return paths

def run(ctx):
    ctx.level = "model_checking"
    rnd = random.Random(ctx.seed * 104729 + 7)
    pkeys = probe_keys(ctx, random.Random(ctx.seed * 15485863 + 11))
    with ThreadPoolExecutor(max_workers=2) as ex:
        fut = ex.submit(build_all, ctx, hashrig.build_matrix(ctx))
        fspec = ex.submit(spec_contract, ctx, pkeys)
        model_check(ctx)
        shapes = hashrig.tlc_shapes(ctx)
        builds = fut.result()
        args, rpads = fspec.result()
    ctx.tlc_stats(rpads, "HmacPads")
    ctx.log("variant-argument spellings (HmacPads!HpArgs): %s" % {a: v for a, v in args.items() if v != ["-"]})
    scen, blocks, keylens = scenarios(ctx, shapes, rnd)
    ctx.log("%d scenarios, estimated reference blocks per family: %s" % (len(scen), blocks))
    residue_probe(ctx, builds, pkeys, args)
    paths = run_hmac(ctx, builds, scen, args, tlc_timeout=(600 if ctx.quick else 4000))
    nontriv = set((s["alg"], s["key"], s["msg"], tuple(s["chunks"])) for s in scen if len(s["msg"]) + len(s["key"]) > 0)
    ctx.add(distinct_nontrivial=len(nontriv), scenarios=len(scen), builds=[b for b, _, _ in builds],
            reference_blocks_evaluated_by_TLC=blocks, variant_argument_spellings=args,
            key_lengths_exercised={a: sorted(v) if len(v) < 12 else "%d distinct lengths in %d..%d" % (len(v), min(v), max(v)) for a, v in keylens.items()},
            transform_paths_executed={"%s:%s" % k: v for k, v in sorted(paths.items())},
            samples=[{"alg": s["alg"], "keylen": len(s["key"]), "msglen": len(s["msg"]), "chunks": s["chunks"], "align": s["align"]} for s in scen[:3] + scen[-3:]])
    ctx.cov["rule"] = ("scenario = (hash variant, key, message, chunking, alignment) run in every build and under every accepted spelling of the "
                       "variant argument through hmac_*_init/update/final, the one-shot and the hex entry point; non-trivial = key or message "
                       "non-empty; distinct by (variant, key, message, chunk lengths)")
    ctx.assumptions += ["oracle: HmacRFC (RFC 2104 equation, specs/crypto/Hmac.tla) over the TLA+ hash references, evaluated by TLC",
                        "MAC correctness is sampled (mode C); the HMAC construction itself is model-checked over an uninterpreted hash",
                        "'pads wiped' is checked on k_opad and the hash context inside the hmac context (every scenario) and by searching the "
                        "dead stack below the finished calls for the complete pads K0 xor ipad / K0 xor opad computed by TLC (builds without "
                        "a sanitizer); the inner pad is a local of hmac_*_init that nothing can wipe once init has returned, so it is searched "
                        "for after init alone as well as after final; registers and partial (< one block) remains are not examined",
                        "include/proto/radius.h users of hmac_md5 are covered by C15, not here"]
