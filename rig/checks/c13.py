"""C13 - network message parsers are memory-safe and bounded on hostile packets (mode B under sanitizers).

TLC enumerates hostile packets from the generator specs specs/wire/Hp*.tla (sequences of abstract items
rendered to bytes BY THE SPEC; small alphabets exhaustively, then `-simulate` with a seed for longer
packets), checks on the spec that the reference DNS walk terminates within its bound and never looks
outside the message, and gives for every packet its class (`why`), the safety envelope (must the packet be
refused?) and - for DNS name expansion, label sizes, section offsets and the RTP payload span - the full
expected result.  The real functions run in harness/c13_drv.c on exact-size blocks in two builds:
clang ASan+UBSan (heap blocks) and a plain build whose blocks end flush against a PROT_NONE page; an
a per-case CPU-time watchdog bounds run time (a hit is the finding <function>:timeout:<shape>); the driver checks every returned pointer/length against the input span.
Python only renders nothing and computes nothing: it shuttles lines, parses reports and compares values.

Finding keys:  <function>:<kind>:<shape>   function = library function the driver was inside,
kind = oob-read | oob-write | stack-/global-oob-* | segv | negative-size | ubsan-* | timeout | SPAN(<field>) |
accepts-malformed | wrong-result, shape = class of the input computed by the spec."""
import os, re, json, time, threading, hashlib
from concurrent.futures import ThreadPoolExecutor
from rig import common
from rig.common import hexs

DRV_SRC = [os.path.join(common.VERIF, "harness", "c13_drv.c"), "src/proto/http.c"]
ENV = {"ASAN_OPTIONS": "detect_leaks=0:symbolize=0:allocator_may_return_null=1:print_legend=0:handle_abort=0:"
                       "quarantine_size_mb=1:thread_local_quarantine_size_kb=64",
       "UBSAN_OPTIONS": "print_stacktrace=0:halt_on_error=1"}

# ------------------------------------------------------------------------------------------ builds
def build(d):
    out = {}
    def b_asan():
        out["asan"] = common.cc(DRV_SRC, d + "/c13_asan", compiler="clang", san="asan", hooks=False, opt="-O1",
                                flags=["-Wno-unused-function"])
    def b_guard():
        out["guard"] = common.cc(DRV_SRC, d + "/c13_guard", compiler="gcc", san=None, hooks=False, opt="-O1",
                                 flags=["-Wno-unused-function"])
    errs = []
    def wrap(f):
        try: f()
        except Exception as e: errs.append(e)
    ts = [threading.Thread(target=wrap, args=(f,)) for f in (b_asan, b_guard)]
    for t in ts: t.start()
    for t in ts: t.join()
    if errs: raise errs[0]
    return out

# ------------------------------------------------------------------------------------------ driver runs
_ASAN = re.compile(r"ERROR: AddressSanitizer: (\S+)")
_ACC = re.compile(r"^(READ|WRITE) of size", re.M)
_UB = re.compile(r"runtime error: (.*)")
_FAULT = re.compile(r"FAULT sig=(\d+) acc=(\w) where=(\w+) off=(-?\d+)")

def crash_kind(report, status):
    m = _FAULT.search(report)
    if m:
        sig, acc, where = int(m.group(1)), m.group(2), m.group(3)
        if sig in (14, 26): return "timeout"
        if sig == 8: return "fpe"
        if where == "wild": return "segv"
        return "oob-write" if acc == "w" else "oob-read"
    m = _ASAN.search(report)
    if m:
        k = m.group(1); a = _ACC.search(report); acc = (a.group(1).lower() if a else "access")
        if k in ("heap-buffer-overflow", "use-after-poison"): return "oob-" + acc
        if k == "stack-buffer-overflow": return "stack-oob-" + acc
        if k == "global-buffer-overflow": return "global-oob-" + acc
        if k == "negative-size-param:": return "negative-size"
        if k.startswith("negative-size-param"): return "negative-size"
        if k == "SEGV": return "segv"
        return k.strip(":")
    m = _UB.search(report)
    if m:
        t = m.group(1)
        for pat, name in (("overflowed to", "pointer-overflow"), ("applying non-zero offset", "pointer-overflow"),
                          ("pointer index expression", "pointer-overflow"),
                          ("signed integer overflow", "signed-overflow"), ("shift", "shift"),
                          ("misaligned", "misaligned"), ("null pointer", "null-pointer"),
                          ("out of bounds", "index-out-of-bounds"), ("division by zero", "div-by-zero")):
            if pat in t: return "ubsan-" + name
        return "ubsan-other"
    if status == "sig14": return "timeout"
    if status in ("sig11", "sig7"): return "segv"
    return "abort-" + status

OVERRUNS = []
def run_driver(exe, mode, lines, timeout, budget=0):
    """-> list parallel to lines: ('R', fields-dict) | ('X', fn, kind, report) | ('T',) not run (crash budget of the op used up)"""
    res = [None] * len(lines)
    if not lines: return res
    rc, out = common.sh([exe, mode, str(budget)], stdin=("\n".join(lines) + "\n").encode(), timeout=timeout, env=ENV)
    overrun = (rc == 124)           # the rig's own time limit: keep what was answered, the caller decides
    if overrun: out = out[:out.rfind("\n", 0, max(0, out.rfind("[rig] TIMEOUT")))] if "[rig] TIMEOUT" in out else out[:out.rfind("\n") + 1]
    pend = []
    for ln in out.split("\n"):
        if ln.startswith("R "):
            p = ln.split()
            try: i = int(p[1])
            except ValueError: raise common.Infra("garbled driver line: " + ln[:200])
            f = dict(x.split("=", 1) for x in p[3:] if "=" in x); f["_op"] = p[2] if len(p) > 2 else ""
            if len(p) > 3: res[i] = ("R", f)        # "R <idx> <op>" alone is the start of a case that then faulted
            pend = []
        elif ln.startswith("X "):
            m = re.match(r"X (\d+) fn=(\S+) st=(\S+)", ln)
            if not m: raise common.Infra("garbled driver line: " + ln[:200])
            rep = "\n".join(pend)
            res[int(m.group(1))] = ("X", m.group(2), crash_kind(rep, m.group(3)), rep[-1800:]); pend = []
        elif ln.startswith("T "):
            res[int(ln.split()[1])] = ("T",)
        elif ln.strip():
            if len(pend) < 60: pend.append(ln[:300])
    if overrun:
        seen_fail = any(r is not None and r[0] == "X" for r in res)
        if not seen_fail:
            raise common.Infra("driver timeout (%ss) in mode %s without a single failing case" % (timeout, mode))
        OVERRUNS.append("%s/%s: rig time limit %ss reached, %d cases not run" % (os.path.basename(exe), mode, timeout, sum(1 for r in res if r is None)))
        return [r if r is not None else ("T",) for r in res]
    if rc != 0 or any(r is None for r in res):
        missing = [i for i, r in enumerate(res) if r is None][:5]
        raise common.Infra("driver %s/%s rc=%s, unanswered cases %s\n%s" % (os.path.basename(exe), mode, rc, missing, out[-1500:]))
    return res

# ------------------------------------------------------------------------------------------ TLC runs
class Gen:
    def __init__(self, label, module, cfg, sim=None, depth=None, xss=None, workers=1, static=False):
        self.label, self.module, self.cfg, self.sim, self.depth, self.xss, self.workers = label, module, cfg, sim, depth, xss, workers
        self.static = static       # every case is an initial state (no actions): vacuity is checked on the emitted classes instead
        self.r = None; self.cases = []

def run_gen(g, seed):
    r = common.tlc(g.module, cfg=g.cfg, workers=g.workers, simulate=g.sim, depth=g.depth, xss=g.xss, coverage=(g.sim is None and not g.static),
                   seed=(seed if g.sim else None), timeout=1500, xmx="3g")
    if r.rc != 0:
        raise common.Infra("%s/%s: an invariant of the REFERENCE failed inside TLC (spec bug, not a code verdict): %s\n%s"
                           % (g.module, g.cfg, r.violation, r.out[-2500:]))
    raw = common.tlc_printed_json(r.out)
    r.out = r.out[-3000:]
    seen = set(); cases = []
    for c in raw:
        k = hashlib.blake2b(json.dumps(c, sort_keys=True).encode(), digest_size=10).digest()
        if k not in seen: seen.add(k); cases.append(c)
    del raw, seen
    if g.sim is None:
        if len(cases) != r.distinct:
            raise common.Infra("%s/%s: corpus emission lost cases: %d printed vs %d distinct" % (g.module, g.cfg, len(cases), r.distinct))
        for act, (taken, _) in r.coverage.items():
            if taken == 0 and act not in ("Chop", "Action") and not g.static:
                raise common.Infra("%s/%s: action %s never taken (vacuous generator)" % (g.module, g.cfg, act))
    if g.static:       # vacuity on the emitted classes: both kinds of case, every position relative to a length rule
        pos = {c["why"].rsplit("/", 1)[-1] for c in cases if "why" in c}
        if not set(RULE_POS) <= pos or {c.get("kind") for c in cases} != {"pkt", "pw"}:
            raise common.Infra("%s/%s: vacuous generator: rule positions %s, kinds %s" % (g.module, g.cfg, sorted(pos), {c.get("kind") for c in cases}))
    g.r = r; g.cases = cases
    return g

# ------------------------------------------------------------------------------------------ case construction
# every builder returns a list of (line, meta); meta = dict(op=, shape=, plus what the comparator needs).
# Ops that make several library calls are split into phases (last argument) so that one faulting call
# does not hide the calls after it.
def b(c): return hexs(bytes(c["bytes"]))
def slim(c): return {k: v for k, v in c.items() if k not in ("bytes", "stream", "items", "walks", "fields", "opts")}

def mk_dns_name(c):
    out = []; hx = b(c)
    for w in c["walks"]:
        nm = bytes(w["name"])
        caps = sorted({len(nm), len(nm) + 1, len(nm) + 2, 300} - {0}) if w["ok"] else [300, 2]
        for cap in caps:
            out.append(("dns_name %s %d %d" % (hx, w["off"], cap), {"op": "dns_name", "shape": w["cls"], "w": w, "cap": cap}))
        out.append(("dns_name %s %d 0" % (hx, w["off"]), {"op": "dns_nlen", "shape": w["cls"], "w": w}))
    body = bytes(c["bytes"][12:])
    if body:
        sh = "labels-complete" if c["lbl_ok"] else "labels-cut"
        out.append(("dns_lbl %s 0" % hexs(body), {"op": "dns_lbl", "shape": sh, "ok": c["lbl_ok"], "size": c["lbl_end"] - 12}))
        out.append(("dns_lbl %s 1" % hexs(body), {"op": "dns_lbl1", "shape": sh}))
    return out
def mk_dns_msg(c):
    hx = b(c); c = slim(c)
    out = [("dns_msg %s 0" % hx, {"op": "dns_msg0", "shape": c["why"], "c": c}),
           ("dns_msg %s 1" % hx, {"op": "dns_msg1", "shape": c["q12"], "c": c}),
           ("dns_msg %s 2" % hx, {"op": "dns_msg2", "shape": c["rr12"], "c": c})]
    if c["ok"]: out.append(("dns_msg %s 3" % hx, {"op": "dns_msg3", "shape": c["why"], "c": c}))
    return out
def mk_rad(c):
    hx = b(c); c = slim(c)
    out = [("rad %s 0" % hx, {"op": "rad0", "shape": c["why"], "c": c})]
    if not c["must_err"]:
        out += [("rad %s %d" % (hx, ph), {"op": "rad%d" % ph, "shape": c["why"], "c": c}) for ph in (1, 2, 3, 4, 5)]
    return out
RULE_POS = ("empty", "below-min", "min", "inside", "max", "above-max", "off-step")
def mk_rad_attr(c):
    """HpRadiusAttr: a packet whose last attribute sits at an edge of its type's length rule, or a direct password decode"""
    if c["kind"] == "pw":
        v = {"inplace": 0, "sep": 1, "sep+1": 2, "sep-1": 3}[c["variant"]]
        return [("rad_pw %s %d %d" % (b(c), v, c["cap"]), {"op": "rad_pw", "shape": "%s:%s" % (c["why"], c["variant"]), "c": slim(c)})]
    hx = b(c); c = slim(c)
    out = [("rad %s 0" % hx, {"op": "rad0", "shape": c["why"], "c": c})]
    out += [("rad %s %d" % (hx, ph), {"op": "rad%d" % ph, "shape": c["why"], "c": c}) for ph in (1, 2, 3, 4, 5, 6, 7)]
    return out
def mk_simple(op):
    def f(c): return [("%s %s" % (op, b(c)), {"op": op, "shape": c["why"], "c": slim(c)})]
    return f
PHASES = {"http_req": (None,), "http_resp": (None,), "http_chk": (None,), "http_hdr": (0, 1, 2), "http_qry": (0, 1),
          "wsp": (0, 1, 2, 3, 4), "sdp": (0, 1, 2)}
def mk_text(c):
    fam = c["fam"]; sh = "%s:%s" % (c["kind"], c["tok"]); hx = b(c)
    if fam == "http_url":
        n = len(c["bytes"])
        return [("http_url %s %d" % (hx, cap), {"op": "http_url", "shape": sh}) for cap in sorted({1, 2, n, n + 1} - {0})]
    return [(("%s %s" % (fam, hx)) if ph is None else ("%s %s %d" % (fam, hx, ph)), {"op": fam, "shape": sh}) for ph in PHASES[fam]]
def mk_ts(c):
    one = bytes(c["bytes"]); st = bytes(c["stream"]); f = c["fields"]; c = slim(c)
    out = []
    if f["pre"] == 0 and f["cut"] == 0:
        out += [("ts %s 0" % hexs(one), {"op": "ts", "shape": c["why"], "c": c}),
                ("ts %s 2" % hexs(one + one), {"op": "ts2", "shape": c["why"] + "/x2", "c": c})]
    sh = c["why"] + ("/stream" if c["has_pkt"] else "/stream-no-packet")
    out += [("ts %s 1" % hexs(st), {"op": "ts1", "shape": sh, "c": c}),
            ("ts %s 2" % hexs(st), {"op": "ts2", "shape": sh, "c": c})]
    return out

# ------------------------------------------------------------------------------------------ comparators
def I(f, k): return int(f[k])
def cmp_case(meta, f):
    """-> None or (function, kind) for a value-level disagreement with the spec"""
    op = meta["op"]
    if op == "dns_name":
        w = meta["w"]; nm = bytes(w["name"])
        if not w["ok"]:
            if I(f, "rc") == 0: return ("dns_msg_sequence_of_labels2name", "accepts-malformed")
        elif I(f, "rc") == 0 and (I(f, "len") != len(nm) or common.unhex(f["name"]) != nm):
            return ("dns_msg_sequence_of_labels2name", "wrong-result")
    elif op == "dns_nlen":
        w = meta["w"]
        if not w["ok"]:
            if I(f, "rc") == 0: return ("dns_msg_sequence_of_labels_get_name_len", "accepts-malformed")
        elif I(f, "rc") == 0 and I(f, "len") != len(w["name"]):
            return ("dns_msg_sequence_of_labels_get_name_len", "wrong-result")
    elif op == "dns_lbl":
        if not meta["ok"] and I(f, "rc") == 0: return ("SequenceOfLabelsGetSize", "accepts-malformed")
        if meta["ok"] and I(f, "rc") == 0 and I(f, "size") != meta["size"]: return ("SequenceOfLabelsGetSize", "wrong-result")
    elif op in ("dns_msg0", "dns_msg3"):
        c = meta["c"]
        if I(f, "rc") == 0:
            if not c["ok"]: return ("dns_msg_info_get", "accepts-malformed")
            if [I(f, "qd"), I(f, "an"), I(f, "ns"), I(f, "ar"), I(f, "msz")] != c["offs"]: return ("dns_msg_info_get", "wrong-result")
    elif op == "rad0":
        if meta["c"]["must_err"] and I(f, "rc") == 0: return ("radius_pkt_chk", "accepts-malformed")
    elif op == "rad_pw":
        if I(f, "rc") == 0 and I(f, "out") > meta["c"]["max_out"]: return ("radius_pkt_attr_password_decode", "SPAN(buf_size_ret)")
    elif op == "dhcp":
        if meta["c"]["must_refuse"] and I(f, "rc") == 0: return ("dhcp4_hdr_check", "accepts-malformed")
    elif op == "rtp":
        c = meta["c"]
        if I(f, "rc") == 0:
            if not c["fits"]: return ("rtp_payload_get", "accepts-malformed")
            if (I(f, "start"), I(f, "end")) != (c["start"], c["end"]): return ("rtp_payload_get", "wrong-result")
    elif op == "sap":
        if meta["c"]["must_refuse"] and I(f, "valid") != 0: return ("sap_packet_is_valid", "accepts-malformed")
    elif op == "ts":
        if meta["c"]["must_refuse"] and I(f, "valid") != 0: return ("mpeg2_ts_pkt_is_valid", "accepts-malformed")
    elif op == "ts1":
        if not meta["c"]["has_pkt"] and I(f, "next0") != 0: return ("mpeg2_ts_pkt_get_next", "accepts-malformed")
    return None

# ------------------------------------------------------------------------------------------ main
def plan(ctx):
    q = ctx.quick
    T = "" if q else "_thorough"
    gens = [
        (Gen("dns-name", "HpDnsNameGen", "HpDnsNameGen%s.cfg" % T, xss="64m", workers=(2 if q else 4)), mk_dns_name),
        (Gen("text", "HpText", "HpText%s.cfg" % T, workers=(2 if q else 4)), mk_text),
        (Gen("dns-msg", "HpDnsMsgGen", "HpDnsMsgGen%s.cfg" % T, xss="64m", workers=(1 if q else 4)), mk_dns_msg),
        (Gen("radius", "HpRadius", "HpRadius%s.cfg" % T, workers=(1 if q else 4)), mk_rad),
        (Gen("radius-attr-rules", "HpRadiusAttr", "HpRadiusAttr%s.cfg" % T, workers=1, static=True), mk_rad_attr),
        (Gen("dns-name-chain", "HpDnsNameGen", "HpDnsNameGen_chain.cfg", xss="64m"), mk_dns_name),
        (Gen("dhcp4", "HpDhcp4", "HpDhcp4%s.cfg" % T), mk_simple("dhcp")),
        (Gen("rtp", "HpRtp", "HpRtp%s.cfg" % T, workers=(1 if q else 2)), mk_simple("rtp")),
        (Gen("sap", "HpSap", "HpSap%s.cfg" % T), mk_simple("sap")),
        (Gen("mpeg-ts", "HpTs", "HpTs%s.cfg" % T), mk_ts),
    ]
    n = 1 if q else 24          # simulation volume multiplier
    sims = [
        (Gen("text/sim", "HpText", "HpText_sim.cfg", sim=60 * n, depth=16), mk_text),
        (Gen("dns-name/sim", "HpDnsNameGen", "HpDnsNameGen_sim.cfg", sim=10 * n, depth=14, xss="64m"), mk_dns_name),
        (Gen("dns-msg/sim", "HpDnsMsgGen", "HpDnsMsgGen_sim.cfg", sim=15 * n, depth=10, xss="64m"), mk_dns_msg),
        (Gen("radius/sim", "HpRadius", "HpRadius_sim.cfg", sim=15 * n, depth=20), mk_rad),
    ]
    return gens + sims

def run(ctx):
    ctx.level = "exploration"
    d = common.scratch()
    exes = {}
    bt = threading.Thread(target=lambda: exes.update(build(d)))
    bt.start()
    pl = plan(ctx)
    gmodes = [("guard", "ghi"), ("guard", "glo")]; am = ("asan", "heap"); modes = gmodes + [am]
    budget = 1000 if ctx.quick else 3000                 # ASan/UBSan aborts per driver op and generator
    known = {k["key"] for k in common.known_open(ctx.prop)}
    fails = {}      # key -> [count, first line, detail, builds]
    def note(key, line, detail, build):
        e = fails.setdefault(key, [0, line, detail, set()]); e[0] += 1; e[3].add(build)
    tot = {"cases": 0, "evals": 0, "crashing": 0, "refused_valid": 0, "nontriv": 0, "skipped": 0, "truncated": 0, "guard_not_run": 0, "tlc_s": 0.0, "drv_s": 0.0}
    per_gen = {}; samples = []; seen_lines = set(); dump = os.environ.get("C13_DUMP")
    TRIVIAL = ("plain", "compressed", "fits", "struct-ok", "ok", "hdr-full", "ends:text")

    def process(g, mk):
        """render -> drivers -> compare for ONE generator (keeps memory bounded by the largest corpus)"""
        ctx.tlc_stats(g.r, "%s: %s/%s%s" % (g.label, g.module, g.cfg, (" -simulate num=%d seed=%d" % (g.sim, ctx.seed)) if g.sim else ""))
        ctx.cov["tlc_runs"][-1]["packets_emitted"] = len(g.cases)
        tot["tlc_s"] += g.r.wall
        lines = []; metas = []
        for c in g.cases:
            for ln, meta in mk(c):
                h = hashlib.blake2b(ln.encode(), digest_size=10).digest()
                if h in seen_lines: continue          # the same bytes reached twice keep the first class
                seen_lines.add(h); metas.append(meta)
                lines.append("%s @%s/%s" % (ln, meta["op"], meta["shape"]))      # class tag: watchdog budget in the driver
        g.cases = None
        if dump: open(dump, "a").write("\n".join(lines) + "\n")
        t0 = time.time()
        # guard-page builds first (a fault costs microseconds there); the ASan+UBSan build then runs every case that
        # did not already fault at an edge of its block (each ASan abort costs a process)
        results = {}
        for bm in gmodes:
            results[bm] = run_driver(exes[bm[0]], bm[1], lines, timeout=(300 if ctx.quick else 1800))
        surv = [i for i in range(len(lines)) if all(results[bm][i][0] != "X" for bm in gmodes)]
        ares = run_driver(exes["asan"], "heap", [lines[i] for i in surv], timeout=(400 if ctx.quick else 2400), budget=budget)
        results[am] = [("S",)] * len(lines)
        for i, r in zip(surv, ares): results[am][i] = r
        tot["truncated"] += sum(1 for r in ares if r[0] == "T"); tot["skipped"] += len(lines) - len(surv)
        tot["guard_not_run"] += sum(1 for bm in gmodes for r in results[bm] if r[0] == "T")
        tot["drv_s"] += time.time() - t0
        st = per_gen.setdefault(g.label, {"cases": 0, "crashing": 0, "accepted": 0})
        for i, (ln, meta) in enumerate(zip(lines, metas)):
            st["cases"] += 1
            if meta["shape"] not in TRIVIAL and meta["shape"].rsplit("/", 1)[-1].split(":")[0] not in ("min", "inside", "max"):
                tot["nontriv"] += 1      # (an attribute whose length its type allows is not hostile)
            crashed = any(results[bm][i][0] == "X" for bm in modes)
            for bm in modes:
                r = results[bm][i]; bname = "%s/%s" % bm
                if r[0] in ("S", "T"): continue
                tot["evals"] += 1
                if crashed and r[0] != "X": continue      # the case is reported once, by its fault
                if r[0] == "X":
                    note("%s:%s:%s" % (r[1], r[2], meta["shape"]), ln, "build %s\ncase %s\n%s" % (bname, ln, r[3]), bname)
                    continue
                f = r[1]
                if "span" in f:
                    fn, field = f["span"].split("/", 1)
                    note("%s:SPAN(%s):%s" % (fn, field, meta["shape"]), ln, "build %s\ncase %s\nanswer %s" % (bname, ln, f), bname)
                try:
                    v = None if "span" in f else cmp_case(meta, f)
                except (KeyError, ValueError) as e:
                    raise common.Infra("unparsable answer for %s: %s (%s)" % (ln, f, e))
                if v:
                    exp = {k: meta[k] for k in ("w", "ok", "size") if k in meta}
                    if "c" in meta: exp = {k: meta["c"].get(k) for k in ("why", "ok", "offs", "must_err", "must_refuse", "fits", "start", "end", "has_pkt") if k in meta["c"]}
                    note("%s:%s:%s" % (v[0], v[1], meta["shape"]), ln, "build %s\ncase %s\nspec %s\nanswer %s" % (bname, ln, exp, f), bname)
                if bm == modes[0]:
                    if meta["op"] == "dns_name" and meta["w"]["ok"] and meta["cap"] >= len(meta["w"]["name"]) + 2 and int(f["rc"]) != 0:
                        tot["refused_valid"] += 1
                    if f.get("rc") == "0" or f.get("valid") == "1": st["accepted"] += 1
            if crashed: tot["crashing"] += 1; st["crashing"] += 1
        tot["cases"] += len(lines)
        if lines:
            i = len(lines) // 2; r0 = results[modes[0]][i]
            samples.append({"line": lines[i][:200], "shape": metas[i]["shape"], "gen": g.label,
                            "answer": ({k: v for k, v in r0[1].items() if k != "_op"} if r0[0] == "R" else list(r0[1:3]))})
        if os.environ.get("C13_DEBUG"):
            ctx.log("  %-16s %7d packets %7d cases  TLC %5.1fs  drivers %5.1fs" % (g.label, g.r.distinct or len(lines), len(lines), g.r.wall, time.time() - t0))

    # TLC: several small JVMs at once (at most 4 worker threads in total); generators are consumed in plan order
    with ThreadPoolExecutor(max_workers=(3 if ctx.quick else 2)) as ex:
        futs = [ex.submit(run_gen, g, ctx.seed) for g, _ in pl]
        bt.join()
        if "asan" not in exes or "guard" not in exes: raise common.Infra("driver build failed")
        for (g, mk), f in zip(pl, futs):
            f.result(); process(g, mk)
    ctx.log("%d TLC runs (%.0fs of TLC), %d cases in 3 builds (%.0fs of driver runs); ASan build skipped %d cases that faulted in a guard build, %d not run (crash budget)"
            % (len(pl), tot["tlc_s"], tot["cases"], tot["drv_s"], tot["skipped"], tot["truncated"]))

    # symbolized report for keys that are not registered findings (one re-run per key, ASan build)
    for key, (cnt, ln, detail, builds) in sorted(fails.items()):
        if key not in known and any(b.startswith("asan") for b in builds) and ":SPAN" not in key:
            env = dict(ENV); env["ASAN_OPTIONS"] = env["ASAN_OPTIONS"].replace("symbolize=0", "symbolize=1")
            env["UBSAN_OPTIONS"] = "print_stacktrace=1:halt_on_error=1"
            _, o = common.sh([exes["asan"], "heap"], stdin=(ln + "\n").encode(), timeout=60, env=env)
            detail += "\n--- symbolized re-run ---\n" + o[-2500:]
        ctx.fail(key, "%d case(s), builds %s; first:\n%s" % (cnt, sorted(builds), detail), {"case": ln, "builds": sorted(builds)})
    if OVERRUNS: ctx.cov["note_rig_time_limit"] = list(OVERRUNS)
    if tot["truncated"] or tot["guard_not_run"]:
        ctx.cov["note_crash_budget"] = ("not run: %d cases in the ASan build, %d in the guard builds - the abort budget (%d worker deaths per driver op and "
                                        "generator) or the watchdog budget (3 timeouts per (op, input class) and driver run) was used up by cases that "
                                        "are reported as failures" % (tot["truncated"], tot["guard_not_run"], budget))
    ctx.add(evaluations=tot["evals"], distinct_nontrivial=tot["nontriv"], cases=tot["cases"],
            asan_cases_skipped_after_guard_fault=tot["skipped"], asan_cases_not_run_crash_budget=tot["truncated"],
            guard_cases_not_run_timeout_budget=tot["guard_not_run"],
            crashing_cases=tot["crashing"], distinct_failure_keys=len(fails), dns_names_valid_but_refused=tot["refused_valid"],
            builds=["gcc -O1, PROT_NONE page directly after the block", "gcc -O1, PROT_NONE page directly before the block",
                    "clang -O1 ASan+UBSan, exact-size heap blocks"])
    ctx.cov["per_generator"] = per_gen
    ctx.add(samples=samples)
    ctx.cov["rule"] = ("cases = reachable states of the Hp* generator specs (exhaustive over the configured item alphabets and "
                       "lengths, plus TLC -simulate traces seeded with VERIF_SEED), each rendered to bytes by the spec and run in every "
                       "build; non-trivial = the spec classifies the packet as hostile (anything but plain/compressed/fits/struct-ok/ok/hdr-full/ends:text); "
                       "distinct by driver line (operation, bytes, arguments)")
    ctx.assumptions += [
        "the TLA+ modules specs/wire/Hp*.tla are the oracle for DNS name expansion/label sizes/section offsets/RTP spans and for the "
        "'must be refused' envelope; elsewhere the envelope (error, or every returned pointer/length inside the input) is decided by the driver on the span itself",
        "out-of-bounds accesses are observed (ASan/UBSan red zones, PROT_NONE guard pages), not modelled; reading the byte AT buf+size counts as outside",
        "RADIUS attribute walkers are only called on packets radius_pkt_chk accepted, with the message = the first `length` bytes (their documented contract)",
        "offset arguments are caller-chosen positions that a caller really reaches (record/attribute boundaries, including the end position), not arbitrary integers",
        "a case that faults in one build is reported by that fault only; an open finding therefore hides later misbehaviour of the same function on the same input class",
        "unbounded loops are observed by a per-case watchdog (1 s of CPU time, 10 s wall clock); after 3 hits in one (op, input class) the rest of that class is not run and counted",
    ]
