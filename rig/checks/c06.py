"""C06 - event and timer registrations fire exactly as their flags and units say
(model checking of TpEvent + trace validation of registration histories + spec-generated timer table)."""
import random, json, os, re
from rig import common, tp
from rig.checks import c05, c10, c11

EV_EVENTS = {"evnew", "call.ev", "ret.ev", "loop.gate", "loop.cb", "evcb", "mkready", "drained", "peerclose", "evcount",
             "readerclose", "evreopen", "evmin"}
KEEP = c11.KEEP | EV_EVENTS

def prep(evs):
    """decode packed hook values and keep only the loop events that concern user event objects (pure decoding)"""
    out = []
    for e in evs:
        if e["e"] in ("loop.gate", "loop.cb"):
            if e.get("b", 0) < 200000: continue            # message pipes / internal descriptors: TpMsg covers them
            e = dict(e); e["u"] = e["b"] - 200000
            if e["e"] == "loop.cb": e["evk"] = e["vlo"] & 0xffff
        out.append(e)
    return c11.prep(out)

def dig2int(d):
    v = 0
    for x in reversed(d): v = v * 1000 + x
    return v

def timer_table(ctx, exe, d):
    r = common.tlc("GenTimer", workers=1, timeout=600)
    ctx.tlc_stats(r, "GenTimer (timer programming table)")
    if r.rc != 0: raise common.Infra("GenTimer algebra failed in TLC: %s\n%s" % (r.violation, r.out[-1500:]))
    cases = {json.dumps(c, sort_keys=True): c for c in common.tlc_printed_json(r.out)}
    cases = list(cases.values())
    if len(cases) != r.distinct - 1: raise common.Infra("timer corpus lost cases: %d vs %d" % (len(cases), r.distinct))  # initial state repeats one case
    L = ["m perturb 0", "m pool 1 0", "m start 0", "m waitrun"]
    for k, c in enumerate(cases):
        x = c["in"]
        fl = {"persist": 0, "oneshot": 1, "dispatch": 2}[x["mode"]]
        ff = x["unit"] | (4 if x["abs"] else 0)
        # issued on the owning thread (inside one callback): expiries cannot interleave with add/delete
        L += ["w0 evnew 1 2 0 0 0", "w0 evadd 1 0 2 %d %d %d" % (fl, ff, dig2int(x["d"])), "w0 evdel 1 0 2 0 0 0"]
        if k % 250 == 249 or k == len(cases) - 1: L += ["m spawn w0", "m join w0"]
    L += ["m quiesce", "m shutdown", "m sleep 20000", "m shutdown_wait", "m destroy", "m reset"]
    rc, out, evs = tp.run_scenario(exe, "\n".join(L) + "\n", d, ctx.seed, "c06_timer", timeout=120 if ctx.quick else 300)
    bad = [e for e in evs if e["e"] in ("Hang", "Crash")]
    if bad:      # the pool hung or died while programming timers: a verdict about the code under test
        ctx.fail("timer:run:tp_drv:%s:%s" % (bad[0]["e"], bad[0].get("where", bad[0].get("sig", ""))), out[-1500:] + "\n" + json.dumps(evs[-20:], indent=0), {"seed": ctx.seed})
        return
    if rc == 124:
        rc, out, evs = tp.run_scenario(exe, "\n".join(L) + "\n", d, ctx.seed, "c06_timer", timeout=120 if ctx.quick else 300)
        if rc == 124:
            ctx.fail("timer:run:tp_drv:timeout", out[-1500:], {"seed": ctx.seed}); return
    if rc != 0: raise common.Infra("tp_drv (timer table) rc=%s\n%s" % (rc, out[-1500:]))
    # pair every evadd with the settime it caused
    i = 0; k = -1; nontriv = 0
    cur = None
    for e in evs:
        if e["e"] == "call.ev" and e["op"] == 0 and e["ev"] == 2:
            k += 1; cur = {"case": cases[k], "settime": None}
        elif e["e"] == "sys.settime" and cur is not None and cur["settime"] is None:
            cur["settime"] = e
        elif e["e"] == "ret.ev" and cur is not None:
            c = cur["case"]; x = c["expect"]; st = cur["settime"]; cur = None
            ctx.add(evaluations=1)
            key = None
            exp = (dig2int(x["sec"]), x["nsec"], dig2int(x["isec"]), x["insec"], 1 if x["abs"] else 0)
            got = None if st is None else (int(st["vs"]), int(st["vn"]), int(st["is"]), int(st["in"]), st["abs"])
            if x["class"] == "unspecified": continue
            nontriv += 1
            if st is None:
                key = "timer:no-settime-call"
            elif got != exp:
                key = "timer:%s:wrong-itimerspec" % ["sec", "msec", "usec", "nsec"][c["in"]["unit"]]
            elif x["class"] == "exact" and (e["rc"] != 0 or st["rc"] != 0):
                key = "timer:%s:refused" % ["sec", "msec", "usec", "nsec"][c["in"]["unit"]]
            if key:
                ctx.fail(key, "case %s\nexpected (sec,nsec,isec,insec,abs)=%s\ngot %s rc=%s" % (json.dumps(c["in"]), exp, got, e["rc"]),
                         {"case": c})
    if k + 1 != len(cases): raise common.Infra("timer table: %d adds seen for %d cases" % (k + 1, len(cases)))
    ctx.add(distinct_nontrivial=nontriv, samples=[{"timer_case": cases[37]}])

def ev_scenarios(rng, sid):
    """registration histories on one pool; returns scenario text"""
    n = rng.choice([1, 2, 3])
    L = ["m pool %d 0" % n, "m start 0", "m waitrun"]
    u = [0]
    def nu():
        u[0] += 1; return u[0]
    def by(o, line, foreign):      # issue an op from the owning thread or from outside
        return ("m %s" % line) if foreign else ("w%d %s" % (o, line))
    blocks = []; kind_of = {}
    kinds = ["reopen-write", "err-write", "del-other", "oneshot-write", "persist", "oneshot", "dispatch", "write", "timer1", "timerP", "timerD", "eof", "eof-half", "malformed", "foreign-disable", "redel"]
    rng.shuffle(kinds)
    kinds = kinds[:rng.randint(4, 8)]
    # registrations on the pool's VIRTUAL thread (owner = n): every worker polls that queue, the callback runs on whichever
    # worker finds it ready; a disabled one stays silent also when the descriptor hangs up
    kinds.insert(rng.randrange(len(kinds) + 1), rng.choice(["pvt-disabled-hup", "pvt-disabled-hup", "pvt-oneshot"]))
    if sid % 2 == 0 and "eof-half" not in kinds: kinds.insert(rng.randrange(len(kinds) + 1), "eof-half")
    for kind in kinds:
        o = rng.randrange(n); x = nu(); f = rng.random() < 0.5
        if kind in ("persist", "write", "timerP", "eof", "eof-half"):
            f = False    # the callback of these objects disables itself: a concurrent foreign call on the same object would be a data race of the scenario
        B = []
        if kind == "persist":
            B += ["m evnew %d 0 2 3 3" % x, by(o, "evadd %d %d 0 0 0 0" % (x, o), f), "m mkready %d" % x, "m evwait %d 3 3000" % x, "Q", "m evcount %d" % x,
                  by(o, "even %d %d 0 0 0 0" % (x, o), f), "m evwait %d 4 3000" % x, "Q", "m evcount %d" % x, by(o, "evdel %d %d 0 0 0 0" % (x, o), f)]
        elif kind == "oneshot":
            B += ["m evnew %d 0 0 0 1" % x, by(o, "evadd %d %d 0 1 0 0" % (x, o), f), "m mkready %d" % x, "m evwait %d 1 3000" % x, "Q", "m evcount %d" % x,
                  "m mkready %d" % x, "Q", "m evcount %d" % x, by(o, "evadd %d %d 0 1 0 0" % (x, o), f), "m evwait %d 2 3000" % x, "Q", "m evcount %d" % x]
        elif kind == "reopen-write":
            # the descriptor is closed without deleting the registration and its number is reused: adding again with the
            # same user object must install the event (the library's MOD -> ENOENT -> ADD fallback)
            B += ["m evnew %d 1 2 1 0" % x, "m fillpipe %d" % x, by(o, "evadd %d %d 1 0 0 0" % (x, o), False), "Q", "m evcount %d" % x,
                  "m evreopen %d" % x, by(o, "evadd %d %d 1 0 0 0" % (x, o), False), "m evmin %d 1" % x, "m evwait %d 1 3000" % x, "Q", "m evcount %d" % x]
        elif kind == "err-write":
            # write end registered, the reader goes away: the kernel reports EPOLLERR without a hang-up bit
            B += ["m evnew %d 1 2 2 0" % x, "m readerclose %d" % x, by(o, "evadd %d %d 1 0 0 0" % (x, o), False), "m evwait %d 1 3000" % x, "Q",
                  "m evcount %d" % x]
        elif kind == "del-other":
            # two registrations on one thread, both ready before the loop polls again (added inside ONE callback of the
            # owner); whichever fires first deletes both: the other one must never be called
            y = nu()
            B += ["m evnew %d 0 5 %d 1" % (x, y), "m evnew %d 0 5 %d 0" % (y, x), "m mkready %d" % x, "m mkready %d" % y,
                  "w%d evadd %d %d 0 0 0 0" % (o, x, o), "w%d evadd %d %d 0 0 0 0" % (o, y, o), "SPAWN",
                  "m evwait %d 1 3000" % x, "Q", "m evfree %d" % y]
        elif kind == "oneshot-write":
            B += ["m evnew %d 1 0 0 1" % x, by(o, "evadd %d %d 1 1 0 0" % (x, o), f), "m evwait %d 1 3000" % x, "Q", "m evcount %d" % x]
        elif kind == "dispatch":
            B += ["m evnew %d 0 0 0 1" % x, by(o, "evadd %d %d 0 2 0 0" % (x, o), f), "m mkready %d" % x, "m evwait %d 1 3000" % x, "Q", "m evcount %d" % x,
                  by(o, "even %d %d 0 2 0 0" % (x, o), f), "m evwait %d 2 3000" % x, "Q", "m evcount %d" % x, by(o, "evdis %d %d 0 2 0 0" % (x, o), f),
                  "m mkready %d" % x, "Q", "m evcount %d" % x, by(o, "evdel %d %d 0 0 0 0" % (x, o), f)]
        elif kind == "write":
            B += ["m evnew %d 1 2 2 2" % x, by(o, "evadd %d %d 1 0 0 0" % (x, o), f), "m evwait %d 2 3000" % x, "Q", "m evcount %d" % x, by(o, "evdel %d %d 1 0 0 0" % (x, o), f)]
        elif kind == "timer1":
            B += ["m evnew %d 2 0 0 1" % x, by(o, "evadd %d %d 2 1 1 2" % (x, o), f), "m evwait %d 1 3000" % x, "m sleep 8000", "Q", "m evcount %d" % x]
        elif kind == "timerP":
            B += ["m evnew %d 2 2 3 3" % x, by(o, "evadd %d %d 2 0 2 700" % (x, o), f), "m evwait %d 3 3000" % x, "m sleep 5000", "Q", "m evcount %d" % x,
                  by(o, "evdel %d %d 2 0 0 0" % (x, o), f)]
        elif kind == "timerD":
            B += ["m evnew %d 2 0 0 1" % x, by(o, "evadd %d %d 2 2 1 2" % (x, o), f), "m evwait %d 1 3000" % x, "m sleep 8000", "Q", "m evcount %d" % x,
                  by(o, "even %d %d 2 2 1 2" % (x, o), f), "m evwait %d 2 3000" % x, "m sleep 8000", "Q", "m evcount %d" % x, by(o, "evdel %d %d 2 0 0 0" % (x, o), f)]
        elif kind == "eof":
            B += ["m evnew %d 3 2 2 0" % x, by(o, "evadd %d %d 0 0 0 0" % (x, o), f), "m peerclose %d" % x, "Q", "m evcount %d" % x,
                  by(o, "evdel %d %d 0 0 0 0" % (x, o), f)]
        elif kind == "eof-half":
            # the peer only shut its sending side down (FIN, descriptor still open): end of stream must be flagged as well
            B += ["m evnew %d 3 2 2 0" % x, by(o, "evadd %d %d 0 0 0 0" % (x, o), f), "m peershut %d" % x, "m evwait %d 1 3000" % x, "Q", "m evcount %d" % x,
                  by(o, "evdel %d %d 0 0 0 0" % (x, o), f)]
        elif kind == "malformed":
            B += ["m evnew %d 0 0 0 0" % x]
            for (ev, fl, ff) in [(0, 3, 0), (0, 16, 0), (7, 0, 0), (2, 0, 8), (0, 0, 2), (1, 1, 4), (2, 3, 1)]:
                B.append(by(o, "evadd %d %d %d %d %d 5" % (x, o, ev, fl, ff), f))
            B += ["m mkready %d" % x, "Q", "m evcount %d" % x]
        elif kind == "foreign-disable":
            B += ["m evnew %d 0 0 0 1" % x, "m evadd %d %d 0 0 0 0" % (x, o), "m mkready %d" % x, "m evwait %d 1 3000" % x,
                  "m evdis %d %d 0 0 0 0" % (x, o), "Q", "m evcount %d" % x, "m evdel %d %d 0 0 0 0" % (x, o)]
        elif kind == "pvt-disabled-hup":
            B += ["m evnew %d 3 0 0 0" % x, "m evadd %d %d 0 0 0 0" % (x, n), "m evdis %d %d 0 0 0 0" % (x, n), "Q", "m evcount %d" % x,
                  "m peerclose %d" % x, "Q", "m sleep 15000", "m evcount %d" % x, "m evdel %d %d 0 0 0 0" % (x, n)]
        elif kind == "pvt-oneshot":
            B += ["m evnew %d 0 0 0 1" % x, "m evadd %d %d 0 1 0 0" % (x, n), "m mkready %d" % x, "m evwait %d 1 3000" % x, "Q", "m evcount %d" % x,
                  "m mkready %d" % x, "Q", "m evcount %d" % x]
        elif kind == "redel":
            B += ["m evnew %d 0 0 0 0" % x, by(o, "evadd %d %d 0 0 0 0" % (x, o), f), by(o, "evdel %d %d 0 0 0 0" % (x, o), f),
                  "m mkready %d" % x, "Q", "m evcount %d" % x, by(o, "evdel %d %d 0 0 0 0" % (x, o), f)]
        B.append("m evfree %d" % x)
        kind_of[id(B)] = kind
        blocks.append((o, B))
    # emit: worker-actor lines are grouped into a program that is spawned and joined in place
    for o, B in blocks:
        for ln in B:
            if ln == "Q": L += ["m quiesce", "m sleep 3000"]
            elif ln == "SPAWN": L += ["m spawn w%d" % o, "m join w%d" % o]
            elif ln.startswith("w") and kind_of.get(id(B)) == "del-other": L.append(ln)
            elif ln.startswith("w"):
                L += [ln, "m spawn w%d" % o, "m join w%d" % o]
            else: L.append(ln)
    L += ["m quiesce", "m shutdown", "m sleep 20000", "m shutdown_wait", "m destroy", "m reset"]
    return "\n".join(L) + "\n"

def run(ctx):
    ctx.level = "model_checking"
    d = common.scratch()
    rng = random.Random(ctx.seed * 32452843 + 17)
    r = common.tlc("MC_TpEvent", cfg="MC_TpEvent.cfg" if ctx.quick else "MC_TpEvent_big.cfg", workers=4, coverage=True, timeout=1200)
    ctx.tlc_stats(r, "MC_TpEvent")
    if r.rc != 0: ctx.fail("model:TpEvent:" + (r.violation or "error"), r.out[-3000:], {})
    never = [a for a, (taken, _) in r.coverage.items() if taken == 0]
    if never: raise common.Infra("vacuity: MC_TpEvent actions never taken: %s" % never)
    exe = tp.build(d)
    timer_table(ctx, exe, d)
    nsc = 12 if ctx.quick else 200
    ntr = 0; total_ev = 0; samples = []
    run_failures = 0
    for sid in range(1, nsc + 1):
        if run_failures >= 2:
            ctx.log("pool hung/died in %d scenario runs (reported): the remaining scenarios are not run" % run_failures); break
        text = ev_scenarios(rng, sid)
        rc, out, evs = tp.run_scenario(exe, text, d, ctx.seed + sid, "c06_%d" % sid, timeout=60)
        bad = [e for e in evs if e["e"] in ("Hang", "BadOp", "Crash")]
        if rc != 0 or bad:
            ctx.log("driver run failed (rc=%s %s): one retry" % (rc, bad[:1]))
            rc, out, evs = tp.run_scenario(exe, text, d, ctx.seed + sid, "c06_%d" % sid, timeout=60)
            bad = [e for e in evs if e["e"] in ("Hang", "BadOp", "Crash")]
        if bad and bad[0]["e"] in ("Hang", "Crash"):
            ctx.fail("run:tp_drv:%s:%s" % (bad[0]["e"], bad[0].get("where", bad[0].get("sig", ""))), out[-1500:] + "\n" + json.dumps(evs[-25:], indent=0),
                     {"scenario": text, "seed": ctx.seed + sid})
            run_failures += 1
            continue
        if rc == 124 and not bad:
            # twice in a row the scenario (seconds on a healthy pool) did not finish within the rig's 60 s: threads of the
            # pool are stuck while the main thread keeps running its bounded waits - the code under test, not the rig
            ctx.fail("run:tp_drv:timeout", out[-1500:], {"scenario": text, "seed": ctx.seed + sid})
            run_failures += 1
            continue
        if rc != 0 or bad: raise common.Infra("tp_drv rc=%s %s\n%s" % (rc, bad[:2], out[-1500:]))
        ok, info, r = tp.validate(ctx, prep(evs), d, "c06_%d" % sid, KEEP)
        ntr += 1; total_ev += info["events"]
        if not samples: samples.append({"scenario": text.split("\n")[:20], "events_validated": info["events"]})
        if not ok:
            ev = (info.get("context") or [{}])[-1]
            rc2, out2, evs2 = tp.run_scenario(exe, text, d, ctx.seed + sid, "c06r_%d" % sid, timeout=200)
            ok2, info2, _ = tp.validate(ctx, prep(evs2), d, "c06r_%d" % sid, KEEP)
            ev2 = (info2.get("context") or [{}])[-1]
            if not ok2 and ev2.get("e") == ev.get("e"):
                ctx.fail("trace:TpEvent:rejected-at:%s" % ev.get("e"), json.dumps(info, indent=1)[:4000], {"scenario": text, "seed": ctx.seed + sid})
            else:
                ctx.log("rejection not reproduced on re-run (not reported): %s" % str(ev)[:300])
    ctx.add(traces_validated_against_impl=ntr, events_validated=total_ev, samples=samples)
    ctx.cov["rule"] = "timer table: reachable states of GenTimer (unit x boundary/random 64-bit values x relative/absolute x persistent/oneshot/dispatch), non-trivial = class exact or may-refuse; histories: add/enable/disable/delete/fire sequences per event kind issued from the owning thread or from outside, each validated event by event against TpEvent"
    ctx.assumptions += ["kernel readiness/timer expiry is environment; 'keeps firing' is observed as >= k callbacks within a sentinel-quiesced window",
                        "kqueue backend, TP_EV_PROC and SO_RCVLOWAT are not exercised"]
