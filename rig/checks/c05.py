"""C05 - thread-pool messages: exactly once, in order, on the right thread (model checking + trace validation)."""
import random, json, os
from rig import common, tp

KEEP = {"send.enter", "send.direct", "send.running", "send.notrunning", "wr", "ret.send", "rd", "recv.run",
        "cb", "quiesce", "Reset"} | tp.LIFE_CREATE

def gen_scenario(rng, sid, big=False):
    """one life of a pool: create, start, concurrent senders, quiesce, destroy"""
    n = rng.choice([1, 2, 2, 3, 3, 4, 8, 16] if big else [1, 2, 3, 3, 4])
    small_pipe = rng.random() < 0.6
    L = ["m pool %d %d" % (n, 4096 if small_pipe else 0)]
    skip = 1 if (n > 1 and rng.random() < 0.2) else 0          # thread 0 never started -> EHOSTDOWN / FORCE paths
    L += ["m start %d" % skip, "m waitrun"]
    mid = [(sid % 40) * 1000 + 1]
    def nid():
        mid[0] += 1; return mid[0] - 1
    dsts = list(range(n)) + [n]                                 # workers + pvt
    flood = small_pipe and rng.random() < 0.35 and n >= 2
    actors = []
    ne = rng.randint(1, 3)
    victim = rng.randrange(skip, n) if flood else None
    for k in range(1, ne + 1):
        a = "e%d" % k; actors.append(a)
        cnt = rng.randint(70, 110) if flood else rng.randint(2, 14)
        for _ in range(cnt):
            d = victim if (flood and rng.random() < 0.9) else rng.choice(dsts)
            L.append("%s send %d %d %d" % (a, d, rng.choice([0, 0, 0, 1, 2, 4, 4, 5, 6, 7, 3]), nid()))
    live = list(range(skip, n))
    wact = rng.sample(live, min(len(live), rng.randint(0, 2)))
    if flood and victim not in wact: wact.append(victim)
    for w in wact:
        a = "w%d" % w; actors.append(a)
        if flood and w == victim: L.append("%s block 0" % a)
        for _ in range(rng.randint(1, 8)):
            L.append("%s send %d %d %d" % (a, rng.choice(dsts + [w]), rng.choice([0, 0, 1, 1, 3, 4, 5, 7]), nid()))
    wf = None
    if rng.random() < 0.4:                                       # injected write failure on some pipe
        wf = rng.choice(dsts)
        L.append("m wfault %d %d %d" % (wf, rng.randint(1, 6), rng.choice([11, 11, 32, 9])))
    # workers first (the victim must be parked before the flood starts)
    for a in [x for x in actors if x[0] == "w"]: L.append("m spawn %s" % a)
    if flood: L.append("m sleep 3000")
    for a in [x for x in actors if x[0] == "e"]: L.append("m spawn %s" % a)
    for a in [x for x in actors if x[0] == "e"]: L.append("m join %s" % a)
    if flood: L.append("m open 0")
    for a in [x for x in actors if x[0] == "w"]: L.append("m join %s" % a)
    # a fault that was not consumed by the senders is disarmed: it would hit the shutdown message (lost shutdown message = a
    # teardown hang, property C11's known finding, 90 s of watchdog per occurrence)
    if wf is not None: L.append("m wfault %d 0 0" % wf)
    # the 20 ms pause keeps the teardown race of tp_shutdown_wait (property C11) out of these runs
    L += ["m quiesce", "m shutdown", "m sleep 20000", "m shutdown_wait", "m destroy", "m reset"]
    return "\n".join(L) + "\n", {"n": n, "flood": flood, "skip": skip, "actors": actors}

def pvt_flood_scenario(rng, sid, nmsg):
    """many senders flood the shared virtual thread: every worker races for the same queue"""
    n = rng.choice([2, 4, 8, 16])
    L = ["m pool %d %d" % (n, 4096 if rng.random() < 0.5 else 0), "m start 0", "m waitrun"]
    base = (sid % 40) * 1000 + 1
    for k in (1, 2, 3):
        for j in range(nmsg // 3):
            L.append("e%d send %d %d %d" % (k, n, rng.choice([0, 0, 0, 4]), base)); base += 1
    w = rng.randrange(n)
    for j in range(20):
        L.append("w%d send %d %d %d" % (w, n, rng.choice([0, 1, 4]), base)); base += 1
    L += ["m spawn e1", "m spawn e2", "m spawn e3", "m spawn w%d" % w, "m join e1", "m join e2", "m join e3", "m join w%d" % w,
          "m quiesce", "m shutdown", "m sleep 20000", "m shutdown_wait", "m destroy", "m reset"]
    return "\n".join(L) + "\n", {"n": n, "flood": "pvt"}

def hold_scenario(rng, sid):
    """workers are kept inside their stop hook (state STOPING: the loop has ended, the queue is never read again) while
    other threads keep sending to them: plain sends must be refused, FORCE sends must run directly"""
    n = rng.choice([1, 2, 3])
    L = ["m pool %d 0" % n, "m start 0", "m waitrun", "m stophold 3", "m shutdown", "m waitheld %d" % n]
    base = (sid % 40) * 1000 + 500
    for k in range(n):
        for f in (0, 2, 4, 6, 1):
            L.append("m send %d %d %d" % (k, f, base)); base += 1
    L += ["e1 send 0 0 %d" % base, "e1 send 0 2 %d" % (base + 1), "m spawn e1", "m join e1"]
    L += ["m open 3"] * n
    L += ["m shutdown_wait", "m destroy", "m reset"]
    return "\n".join(L) + "\n", {"n": n, "hold": True}

def busy_shutdown_scenario(rng, sid):
    """tp_shutdown arrives while a worker is still inside a callback and messages that were ACCEPTED (rc 0, thread RUNNING)
    wait in its queue ahead of the shutdown message: they must all run, in order, before the thread leaves its loop"""
    n = rng.choice([1, 2, 3, 4])
    w = rng.randrange(n)
    L = ["m pool %d 0" % n, "m start 0", "m waitrun", "w%d block 0" % w, "m spawn w%d" % w, "m waitblocked 0 1"]
    base = (sid % 40) * 1000 + 700
    for k in range(rng.randint(3, 9)):
        L.append("m send %d %d %d" % (w, rng.choice([0, 0, 0, 4, 1]), base + k))
    for t in range(n):
        if t != w and rng.random() < 0.5: L.append("m send %d 0 %d" % (t, base + 20 + t))
    # the 20 ms pause keeps the teardown race of tp_shutdown_wait (property C11) out of these runs
    L += ["m shutdown", "m open 0", "m join w%d" % w, "m sleep 20000", "m shutdown_wait", "m destroy", "m reset"]
    return "\n".join(L) + "\n", {"n": n, "busy_shutdown": True}

def segments(evs):
    """cut the concatenated trace into pool lives; the C05 segment of a life ends at call.shutdown"""
    out = []; cur = []; live = True
    for e in evs:
        if e["e"] == "call.shutdown": live = False
        if e["e"] == "Reset":
            cur.append(e); out.append(cur); cur = []; live = True; continue
        if live: cur.append(e)
    if cur: out.append(cur)
    return out

def run(ctx):
    ctx.level = "model_checking"
    d = common.scratch()
    rng = random.Random(ctx.seed * 7919 + 5)
    # ---- 1. the design: exhaustive model checking of TpMsg
    for cfg in ["MC_TpMsg.cfg", "MC_TpMsg_B.cfg"]:
        r = common.tlc("MC_TpMsg", cfg=cfg, workers=6, coverage=True, timeout=1500, xmx="12g")
        ctx.tlc_stats(r, cfg)
        if r.rc != 0:
            ctx.fail("model:TpMsg:" + (r.violation or "error"), r.out[-3000:], {"cfg": cfg})
        never = [a for a, (taken, _) in r.coverage.items() if taken == 0 and a not in ("Close",)]
        if never: raise common.Infra("vacuity: actions never taken in %s: %s" % (cfg, never))
    if not ctx.quick:
        # the 5-message plan is beyond exhaustive reach in the thorough budget: random behaviours instead
        r = common.tlc("MC_TpMsg", cfg="MC_TpMsg_C.cfg", workers=6, simulate=60000, depth=80, seed=ctx.seed, timeout=1500, xmx="8g")
        ctx.tlc_stats(r, "MC_TpMsg_C.cfg (-simulate num=60000 per worker, depth 80)")
        if r.rc != 0:
            ctx.fail("model:TpMsg:simulation:" + (r.violation or "error"), r.out[-3000:], {"cfg": "MC_TpMsg_C.cfg"})
    r = common.tlc("MC_TpMsg", cfg="MC_TpMsg_live.cfg", workers=4, timeout=900)
    ctx.tlc_stats(r, "MC_TpMsg_live.cfg (liveness EventuallyRuns under fairness)")
    if r.rc != 0:
        ctx.fail("model:TpMsg:liveness:" + (r.violation or "error"), r.out[-3000:], {"cfg": "MC_TpMsg_live.cfg"})
    # ---- 2. the code: scenarios on the real pool, every event validated against the spec
    exe = tp.build(d)
    nsc = 24 if ctx.quick else 400
    per_proc = 8
    total_ev = 0; ntr = 0; samples = []
    sid = 0; run_failures = 0
    while sid < nsc:
        if run_failures >= 2:
            ctx.log("pool hung/died in %d scenario batches (reported): the remaining scenarios are not run" % run_failures); break
        texts = []; metas = []
        for _ in range(per_proc):
            sid += 1
            if sid % 8 == 3:
                t, m = pvt_flood_scenario(rng, sid, 240 if ctx.quick else 900)
            elif sid % 8 == 5:
                t, m = hold_scenario(rng, sid)
            elif sid % 8 == 7:
                t, m = busy_shutdown_scenario(rng, sid)
            else:
                t, m = gen_scenario(rng, sid, big=not ctx.quick or sid % 6 == 0)
            texts.append(t); metas.append(m)
        rc, out, evs = tp.run_scenario(exe, "".join(texts), d, ctx.seed + sid, "c05_%d" % sid, timeout=400)
        hang = [e for e in evs if e["e"] in ("Hang", "BadOp", "Crash")]
        if (rc != 0 or hang) and not any(e["e"] == "call.shutdown" for e in evs[-60:]):
            ctx.log("driver run failed (rc=%s %s): one retry" % (rc, hang[:1]))
            rc, out, evs = tp.run_scenario(exe, "".join(texts), d, ctx.seed + sid, "c05_%d" % sid, timeout=400)
            hang = [e for e in evs if e["e"] in ("Hang", "BadOp", "Crash")]
        if rc != 0 or hang:
            # a crash/hang during teardown is the life-cycle property's business (known races of C11): the trace is
            # validated up to it; anything before a shutdown call is an infrastructure problem of this run
            k = evs.index(hang[0]) if hang else len(evs)
            if hang and any(e["e"] == "call.shutdown" for e in evs[max(0, k - 400):k]) and hang[0]["e"] in ("Crash", "Hang"):
                ctx.log("teardown %s observed (C11 territory), trace validated up to it" % hang[0]["e"])
                evs = evs[:k + 1]
            elif hang:
                # the pool stopped making progress (or died) while messages were in flight, twice in a row with the same
                # scenarios: that is the code under test, not the rig - a verdict, the batch is not validated further
                ctx.fail("run:tp_drv:%s:%s" % (hang[0]["e"], hang[0].get("where", hang[0].get("sig", ""))),
                         out[-1500:] + "\n" + json.dumps(evs[max(0, k - 25):k + 1], indent=0), {"scenario": "".join(texts), "seed": ctx.seed + sid})
                run_failures += 1
                continue
            else:
                raise common.Infra("tp_drv failed rc=%s\n%s" % (rc, out[-2000:]))
        from rig.checks import c11
        ok, info, r = tp.validate(ctx, c11.prep(evs), d, "c05_%d" % sid, c11.KEEP)
        total_ev += info["events"]; ntr += len(texts)
        if not samples: samples.append({"scenario": texts[0].split("\n")[:12], "events_validated": info["events"]})
        if not ok:
            # repeat before reporting: same scenarios, same seed
            rc2, out2, evs2 = tp.run_scenario(exe, "".join(texts), d, ctx.seed + sid, "c05r_%d" % sid, timeout=240)
            ok2, info2, _ = tp.validate(ctx, c11.prep(evs2), d, "c05r_%d" % sid, c11.KEEP)
            if not ok2:
                ev = (info.get("context") or [{}])[-1]
                ctx.fail("trace:TpMsg:rejected-at:%s" % ev.get("e"), json.dumps(info, indent=1)[:4000],
                         {"scenario": "".join(texts), "seed": ctx.seed + sid})
            else:
                ctx.log("rejection not reproduced on re-run (not reported): %s" % str(info.get("context"))[:400])
    ctx.add(traces_validated_against_impl=ntr, events_validated=total_ev, samples=samples)
    ctx.cov["rule"] = "scenario = one pool life with concurrent external/worker senders, all flag sets, full pipes and injected write errors; every logged event must be a step of TpMsg"
    ctx.assumptions += ["pipe writes of 32 bytes are atomic (POSIX PIPE_BUF)", "epoll backend only",
                        "events on one pipe are ordered by a rig lock covering syscall + log append"]
