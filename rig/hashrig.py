"""Shared machinery of the C04 (hashes) and C07 (HMAC) checks: build matrix of harness/hash_drv.c, scenario rendering,
driver runs, ndjson trace for specs/crypto/TraceHash.tla, verdict collection.  Python never computes a digest: it
renders inputs (seeded), shuttles the driver's observations to TLC and turns TLC's reports into ctx.fail() keys."""
import json, os, random, time
from concurrent.futures import ThreadPoolExecutor
from rig import common

DRV = os.path.join(common.VERIF, "harness", "hash_drv.c")
# alg -> (block size, nominal length-field size used only to place boundary lengths, family)
ALGS = {"md5": (64, 8, "md5"), "sha1": (64, 8, "sha1"), "sha224": (64, 8, "sha2-256"), "sha256": (64, 8, "sha2-256"),
        "sha384": (128, 16, "sha2-512"), "sha512": (128, 16, "sha2-512"),
        "gost256": (64, 8, "gost3411-2012"), "gost512": (64, 8, "gost3411-2012")}
# measured TLC cost (ms per compression-function call per worker) - used only to size the sample to the time budget
COST_MS = {"md5": 45, "sha1": 60, "sha2-256": 90, "sha2-512": 200, "gost3411-2012": 260}

VARIANTS = {  # name -> (defs, flags)
    "nosimd": (["-DHD_NOSIMD"], []),                                  # what tests/hash/main.c builds (#undef __SSE2__)
    "sse41":  ([], ["-mssse3", "-msse4.1"]),
    "avx":    ([], ["-mavx"]),
    "avx2":   ([], ["-mavx2"]),
    "sha":    ([], ["-mssse3", "-msse4.1", "-msha"]),
    "small":  (["-DHD_NOSIMD", "-DGOST3411_2012_USE_SMALL_TABLES"], []),
}

def build_matrix(ctx):
    if ctx.quick:
        return [("nosimd", "gcc", "-O0", "asan"), ("sha", "clang", "-O2", None), ("avx2", "gcc", "-O3", None),
                ("small", "clang", "-O2", None)]
    m = []
    for v in VARIANTS:
        for comp in ("gcc", "clang"):
            for opt in ("-O0", "-O2", "-O3"):
                m.append((v, comp, opt, "asan" if (v in ("nosimd", "small") and opt == "-O2") else None))
    return m

def build_all(ctx, matrix):
    d = common.scratch("lcbv-hash-")
    def one(spec):
        v, comp, opt, san = spec
        name = "%s-%s%s%s" % (v, comp, opt, "-asan" if san else "")
        defs, flags = VARIANTS[v]
        exe = os.path.join(d, name)
        common.cc([DRV], exe, compiler=comp, opt=opt, defs=defs, flags=flags, hooks=False, san=san, timeout=900)
        return name, exe
    t0 = time.time()
    with ThreadPoolExecutor(max_workers=4) as ex:
        res = list(ex.map(one, matrix))
    ctx.log("built %d driver variants in %.1fs" % (len(res), time.time() - t0))
    return res

# ------------------------------------------------------------------ abstract shapes from TLC -> real chunkings
def tlc_shapes(ctx):
    """chunking shapes (sequences of abstract chunk lengths, B=4, <=4 calls, total <= 3B+1) enumerated by TLC"""
    r = common.tlc("MCHashStream", cfg="MCHashStreamShapes.cfg", workers=1, timeout=600)
    ctx.tlc_stats(r, "MCHashStream/shapes")
    if r.rc != 0:
        raise common.Infra("shape generator failed: %s\n%s" % (r.violation, r.out[-2000:]))
    shapes = common.tlc_printed_json(r.out)
    if len(shapes) * 2 != r.distinct:
        raise common.Infra("shape emission lost cases: %d printed vs %d distinct states" % (len(shapes), r.distinct))
    return shapes

def scale_shape(shape, B, L, rnd):
    """map abstract cut positions 4q+r to q*B + rho(r) with rho monotone: rho(0)=0, rho(1) small, rho(2)=B-L-1 (the last
    fill for which the length still fits), rho(3) in B-L..B-1 (does not fit).  Block-boundary crossings, the three-way
    split and the final-padding branch of the abstract behaviour are preserved."""
    rho = [0, rnd.choice([1, 1, rnd.randint(1, B - L - 2)]), B - L - 1, rnd.choice([B - L, B - 1, rnd.randint(B - L, B - 1)])]
    cuts = [0]
    for a in shape: cuts.append(cuts[-1] + a)
    real = [(c // 4) * B + rho[c % 4] for c in cuts]
    return [real[i + 1] - real[i] for i in range(len(shape))]

def est_blocks(alg, n, key=None):
    B = ALGS[alg][0]
    b = n // B + 2
    if ALGS[alg][2] == "gost3411-2012": b += 2
    if key is not None:
        b += 4 + (len(key) // B + 2 if len(key) > B else 0)
    return b

# ---- resumed streams (kind "resume"): wide counters are Python ints here, hex for the driver, 16-bit limbs for TLC
CNT_LIMBS = {"md5": 4, "sha1": 4, "sha2-256": 4, "sha2-512": 8, "gost3411-2012": 32}
def limbs(v, k):
    return [(v >> (16 * i)) & 0xffff for i in range(k)]
def cnt_hex(alg, v):
    fam = ALGS[alg][2]
    if fam == "gost3411-2012": return v.to_bytes(64, "little").hex()     # memory image of the 512-bit vector (N, Sigma)
    if fam in ("sha2-256", "sha2-512"): return "%032x" % v                # count_hi : count
    return "%016x" % v

def rbytes(rnd, n):
    return bytes(rnd.getrandbits(8) for _ in range(n))

# ------------------------------------------------------------------ running scenarios through the builds and TLC
def hexs(b): return b.hex() if b else "-"
def ints(h): return list(bytes.fromhex(h))

def run_scenarios(ctx, builds, scen, label, tlc_timeout):
    """scen: list of dict(kind 'hash'|'hmac', alg, align, msg bytes, chunks [int], key bytes|None).
    Runs every scenario in every build, writes the ndjson trace, lets TLC validate it, records failures."""
    lines = []
    for s in scen:
        cs = ",".join(str(c) for c in s["chunks"]) if s["chunks"] else "-"
        if s["kind"] == "hash":
            lines.append("hash %s %d %s %s" % (s["alg"], s["align"], hexs(s["msg"]), cs))
        elif s["kind"] == "resume":
            lines.append("resume %s %d %s %s %s %s %s" % (s["alg"], s["align"], hexs(s["h"]), cnt_hex(s["alg"], s["cnt"]),
                                                          cnt_hex(s["alg"], s["sig"]) if s["sig"] is not None else "-",
                                                          hexs(s["buf"]), hexs(s["data"])))
        elif s["kind"] == "ident":
            lines.append(None)          # a specification identity: nothing to run, TLC checks it with the trace
        else:
            lines.append("hmac %s %d %s %s %s" % (s["alg"], s["align"], hexs(s["key"]), hexs(s["msg"]), cs))
    obs = [[] for _ in scen]
    paths = {}; nanswers = 0
    driven = [i for i, l in enumerate(lines) if l is not None]
    for bname, exe in builds:
        # a build whose driver died 8 times (each death reported below) is cut short: the check ends with a verdict in bounded time
        res_d = common.batch_run(exe, [lines[i] for i in driven], timeout=600, max_crashes=8, on_excess="skip")
        for i, a in zip(driven, res_d):
            s = scen[i]
            if isinstance(a, dict) and a.get("skipped"): continue
            if isinstance(a, dict):
                k = a["crash"]
                ctx.fail("%s:%s:%s:%s" % (s["alg"], s["kind"], k[0], k[1] or "driver"), "build %s\ncase %s\n%s" % (bname, lines[i][:300], a["raw"]),
                         {"build": bname, "case": lines[i]})
                continue
            try:
                o = json.loads(a)
            except Exception:
                raise common.Infra("driver %s answered garbage for %s: %s" % (bname, lines[i][:200], a[:300]))
            if s["kind"] == "resume":
                if o.get("consumed") != len(s["data"]):
                    raise common.Infra("driver %s did not consume the scenario: %s -> %s" % (bname, lines[i][:200], a[:300]))
                nanswers += 1
                paths.setdefault((ALGS[s["alg"]][2], o["path"] + "/resumed"), 0)
                paths[(ALGS[s["alg"]][2], o["path"] + "/resumed")] += 1
                rec = {"b": [bname + "/" + o["path"]], "dg": ints(o["dg"]), "zero": o["zero"]}
                same = [x for x in obs[i] if all(x[k] == rec[k] for k in rec if k != "b")]
                if same: same[0]["b"] += rec["b"]
                else: obs[i].append(rec)
                continue
            if o.get("consumed") != len(s["msg"]) or len(o["ups"]) != len(s["chunks"]):
                raise common.Infra("driver %s did not consume the scenario: %s -> %s" % (bname, lines[i][:200], a[:300]))
            nanswers += 1
            paths.setdefault((ALGS[s["alg"]][2], o["path"]), 0)
            paths[(ALGS[s["alg"]][2], o["path"])] += 1
            rec = {"b": [bname + "/" + o["path"]], "ups": [{"count": u["count"], "buf": ints(u["buf"])} for u in o["ups"]],
                   "one": ints(o["one"]), "hex": ints(o["hex"]) if o["hexnul"] else [0], "zero": o["zero"]}
            if s["kind"] == "hash":
                rec["dg"] = ints(o["dg"])
            else:
                rec.update(mac=ints(o["mac"]), kopad=ints(o["kopad"]), count0=o["count0"], padzero=o["padzero"])
            # builds that observed exactly the same thing share one record (normally all of them)
            same = [x for x in obs[i] if all(x[k] == rec[k] for k in rec if k != "b")]
            if same: same[0]["b"] += rec["b"]
            else: obs[i].append(rec)
    d = common.scratch("lcbv-htr-")
    path = os.path.join(d, "trace.ndjson")
    kept = []
    with open(path, "w") as f:
        for s, ob in zip(scen, obs):
            if not ob and s["kind"] != "ident": continue
            for o in ob:
                if isinstance(o["b"], list): o["b"] = ",".join(o["b"])
            if s["kind"] == "resume":
                rec = {"k": "resume", "alg": s["alg"], "h": list(s["h"]), "cnt": limbs(s["cnt"], CNT_LIMBS[ALGS[s["alg"]][2]]),
                       "sig": limbs(s["sig"], 32) if s["sig"] is not None else [], "buf": list(s["buf"]), "data": list(s["data"]),
                       "cs": [], "obs": ob}
                f.write(json.dumps(rec, separators=(",", ":")) + "\n"); kept.append(s); continue
            if s["kind"] == "ident":
                rec = {"k": "ident", "alg": s["alg"], "m": list(s["m"]), "j": s["j"], "b": s["b"], "cs": [], "obs": []}
                f.write(json.dumps(rec, separators=(",", ":")) + "\n"); kept.append(s); continue
            off = 0; cs = []
            for c in s["chunks"]:
                cs.append(list(s["msg"][off:off + c])); off += c
            rec = {"k": s["kind"], "alg": s["alg"], "cs": cs, "obs": ob}
            if s["kind"] == "hmac": rec["key"] = list(s["key"])
            f.write(json.dumps(rec, separators=(",", ":")) + "\n")
            kept.append(s)
    if not kept:
        return paths
    expected_states = sum(len(s["chunks"]) + 3 for s in kept)
    r = common.tlc("TraceHash", workers=4, xss="256m", env={"TRACE": path}, timeout=tlc_timeout, xmx="6g")
    ctx.tlc_stats(r, "TraceHash/" + label)
    reports = [x for x in common.tlc_printed_json(r.out) if isinstance(x, dict) and "bad" in x]
    # TraceHash has no INVARIANT on purpose: a disagreement ends that scenario (bad # "") and is reported through PrintT,
    # so one failing scenario never hides another.  Every scenario state is accounted for: a report at step pos cuts the
    # len(cs)+2-pos remaining states of its scenario; anything else missing means events were skipped or a report was lost.
    if r.rc != 0:
        raise common.Infra("TraceHash rc=%s\n%s" % (r.rc, r.out[-3000:]))
    missing = sum(len(kept[rp["tid"] - 1]["chunks"]) + 2 - rp["pos"] for rp in reports)
    if r.distinct + missing != expected_states or len(set(rp["tid"] for rp in reports)) != len(reports):
        raise common.Infra("TraceHash consumed %d states (+%d cut by %d reports), expected %d\n%s"
                           % (r.distinct, missing, len(reports), expected_states, r.out[-1500:]))
    seen = {}
    for rp in reports:
        s = kept[rp["tid"] - 1]
        i = [n for n, x in enumerate(scen) if x is s][0]
        if rp["bad"].startswith("spec:"):
            raise common.Infra("specification self-check failed inside TraceHash (spec bug, not a code verdict): %s on %s"
                               % (rp, (lines[i] or repr({k: v for k, v in s.items() if k != "m"}))[:300]))
        grp = rp["build"].split(",")
        bpath = "all-builds" if len(grp) == len(builds) and len(builds) > 1 else "+".join(sorted(set(x.split("/")[-1] for x in grp)))
        key = "%s[%s]:%s" % (s["alg"], bpath, rp["bad"])
        if s.get("label"): key += ":" + s["label"]          # resumed streams: which region of the byte counter
        ob = [o for o in obs[i] if o["b"] == rp["build"]]
        detail = {"build": rp["build"], "step": rp["pos"], "what": rp["bad"], "driver_line": lines[i][:2000],
                  "expected_by_TLA_reference": bytes(rp["expected"]).hex() if rp["expected"] and max(rp["expected"]) < 256 else rp["expected"],
                  "observed": {k: (bytes(v).hex() if isinstance(v, list) and v and isinstance(v[0], int) else v)
                               for k, v in (ob[0].items() if ob else []) if k != "ups"},
                  "observed_updates": [(u["count"], bytes(u["buf"]).hex()) for u in ob[0]["ups"]] if ob and "ups" in ob[0] else None}
        seen[key] = seen.get(key, 0) + 1
        if seen[key] == 1:          # one violation per key; the count of further scenarios with the same key goes to the log
            ctx.fail(key, json.dumps(detail, indent=1), {"driver_line": lines[i], "build": rp["build"], "report": rp})
    for k, n in seen.items():
        if n > 1: ctx.log("key %s: %d scenarios failed in total" % (k, n))
    ctx.add(evaluations=nanswers, traces_validated_against_impl=len(kept),
            events_validated=expected_states - len(kept))
    return paths
