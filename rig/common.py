"""Shared plumbing for the liblcb TLA+ verification rig (python3 stdlib only)."""
import atexit, json, os, re, shutil, subprocess, sys, tempfile, time, fcntl, glob, hashlib

VERIF = os.path.dirname(os.path.dirname(os.path.abspath(__file__)))
REPO = os.environ.get("VERIF_REPO", "/repo")
TLAJAR = "/opt/veriftools/tla/tla2tools.jar:/opt/veriftools/tla/CommunityModules-deps.jar"
GUARD = "LIBLCB_VERIF"

# compile definitions the repository's own test build uses (tests/CMakeLists.txt via cmake checks)
SUITE_DEFS = ("-DHAVE_ACCEPT4 -DHAVE_EXPLICIT_BZERO -DHAVE_MEMMEM -DHAVE_MEMRCHR -DHAVE_PIPE2 "
              "-DHAVE_POSIX_SPAWN_FILE_ACTIONS_ADDCLOSEFROM_NP -DHAVE_PTHREAD_SETNAME_NP "
              "-DHAVE_REALLOCARRAY -DHAVE_SOCK_CLOEXEC -DHAVE_SOCK_NONBLOCK -DHAVE_STRNCASECMP "
              "-DLINUX -D_GNU_SOURCE -D__USE_GNU=1").split()

class Infra(Exception):
    """infrastructure failure: exit status 2, never a VIOLATION"""

_scratch_dirs = []
def scratch(prefix="lcbv-"):
    base = os.environ.get("VERIF_TMP", "/tmp")
    d = tempfile.mkdtemp(prefix=prefix, dir=base)
    _scratch_dirs.append(d)
    return d
def _cleanup():
    for d in _scratch_dirs:
        shutil.rmtree(d, ignore_errors=True)
atexit.register(_cleanup)

def sh(cmd, timeout=600, env=None, cwd=None, stdin=None, check=False):
    e = dict(os.environ)
    if env: e.update(env)
    try:
        p = subprocess.run(cmd, shell=isinstance(cmd, str), cwd=cwd, env=e, input=stdin,
                           stdout=subprocess.PIPE, stderr=subprocess.STDOUT, timeout=timeout)
        rc, out = p.returncode, p.stdout.decode("utf-8", "replace")
    except subprocess.TimeoutExpired as ex:
        rc, out = 124, (ex.stdout or b"").decode("utf-8", "replace") + "\n[rig] TIMEOUT after %ss\n" % timeout
    if check and rc != 0:
        raise Infra("command failed (%s): %s\n%s" % (rc, cmd if isinstance(cmd, str) else " ".join(cmd), out[-4000:]))
    return rc, out

def cc(sources, out, compiler="gcc", opt="-O1", defs=(), flags=(), libs=(), hooks=True,
       san=None, incs=(), timeout=600):
    """Compile C sources (absolute paths, or relative to REPO) into `out`; raises Infra on failure."""
    srcs = [s if os.path.isabs(s) else os.path.join(REPO, s) for s in sources]
    cmd = [compiler, opt, "-g", "-I", os.path.join(REPO, "include"), "-I", os.path.join(REPO, "src"),
           "-I", os.path.join(VERIF, "harness")]
    for i in incs: cmd += ["-I", i]
    cmd += SUITE_DEFS
    if hooks: cmd.append("-D" + GUARD)
    cmd += list(defs) + ["-Wno-unused-result", "-fno-omit-frame-pointer"]
    if san == "asan":
        cmd += ["-fsanitize=address,undefined", "-fno-sanitize-recover=undefined"]
    elif san == "tsan":
        cmd += ["-fsanitize=thread"]
    cmd += list(flags) + srcs + ["-o", out, "-lpthread", "-lrt"] + list(libs)
    rc, o = sh(cmd, timeout=timeout)
    if rc != 0:
        raise Infra("build failed: %s\n%s" % (" ".join(cmd), o[-6000:]))
    return out

# ---------------------------------------------------------------- TLC
class TlcResult:
    def __init__(self):
        self.rc = None; self.out = ""; self.generated = 0; self.distinct = 0; self.depth = 0
        self.violation = None; self.error = None; self.coverage = {}; self.printed = []; self.wall = 0.0
    @property
    def ok(self): return self.rc == 0

_tlc_ws = None
def tlc_workspace():
    """flatten every module under specs/ into one scratch dir (module names are unique)"""
    global _tlc_ws
    if _tlc_ws: return _tlc_ws
    d = os.path.join(scratch("lcbv-tla-"), "specs"); os.makedirs(d)
    for f in glob.glob(os.path.join(VERIF, "specs", "**", "*"), recursive=True):
        if os.path.isfile(f) and f.endswith((".tla", ".cfg", ".class", ".json", ".ndjson")):
            shutil.copy(f, d)
    _tlc_ws = d
    return d

_GEN = re.compile(r"^(\d+) states generated, (\d+) distinct states found", re.M)
_DEPTH = re.compile(r"The depth of the complete state graph search is (\d+)")
_COV = re.compile(r"^<(\w+) line (\d+), col \d+ to line \d+, col \d+ of module (\w+)>: (\d+):(\d+)", re.M)

def tlc(module, cfg=None, workers=8, simulate=None, depth=None, env=None, coverage=False,
        timeout=900, xss=None, xmx="8g", seed=None, deadlock=None, extra=(), dfs=False, quiet_print=False,
        cont=False):
    """Run TLC on specs/<..>/module.tla with cfg (defaults module.cfg). Returns TlcResult.
    rc 0 = no error; 12 = invariant/safety violated; 13 = liveness violated; 11 = deadlock; else Infra."""
    ws = tlc_workspace()
    cfg = cfg or (module + ".cfg")
    meta = scratch("lcbv-meta-")
    jvm = ["java", "-XX:+UseParallelGC", "-Xmx" + xmx]
    jvm.append("-Xss" + (xss or "64m"))
    if dfs: jvm.append("-Dtlc2.tool.queue.IStateQueue=StateDeque")
    cmd = jvm + ["-cp", TLAJAR, "tlc2.TLC", "-workers", str(workers), "-metadir", meta,
                 "-noGenerateSpecTE", "-config", cfg]   # no trace-exploration spec: on a long trace its generation alone exhausts the heap
    if coverage: cmd += ["-coverage", "1"]
    if simulate: cmd += ["-simulate", "num=%d" % simulate]
    if depth: cmd += ["-depth", str(depth)]
    if seed is not None: cmd += ["-seed", str(seed)]
    if deadlock is False: cmd += ["-deadlock"]
    if cont: cmd += ["-continue"]
    cmd += list(extra) + [module + ".tla"]
    t0 = time.time()
    rc, out = sh(cmd, timeout=timeout, env=env, cwd=ws)
    r = TlcResult(); r.rc = rc; r.out = out; r.wall = time.time() - t0
    shutil.rmtree(meta, ignore_errors=True)
    m = None
    for m in _GEN.finditer(out): pass
    if m: r.generated, r.distinct = int(m.group(1)), int(m.group(2))
    m = _DEPTH.search(out)
    if m: r.depth = int(m.group(1))
    for m in _COV.finditer(out):
        r.coverage[m.group(1)] = (int(m.group(4)), int(m.group(5)))
    m = re.search(r"Error: (Invariant (\w+) is violated|Action property (\w+) is violated|Temporal properties were violated|Deadlock reached|.*)", out)
    if m: r.violation = m.group(1)
    if rc == 124: raise Infra("TLC timeout on %s/%s\n%s" % (module, cfg, out[-3000:]))
    if rc == 0 and re.search(r"^Error: |StackOverflowError", out, re.M):
        raise Infra("TLC reported an error but exited 0 on %s/%s:\n%s" % (module, cfg, out[-4000:]))
    if rc not in (0, 10, 11, 12, 13):
        errs = "\n".join(l[:400] for l in out.splitlines() if re.search(r"Error|violated|Exception|evaluat", l))[:3000]
        raise Infra("TLC failed rc=%s on %s/%s:\n%s\n...\n%s" % (rc, module, cfg, errs, out[-1500:]))
    return r

def tlc_printed_json(out):
    """lines printed by PrintT(ToJson(x)): a JSON string literal containing JSON"""
    res = []
    for line in out.splitlines():
        line = line.strip()
        if len(line) > 1 and line[0] == '"' and line[-1] == '"':
            try:
                res.append(json.loads(json.loads(line)))
            except Exception:
                pass
    return res

def sany(module):
    ws = tlc_workspace()
    rc, out = sh(["java", "-cp", TLAJAR, "tla2sany.SANY", module + ".tla"], cwd=ws, timeout=120)
    return rc == 0 and "error" not in out.lower().replace("semantic errors:\n\n", ""), out

# ---------------------------------------------------------------- known findings
def load_known():
    p = os.path.join(VERIF, "known_findings.json")
    if not os.path.exists(p): return []
    return json.load(open(p)).get("findings", [])

def known_open(prop):
    return [f for f in load_known() if f.get("property") == prop and f.get("status") == "open"]

# ---------------------------------------------------------------- check context
class Ctx:
    def __init__(self, prop, tier, seed):
        self.prop = prop; self.tier = tier; self.seed = seed; self.t0 = time.time()
        self.failures = []     # (key, detail, replay_obj)
        self.cov = {}; self.assumptions = []; self.level = "model_checking"
        self.notes = []
    @property
    def quick(self): return self.tier == "quick"
    def fail(self, key, detail, replay=None):
        """record a property violation. `key` identifies WHAT fails (function/call site/scenario shape)."""
        self.failures.append((key, detail, replay))
    def log(self, *a):
        print("[%s %6.1fs]" % (self.prop, time.time() - self.t0), *a, flush=True)
    def add(self, **kw):
        """accumulate integer coverage counters / append to lists"""
        for k, v in kw.items():
            if isinstance(v, bool): self.cov[k] = v
            elif isinstance(v, (int, float)): self.cov[k] = self.cov.get(k, 0) + v
            elif isinstance(v, list): self.cov.setdefault(k, []).extend(v)
            else: self.cov[k] = v
    def tlc_stats(self, r, label):
        self.add(states=r.distinct, transitions=r.generated)
        self.cov.setdefault("tlc_runs", []).append(
            {"model": label, "generated": r.generated, "distinct": r.distinct, "depth": r.depth,
             "wall_s": round(r.wall, 1), "actions_covered": {k: v[0] for k, v in r.coverage.items()} or None})

def finish(ctx):
    known = known_open(ctx.prop)
    nviol = 0; nknown = 0; printed_known = set()
    os.makedirs(os.path.join(VERIF, "replays"), exist_ok=True)
    for key, detail, replay in ctx.failures:
        hit = None
        for f in known:
            if f["key"] == key or (f.get("key_regex") and re.fullmatch(f["key_regex"], key)):
                hit = f; break
        if hit:
            nknown += 1
            if hit["key"] not in printed_known:
                printed_known.add(hit["key"])
                print("KNOWN-FINDING: property=%s %s" % (ctx.prop, hit["what"]), flush=True)
            continue
        nviol += 1
        h = hashlib.sha1(key.encode()).hexdigest()[:10]
        path = os.path.join(VERIF, "replays", "%s-%s.json" % (ctx.prop, h))
        json.dump({"property": ctx.prop, "key": key, "detail": detail, "tier": ctx.tier, "seed": ctx.seed,
                   "replay": replay}, open(path, "w"), indent=1, default=str)
        print("[%s] violation key=%s\n%s" % (ctx.prop, key, str(detail)[:3000]), flush=True)
        print("VIOLATION property=%s replay=%s" % (ctx.prop, path), flush=True)
    cov = dict(ctx.cov)
    cov.setdefault("samples", [])
    if not cov["samples"]: cov["samples"] = ["(no sample recorded)"]
    cov["samples"] = cov["samples"][:12]
    for k in ("states", "transitions", "traces_validated_against_impl", "evaluations", "distinct_nontrivial"):
        if k in cov: cov[k] = int(cov[k])
    if ctx.level == "model_checking":
        cov.setdefault("traces_validated_against_impl", 0)
    cov["known_findings_matched"] = nknown
    ev = {"property_id": ctx.prop, "tier": ctx.tier, "seed": ctx.seed, "level": ctx.level, "coverage": cov,
          "assumptions": ctx.assumptions, "wall_s": round(time.time() - ctx.t0, 2), "violations": nviol}
    os.makedirs(os.path.join(VERIF, "evidence"), exist_ok=True)
    tmp = os.path.join(VERIF, "evidence", ".%s.tmp" % ctx.prop)
    json.dump(ev, open(tmp, "w"), indent=1, default=str)
    os.replace(tmp, os.path.join(VERIF, "evidence", "%s.json" % ctx.prop))
    ctx.log("done: violations=%d known=%d wall=%.1fs" % (nviol, nknown, time.time() - ctx.t0))
    return 1 if nviol else 0

# ---------------------------------------------------------------- crash-resilient batch driver runs
_SAN = re.compile(r"SUMMARY: (\w+Sanitizer): (\S+) (\S+?):(\d+)(?::\d+)? in (\S+)")
_UBSAN = re.compile(r"^(\S+?):(\d+):\d+: runtime error: (.*)$", re.M)
_FRAME = re.compile(r"#\d+ 0x[0-9a-f]+ in (\S+) (/\S+?):(\d+)")

def san_key(out):
    """-> (kind, function, file-basename, detail) from a sanitizer / FAULT report, or None"""
    m = _SAN.search(out)
    if m:
        fn = m.group(5); f = os.path.basename(m.group(3))
        if fn.startswith("__") or "interceptor" in fn or f.endswith((".cpp", ".cc")) or "/verif/" in m.group(3):
            # report is inside libc/asan runtime or our driver: first frame under the repository
            for fm in _FRAME.finditer(out):
                if REPO + "/" in fm.group(2) or "/repo/" in fm.group(2):
                    fn = fm.group(1); f = os.path.basename(fm.group(2)); break
        acc = "WRITE" if re.search(r"^WRITE of size", out, re.M) else ("READ" if re.search(r"^READ of size", out, re.M) else "")
        return (m.group(2) + ("-" + acc if acc else ""), fn, f, m.group(0))
    m = _UBSAN.search(out)
    if m:
        return ("ubsan", "", os.path.basename(m.group(1)), m.group(0))
    m = re.search(r"FAULT sig=(\d+)", out)
    if m:
        return ("fault-sig" + m.group(1), "", "", m.group(0))
    return None

def batch_run(exe, lines, timeout=300, env=None, per_case_prefix=None, max_crashes=400, on_excess="infra", max_hangs=None):
    """Feed `lines` (list of str, one case each) to `exe` on stdin; the driver answers exactly one stdout
    line per case.  If the driver dies (sanitizer abort, fault, watchdog) the offending case gets
    a result {'crash': (kind, fn, file, detail), 'raw': tail} and the run resumes after it.
    Returns list parallel to `lines`: str (the answer line) or dict (crash).
    max_hangs (optional): deaths by the driver's non-termination watchdog ('fault-sig14') or the timeout of this call ('timeout')
    cost seconds each, unlike a sanitizer abort; after that many of them the rest of the batch is not run (entries
    {'crash': ('skipped', ...), 'skipped': True}), whatever max_crashes / on_excess say."""
    res = [None] * len(lines)
    i = 0; hangs = 0
    e = {"ASAN_OPTIONS": "detect_leaks=0:abort_on_error=0:detect_stack_use_after_return=1:allocator_may_return_null=1",
         "UBSAN_OPTIONS": "print_stacktrace=1:halt_on_error=1"}
    if env: e.update(env)
    restarts = 0
    while i < len(lines):
        data = ("\n".join(lines[i:]) + "\n").encode()
        rc, out = sh([exe], stdin=data, timeout=timeout, env=e)
        outl = out.split("\n")
        k = 0; j = 0
        # answers are the lines before any sanitizer banner
        answers = []
        for ln in outl:
            if ln.startswith("==") or "runtime error:" in ln or ln.startswith("FAULT") or ln.startswith("[rig] TIMEOUT"):
                break
            if ln.strip() == "": continue
            answers.append(ln)
        for a in answers:
            if i + k >= len(lines): break
            res[i + k] = a; k += 1
        if rc == 0 and i + k >= len(lines):
            break
        # crashed on case i+k
        if i + k >= len(lines):
            raise Infra("driver exited rc=%s after answering everything:\n%s" % (rc, out[-2000:]))
        key = san_key(out) or (("timeout", "", "", "driver timeout") if rc == 124 else ("exit-%s" % rc, "", "", out[-300:]))
        res[i + k] = {"crash": key, "raw": out[-2500:]}
        i = i + k + 1
        restarts += 1
        if max_hangs is not None and key[0] in ("fault-sig14", "timeout"):
            hangs += 1
            if hangs >= max_hangs:
                for j in range(i, len(lines)):
                    if res[j] is None: res[j] = {"crash": ("skipped", "", "", "not run: %d calls did not return before it" % hangs), "skipped": True, "raw": ""}
                return res
        if restarts > max_crashes:
            if on_excess == "skip":
                # the code under test dies on case after case (each death is already a verdict of its own): the rest of the
                # batch is not run - a check must end with a verdict in bounded time, not with a rig timeout
                for j in range(i, len(lines)):
                    if res[j] is None: res[j] = {"crash": ("skipped", "", "", "not run: %d driver deaths before it" % restarts), "skipped": True, "raw": ""}
                return res
            raise Infra("too many driver crashes (>%d); last:\n" % max_crashes + out[-2000:])
    return res

def hexs(b):
    b = bytes(b)
    return b.hex() if b else "-"
def unhex(s):
    return b"" if s == "-" else bytes.fromhex(s)
def kv(line):
    """parse 'op k=v k=v' answer line -> (op, dict)"""
    parts = line.split()
    return parts[0], dict(p.split("=", 1) for p in parts[1:] if "=" in p)
