#!/usr/bin/env python3
"""ONE-OFF generator (not run by any check): extracts the GOST R 34.11-2012 linear-transform matrix A (64 x 64 bit)
and the 12 iteration constants C from the UNCHANGED /repo/include/crypto/hash/gost3411-2012.h into the frozen TLA+
module specs/crypto/StreebogTables.tla.  The committed module is the oracle's copy; it is validated inside TLC by the
RFC 6986 example digests (ASSUMEs in Streebog.tla), so a later mutation of the C header cannot leak into the oracle."""
import re, sys
src = open(sys.argv[1] if len(sys.argv) > 1 else "/repo/include/crypto/hash/gost3411-2012.h").read()
def table(name):
    m = re.search(name + r"\[[^=]*=\s*\{(.*?)\};", src, re.S)
    return [int(x, 16) for x in re.findall(r"0x([0-9a-fA-F]{16})ull", m.group(1))]
A = table("gost3411_2012_A"); C = table("gost3411_2012_C")
assert len(A) == 64 and len(C) == 96
ms = lambda x: "<<%5d,%5d,%5d,%5d>>" % ((x >> 48) & 0xffff, (x >> 32) & 0xffff, (x >> 16) & 0xffff, x & 0xffff)
le = lambda x: "%5d,%5d,%5d,%5d" % (x & 0xffff, (x >> 16) & 0xffff, (x >> 32) & 0xffff, (x >> 48) & 0xffff)
out = ["--------------------------- MODULE StreebogTables ---------------------------",
       "(* FROZEN constants of GOST R 34.11-2012 / RFC 6986 (generated once by rig/gen_streebog_tables.py from the",
       "   unchanged liblcb header; validated in Streebog.tla against the RFC 6986 example digests).",
       "   StbA[j+1], j = 0..63 : row j of the matrix A of the linear transformation l (RFC 6986 section 5.4), a 64-bit",
       "                          value as four 16-bit halves, most significant first.",
       "   StbC[i], i = 1..12   : iteration constant C_i (section 5.5 / 6.2) as a 512-bit vector given by its 32 16-bit halves,",
       "                          least significant half first (half k = byte 2k + 256 * byte 2k+1, byte 0 = last octet of",
       "                          the RFC's hexadecimal string). *)",
       "StbA == <<"]
out.append(",\n".join("   " + ", ".join(ms(a) for a in A[i:i + 2]) for i in range(0, 64, 2)))
out.append(">>")
out.append("StbC == <<")
out.append(",\n".join("   << " + ",\n      ".join(", ".join(le(w) for w in C[8 * i + j:8 * i + j + 2]) for j in range(0, 8, 2)) + " >>" for i in range(12)))
out.append(">>")
# cache of the per-octet table that Streebog.tla derives from StbA and StbPi (definition StbTabPdef there; an ASSUME
# in Streebog.tla checks literal = derivation inside TLC on every load).  pi is read from Streebog.tla (typed from the RFC).
import os
st = open(os.path.join(os.path.dirname(os.path.abspath(__file__)), "..", "specs", "crypto", "Streebog.tla")).read()
PI = [int(x) for x in re.search(r"StbPi == <<(.*?)>>", st, re.S).group(1).replace("\n", " ").split(",")]
assert sorted(PI) == list(range(256))
out.append("\\* StbTabP[b+1][x+1], b = 0..7, x = 0..255: l(pi(x) * 2^(8b)) as four halves, least significant first (cache, see Streebog.tla)")
out.append("StbTabP == <<")
rowsout = []
for b in range(8):
    ents = []
    for x in range(256):
        y = PI[x]; acc = 0
        for m in range(8):
            if (y >> m) & 1: acc ^= A[63 - 8 * b - m]
        ents.append("<<%d,%d,%d,%d>>" % (acc & 0xffff, (acc >> 16) & 0xffff, (acc >> 32) & 0xffff, (acc >> 48) & 0xffff))
    rowsout.append("   <<" + ",\n     ".join(",".join(ents[i:i + 6]) for i in range(0, 256, 6)) + ">>")
out.append(",\n".join(rowsout))
out.append(">>")
out.append("=============================================================================")
print("\n".join(out))
