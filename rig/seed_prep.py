#!/usr/bin/env python3
"""seed_prep.py <Cxx> <round>  - create a scratch worktree /tmp/seed<round>-<cxx> of /repo HEAD for an independent seeding
sub-agent, with PROPERTY.txt (text of the property only) and USED.txt (one line per idea already used in earlier rounds)."""
import sys, os, json, glob, subprocess
V = os.path.dirname(os.path.dirname(os.path.abspath(__file__)))
prop, rnd = sys.argv[1], sys.argv[2]
wt = "/tmp/seed%s-%s" % (rnd, prop.lower())
subprocess.run("git -C /repo worktree add -q %s HEAD" % wt, shell=True, check=True)
for l in open(os.path.join(V, "properties.jsonl")):
    p = json.loads(l)
    if p["id"] == prop:
        open(wt + "/PROPERTY.txt", "w").write("%s\n\n%s\n\nQuantifier: %s\n\nRelevant code: %s\n" % (
            p["title"], p["statement"], p["quantifier"]["text"], ", ".join(p["anchors"]["files"])))
used = []
for f in sorted(glob.glob(os.path.join(V, "seeded", prop + "-*", "meta.json"))):
    m = json.load(open(f)); used.append("- " + m.get("needs_to_manifest", ""))
open(wt + "/USED.txt", "w").write("\n".join(used) + "\n")
print(wt)
