#!/usr/bin/env python3
"""seed_import.py <Cxx> <seed-worktree> <n> "<needs>"  - take change<n>.diff + demo<n>.c written by an independent
sub-agent in its scratch worktree, CONFIRM it in a fresh scratch worktree of /repo (demo fails with the change,
passes without; the repository's own suite still passes when the change touches anything the suite compiles),
and store it as /verif/seeded/<Cxx>-<n>/{patch.diff, demo.c, meta.json}."""
import sys, os, json, subprocess, shutil, re
V = os.path.dirname(os.path.dirname(os.path.abspath(__file__)))
def sh(cmd, cwd=None, timeout=1800):
    p = subprocess.run(cmd, shell=True, cwd=cwd, capture_output=True, text=True, timeout=timeout)
    return p.returncode, (p.stdout + p.stderr)
def main():
    prop, src, n, needs = sys.argv[1], sys.argv[2], sys.argv[3], sys.argv[4]
    as_n = sys.argv[5] if len(sys.argv) > 5 else n    # optional 5th argument: number under which it is stored (later rounds)
    out = os.path.join(V, "seeded", "%s-%s" % (prop, as_n)); os.makedirs(out, exist_ok=True)
    shutil.copy(os.path.join(src, "change%s.diff" % n), os.path.join(out, "patch.diff"))
    demo = [f for f in os.listdir(src) if re.fullmatch(r"demo%s\.(c|sh|py)" % n, f)]
    for f in demo: shutil.copy(os.path.join(src, f), os.path.join(out, f))
    extra = [f for f in os.listdir(src) if f.startswith("demo%s" % n) and f not in demo and os.path.isfile(os.path.join(src, f)) and os.path.getsize(os.path.join(src, f)) < 200000 and not os.access(os.path.join(src, f), os.X_OK)]
    for f in extra: shutil.copy(os.path.join(src, f), os.path.join(out, f))
    wt = "/tmp/seedconf-%d" % os.getpid()
    sh("git -C /repo worktree add -q %s HEAD" % wt)
    ran = []
    try:
        dc = os.path.join(out, "demo%s.c" % n)
        first = open(dc).readline() if os.path.exists(dc) else ""
        m = re.search(r"(?:gcc|cc|clang)\s.*", first)
        res = {}
        if m:
            build = re.split(r"\s{2,}\(|&&", m.group(0).rstrip("*/ \n"))[0].strip()
            for tok in set(re.findall(re.escape(src) + r"/([\w.\-]+)", build)):   # auxiliary files the build line reads (e.g. cflags.txt)
                if os.path.isfile(os.path.join(src, tok)) and not tok.startswith("demo"):
                    shutil.copy(os.path.join(src, tok), os.path.join(out, tok)); extra.append(tok)
            build = build.replace(src, wt)
            for mode in ("without", "with"):
                sh("git -C %s checkout -- ." % wt)
                if mode == "with":
                    rc, o = sh("git -C %s apply %s" % (wt, os.path.join(out, "patch.diff")))
                    if rc: print("PATCH DOES NOT APPLY", o); return 2
                shutil.copy(dc, os.path.join(wt, "demo%s.c" % n))
                for f in extra: shutil.copy(os.path.join(out, f), wt)
                rc, o = sh(build, cwd=wt); ran.append(build)
                if rc: res[mode] = "build failed: " + o[-400:]; continue
                exe = re.search(r"-o\s+(\S+)", build).group(1)
                fails = 0; runs = 5 if mode == "with" else 3
                for _ in range(runs):
                    rc, o = sh("timeout 300 %s" % (exe if exe.startswith("/") else "./" + exe), cwd=wt)
                    fails += (rc != 0)
                res[mode] = {"runs": runs, "nonzero_exits": fails, "last_output_tail": o[-300:]}
            ran.append("demo run x5 with the change, x3 without")
        # does the suite compile anything the change touches?
        files = re.findall(r"^\+\+\+ b/(\S+)", open(os.path.join(out, "patch.diff")).read(), re.M)
        suite_related = any(f.startswith("src/threadpool/") or f.startswith("include/threadpool/") or f in
                            ("include/utils/base64.h", "include/crypto/dsa/ecdsa.h", "include/math/elliptic_curve.h", "include/math/big_num.h",
                             "include/utils/macro.h", "include/utils/mem_utils.h", "include/al/os.h") or f.startswith("include/crypto/hash/") for f in files)
        suite = "not compiled by the repository's test suite (tests build only tests/* and src/threadpool/*): suite unaffected"
        if suite_related:
            sh("git -C %s checkout -- ." % wt); sh("git -C %s apply %s" % (wt, os.path.join(out, "patch.diff")))
            rc, o = sh("cmake -S %s -B %s/_build -G Ninja -DENABLE_LIBLCB_TESTS=1 >/dev/null 2>&1 && cmake --build %s/_build >/dev/null 2>&1 && ctest --test-dir %s/_build --timeout 900 2>&1 | grep -i 'tests passed\|tests failed\|Failed' | head -5" % (wt, wt, wt, wt), timeout=3000)
            suite = "ctest with the change: " + o.strip()[-300:]
            ran.append("cmake + ctest in the scratch worktree with the change applied")
        meta = {"property": prop, "source": "independent sub-agent (saw only the property text and its own worktree)",
                "files_changed": files, "needs_to_manifest": needs, "confirmation": {"demo": res, "existing_suite": suite}, "what_was_run": ran}
        json.dump(meta, open(os.path.join(out, "meta.json"), "w"), indent=1)
        print(json.dumps(meta["confirmation"], indent=1)[:1500])
    finally:
        sh("git -C /repo worktree remove --force %s" % wt)
    return 0
sys.exit(main())
