"""Thread-pool rig: build harness/tp_drv.c against REPO, run scenario files, pre-process traces
(filter/rename only - never infer state), validate them with TLC against specs/tp/TpTrace."""
import json, os, random, re
from rig import common

WRAPS = "write,read,pipe2,close,epoll_create1,calloc,free,pthread_create,pthread_join,timerfd_create,epoll_ctl,timerfd_settime"
PVT = 50
# life-cycle vocabulary of TpLife (consumed by TpTrace)
LIFE_CREATE = {"call.create", "call.threads_create", "ret.threads_create", "hook.start", "hook.stop", "ret.create", "tcreate.starting", "tcreate.failed", "proc.enter",
               "proc.running", "proc.onstart", "proc.onstop", "proc.ptid0", "proc.stop", "proc.exit", "create.pvt_running"}
LIFE_EVENTS = LIFE_CREATE | {"shutdown.cb", "shutdown.set", "sys.join0", "wait.joined", "destroy.free", "ret.destroy",
                             "ret.shutdown_wait", "sys.close", "Crash", "Hang", "call.attach_first", "ret.attach_first", "sys.close.foreign"}

# every named deviation action of the specification belongs to one property; a check reports only its own
# (the trace of any thread-pool check passes through all layers of the specification)
DEVIATION_PROPERTY = {
    "done-callback-on-non-origin-thread-after-failed-post": "C10",
    "tp_shutdown_wait-joins-a-thread-id-the-exiting-thread-already-cleared": "C11",
    "tp_destroy-frees-the-pool-with-threads-never-joined": "C11",
    "pool-freed-while-an-unjoined-thread-was-still-inside-tp_thread_proc": "C11",
    "concurrent-tp_shutdown-runs-pvt-stop-hook-twice": "C11",
    "stop-hook-without-start-hook-on-failed-create": "C11",
    "tp_threads_create-reports-success-although-pthread_create-failed": "C11",
    "shutdown-message-lost-on-a-full-queue-thread-never-stops": "C11",
}
def deviations(prop, tlc_out):
    names = set(re.findall(r'"DEVIATION",\s*"([^"]+)"', tlc_out))
    unknown = [n for n in names if n not in DEVIATION_PROPERTY]
    if unknown: raise common.Infra("deviation without an owning property: %s" % unknown)
    return sorted(n for n in names if DEVIATION_PROPERTY[n] == prop)

def build(d, san=None, compiler=None, opt="-O1"):
    compiler = compiler or ("clang" if san else "gcc")
    return common.cc(["/verif/harness/tp_drv.c"], os.path.join(d, "tp_drv" + ("_" + san if san else "")),
                     compiler=compiler, opt=opt, san=san,
                     flags=["-Wl," + ",".join("--wrap=" + w for w in WRAPS.split(","))])

def run_scenario(exe, text, d, seed, tag, timeout=90, env=None):
    sc = os.path.join(d, "sc_%s.txt" % tag); tr = os.path.join(d, "tr_%s.ndjson" % tag)
    open(sc, "w").write(text)
    if os.path.exists(tr): os.remove(tr)
    e = {"ASAN_OPTIONS": "detect_stack_use_after_return=1:detect_leaks=0:abort_on_error=0",
         "TSAN_OPTIONS": "halt_on_error=0"}
    if env: e.update(env)
    rc, out = common.sh([exe, sc, tr, str(seed)], timeout=timeout, env=e)
    evs = []
    if os.path.exists(tr):
        for ln in open(tr):
            try: evs.append(json.loads(ln))
            except Exception: pass   # a torn last line after a crash
    return rc, out, evs

def rename_pvt(evs):
    """thread id N (the pool's virtual thread) -> constant PVT; pure renaming, N comes from call.create"""
    n = None; out = []
    for e in evs:
        if e["e"] == "call.create": n = e["nthr"]
        e = dict(e)
        for k in ("d", "q", "arg", "t", "a", "b", "cur", "s", "pipe", "thr"):
            if k in e and n is not None and e[k] == n and not (k in ("a", "b") and e["e"].startswith(("dec.", "bsend.", "cbsend.", "done."))) \
               and not (k == "thr" and e["e"] != "call.ev"):     # "thr" is a thread id only in call.ev (a ledger count elsewhere)
                e[k] = PVT
        out.append(e)
    return out

def validate(ctx, evs, d, tag, keep, cfg="TpTrace.cfg", module="TpTrace", timeout=600):
    """-> (accepted, info). Writes the filtered trace and runs TLC on the trace spec."""
    tr = os.path.join(d, "v_%s.ndjson" % tag)
    sel = [e for e in evs if e["e"] in keep]
    open(tr, "w").write("".join(json.dumps(e) + "\n" for e in sel))
    r = common.tlc(module, cfg=cfg, workers=1, env={"TRACE": tr}, timeout=timeout, xmx="4g", xss="512m")
    info = {"events": len(sel), "states": r.distinct, "wall": round(r.wall, 1)}
    if r.rc == 0:
        return True, info, r
    m = re.search(r'"REJECTED_AT_LINE",\s*(\d+)', r.out)
    if m:
        k = int(m.group(1)); info["rejected_at"] = k
        info["context"] = sel[max(0, k - 7):k]  # the last entry is the event that was refused
    info["tlc"] = (r.violation or "") + "\n" + r.out[-1500:]
    return False, info, r
