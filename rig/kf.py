#!/usr/bin/env python3
"""known_findings.json maintenance (file-locked, so concurrent authors do not clobber each other).
  kf.py add  <Cxx> <key> <what...>            record an OPEN finding (check prints KNOWN-FINDING, exits 0)
  kf.py fixed <Cxx> <key> <commit> <what...>  record/flip a finding to FIXED (suppresses nothing)
  kf.py list
`key` is the exact failure key the check passes to ctx.fail(); keep it specific (function/call site/input shape)."""
import sys, json, fcntl, os
P = os.path.join(os.path.dirname(os.path.dirname(os.path.abspath(__file__))), "known_findings.json")
def main():
    a = sys.argv[1:]
    with open(P, "r+") as f:
        fcntl.flock(f, fcntl.LOCK_EX)
        d = json.load(f)
        fs = d.setdefault("findings", [])
        if a[0] == "list":
            for x in fs: print(x["property"], x["status"], x["key"], "-", x["what"])
            return
        prop, key = a[1], a[2]
        cur = [x for x in fs if x["property"] == prop and x["key"] == key]
        if a[0] == "add":
            what = " ".join(a[3:])
            if cur: cur[0].update(what=what, status="open")
            else: fs.append({"property": prop, "key": key, "status": "open", "what": what})
        elif a[0] == "fixed":
            commit = a[3]; what = " ".join(a[4:])
            line = "fixed: property=%s %s %s" % (prop, commit, what)
            if cur: cur[0].update(status="fixed", commit=commit, what=what, line=line)
            else: fs.append({"property": prop, "key": key, "status": "fixed", "commit": commit, "what": what, "line": line})
        f.seek(0); f.truncate(); json.dump(d, f, indent=1); f.write("\n")
main()
