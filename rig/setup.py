#!/usr/bin/env python3
"""setup_cmd: nothing is prebuilt (every check rebuilds from /repo); just verify the toolchain and parse the specs."""
import sys, os, glob, subprocess
sys.path.insert(0, os.path.dirname(os.path.dirname(os.path.abspath(__file__))))
from rig import common
ok = True
for t in ("java", "gcc", "clang", "python3"):
    if subprocess.call(["which", t], stdout=subprocess.DEVNULL) != 0:
        print("missing tool", t); ok = False
print("specs:", len(glob.glob(os.path.join(common.VERIF, "specs", "**", "*.tla"), recursive=True)))
sys.exit(0 if ok else 1)
