"""Plumbing shared by rig/checks/c03.py and rig/checks/c09.py: build configurations of harness/ecdsa_drv.c,
parallel TLC partitions, byte rendering.  Nothing here computes an expected result."""
import os, random, threading, time, json
from concurrent.futures import ThreadPoolExecutor
from rig import common

DRV = os.path.join(common.VERIF, "harness", "ecdsa_drv.c")
TOY8 = ["E8M3", "E8G", "E8Z", "E8C4"]
TOYBIG = ["E13", "E16M3"]

# ------------------------------------------------------------------ build configurations (the matrix of C02)
try:
    from rig.checks.c02 import SUITE, cfg_defs, cfg_name, cfg_valid      # one definition of the configuration space
except Exception:                                                          # pragma: no cover  (C02's file unavailable)
    FXP = {0: "BIN", 1: "PRECALC_DBL", 2: "SLIDING_WIN", 3: "COMB_1T", 4: "COMB_2T"}
    UNK = dict(FXP); UNK[5] = "SAME_AS_FXP"
    TWIN = {0: "BIN", 1: "FXP_UNKPT", 2: "JOINT", 3: "INTER"}
    SUITE = dict(digit=64, mulldiv=1, proj=1, mix=1, rdbl=1, fxp=4, fxpw=9, unk=3, unkw=2, twin=3)
    def cfg_name(c):
        return "d%d%s-%s%s%s-fxp%s.w%d-unk%s.w%d-twin%s" % (
            c["digit"], "m" if c["mulldiv"] else "", "proj" if c["proj"] else "aff", "+mix" if c["mix"] else "",
            "+rdbl" if c["rdbl"] else "", FXP[c["fxp"]], c["fxpw"], UNK[c["unk"]], c["unkw"], TWIN[c["twin"]])
    def cfg_defs(c):
        d = ["-DBN_DIGIT_BIT_CNT=%d" % c["digit"], "-DBN_BIT_LEN=1408"]
        if c["mulldiv"] and c["digit"] != 128: d.append("-DBN_CC_MULL_DIV=1")
        if c["proj"]: d.append("-DEC_USE_PROJECTIVE=1")
        if c["mix"]: d.append("-DEC_PROJ_ADD_MIX=1")
        if c["rdbl"]: d.append("-DEC_PROJ_REPEAT_DOUBLE=1")
        d += ["-DEC_PF_FXP_MULT_ALGO=%d" % c["fxp"], "-DEC_PF_FXP_MULT_WIN_BITS=%d" % c["fxpw"],
              "-DEC_PF_UNKPT_MULT_ALGO=%d" % c["unk"], "-DEC_PF_UNKPT_MULT_WIN_BITS=%d" % c["unkw"],
              "-DEC_PF_TWIN_MULT_ALGO=%d" % c["twin"]]
        return d
    def cfg_valid(c):
        if c["fxp"] == 2 and c["fxpw"] not in (1, 2, 4, 8): return False
        if c["unk"] == 2 and c["unkw"] not in (1, 2, 4): return False
        if c["fxp"] == 2 and c["fxpw"] > c["digit"]: return False
        if not c["proj"] and c["twin"] == 3: return False
        return True

def usable(c):
    """configurations C03/C09 build.  Excluded, because they are C02's findings and would only repeat them here: a table-based
    unknown-point multiplier whose window exceeds the fixed-point window (the table is sized by the latter), affine
    BIN_PRECALC_DBL, comb windows wider than a digit.
    (EC_PF_TWIN_MULT_ALGO_JOINT is built since bn_calc_jsf's zero-scalar defect was fixed upstream.)"""
    if not cfg_valid(c): return False
    unk, unkw = (c["fxp"], c["fxpw"]) if c["unk"] == 5 else (c["unk"], c["unkw"])
    if unk in (2, 3, 4) and unkw > c["fxpw"]: return False
    # open findings of C02 that make whole configurations unusable (every key pair / validation fails):
    if 1 in (c["fxp"], unk): return False      # BIN_PRECALC_DBL: affine table initialisation (open finding of C02); projective: EOVERFLOW for
                                               # scalars longer than m bits (n of secp160k1/r1/r2 has 161 bits) - reported to C02
    if (c["fxp"] in (3, 4) and c["fxpw"] > c["digit"]) or (unk in (3, 4) and unkw > c["digit"]): return False   # comb window wider than a digit
    if c["digit"] == 128: return False
    return True

POOL = [   # hand-picked spread over coordinate systems, multipliers and digit widths (all satisfy usable())
    dict(digit=64, mulldiv=1, proj=0, mix=0, rdbl=0, fxp=4, fxpw=8, unk=3, unkw=2, twin=2),     # the header's own defaults (affine, JOINT twin multiplication)
    dict(digit=32, mulldiv=0, proj=0, mix=0, rdbl=0, fxp=0, fxpw=4, unk=0, unkw=2, twin=0),     # plain affine, binary everything
    dict(digit=8,  mulldiv=1, proj=1, mix=0, rdbl=0, fxp=3, fxpw=4, unk=3, unkw=2, twin=1),     # 8-bit digits: the comb code really runs on the 8-bit curves
    dict(digit=16, mulldiv=0, proj=1, mix=1, rdbl=0, fxp=2, fxpw=4, unk=5, unkw=2, twin=1),     # sliding window, unknown point = same as fixed
    dict(digit=64, mulldiv=0, proj=1, mix=0, rdbl=0, fxp=2, fxpw=2, unk=2, unkw=2, twin=1),     # sliding windows of 2 bits, portable 64-bit multiply/divide
    dict(digit=32, mulldiv=1, proj=1, mix=0, rdbl=1, fxp=4, fxpw=3, unk=4, unkw=2, twin=3),     # 2-table comb for both, interleaving
    dict(digit=16, mulldiv=1, proj=0, mix=0, rdbl=0, fxp=3, fxpw=5, unk=2, unkw=4, twin=0),
    dict(digit=8,  mulldiv=0, proj=1, mix=1, rdbl=1, fxp=4, fxpw=2, unk=0, unkw=1, twin=3),
    dict(digit=64, mulldiv=1, proj=1, mix=0, rdbl=1, fxp=2, fxpw=8, unk=3, unkw=3, twin=0),
]

class Build:
    def __init__(self, cfg, pubchk, compiler="gcc", opt="-O2", asan=False):
        self.cfg = cfg; self.pubchk = pubchk; self.compiler = compiler; self.opt = opt; self.asan = asan; self.exe = None
    @property
    def name(self):
        return "%s%s:%s%s:%s" % (self.compiler, self.opt, "asan:" if self.asan else "", "pubchk" if self.pubchk else "nochk", cfg_name(self.cfg))

def do_build(b, d, idx):
    defs = list(cfg_defs(b.cfg)) + ([] if b.pubchk else ["-DVH_NO_PUBKEY_CHK=1"])
    # AddressSanitizer only: the header has benign UBSan findings (index -1 read in bn_sub for 0 - 0) that are C01's subject
    flags = ["-fsanitize=address"] if b.asan else []
    b.exe = common.cc([DRV], os.path.join(d, "ecdsa_drv_%d" % idx), compiler=b.compiler, opt=b.opt, defs=defs, flags=flags,
                      hooks=False, san=None)
    return b

def build_all(builds, d, par=3):
    with ThreadPoolExecutor(max_workers=par) as ex:
        return list(ex.map(lambda ib: do_build(ib[1], d, ib[0]), enumerate(builds)))

def choose_builds(ctx, n_extra, want):
    """the suite's configuration + n_extra seed-chosen ones from POOL; `want(i, cfg)` -> (pubchk, compiler, opt, asan)"""
    rng = random.Random(ctx.seed * 7919 + 13)
    pool = [c for c in POOL if usable(c)]
    rng.shuffle(pool)
    cfgs = [dict(SUITE)] + pool[:n_extra]
    return [Build(c, *want(i, c)) for i, c in enumerate(cfgs)]

CRASH_CAP = 60
SKIPPED = "skipped-after-crash-cap"
# Non-termination: the driver re-arms a watchdog before every library call (WD_CPU seconds of CPU time, 6 x that of wall clock;
# expiry = FAULT sig=14).  A sanitizer death costs milliseconds, a watchdog death costs WD_CPU seconds, so those have a budget of
# their own for the WHOLE check: once HANG_BUDGET calls have been killed by the watchdog (each one is reported through the
# caller's crash key <function>:fault-sig14), the batch at hand is cut there and every later run_lines() raises HangStop - the
# check catches it, reports what it has and ends.  A check must end with a verdict in bounded time.
WD_CPU = 60; HANG_BUDGET = 24
_hangs = [0]; _hang_lock = threading.Lock()
class HangStop(Exception):
    pass
def hang_stopped():
    return _hangs[0] >= HANG_BUDGET
def set_tier(ctx):
    global WD_CPU, HANG_BUDGET
    WD_CPU, HANG_BUDGET = (20, 6) if ctx.quick else (60, 24)
def run_lines(b, lines, timeout=900, cap=CRASH_CAP):
    """common.batch_run with a cap on dead driver processes: a tree in which every call dies must end in a verdict (the
    crashes already recorded), not in an infrastructure failure.  Lines behind the cap get a result whose kind is SKIPPED
    (Fails.add ignores those)."""
    if hang_stopped(): raise HangStop()
    res = [None] * len(lines)
    i = 0; crashes = 0; hang_cut = False
    e = {"ASAN_OPTIONS": "detect_leaks=0:abort_on_error=0:detect_stack_use_after_return=1:allocator_may_return_null=1",
         "UBSAN_OPTIONS": "print_stacktrace=1:halt_on_error=1", "ECDSA_DRV_WD_CPU": str(WD_CPU)}
    while i < len(lines):
        if crashes >= cap or hang_cut:
            for j in range(i, len(lines)): res[j] = {"crash": (SKIPPED, "", "", ""), "raw": ""}
            break
        data = ("\n".join(lines[i:]) + "\n").encode()
        rc, out = common.sh([b.exe], stdin=data, timeout=timeout, env=e)
        answers = []
        for ln in out.split("\n"):
            if ln.startswith("==") or "runtime error:" in ln or ln.startswith("FAULT") or ln.startswith("[rig] TIMEOUT"): break
            if ln.strip() == "": continue
            answers.append(ln)
        k = 0
        for a in answers:
            if i + k >= len(lines): break
            res[i + k] = a; k += 1
        if rc == 0 and i + k >= len(lines): break
        if i + k >= len(lines):
            raise common.Infra("driver exited rc=%s after answering everything:\n%s" % (rc, out[-2000:]))
        if any(a.startswith("FATAL") for a in answers):
            raise common.Infra("driver refused a case (rig bug): %s\n%s" % ([a for a in answers if a.startswith("FATAL")][:1], lines[i + k - 1][:300]))
        key = common.san_key(out) or (("timeout", "", "", "driver timeout") if rc == 124 else ("exit-%s" % rc, "", "", out[-300:]))
        res[i + k] = {"crash": key, "raw": out[-2500:]}
        i = i + k + 1; crashes += 1
        if key[0] in ("fault-sig14", "timeout"):
            with _hang_lock:
                _hangs[0] += 1; hang_cut = _hangs[0] >= HANG_BUDGET
    return res

# ------------------------------------------------------------------ TLC partitions
def write_cfg(name, consts, invariants):
    ws = common.tlc_workspace()
    with open(os.path.join(ws, name), "w") as f:
        f.write("SPECIFICATION Spec\nCONSTANTS\n")
        for k, v in consts.items(): f.write("  %s = %s\n" % (k, v))
        f.write("INVARIANTS %s\nCONSTRAINT Emit\nCHECK_DEADLOCK FALSE\n" % " ".join(invariants))
    return name

def tset(xs, quote=False):
    xs = sorted(set(xs))
    return "{" + ", ".join(('"%s"' % x) if quote else str(x) for x in xs) + "}"

def run_partitions(ctx, module, parts, par=4, timeout=1500):
    """parts: list of (label, cfgname).  Runs them with one TLC worker each, `par` at a time; returns the
    list of printed cases; every partition must be violation free and print one case per distinct state."""
    out = []; lock = threading.Lock()
    def one(p):
        label, cfg = p
        r = common.tlc(module, cfg=cfg, workers=1, xss="256m", xmx="3g", timeout=timeout)
        if r.rc != 0 or r.violation is not None:
            return (label, r, None)
        cases = common.tlc_printed_json(r.out)
        return (label, r, cases)
    with ThreadPoolExecutor(max_workers=par) as ex:
        res = list(ex.map(one, parts))
    for label, r, cases in res:
        if cases is None:
            ctx.fail("spec:%s:%s" % (module, r.violation or ("tlc-rc-%s" % r.rc)),
                     "TLC found the reference definitions violating their own algebra (%s, partition %s):\n%s" % (module, label, r.out[-3000:]),
                     {"module": module, "partition": label})
            continue
        if len(cases) != r.distinct:
            raise common.Infra("%s/%s: %d cases printed for %d distinct states" % (module, label, len(cases), r.distinct))
        ctx.tlc_stats(r, "%s/%s" % (module, label))
        out.extend(cases)
    return out

# ------------------------------------------------------------------ rendering
def to_bytes(v, n, order):
    return int(v).to_bytes(n, "big" if order == "be" else "little")
def hx(b):
    b = bytes(b)
    return b.hex() if b else "-"
def ihex(v):
    return "%x" % v
def pt_args(pt):
    return ("inf", "-") if not pt else (ihex(pt[0]), ihex(pt[1]))
def parse_pt(s):
    if s == "inf": return []
    x, y = s.split(",")
    return [int(x, 16), int(y, 16)]
