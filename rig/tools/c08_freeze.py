#!/usr/bin/env python3
"""Development-time tool (NOT part of the verdict): freeze the published test vectors and the GOST S-box tables
that are quoted in the UNCHANGED headers /repo/include/crypto/cipher/{chacha,gost28147}.h into TLA+ modules under
/verif/specs/cipher.  The frozen modules are committed; checks never re-read the header for oracle data, so a later
mutation of the C tables cannot leak into the reference.  Sources of the vectors (as cited in the headers):
RFC 7539 / draft-nir-cfrg-chacha20-poly1305 A.1, A.2; draft-strombergson-chacha-test-vectors-00 TC1, TC8;
floodyberry/chacha-opt (hchacha/8, chacha/8 and xchacha/8 folded key streams); GOST R 34.12-2015 A.2;
RFC 4357 parameter sets; cryptomanager.com, Crypto++ gostval.dat, BouncyCastle GOST28147(Mac)Test, TC26 UZ.
Usage: python3 rig/tools/c08_freeze.py [/repo]"""
import re, sys, os
REPO = sys.argv[1] if len(sys.argv) > 1 else "/repo"
OUT = os.path.join(os.path.dirname(os.path.dirname(os.path.dirname(os.path.abspath(__file__)))), "specs", "cipher")

def tup(bs): return "<<" + ",".join(str(b) for b in bs) + ">>"
def unhex(s): return list(bytes.fromhex(s))

# ------------------------------------------------------------------ ChaCha
h = open(os.path.join(REPO, "include/crypto/cipher/chacha.h")).read()
tbl = h[h.index("static chacha_tst1v_t chacha_tst1v[]"):h.index("#define CHACHA_TEST_LEN")]
ents = re.findall(r"/\*\.rounds =\*/\s*(\d+),\s*/\*\.key =\*/\s*\(uint8_t\*\)\"([0-9a-f]+)\",\s*/\*\.key_size =\*/\s*(\d+),\s*"
                  r"/\*\.count =\*/\s*\(uint8_t\*\)(NULL|\"[0-9a-f]+\"),\s*/\*\.iv =\*/\s*\(uint8_t\*\)\"([0-9a-f]+)\",\s*"
                  r"/\*\.data_size =\*/\s*(\d+),\s*/\*\.plain =\*/\s*\(uint8_t\*\)(NULL|\"[0-9a-f]+\"),\s*"
                  r"/\*\.encrypted =\*/\s*\(uint8_t\*\)\"([0-9a-f]+)\"", tbl)
assert len(ents) == 22, len(ents)
recs = []
for rounds, key, ksz, cnt, iv, dsz, plain, enc in ents:
    key = unhex(key); assert len(key) * 2 == int(ksz)
    # the self test reads the counter as a big-endian number (RFC notation) -> little-endian bytes
    ctr = [0] * 8 if cnt == "NULL" else list(reversed(unhex(cnt.strip('"'))))
    iv = unhex(iv); enc = unhex(enc); n = int(dsz) // 2; assert len(enc) == n and len(iv) == 8
    pl = [] if plain == "NULL" else unhex(plain.strip('"'))
    assert pl == [] or len(pl) == n
    recs.append("  [rounds |-> %s, key |-> %s,\n   ctr |-> %s, iv |-> %s, n |-> %d,\n   plain |-> %s,\n   out |-> %s]"
                % (rounds, tup(key), tup(ctr), tup(iv), n, tup(pl), tup(enc)))
def carr(name):
    m = re.search(r"static const unsigned char %s\[[^\]]*\] = \{([^}]*)\}" % name, h)
    return [int(x, 16) for x in re.findall(r"0x([0-9a-f]{2})", m.group(1))]
hc = carr("expected_hchacha"); c1 = carr("expected_chacha_oneshot"); x1 = carr("expected_xchacha_oneshot")
assert len(hc) == 32 and len(c1) == 64 and len(x1) == 64
open(os.path.join(OUT, "ChaChaVectors.tla"), "w").write("""---------------------------- MODULE ChaChaVectors ----------------------------
(* FROZEN published ChaCha test vectors (generated once by rig/tools/c08_freeze.py from the citations in the
   unchanged header; do not edit): RFC 7539 A.1 #2..#5, A.2 #2, #3 and their draft-agl predecessors (20 rounds,
   256-bit key), draft-strombergson TC1/TC8 (8/12/20 rounds, 128/256-bit keys), chacha-opt folded vectors.
   ctr is the initial 64-bit block counter as 8 little-endian bytes; plain = << >> means "key stream". *)
Vectors == <<
%s
>>
\\* chacha-opt: key = 192..223, iv = 16..39, 8 rounds, counter 0
OptKey == %s
OptIv  == %s
ExpectedHChaCha8 == %s
\\* xor of the 32 consecutive 64-byte key stream blocks of ChaCha/8 (iv = first 8 bytes) and XChaCha/8 (24 bytes)
ExpectedChaCha8Fold  == %s
ExpectedXChaCha8Fold == %s
=============================================================================
""" % (",\n".join(recs), tup(range(192, 224)), tup(range(16, 40)), tup(hc), tup(c1), tup(x1)))

# ------------------------------------------------------------------ GOST 28147-89
g = open(os.path.join(REPO, "include/crypto/cipher/gost28147.h")).read()
names = re.findall(r"static const uint8_t (id_\w+_sbox)\[128\] = \{([^}]*)\}", g)
sb = {}
for nm, body in names:
    v = [int(x, 16) for x in re.findall(r"0x([0-9a-f]{2})", body)]
    assert len(v) == 128 and all(sorted(v[r*16:(r+1)*16]) == list(range(16)) for r in range(8)), nm
    sb[nm] = v
order = ["id_gostr3411_94_testparamset_sbox", "id_gost28147_89_cryptopro_a_paramset_sbox",
         "id_gost28147_89_cryptopro_b_paramset_sbox", "id_gost28147_89_cryptopro_c_paramset_sbox",
         "id_gost28147_89_cryptopro_d_paramset_sbox", "id_tc26_gost_28147_param_z_sbox"]
assert sorted(order) == sorted(sb), sorted(sb)
def rows(v): return "<<\n" + ",\n".join("     " + tup(v[r*16:(r+1)*16]) for r in range(8)) + " >>"
open(os.path.join(OUT, "Gost28147Sboxes.tla"), "w").write("""--------------------------- MODULE Gost28147Sboxes ---------------------------
(* FROZEN substitution tables (generated once by rig/tools/c08_freeze.py from the unchanged header, do not
   edit; validated inside TLC by the published vectors of Gost28147Vectors).  Row r (1..8) substitutes nibble
   r-1 of the 32-bit word (nibble 0 = least significant), column = nibble value + 1.
   Index: 1 id-GostR3411-94-TestParamSet (RFC 4357 11.2 layout), 2..5 id-Gost28147-89-CryptoPro-A/B/C/D-ParamSet,
   6 id-tc26-gost-28147-param-Z (RFC 7836 / GOST R 34.12-2015). *)
SboxNames == << %s >>
Sboxes == <<
%s
>>
=============================================================================
""" % (", ".join('"%s"' % n for n in order), ",\n".join("  " + rows(sb[n]) for n in order)))

def w(x): x = int(x, 16); return "<<%d,%d>>" % (x >> 16, x & 0xffff)
seg = g[g.index("gost28147_tstgv[]"):g.index("gost28147_testgk_vectors_s")]
gv = re.findall(r"/\*\.a =\*/\s*0x([0-9a-f]{8}),\s*/\*\.k =\*/\s*0x([0-9a-f]{8}),\s*/\*\.g_res =\*/\s*0x([0-9a-f]{8})", seg)
assert len(gv) == 4
seg = g[g.index("gost28147_tstgkv[]"):g.index("gost28147_test1_vectors_s")]
gk = re.findall(r"/\*\.k =\*/\s*0x([0-9a-f]{8}),\s*/\*\.a0 =\*/\s*0x([0-9a-f]{8}),\s*/\*\.a1 =\*/\s*0x([0-9a-f]{8}),\s*/\*\.a0_res =\*/\s*0x([0-9a-f]{8})", seg)
assert len(gk) == 32
def tv(tabname, endname, last):
    seg = g[g.index(tabname):g.index(endname)]
    r = re.findall(r"/\*\.key =\*/\s*\(uint8_t\*\)\"([0-9a-f]{64})\",.*?/\*\.sbox =\*/\s*(\w+),\s*/\*\.data_size =\*/\s*(\d+),\s*"
                   r"/\*\.plain =\*/\s*\(uint8_t\*\)\"([0-9a-f]+)\",.*?/\*\.%s =\*/\s*\(uint8_t\*\)\"([0-9a-f]+)\"" % last, seg, re.S)
    out = []
    for key, sbn, dsz, pl, res in r:
        assert len(pl) == int(dsz)
        out.append("  [sbox |-> %d, key |-> %s,\n   data |-> %s, out |-> %s]" % (order.index(sbn) + 1, tup(unhex(key)), tup(unhex(pl)), tup(unhex(res))))
    return out
e_le = tv("gost28147_tst1v[]", "gost28147_tst1v_be[]", "encrypted"); assert len(e_le) == 12
e_be = tv("gost28147_tst1v_be[]", "gost28147_test2_vectors_s", "encrypted"); assert len(e_be) == 1
m_le = tv("gost28147_tst2v[]", "gost28147_tst2v_be[]", "mac"); assert len(m_le) == 2
open(os.path.join(OUT, "Gost28147Vectors.tla"), "w").write("""--------------------------- MODULE Gost28147Vectors ---------------------------
(* FROZEN published GOST 28147-89 / Magma vectors (generated once by rig/tools/c08_freeze.py from the citations
   in the unchanged header; do not edit).  Words are << hi16, lo16 >>.
   VecG: GOST R 34.12-2015 A.2.2, g[k](a) with the param-Z table:  << a, k, g >>.
   VecGk: GOST R 34.12-2015 A.2.4, the 32 rounds G[k](a1, a0):  << k, a0_in, a1_in, a0_out >> (a0_in is xored).
   VecEncLE: cryptomanager.com, Crypto++ gostval.dat, TC26 UZ, GOST R 34.12-2015 A.2.4 (byte-swapped), BouncyCastle;
   bytes in the GOST 28147-89 / RFC 5830 little-endian convention.  VecEncBE: GOST R 34.12-2015 A.2.4 as printed.
   VecMacLE: BouncyCastle GOST28147MacTest (CryptoPro-A), and round 16 of A.2.4. *)
VecG == << %s >>
VecGk == <<
%s >>
VecEncLE == <<
%s
>>
VecEncBE == <<
%s
>>
VecMacLE == <<
%s
>>
=============================================================================
""" % (", ".join("<<%s,%s,%s>>" % (w(a), w(k), w(r)) for a, k, r in gv),
       ",\n".join("  <<%s,%s,%s,%s>>" % (w(k), w(a0), w(a1), w(r)) for k, a0, a1, r in gk),
       ",\n".join(e_le), ",\n".join(e_be), ",\n".join(m_le)))
print("frozen: %d chacha vectors, %d sboxes, %d+%d+%d gost vectors" % (len(recs), len(sb), len(e_le), len(e_be), len(m_le)))
