------------------------------- MODULE Ecdsa -------------------------------
(* ECDSA (ANS X9.62 / SEC 1 v2 section 4.1) and GOST R 34.10-2012 (section 6) signature generation and
   verification as plain mathematics on the textbook group law of EcGroup, for the small curves of
   EcCurves whose arithmetic fits TLC's native integers.  Reference definition for
   include/crypto/dsa/ecdsa.h (property C03).

   Conventions
     c       curve record of EcGroup/EcCurves ([p, a, b, gx, gy, n, h, m, ...]); n prime
     alg     "ecdsa" | "gost"
     d       private key, 1 <= d <= n-1;   Q public key (a point);   k per-signature secret, 1 <= k <= n-1
     e       the integer the standards derive from the message digest (see HashE* below)
     result of Sign:  NoSig  or  << r, s >>
   Scalar multiplications are passed in as operators MG(k) = k*G and MQ(k) = k*Q so that a generator may
   evaluate them from tables of repeated additions; Sign/Verify/VerifyPriv below instantiate them with
   EcGroup!Mul.  Nothing here knows about the library.  The section "byte entry points" states how a
   digest given as an octet string becomes e, and which readings are admissible where the standards are
   silent; the section "documented library conversions" models what the comments in ecdsa.h / big_num.h
   say the code does (used only to CLASSIFY a deviation, never as an expectation).                    *)
EXTENDS EcGroup, Naturals, Sequences, FiniteSets, TLC

Algs == { "ecdsa", "gost" }
NoSig == << >>

(* ------------------------------------------------------------------ small helpers *)
RECURSIVE BitLenI(_)
BitLenI(v) == IF v = 0 THEN 0 ELSE 1 + BitLenI(v \div 2)          \* number of bits of a natural
RECURSIVE TwoTo(_)
TwoTo(j) == IF j = 0 THEN 1 ELSE 2 * TwoTo(j - 1)
Min2(x, y) == IF x < y THEN x ELSE y

RECURSIVE BEInt(_)                                                 \* octet string, most significant first
BEInt(bs) == IF Len(bs) = 0 THEN 0 ELSE BEInt(SubSeq(bs, 1, Len(bs) - 1)) * 256 + bs[Len(bs)]
RECURSIVE LEInt(_)                                                 \* least significant first
LEInt(bs) == IF Len(bs) = 0 THEN 0 ELSE bs[1] + 256 * LEInt(SubSeq(bs, 2, Len(bs)))
RECURSIVE Rev(_)
Rev(bs) == IF Len(bs) = 0 THEN << >> ELSE Append(Rev(SubSeq(bs, 2, Len(bs))), bs[1])
RECURSIVE ToBE(_, _)                                               \* v as exactly len octets (v < 256^len)
ToBE(v, len) == IF len = 0 THEN << >> ELSE Append(ToBE(v \div 256, len - 1), v % 256)
ToLE(v, len) == Rev(ToBE(v, len))
FieldBytes(c) == (c.m + 7) \div 8                                  \* octets of a field element / of r, s, d

(* ------------------------------------------------------------------ arithmetic mod n *)
\* Inverses modulo the group order.  Evaluation speed only: for the orders of the 8-bit curves of EcCurves the inverses are
\* tabulated once; the table is DEFINED as the Fermat inverse and the ASSUME confirms every entry (as EcGroup!InvTab).
OrderTabPrimes == { 59, 211, 223, 229 }
InvNTab == TLCEval([q \in OrderTabPrimes |-> TLCEval([t \in 1..(q - 1) |-> InvFermat(t, q)])])
InvN(t, q) == IF q \in OrderTabPrimes THEN InvNTab[q][t] ELSE InvFermat(t, q)              \* q prime, 0 < t < q
ASSUME \A q \in OrderTabPrimes : \A t \in 1..(q - 1) : IsInv(InvN(t, q), t, q)

(* ------------------------------------------------------------------ signing *)
\* ECDSA (SEC 1 4.1.3): R = kG, r = x_R mod n, r # 0;  s = k^-1 (e + r d) mod n, s # 0
\* GOST  (34.10-2012 6.1): C = kP, r = x_C mod q, r # 0;  s = (r d + k e) mod q, s # 0   (e already in 1..q-1)
SignW(c, alg, d, e, k, MG(_)) ==
   IF k \notin 1..(c.n - 1) THEN NoSig
   ELSE LET R == MG(k)
        IN IF R = Inf THEN NoSig
           ELSE LET r  == R[1] % c.n
                    rd == MulMod(r, d % c.n, c.n)
                    s  == IF alg = "ecdsa" THEN MulMod(InvN(k, c.n), AddMod(e % c.n, rd, c.n), c.n)
                                           ELSE AddMod(rd, MulMod(k, e % c.n, c.n), c.n)
                IN IF r = 0 \/ s = 0 THEN NoSig ELSE << r, s >>
Sign(c, alg, d, e, k) == SignW(c, alg, d, e, k, LAMBDA j : Mul(c, j, G(c)))

(* ------------------------------------------------------------------ verification *)
\* a public key is valid iff it is a finite point of the curve with coordinates in the field that n annihilates
ValidPubW(c, Q, MQ(_)) == /\ Q # Inf /\ OnCurve(c, Q) /\ MQ(c.n) = Inf
ValidPub(c, Q) == ValidPubW(c, Q, LAMBDA j : Mul(c, j, Q))

\* ECDSA (SEC 1 4.1.4): r, s in [1, n-1];  u1 = e s^-1, u2 = r s^-1;  R = u1 G + u2 Q # O;  x_R mod n = r
\* GOST  (6.2): 0 < r, s < q;  v = e^-1;  z1 = s v, z2 = -r v;  C = z1 P + z2 Q;  x_C mod q = r
\*   (C = O has no x coordinate: rejected).  The key is a precondition of both standards: an invalid key is rejected.
VerifyW(c, alg, Q, e, r, s, MG(_), MQ(_)) ==
   /\ ValidPubW(c, Q, MQ)
   /\ r \in 1..(c.n - 1) /\ s \in 1..(c.n - 1)
   /\ (alg = "gost" => e % c.n # 0)
   /\ LET w  == IF alg = "ecdsa" THEN InvN(s, c.n) ELSE InvN(e % c.n, c.n)
          u1 == IF alg = "ecdsa" THEN MulMod(e % c.n, w, c.n) ELSE MulMod(s, w, c.n)
          u2 == IF alg = "ecdsa" THEN MulMod(r, w, c.n) ELSE MulMod(c.n - r, w, c.n)
          R  == Add(c, MG(u1), MQ(u2))
      IN R # Inf /\ R[1] % c.n = r
Verify(c, alg, Q, e, r, s) == VerifyW(c, alg, Q, e, r, s, LAMBDA j : Mul(c, j, G(c)), LAMBDA j : Mul(c, j, Q))

\* verification by the holder of the private key: by definition the verdict for the key Q = dG
VerifyPriv(c, alg, d, e, r, s) == d \in 1..(c.n - 1) /\ Verify(c, alg, Mul(c, d, G(c)), e, r, s)

(* ------------------------------------------------------------------ digest -> e *)
\* ECDSA: the leftmost min(bits of the digest, bits of n) bits as an integer (SEC 1 4.1.3 step 5), used mod n.
\* GOST: alpha = the integer whose binary representation is the digest, e = alpha mod q, and e = 0 is replaced by 1.
EcdsaE(c, H, hbits) == LET L == BitLenI(c.n) IN (IF hbits > L THEN H \div TwoTo(hbits - L) ELSE H) % c.n
GostE(c, H) == LET x == H % c.n IN IF x = 0 THEN 1 ELSE x
HashE(c, alg, hb) == IF alg = "ecdsa" THEN EcdsaE(c, BEInt(hb), 8 * Len(hb)) ELSE GostE(c, BEInt(hb))
\* digest already given as an integer (the bn_t level API): no bit length to truncate by
HashEInt(c, alg, H) == IF alg = "ecdsa" THEN H % c.n ELSE GostE(c, H)

(* ------------------------------------------------------------------ byte entry points *)
\* order "be": the buffers are the standards' octet strings.  order "le": every buffer holds its integer least
\* significant octet first, i.e. the standard applies to the reversed buffer S.  Where the standards are silent the
\* set has more than one admissible e (B = FieldBytes):
\*   - GOST fixes the digest length to the size of q; for a longer digest both "alpha = the whole digest" and
\*     "alpha = its B most significant octets" are admitted;
\*   - "le" with a digest longer than B: besides the readings of the reversed buffer, keeping the FIRST B octets of
\*     the buffer, i.e. the B least significant ones (what the header documents: MIN(hash_size, bytes)), is admitted.
HashESet(c, alg, order, hb) ==
   LET B   == FieldBytes(c)
       S   == IF order = "be" THEN hb ELSE Rev(hb)                       \* most significant octet first
       msB == SubSeq(S, 1, Min2(B, Len(S)))
       lsB == SubSeq(S, Len(S) - Min2(B, Len(S)) + 1, Len(S))
   IN  IF Len(hb) <= B THEN { HashE(c, alg, S) }
       ELSE { HashE(c, alg, S) }
            \cup (IF alg = "gost" THEN { HashE(c, alg, msB) } ELSE { })
            \cup (IF order = "le" THEN { HashE(c, alg, lsB) } ELSE { })

(* ------------------------------------------------------------------ documented library conversions *)
\* big_num.h, bn_mod_reduce: "Computes bn = (bn mod (m - 1)) + 1", applied only when bn >= m.
LcbReduce(x, n) == IF x < n THEN x ELSE (x % (n - 1)) + 1
\* ecdsa.h: MIN(hash_size, bytes) octets are imported, then bn_mod_reduce; GOST: 0 -> 1
LcbHashInt(c, order, hb) == LET head == SubSeq(hb, 1, Min2(FieldBytes(c), Len(hb)))
                            IN IF order = "be" THEN BEInt(head) ELSE LEInt(head)
LcbE(c, alg, H) == LET x == LcbReduce(H, c.n) IN IF alg = "gost" /\ x = 0 THEN 1 ELSE x
\* why the documented conversion is not an admissible one (for keying a deviation): "truncation" when the digest
\* has more bits than n after the octet cut (the standard drops bits, the header does not), else "reduction"
LcbHashClass(c, alg, order, hb) ==
   IF LcbE(c, alg, LcbHashInt(c, order, hb)) \in HashESet(c, alg, order, hb) THEN "agree"
   ELSE IF alg = "ecdsa" /\ 8 * Min2(FieldBytes(c), Len(hb)) > BitLenI(c.n) THEN "truncation"
   ELSE "reduction"
\* the per-signature secret / the private key drawn from caller-supplied random octets: the header's comments say
\* "k = (c mod (n - 1)) + 1"; the code applies it only for c >= n.  Both maps are admitted; 0 is never a valid secret.
SecretSet(x, n) == { LcbReduce(x, n), (x % (n - 1)) + 1 }
=============================================================================
