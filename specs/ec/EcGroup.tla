------------------------------ MODULE EcGroup ------------------------------
(* Textbook affine group law of a short Weierstrass curve  y^2 = x^3 + a*x + b  over GF(p), p an odd
   prime, as plain mathematics that TLC evaluates with its native integers.  Reference definition for
   liblcb include/math/elliptic_curve.h (property C02; extended by the ECDSA / key-codec references of
   C03 / C09).

   A curve is a record  [p, a, b, gx, gy, n, h]  (all naturals, a and b already reduced mod p,
   n = order of the base point G = (gx, gy), h = cofactor: #E(GF(p)) = h * n).
   A point is  Inf == << >>  (the neutral element)  or  << x, y >>  with 0 <= x, y < p.
   Every operator takes the curve as its first argument, so one TLC run can range over several curves.

   Range: MulMod splits one factor into 8-bit pieces, so nothing leaves 0 .. 2^31-1 as long as
   p < 2^22 (TLC integers are 32-bit signed; products p*p overflow for p >= 46341).

   Note for modules that EXTEND this one: do not name VARIABLES (or state-level definitions) like the
   operator parameters used here (c, k, l, P, Q, p, u, v, e, x, y, j ...).  TLC then no longer treats
   constant definitions that apply these operators as constants (InvTab below was rebuilt at every
   reference and start-up took 30 s in the C02 generators until their variables were renamed vCurve ...). *)
EXTENDS Naturals, Sequences, TLC

(* ------------------------------------------------------------------ arithmetic mod p *)
AddMod(u, v, p) == (u + v) % p
SubMod(u, v, p) == (u + p - v) % p                       \* 0 <= u, v < p
NegMod(v, p)    == (p - v) % p
MulMod(u, v, p) ==                                       \* 0 <= u, v < p < 2^22
   IF p < 46341 THEN (u * v) % p
   ELSE LET v2 == v \div 65536   v1 == (v \div 256) % 256   v0 == v % 256
            t2 == (u * v2) % p                           \* u * v2 < 2^22 * 2^6
            t1 == (t2 * 256 + u * v1) % p                \* < 2^30 + 2^30
        IN  (t1 * 256 + u * v0) % p

RECURSIVE PowMod(_, _, _)
PowMod(u, e, p) ==                                       \* u^e mod p by square-and-multiply
   IF e = 0 THEN 1 % p
   ELSE LET h == PowMod(u, e \div 2, p)
            s == MulMod(h, h, p)
        IN  IF e % 2 = 1 THEN MulMod(s, u % p, p) ELSE s

InvFermat(v, p) == PowMod(v, p - 2, p)                   \* p prime, v % p # 0
\* Evaluation speed only: for the 8-bit fields of EcCurves the inverses are tabulated once (a constant
\* definition, which TLC evaluates a single time; TLCEval makes it a stored table instead of a formula).
\* The table is DEFINED as the Fermat inverse, and IsInv is what the ASSUME below confirms for every entry.
TabPrimes == { 239, 241, 251 }
InvTab == TLCEval([p \in TabPrimes |-> TLCEval([v \in 1..(p - 1) |-> InvFermat(v, p)])])
InvMod(v, p) == IF p \in TabPrimes THEN InvTab[p][v] ELSE InvFermat(v, p)
IsInv(w, v, p) == MulMod(w, v, p) = 1
ASSUME \A p \in TabPrimes : \A v \in 1..(p - 1) : IsInv(InvMod(v, p), v, p)

(* ------------------------------------------------------------------ points *)
Inf == << >>
IsInf(P) == P = Inf
Pt(x, y) == << x, y >>
G(c) == << c.gx, c.gy >>

Rhs(c, x) == AddMod(AddMod(MulMod(MulMod(x, x, c.p), x, c.p), MulMod(c.a, x, c.p), c.p), c.b, c.p)
OnCurve(c, P) ==                                         \* Inf is on every curve
   \/ P = Inf
   \/ /\ Len(P) = 2 /\ P[1] \in 0..(c.p - 1) /\ P[2] \in 0..(c.p - 1)
      /\ MulMod(P[2], P[2], c.p) = Rhs(c, P[1])

\* 4a^3 + 27b^2 # 0 (mod p): the curve is non-singular
Discriminant(c) == AddMod(MulMod(4 % c.p, MulMod(MulMod(c.a, c.a, c.p), c.a, c.p), c.p),
                          MulMod(27 % c.p, MulMod(c.b, c.b, c.p), c.p), c.p)

Neg(c, P) == IF P = Inf THEN Inf ELSE << P[1], NegMod(P[2], c.p) >>

\* chord / tangent with slope l through P (and Q):  x3 = l^2 - x1 - x2,  y3 = l*(x1 - x3) - y1
FromSlope(c, l, P, Q) ==
   LET x3 == SubMod(SubMod(MulMod(l, l, c.p), P[1], c.p), Q[1], c.p)
       y3 == SubMod(MulMod(l, SubMod(P[1], x3, c.p), c.p), P[2], c.p)
   IN  << x3, y3 >>

Dbl(c, P) ==
   IF P = Inf THEN Inf
   ELSE IF P[2] = 0 THEN Inf                             \* point of order 2
   ELSE LET num == AddMod(MulMod(3 % c.p, MulMod(P[1], P[1], c.p), c.p), c.a, c.p)
            l   == MulMod(num, InvMod(AddMod(P[2], P[2], c.p), c.p), c.p)
        IN  FromSlope(c, l, P, P)

Add(c, P, Q) ==
   IF P = Inf THEN Q
   ELSE IF Q = Inf THEN P
   ELSE IF P[1] = Q[1] THEN (IF P[2] = Q[2] THEN Dbl(c, P) ELSE Inf)     \* same x: P = Q or P = -Q
   ELSE LET l == MulMod(SubMod(Q[2], P[2], c.p), InvMod(SubMod(Q[1], P[1], c.p), c.p), c.p)
        IN  FromSlope(c, l, P, Q)

Sub(c, P, Q) == Add(c, P, Neg(c, Q))

RECURSIVE DblN(_, _, _)
DblN(c, P, j) == IF j = 0 THEN P ELSE DblN(c, Dbl(c, P), j - 1)          \* 2^j * P

\* k*P.  MulSlow is the definition (k-fold addition), MulTable below the same thing kept as a table; Mul is
\* double-and-add, which TLC compares with the k-fold sums on whole groups (EcCurvesCount, EcGenPairs!MulAgrees /
\* MulCorners, EcGenWalk!Ladder).  All are defined for every natural k.
RECURSIVE MulSlow(_, _, _)
MulSlow(c, k, P) == IF k = 0 THEN Inf ELSE Add(c, MulSlow(c, k - 1, P), P)
RECURSIVE Mul(_, _, _)
Mul(c, k, P) ==
   IF k = 0 \/ P = Inf THEN Inf
   ELSE LET d == Dbl(c, Mul(c, k \div 2, P))
        IN  IF k % 2 = 1 THEN Add(c, d, P) ELSE d

TwinMul(c, k, P, l, Q) == Add(c, Mul(c, k, P), Mul(c, l, Q))             \* k*P + l*Q

\* << 0*P, 1*P, ..., kmax*P >> by repeated addition (index k+1 holds k*P)
RECURSIVE MulTable(_, _, _)
MulTable(c, P, kmax) ==                                  \* recursion depth kmax: meant for kmax of a few hundred
   IF kmax = 0 THEN << Inf >>
   ELSE LET prev == MulTable(c, P, kmax - 1) IN Append(prev, Add(c, prev[kmax], P))

(* ------------------------------------------------------------------ curve sanity (used in ASSUMEs) *)
IsPrime(q) == q > 1 /\ \A d \in 2..(q - 1) : d > q \div d \/ q % d # 0     \* trial division up to sqrt(q)
WellFormed(c) ==
   /\ IsPrime(c.p) /\ c.p > 3 /\ c.p < 4194304
   /\ c.a \in 0..(c.p - 1) /\ c.b \in 0..(c.p - 1)
   /\ Discriminant(c) # 0
   /\ G(c) # Inf /\ OnCurve(c, G(c))
   /\ Mul(c, c.n, G(c)) = Inf
   /\ IsPrime(c.n)                                        \* hence ord(G) = n exactly
   /\ c.h >= 1
=============================================================================
