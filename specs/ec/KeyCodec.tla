------------------------------ MODULE KeyCodec ------------------------------
(* Public-key encodings, key validation, key derivation and Diffie-Hellman as plain mathematics on EcGroup, for the
   small curves of EcCurves (property C09; reference for the pub_key_export / pub_key_import / key_gen /
   recover_pub_key_from_priv_key / dh entry points of include/crypto/dsa/ecdsa.h).

   Encodings (SEC 1 v2 2.3.3 / 2.3.4, X9.62 hybrid form, and the two raw forms the header adds); B = FieldBytes(c),
   X / Y = the coordinate as exactly B octets in the chosen byte order ("be" | "le"):
       neutral element   00                       (one octet, in every form)
       "compressed"      02|03 X                  prefix = 2 + (y mod 2)
       "packed"          04 X Y                   (import also: 06|07 X Y, the hybrid form)
       "separate"        X  and  Y in a second block
       "concat"          X Y                      (import only)
   A block pair is [x |-> octets, y |-> octets]; y = << >> means "no second block".

   Import(c, order, enc, validate) = [st, pt]
       st = "ok"      must be accepted and denote pt
            "reject"  must be refused
            "may"     may be refused; if accepted it must denote pt   (readings the standards leave open)
            "any"     unspecified (only memory safety is demanded)
   validate = FALSE models EC_DISABLE_PUB_KEY_CHK: the caller vouches for the key, so whatever is not a valid
   key is "any" there -- except that a compressed key whose x has a square root must still come back with the
   root of the requested parity.                                                                           *)
EXTENDS Ecdsa

Forms == { "compressed", "packed", "separate" }
NoBlock == << >>
Coord(c, v, order) == IF order = "be" THEN ToBE(v, FieldBytes(c)) ELSE ToLE(v, FieldBytes(c))
CoordVal(order, bs) == IF order = "be" THEN BEInt(bs) ELSE LEInt(bs)

(* ------------------------------------------------------------------ validity *)
\* the neutral element, or a point of the curve (coordinates in the field) that the group order n annihilates
ValidKeyW(c, P, MP(_)) == P = Inf \/ (OnCurve(c, P) /\ MP(c.n) = Inf)
ValidKey(c, P) == ValidKeyW(c, P, LAMBDA j : Mul(c, j, P))

(* ------------------------------------------------------------------ square roots mod p *)
\* definition: the set of y in the field with y^2 = v.  Evaluated by exhaustion on the 8-bit fields; on larger
\* fields a Tonelli-Shanks candidate is computed and CHECKED by squaring (a non-residue is recognised by
\* Euler's criterion v^((p-1)/2) = p-1), so a wrong candidate cannot pass.
RootsDef(v, p) == { y \in 0..(p - 1) : MulMod(y, y, p) = v }
RECURSIVE TwoAdic(_)
TwoAdic(q) == IF q % 2 = 1 THEN << 0, q >> ELSE LET t == TwoAdic(q \div 2) IN << t[1] + 1, t[2] >>     \* q = 2^s * odd
NonResidue(p) == CHOOSE z \in 2..(p - 1) : PowMod(z, (p - 1) \div 2, p) = p - 1
RECURSIVE OrderExp(_, _, _)
OrderExp(t, p, i) == IF t = 1 THEN i ELSE OrderExp(MulMod(t, t, p), p, i + 1)                         \* least i with t^(2^i) = 1
RECURSIVE SqN(_, _, _)
SqN(b, j, p) == IF j = 0 THEN b ELSE SqN(MulMod(b, b, p), j - 1, p)
RECURSIVE TSLoop(_, _, _, _, _)
TSLoop(m, cc, t, r, p) ==
   IF t = 1 THEN r
   ELSE LET i == OrderExp(t, p, 0)
            b == SqN(cc, m - i - 1, p)
            b2 == MulMod(b, b, p)
        IN TSLoop(i, b2, MulMod(t, b2, p), MulMod(r, b, p), p)
SqrtCand(v, p) ==                        \* v a non-zero quadratic residue
   LET sq == TwoAdic(p - 1)  s == sq[1]  q == sq[2]  z == NonResidue(p)
   IN  TSLoop(s, PowMod(z, q, p), PowMod(v, q, p), PowMod(v, (q + 1) \div 2, p), p)
Roots(v, p) ==
   IF p < 300 THEN RootsDef(v, p)
   ELSE IF v = 0 THEN { 0 }
   ELSE IF PowMod(v, (p - 1) \div 2, p) # 1 THEN { }
   ELSE LET y == SqrtCand(v, p) IN IF MulMod(y, y, p) = v THEN { y, p - y } ELSE { p }               \* p is no field element: the caller then finds no usable root
RootsAgree(p) == \A v \in 0..(p - 1) :
   LET rs == IF v = 0 THEN { 0 } ELSE IF PowMod(v, (p - 1) \div 2, p) # 1 THEN { }
             ELSE LET y == SqrtCand(v, p) IN { y, p - y }
   IN rs = RootsDef(v, p)
ASSUME RootsAgree(239) /\ RootsAgree(241) /\ RootsAgree(251) /\ RootsAgree(17) /\ RootsAgree(97)

(* ------------------------------------------------------------------ encoding *)
Export(c, order, compress, ysep, P) ==        \* the two switches of the header: compress # 0, second block given
   IF P = Inf THEN [x |-> << 0 >>, y |-> NoBlock]
   ELSE IF compress THEN [x |-> << 2 + (P[2] % 2) >> \o Coord(c, P[1], order), y |-> NoBlock]
   ELSE IF ysep THEN [x |-> Coord(c, P[1], order), y |-> Coord(c, P[2], order)]
   ELSE [x |-> << 4 >> \o Coord(c, P[1], order) \o Coord(c, P[2], order), y |-> NoBlock]
Encode(c, order, form, P) ==
   IF form = "concat" THEN (IF P = Inf THEN [x |-> << 0 >>, y |-> NoBlock]
                            ELSE [x |-> Coord(c, P[1], order) \o Coord(c, P[2], order), y |-> NoBlock])
   ELSE Export(c, order, form = "compressed", form = "separate", P)
\* the size the header reports: the length of the first block
ExportSize(enc) == Len(enc.x)

(* ------------------------------------------------------------------ decoding *)
Ok(P) == [st |-> "ok", pt |-> P]
Reject == [st |-> "reject", pt |-> Inf]
May(P) == [st |-> "may", pt |-> P]
Unspec == [st |-> "any", pt |-> Inf]

\* an explicitly given coordinate pair
RawW(c, P, validate, VK(_)) == IF VK(P) THEN Ok(P) ELSE IF validate THEN Reject ELSE Unspec
CompressedW(c, par, x, validate, VK(_)) ==
   IF x >= c.p THEN (IF validate THEN Reject ELSE Unspec)
   ELSE LET rs == Roots(Rhs(c, x), c.p)
            ys == { y \in rs : y % 2 = par }
        IN IF ys = { } THEN (IF validate THEN Reject ELSE Unspec)          \* no root, or only the root 0 with odd parity asked
           ELSE LET P == << x, CHOOSE y \in ys : TRUE >>
                IN IF VK(P) THEN Ok(P) ELSE IF validate THEN Reject ELSE Ok(P)
ImportW(c, order, enc, validate, VK(_)) ==
   LET B == FieldBytes(c)  bx == enc.x  by == enc.y  L == Len(enc.x)
       xy(s1, s2) == << CoordVal(order, s1), CoordVal(order, s2) >>
   IN  IF L = 0 THEN Reject
       ELSE IF L = 1 THEN (IF B = 1 /\ by # NoBlock THEN Unspec                  \* one-octet field: "separate" and "neutral" collide
                           ELSE IF bx[1] = 0 THEN Ok(Inf) ELSE Reject)
       ELSE IF L = B THEN (IF Len(by) = B THEN RawW(c, xy(bx, by), validate, VK) ELSE IF by = NoBlock THEN Reject ELSE Unspec)
       ELSE IF L = B + 1 THEN
            (IF bx[1] \in { 2, 3 } THEN CompressedW(c, bx[1] - 2, CoordVal(order, SubSeq(bx, 2, L)), validate, VK)
             ELSE IF L = 2 * B THEN                                             \* one-octet field: "concat" collides with "compressed"
                  LET P == xy(SubSeq(bx, 1, B), SubSeq(bx, B + 1, L)) IN IF VK(P) THEN May(P) ELSE Reject
             ELSE Reject)
       ELSE IF L = 2 * B + 1 THEN
            LET P == xy(SubSeq(bx, 2, B + 1), SubSeq(bx, B + 2, L)) IN
            (IF bx[1] = 4 THEN RawW(c, P, validate, VK)
             ELSE IF bx[1] \in { 6, 7 } THEN                                     \* hybrid: the prefix repeats the parity of y
                  (IF P[2] % 2 = bx[1] - 6 THEN RawW(c, P, validate, VK)
                   ELSE IF VK(P) THEN May(P) ELSE IF validate THEN Reject ELSE Unspec)
             ELSE Reject)
       ELSE IF L = 2 * B THEN RawW(c, xy(SubSeq(bx, 1, B), SubSeq(bx, B + 1, L)), validate, VK)
       ELSE Reject
Import(c, order, enc, validate) == ImportW(c, order, enc, validate, LAMBDA P : ValidKey(c, P))

(* ------------------------------------------------------------------ keys and Diffie-Hellman *)
\* public key of a private key
PubOf(c, d) == Mul(c, d, G(c))
\* a key pair drawn from caller-supplied random octets: the first FieldBytes octets are the number the private key is
\* derived from (Ecdsa!SecretSet: both documented maps are admitted); 0 is not a private key, so the call may fail
\* exactly when 0 is among the admitted values.
KeyGenD(c, order, rnd) == SecretSet(CoordVal(order, SubSeq(rnd, 1, FieldBytes(c))), c.n)
\* SEC 1 3.3.1 / 3.3.2: z = x-coordinate of d*Q, resp. of (h*d)*Q with the cofactor; the neutral element has no x: failure
DHPointW(c, d, Q, cof, MQ(_)) == MQ(IF cof THEN c.h * d ELSE d)
DHPoint(c, d, Q, cof) == DHPointW(c, d, Q, cof, LAMBDA j : Mul(c, j, Q))

(* ------------------------------------------------------------------ hybrid form; public key from private-key octets *)
\* X9.62 hybrid form of a finite point P: the prefix 06 | 07 repeats the parity of y.  agree = FALSE gives the string
\* whose prefix contradicts y (ImportW: may be refused; if accepted it denotes P).
Hybrid(c, order, P, agree) ==
   [x |-> << 6 + ((P[2] + (IF agree THEN 0 ELSE 1)) % 2) >> \o Coord(c, P[1], order) \o Coord(c, P[2], order), y |-> NoBlock]
\* parities of the most and of the least significant octet of Y written as FieldBytes octets.  The parity of y is the
\* parity of its LEAST significant octet whatever the byte order; which of the two octets ends the encoding depends on
\* the byte order, so a corpus that wants to tell the two apart needs points of all four classes.
YOctetParities(c, P) == << (P[2] \div TwoTo(8 * (FieldBytes(c) - 1))) % 2, P[2] % 2 >>
\* octets of v in the chosen byte order, len octets (v < 256^len)
Octets(v, len, order) == IF order = "be" THEN ToBE(v, len) ELSE ToLE(v, len)
\* Public key from private-key octets ds (a number d in the chosen byte order).  A private key is an integer of
\* [1, n-1] (SEC 1 3.2.1, GOST R 34.10 6.1): 0 and whatever is >= n are no private keys and must be refused; nothing
\* is derived from them.  An octet string longer than the field (leading zero octets) is outside the documented sizes:
\* it may be refused; if accepted the result is d*G.  Pub(d) = the public key of d (parameter: tables / other number types).
PrivImportW(c, order, ds, Pub(_)) ==
   LET d == CoordVal(order, ds) IN
   IF Len(ds) = 0 \/ d = 0 \/ d >= c.n THEN Reject
   ELSE IF Len(ds) > FieldBytes(c) THEN May(Pub(d)) ELSE Ok(Pub(d))
PrivImport(c, order, ds) == PrivImportW(c, order, ds, LAMBDA d : PubOf(c, d))
=============================================================================
