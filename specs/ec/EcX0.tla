--------------------------------- MODULE EcX0 ---------------------------------
(* The points with x = 0 of the built-in curves (property C02, mode C).  A curve y^2 = x^3 + a*x + b has the
   points (0, +-y) with y^2 = b exactly when b is a quadratic residue mod p; there the doubling formulas work
   on x^2 = 0 (3*x^2 + a = a; the a = -3 shortcut forms 3*(x^2 - 1) = -3), an operand the random multiples k*G
   of the other mode C events never produce.  TLC computes the root HERE (Tonelli-Shanks over BigNat; the
   shortcut y = b^((p+1)/4) when p = 3 mod 4), so that neither the operand nor - through EcTrace's relations -
   the expected 2P / P + P / k*P comes from the library under test.

   The file named by the environment variable TRACE is ndjson, one line per curve:
       {"name":.., "p":[..], "b":[..]}          numbers as base-2^13 limbs, least significant first
   One state per line; printed:  [i, name, y]   y = limbs of a root (0 < y < p), or [] when b
   is 0 or a non-residue (Euler's criterion).  RootOk (invariant) re-checks y*y = b with the TLA+ product. *)
EXTENDS BigNatX, Json, IOUtils, TLC

Tr == ndJsonDeserialize(IOEnv.TRACE)
NEv == Len(Tr)

Half(p) == ShiftR(Sub(p, One), 1)
IsQR(v, p) == XModExp(v, Half(p), p) = One                       \* Euler; v # 0 mod p, p an odd prime
RECURSIVE FindNR(_, _)
FindNR(z, p) == IF z > 200 THEN Zero                              \* (never for a prime p: half of the residues are non-residues)
                ELSE IF XMod(FromInt(z), p) # Zero /\ ~IsQR(FromInt(z), p) THEN FromInt(z) ELSE FindNR(z + 1, p)
RECURSIVE LeastI(_, _, _, _)
LeastI(t, i, lim, p) == IF t = One \/ i >= lim THEN i ELSE LeastI(XMulMod(t, t, p), i + 1, lim, p)     \* least i with t^(2^i) = 1
RECURSIVE SqN(_, _, _)
SqN(v, k, p) == IF k <= 0 THEN v ELSE SqN(XMulMod(v, v, p), k - 1, p)                                 \* v^(2^k)
RECURSIVE TSLoop(_, _, _, _, _)
TSLoop(m, c, t, r, p) ==
   IF t = One THEN r
   ELSE LET i == LeastI(t, 0, m, p) IN
        IF i >= m THEN Zero                                       \* not a residue / p not prime: no root (RootOk then refuses it)
        ELSE LET bb == SqN(c, m - i - 1, p)
                 b2 == XMulMod(bb, bb, p)
             IN  TSLoop(i, b2, XMulMod(t, b2, p), XMulMod(r, bb, p), p)
Sqrt(v, p) ==                                                     \* v a non-zero residue mod the odd prime p
   LET pm1 == Sub(p, One)   s == TrailingZeros(pm1)   q == ShiftR(pm1, s)
   IN  IF s = 1 THEN XModExp(v, ShiftR(Add(p, One), 2), p)
       ELSE LET z == FindNR(2, p)
            IN  IF z = Zero THEN Zero
                ELSE TSLoop(s, XModExp(z, q, p), XModExp(v, q, p), XModExp(v, ShiftR(Add(q, One), 1), p), p)

RootOf(e) == LET v == XMod(e.b, e.p)
             IN  IF v = Zero \/ ~IsOdd(e.p) \/ ~IsQR(v, e.p) THEN Zero ELSE Sqrt(v, e.p)

VARIABLE i
Init == i = 1
Next == i < NEv /\ i' = i + 1
Spec == Init /\ [][Next]_i

\* what TLC checks on its own answer: the root squares to b by the TLA+ (not the accelerated) product, is reduced and
\* non-zero; the accelerated operators agree with their definitions on operands of this curve
RootOk == LET e == Tr[i]   y == RootOf(e)
          IN  /\ IsNat(e.p) /\ IsNat(e.b)
              /\ (y # Zero => Lt(y, e.p) /\ MulMod(y, y, e.p) = Mod(e.b, e.p))
              /\ XMulMod(e.b, e.b, e.p) = MulMod(e.b, e.b, e.p)
              /\ XModExp(e.b, FromInt(11), e.p) = ModExp(e.b, FromInt(11), e.p)
Emit == PrintT(ToJson(<< i, Tr[i].name, RootOf(Tr[i]) >>))
=============================================================================
