------------------------------ MODULE EcCurves ------------------------------
(* Small synthetic curves whose whole group TLC can enumerate (property C02, mode B; also the domain of
   the exhaustive ECDSA / key-codec checks of C03 / C09).  They were found by brute force; nothing about
   them is trusted: the ASSUMEs below make TLC re-derive every stated fact with the EcGroup definitions
   (prime field, non-singular, base point on the curve, n*G = Inf with n prime, group order h*n by
   counting the solutions of the curve equation or by Hasse's interval, the "full-group generator" T
   really visits every point).  The same parameters are given to the library as ec_curve_str_t entries
   in harness/ec_drv.c; the check cross-compares the two tables through the emitted `curve` records.

   name    field bits  p      a        b   G            n      h   note
   E8M3        8       251    p-3      26  (2,167)      223    1   a = -3 (EC_CURVE_FLAG_A_M3 shortcut)
   E8G         8       239    5        59  (3,36)       229    1   generic a
   E8Z         8       241    0        13  (3,47)       211    1   a = 0 (the secp*k1 shape)
   E8C4        8       251    2        36  (2,53)       59     4   cyclic group of order 236: a point of
                                                                   order 2 (y = 0) and points of order 4
   E13        13       8191   1234     49  (15,3294)    8089   1   field not a multiple of the digit size
   E16M3      16       65521  p-3      10  (6,7312)     65183  1   two 8-bit digits / one 16-bit digit   *)
EXTENDS EcGroup, FiniteSets, TLC

\* tx, ty: a generator of the WHOLE group E(GF(p)) (= G when h = 1); m: field size in bits given to the library
E8M3  == [name |-> "E8M3",  m |-> 8,  p |-> 251,   a |-> 248,   b |-> 26, gx |-> 2,  gy |-> 167,  n |-> 223,   h |-> 1, tx |-> 2,  ty |-> 167]
E8G   == [name |-> "E8G",   m |-> 8,  p |-> 239,   a |-> 5,     b |-> 59, gx |-> 3,  gy |-> 36,   n |-> 229,   h |-> 1, tx |-> 3,  ty |-> 36]
E8Z   == [name |-> "E8Z",   m |-> 8,  p |-> 241,   a |-> 0,     b |-> 13, gx |-> 3,  gy |-> 47,   n |-> 211,   h |-> 1, tx |-> 3,  ty |-> 47]
E8C4  == [name |-> "E8C4",  m |-> 8,  p |-> 251,   a |-> 2,     b |-> 36, gx |-> 2,  gy |-> 53,   n |-> 59,    h |-> 4, tx |-> 1,  ty |-> 87]
E13   == [name |-> "E13",   m |-> 13, p |-> 8191,  a |-> 1234,  b |-> 49, gx |-> 15, gy |-> 3294, n |-> 8089,  h |-> 1, tx |-> 15, ty |-> 3294]
E16M3 == [name |-> "E16M3", m |-> 16, p |-> 65521, a |-> 65518, b |-> 10, gx |-> 6,  gy |-> 7312, n |-> 65183, h |-> 1, tx |-> 6,  ty |-> 7312]

Curves8   == << E8M3, E8G, E8Z, E8C4 >>          \* whole group enumerated pairwise
CurvesBig == << E13, E16M3 >>                    \* whole group enumerated point-wise
AllCurves == Curves8 \o CurvesBig
CurveByName(nm) == CHOOSE c \in {AllCurves[i] : i \in 1..Len(AllCurves)} : c.name = nm

T(c)     == << c.tx, c.ty >>
Order(c) == c.h * c.n                            \* #E(GF(p)), Inf included

\* every point of the group, as a sequence in the order 0*T, 1*T, ..., (h*n-1)*T   (8-bit curves)
GroupSeq(c) == MulTable(c, T(c), Order(c) - 1)
\* s*T for a small-curve "point number" s (any natural; generators name points this way)
PointNo(c, s) == Mul(c, s % Order(c), T(c))
\* the point number of the base point G (8-bit curves)
GNo(c) == CHOOSE s \in 1..(Order(c) - 1) : Mul(c, s, T(c)) = G(c)

\* all solutions of the curve equation, by exhaustion (8-bit fields only: p^2 candidates); counted in
\* EcCurvesCount.tla (kept out of this module because every module that EXTENDS it re-checks its ASSUMEs)
AffinePoints(c) == { P \in (0..(c.p - 1)) \X (0..(c.p - 1)) : OnCurve(c, P) }

RECURSIVE Pow2(_)
Pow2(e) == IF e = 0 THEN 1 ELSE 2 * Pow2(e - 1)
FieldBitsOk(c) == c.p < Pow2(c.m) /\ c.p >= Pow2(c.m - 1) /\ c.n < Pow2(c.m)

\* #E = h*n is forced when h*n lies in Hasse's interval and n exceeds its width 4*sqrt(p):
\* #E is a multiple of ord(G) = n and only one multiple of n fits.   (|#E - p - 1|^2 <= 4p)
HasseForces(c) ==
   LET N == Order(c)  d == IF N > c.p + 1 THEN N - (c.p + 1) ELSE (c.p + 1) - N
   IN  d * d <= 4 * c.p /\ (c.n \div 4) * (c.n \div 4) > c.p

ASSUME \A i \in 1..Len(AllCurves) : WellFormed(AllCurves[i]) /\ FieldBitsOk(AllCurves[i])
ASSUME \A i \in 1..Len(AllCurves) : LET c == AllCurves[i] IN
          /\ OnCurve(c, T(c)) /\ Mul(c, Order(c), T(c)) = Inf
          /\ (c.h = 1 => T(c) = G(c))
ASSUME E8M3.a = E8M3.p - 3 /\ E16M3.a = E16M3.p - 3 /\ E8Z.a = 0
\* E8C4: G generates the subgroup of index 4; there is a point of order 2 and one of order 4
ASSUME LET c == E8C4 IN
          /\ Mul(c, 4, T(c)) # Inf /\ Mul(c, 59, T(c)) # Inf /\ Mul(c, 118, T(c)) # Inf
          /\ Mul(c, 118, T(c))[2] = 0                          \* the 2-torsion point (13, 0)
          /\ Dbl(c, Mul(c, 59, T(c))) = Mul(c, 118, T(c))       \* 59*T has order 4
          /\ \E k \in 1..235 : Mul(c, k, T(c)) = G(c) /\ k % 4 = 0
\* big curves: order by Hasse; T = G visits h*n distinct points (checked by the generator's state count)
ASSUME \A i \in 1..Len(CurvesBig) : HasseForces(CurvesBig[i])
=============================================================================
