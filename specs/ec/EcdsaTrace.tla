------------------------------ MODULE EcdsaTrace ------------------------------
(* Judge (mode C) for the 32 built-in curves: every recorded call of the ecdsa.h entry points in the ndjson file
   named by the environment variable TRACE is decided with the definitions of EcdsaBig (TLC is an evaluator here).
   One line per event; numbers are base-2^13 limb tuples, octet strings are tuples of 0..255.  Fields:
     id, op, c = [p, a, b, gx, gy, n, h, m], alg, order, and per op
     "verify"  hash (octets in memory order), q (<< >> or << x, y >>), r, s, acc (library returned 0), validated
     "verifyp" hash, d, r, s, acc
     "sign"    hash, d, rnd (octets), ok, r, s
     "keygen"  rnd (octets), ok, d, q            "pubkey"  d, ok, q
     "dh"      d, q, cof, ok, z
   Verdicts printed as JSON: "ok" or what is wrong (the rig keys it).  Before judging, the X-operators are compared
   with their BigNat definitions on pseudo-random operands (the override must agree with the definition). *)
EXTENDS EcdsaBig, Json, IOUtils, TLC
CONSTANT SampleN
VARIABLE dummy

Tr == ndJsonDeserialize(IOEnv.TRACE)

RECURSIVE RndLimbs(_, _, _)
RndLimbs(x, n, acc) == IF n = 0 THEN Norm(acc)
                       ELSE LET y == ((x * 75) + 74) % 65537 IN RndLimbs(y, n - 1, Append(acc, y % B))
Rl(seed, n) == RndLimbs(seed + 1, n, << >>)
AgreeOn(s) ==
   LET a == Rl(s, 1 + (s % 21))   b == Rl(s + 1000, 1 + ((s * 7) % 10))
       e == Rl(s + 2000, 1 + (s % 2))   m == Add(Rl(s + 3000, 1 + (s % 6)), One)
   IN /\ XMul(a, b) = Mul(a, b)
      /\ (Len(b) > 0 => XDivMod(XMul(a, b), b) = DivMod(Mul(a, b), b) /\ XDivMod(a, b) = DivMod(a, b))
      /\ XModExp(a, e, m) = ModExp(a, e, m)
      /\ LET u == XMod(a, m)  v == XMod(b, m) IN
            /\ YAddMod(u, v, m) = DAddMod(u, v, m) /\ YSubMod(u, v, m) = DSubMod(u, v, m) /\ YSubMod(v, u, m) = DSubMod(v, u, m)
            /\ YAddMod(u, v, m) = Mod(Add(u, v), m) /\ YAddMod(YSubMod(u, v, m), v, m) = u
ASSUME \A s \in 1..SampleN : AgreeOn(s)

OrderInt(ev, bs) == BBEInt(IF ev.order = "be" THEN bs ELSE BRev(bs))
HeadInt(ev, bs) == OrderInt(ev, SubSeq(bs, 1, BMin2(BFieldBytes(ev.c), Len(bs))))

\* why the documented library conversion of the digest is not an admissible one (as Ecdsa!LcbHashClass)
ConvClass(ev) == IF ev.alg = "ecdsa" /\ 8 * BMin2(BFieldBytes(ev.c), Len(ev.hash)) > BitLen(ev.c.n) THEN "hash-to-integer:truncation"
                 ELSE "hash-to-integer:reduction"
JudgeVerify(ev, Q) ==
   IF ~BValidPub(ev.c, Q) THEN (IF ev.validated /\ ev.acc THEN "accepts-invalid-public-key" ELSE "ok")
   ELSE LET es   == BHashESet(ev.c, ev.alg, ev.order, ev.hash)
            elib == BLcbE(ev.c, ev.alg, ev.order, ev.hash)
            V(e) == BVerifyCore(ev.c, ev.alg, Q, e, ev.r, ev.s)
        IN IF \E e \in es : V(e) = ev.acc THEN "ok"
           ELSE IF elib \notin es /\ V(elib) = ev.acc THEN ConvClass(ev)
           ELSE IF ev.acc /\ ev.r = Zero THEN "accepts-r=0"
           ELSE IF ev.acc /\ ev.s = Zero THEN "accepts-s=0"
           ELSE IF ev.acc THEN "accepts-invalid-signature" ELSE "rejects-valid-signature"
JudgeSign(ev) ==
   LET es   == BHashESet(ev.c, ev.alg, ev.order, ev.hash)
       elib == BLcbE(ev.c, ev.alg, ev.order, ev.hash)
       ks   == BSecretSet(HeadInt(ev, ev.rnd), ev.c.n)
       got  == IF ev.ok THEN << ev.r, ev.s >> ELSE BNoSig
   IN IF \E e \in es : \E k \in ks : BSign(ev.c, ev.alg, ev.d, e, k) = got THEN "ok"
      ELSE IF \E k \in ks : BSign(ev.c, ev.alg, ev.d, elib, k) = got THEN ConvClass(ev)
      ELSE IF got = BNoSig THEN "fails-for-valid-input" ELSE "wrong-signature"
JudgeKeyGen(ev) ==
   LET ks == BSecretSet(HeadInt(ev, ev.rnd), ev.c.n)
   IN IF ~ev.ok THEN (IF Zero \in ks THEN "ok" ELSE "fails-for-valid-input")
      ELSE IF ev.d \notin (ks \ { Zero }) THEN "private-key-not-derived-from-the-random-octets"
      ELSE IF ev.q # BMul(ev.c, ev.d, BG(ev.c)) THEN "public-key-is-not-dG" ELSE "ok"
JudgePubKey(ev) ==
   IF ~InRange(ev.d, ev.c.n) THEN "ok"                               \* outside the domain of private keys: unspecified
   ELSE IF ~ev.ok THEN "fails-for-valid-input"
   ELSE IF ev.q # BMul(ev.c, ev.d, BG(ev.c)) THEN "public-key-is-not-dG" ELSE "ok"
JudgeDh(ev) ==
   IF ~InRange(ev.d, ev.c.n) \/ ~BOnCurve(ev.c, ev.q) \/ ev.q = BInf THEN "ok"   \* outside the domain: unspecified
   ELSE LET P == BMul(ev.c, IF ev.cof THEN MulSmall(ev.d, ev.c.h) ELSE ev.d, ev.q)
        IN IF P = BInf THEN (IF ev.ok THEN "succeeds-on-the-neutral-element" ELSE "ok")
           ELSE IF ~ev.ok THEN "fails-for-valid-input"
           ELSE IF ev.z # P[1] THEN "wrong-shared-secret" ELSE "ok"
Judge(ev) ==
   IF ev.op = "verify" THEN JudgeVerify(ev, ev.q)
   ELSE IF ev.op = "verifyp" THEN (IF InRange(ev.d, ev.c.n) THEN JudgeVerify([ev EXCEPT !.validated = FALSE], BMul(ev.c, ev.d, BG(ev.c))) ELSE "ok")
   ELSE IF ev.op = "sign" THEN (IF InRange(ev.d, ev.c.n) THEN JudgeSign(ev) ELSE "ok")
   ELSE IF ev.op = "keygen" THEN JudgeKeyGen(ev)
   ELSE IF ev.op = "pubkey" THEN JudgePubKey(ev)
   ELSE IF ev.op = "dh" THEN JudgeDh(ev)
   ELSE "unknown-op"

ASSUME \A i \in 1..Len(Tr) : PrintT(ToJson([id |-> Tr[i].id, verdict |-> Judge(Tr[i])]))
ASSUME PrintT(ToJson([validated |-> Len(Tr), xactive |-> XActive /\ YActive]))

Init == dummy = 0
Next == UNCHANGED dummy
=============================================================================
