INIT Init
NEXT Next
CONSTANT SampleN = 12
CHECK_DEADLOCK FALSE
