SPECIFICATION Spec
CONSTANTS
  CurveNames = {"E8M3", "E8G", "E8Z", "E8C4"}
  PQ = { 1009015, 1017110, 9010, 9009, 9008, 9007, 9128, 9069, 128187 }
  LStride = 8
  Heavy = FALSE
INVARIANTS Closed Corners Diagonal AllAgree RowSteps
CONSTRAINT Emit
CHECK_DEADLOCK FALSE
