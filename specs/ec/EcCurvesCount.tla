---------------------------- MODULE EcCurvesCount ----------------------------
(* The expensive half of the curve validation (run once per check, not by every generator):
   the number of solutions of the curve equation is counted by exhaustion for the 8-bit curves and
   the walk 0*T, 1*T, ... is shown to visit exactly those points, i.e. GroupSeq really is the whole group. *)
EXTENDS EcCurvesX
ASSUME \A i \in 1..Len(Curves8) : LET c == Curves8[i]  s == GroupSeq(c) IN
          /\ Cardinality(AffinePoints(c)) + 1 = Order(c)
          /\ { s[j] : j \in 1..Len(s) } = AffinePoints(c) \cup { Inf }
\* double-and-add agrees with the k-fold sum (the definition) - here for the first multiples of every curve,
\* for every multiple of every point of the 8-bit curves in EcGenPairs (Heavy) and along the walks of EcGenWalk
ASSUME \A i \in 1..Len(AllCurves) : \A k \in 0..40 :
          Mul(AllCurves[i], k, T(AllCurves[i])) = MulSlow(AllCurves[i], k, T(AllCurves[i]))
\* the same two facts for the special-shape curves of EcCurvesX
ASSUME \A i \in 1..Len(CurvesX) : LET c == CurvesX[i]  s == GroupSeq(c) IN
          /\ Cardinality(AffinePoints(c)) + 1 = Order(c)
          /\ { s[j] : j \in 1..Len(s) } = AffinePoints(c) \cup { Inf }
ASSUME \A i \in 1..Len(CurvesX) : \A k \in 0..40 :
          Mul(CurvesX[i], k, T(CurvesX[i])) = MulSlow(CurvesX[i], k, T(CurvesX[i]))
=============================================================================
