---------------------------- MODULE EcCurvesCount ----------------------------
(* The expensive half of the curve validation (run once per check, not by every generator):
   the number of solutions of the curve equation is counted by exhaustion for the 8-bit curves and
   the walk 0*T, 1*T, ... is shown to visit exactly those points, i.e. GroupSeq really is the whole group. *)
EXTENDS EcCurves
ASSUME \A i \in 1..Len(Curves8) : LET c == Curves8[i]  s == GroupSeq(c) IN
          /\ Cardinality(AffinePoints(c)) + 1 = Order(c)
          /\ { s[j] : j \in 1..Len(s) } = AffinePoints(c) \cup { Inf }
=============================================================================
