---------------------------- MODULE EcGenTwin ----------------------------
(* Generator (mode B) for double-scalar multiplication k*P + l*Q on the 8-bit curves (property C02).
   One state per (curve, P, Q, l); the state carries the row  row[k+1] = k*P + l*Q  for EVERY k = 0..KMax.
   For a "full" pair (P, Q) every l = 0..KMax has its row, i.e. EVERY pair (k, l) in (0..KMax)^2 is there; for the
   other pairs only l = 0, 1, n-1, n, KMax and the multiples of LStride carry a row (the rest have row = << >>).
   P and Q are named by point numbers (s means s*T, T the generator of the whole group):
   ps = -1 stands for the base point G (the library is then also driven through ec_point_twin_mult_bp),
   -2 for -G, -3 for 2G.  PQ is a set of pair codes  full * 1000000 + (ps + 10) * 1000 + (qs + 10)  (a TLC .cfg file
   cannot hold tuples), full = 1 or 0.                                                                    *)
EXTENDS EcCurves, Json, Integers
CONSTANTS CurveNames, PQ, LStride, Heavy
VARIABLES c, full, ps, qs, P, Q, l, lq, gt, row
vars == << c, full, ps, qs, P, Q, l, lq, gt, row >>

KMax(cv) == LET o == Order(cv) + 1  lim == Pow2(cv.m) - 1 IN IF o < lim THEN o ELSE lim
Named(cv, s) == IF s = -1 THEN G(cv) ELSE IF s = -2 THEN Neg(cv, G(cv)) ELSE IF s = -3 THEN Dbl(cv, G(cv))
                ELSE PointNo(cv, s)
RowOf(cv, tab, pt) == [k \in 1..Len(tab) |-> Add(cv, tab[k], pt)]
Keep(cv, fl, lv) == fl = 1 \/ lv % LStride = 0 \/ lv \in {0, 1, cv.n - 1, cv.n, KMax(cv)}

Init == /\ c \in { CurveByName(nm) : nm \in CurveNames }
        /\ \E code \in PQ : full = code \div 1000000 /\ ps = ((code \div 1000) % 1000) - 10 /\ qs = (code % 1000) - 10
        /\ P = Named(c, ps) /\ Q = Named(c, qs)
        /\ l = 0 /\ lq = Inf
        /\ gt = MulTable(c, P, KMax(c))
        /\ row = RowOf(c, gt, Inf)
Step == /\ l < KMax(c)
        /\ l' = l + 1
        /\ lq' = Add(c, lq, Q)
        /\ row' = IF Keep(c, full, l + 1) THEN RowOf(c, gt, lq') ELSE << >>
        /\ UNCHANGED << c, full, ps, qs, P, Q, gt >>
Next == Step
Spec == Init /\ [][Next]_vars

(* ---- checked by TLC on every state *)
Has      == row # << >>
Closed   == \A k \in 1..Len(row) : OnCurve(c, row[k])
Corners  == Has => \A k \in {0, 1, l, c.n - 1, KMax(c)} : k <= KMax(c) => row[k + 1] = TwinMul(c, k, P, l, Q)
Diagonal == Has =>
            /\ (Q = P => \A k \in 0..KMax(c) : k + l <= KMax(c) => row[k + 1] = gt[k + l + 1])   \* kP + lP = (k+l)P
            /\ (Q = Neg(c, P) => row[l + 1] = Inf)                                               \* lP - lP
            /\ (Q = Inf => row = gt)
            /\ row[1] = lq
AllAgree == (Heavy /\ Has) => \A k \in 0..KMax(c) : row[k + 1] = TwinMul(c, k, P, l, Q)
RowSteps == (Heavy /\ Has) => \A k \in 1..(Len(row) - 1) : row[k + 1] = Add(c, row[k], P)

Emit == PrintT(ToJson([gen |-> "twin", curve |-> c, bp |-> (ps = -1), full |-> full, P |-> P, Q |-> Q, l |-> l, row |-> row]))
=============================================================================
