---------------------------- MODULE EcGenTwin ----------------------------
(* Generator (mode B) for double-scalar multiplication k*P + l*Q on the 8-bit curves (property C02).
   One state per (curve, P, Q, l); the state carries the row  row[k+1] = k*P + l*Q  for EVERY k = 0..KMax,
   so over a run every pair (k, l) in (0..KMax)^2 is there for each chosen (P, Q).
   P and Q are named by point numbers (s means s*T, T the generator of the whole group):
   ps = -1 stands for the base point G (the library is then also driven through ec_point_twin_mult_bp),
   -2 for -G, -3 for 2G.  PQ is a set of pair codes (ps + 10) * 1000 + (qs + 10)  (a TLC .cfg file cannot
   hold tuples).                                                                                          *)
EXTENDS EcCurves, Json, Integers
CONSTANTS CurveNames, PQ, Heavy
VARIABLES c, ps, qs, P, Q, l, lq, gt, row
vars == << c, ps, qs, P, Q, l, lq, gt, row >>

KMax(cv) == LET o == Order(cv) + 1  lim == Pow2(cv.m) - 1 IN IF o < lim THEN o ELSE lim
Named(cv, s) == IF s = -1 THEN G(cv) ELSE IF s = -2 THEN Neg(cv, G(cv)) ELSE IF s = -3 THEN Dbl(cv, G(cv))
                ELSE PointNo(cv, s)
RowOf(cv, tab, pt) == [k \in 1..Len(tab) |-> Add(cv, tab[k], pt)]

Init == /\ c \in { CurveByName(nm) : nm \in CurveNames }
        /\ \E code \in PQ : ps = (code \div 1000) - 10 /\ qs = (code % 1000) - 10
        /\ P = Named(c, ps) /\ Q = Named(c, qs)
        /\ l = 0 /\ lq = Inf
        /\ gt = MulTable(c, P, KMax(c))
        /\ row = RowOf(c, gt, Inf)
Step == /\ l < KMax(c)
        /\ l' = l + 1
        /\ lq' = Add(c, lq, Q)
        /\ row' = RowOf(c, gt, lq')
        /\ UNCHANGED << c, ps, qs, P, Q, gt >>
Next == Step
Spec == Init /\ [][Next]_vars

(* ---- checked by TLC on every state *)
Closed   == \A k \in 1..Len(row) : OnCurve(c, row[k])
Corners  == \A k \in {0, 1, l, c.n - 1, KMax(c)} : k <= KMax(c) => row[k + 1] = TwinMul(c, k, P, l, Q)
Diagonal == /\ (Q = P => \A k \in 0..KMax(c) : k + l <= KMax(c) => row[k + 1] = gt[k + l + 1])   \* kP + lP = (k+l)P
            /\ (Q = Neg(c, P) => row[l + 1] = Inf)                                               \* lP - lP
            /\ (Q = Inf => row = gt)
            /\ row[1] = lq
AllAgree == Heavy => \A k \in 0..KMax(c) : row[k + 1] = TwinMul(c, k, P, l, Q)
RowSteps == Heavy => \A k \in 1..(Len(row) - 1) : row[k + 1] = Add(c, row[k], P)

Emit == PrintT(ToJson([gen |-> "twin", curve |-> c, bp |-> (ps = -1), P |-> P, Q |-> Q, l |-> l, row |-> row]))
=============================================================================
