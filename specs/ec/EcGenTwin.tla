---------------------------- MODULE EcGenTwin ----------------------------
(* Generator (mode B) for double-scalar multiplication k*P + l*Q on the 8-bit curves (property C02).
   One state per (curve, P, Q, l); the state carries the row  row[k+1] = k*P + l*Q  for EVERY k = 0..KMax.
   For a "full" pair (P, Q) every l = 0..KMax has its row, i.e. EVERY pair (k, l) in (0..KMax)^2 is there; for the
   other pairs only l = 0, 1, n-1, n, KMax and the multiples of LStride carry a row (the rest have row = << >>).
   P and Q are named by point numbers (s means s*T, T the generator of the whole group):
   ps = -1 stands for the base point G (the library is then also driven through ec_point_twin_mult_bp),
   -2 for -G, -3 for 2G.  PQ is a set of pair codes  full * 1000000 + (ps + 10) * 1000 + (qs + 10)  (a TLC .cfg file
   cannot hold tuples), full = 1 or 0.                                                                    *)
EXTENDS EcCurves, Json, Integers
CONSTANTS CurveNames, PQ, LStride, Heavy
VARIABLES vCurve, vFull, vPs, vQs, vP, vQ, vL, vLQ, vGT, vRow
vars == << vCurve, vFull, vPs, vQs, vP, vQ, vL, vLQ, vGT, vRow >>

KMax(cv) == LET o == Order(cv) + 1  lim == Pow2(cv.m) - 1 IN IF o < lim THEN o ELSE lim
Named(cv, s) == IF s = -1 THEN G(cv) ELSE IF s = -2 THEN Neg(cv, G(cv)) ELSE IF s = -3 THEN Dbl(cv, G(cv))
                ELSE PointNo(cv, s)
RowOf(cv, tab, pt) == [k \in 1..Len(tab) |-> Add(cv, tab[k], pt)]
Keep(cv, fl, lv) == fl = 1 \/ lv % LStride = 0 \/ lv \in {0, 1, cv.n - 1, cv.n, KMax(cv)}

Init == /\ vCurve \in { CurveByName(nm) : nm \in CurveNames }
        /\ \E code \in PQ : vFull = code \div 1000000 /\ vPs = ((code \div 1000) % 1000) - 10 /\ vQs = (code % 1000) - 10
        /\ vP = Named(vCurve, vPs) /\ vQ = Named(vCurve, vQs)
        /\ vL = 0 /\ vLQ = Inf
        /\ vGT = MulTable(vCurve, vP, KMax(vCurve))
        /\ vRow = RowOf(vCurve, vGT, Inf)
Step == /\ vL < KMax(vCurve)
        /\ vL' = vL + 1
        /\ vLQ' = Add(vCurve, vLQ, vQ)
        /\ vRow' = IF Keep(vCurve, vFull, vL + 1) THEN RowOf(vCurve, vGT, vLQ') ELSE << >>
        /\ UNCHANGED << vCurve, vFull, vPs, vQs, vP, vQ, vGT >>
Next == Step
Spec == Init /\ [][Next]_vars

(* ---- checked by TLC on every state *)
Has      == vRow # << >>
Closed   == \A k \in 1..Len(vRow) : OnCurve(vCurve, vRow[k])
Corners  == Has => \A k \in {0, 1, vL, vCurve.n - 1, KMax(vCurve)} : k <= KMax(vCurve) => vRow[k + 1] = TwinMul(vCurve, k, vP, vL, vQ)
Diagonal == Has =>
            /\ (vQ = vP => \A k \in 0..KMax(vCurve) : k + vL <= KMax(vCurve) => vRow[k + 1] = vGT[k + vL + 1])   \* kP + lP = (k+vL)vP
            /\ (vQ = Neg(vCurve, vP) => vRow[vL + 1] = Inf)                                               \* lP - lP
            /\ (vQ = Inf => vRow = vGT)
            /\ vRow[1] = vLQ
AllAgree == (Heavy /\ Has) => \A k \in 0..KMax(vCurve) : vRow[k + 1] = TwinMul(vCurve, k, vP, vL, vQ)
RowSteps == (Heavy /\ Has) => \A k \in 1..(Len(vRow) - 1) : vRow[k + 1] = Add(vCurve, vRow[k], vP)

Emit == PrintT(ToJson([gen |-> "twin", curve |-> vCurve, bp |-> (vPs = -1), full |-> vFull, P |-> vP, Q |-> vQ, l |-> vL, row |-> vRow]))
=============================================================================
