\* default configuration (stand-alone use): the digest corpus of every curve and a slice of rows on one 8-bit curve.
\* rig/checks/c03.py writes its own partition files into the TLC workspace.
SPECIFICATION Spec
CONSTANTS
  CurveNames = {"E8M3", "E8G", "E8Z", "E8C4", "E13", "E16M3"}
  AlgSel = {"ecdsa", "gost"}
  Kinds = {"hmap"}
  Seed = 1
  SignEAllE = {}
  SignEAllG = {}
  SignDFew = {}
  VgPairsE = {}
  VgPairsG = {}
  VlQ = {}
  VlEE = {}
  VlEG = {}
INVARIANTS CorpusShape Complete SignDefn SignFails Exact ListExact
CONSTRAINT Emit
CHECK_DEADLOCK FALSE
