------------------------------ MODULE EcdsaBigX ------------------------------
(* Two more accelerated entry points in the style of BigNatX (modular addition and subtraction of reduced operands).
   Each Y-operator IS the definition D...; when the compiled class EcdsaBigX (specs/ec/EcdsaBigX.java,
   java.math.BigInteger) sits next to this module TLC replaces the Y-operators by the Java methods.  The TLA+
   definitions stay authoritative: EcdsaTrace / EcdsaBigSelf compare Y-operator and definition on samples. *)
EXTENDS BigNatX
YActive == FALSE                                   \* the Java class answers TRUE
DAddMod(u, v, m) == LET t == Add(u, v) IN IF Lt(t, m) THEN t ELSE Sub(t, m)            \* 0 <= u, v < m
DSubMod(u, v, m) == IF Le(v, u) THEN Sub(u, v) ELSE Sub(Add(u, m), v)                  \* 0 <= u, v < m
YAddMod(u, v, m) == DAddMod(u, v, m)
YSubMod(u, v, m) == DSubMod(u, v, m)
=============================================================================
