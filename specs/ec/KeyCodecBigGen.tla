---------------------------- MODULE KeyCodecBigGen ----------------------------
(* Generator (mode C of property C09) for the 32 built-in curves: every expectation comes from KeyCodecBig.tla, which
   is KeyCodec.tla over BigNat (KeyCodecBigSelf compares the two).  One job per line of the ndjson file named by the
   environment variable TRACE:   [id, name, c = [p, a, b, gx, gy, n, h, m] (limb tuples / integers), full, extra]
   For every job TLC prints one JSON record:
     forms  per byte order: the neutral element and four valid points k*G, k in +-1 .. +-Span, chosen so that the
            parities of the most and of the least significant octet of y take all four combinations, each in EVERY
            encoding import accepts (compressed, packed 04, hybrid 06|07 with agreeing and contradicting prefix,
            separate, concat) with the verdict of BImportW (validation on / off).
            The curve record DEFINES n as the order of G, so every multiple of G is annihilated by n; the points are
            checked to satisfy the curve equation (BOnCurve, part of the verdict), and for `full` jobs TLC also
            multiplies one of them by n (ordchk).
     priv   per byte order: private-key octet strings -- 0, 1, 2, 3, n-2, n-1, n, n+1, 2n-1, all-ones and its
            neighbour, one octet, one octet less / more than the field, and the strings in `extra` -- with the verdict of
            BPrivImportW and the encodings of d*G.  Strings whose d*G needs a full-size scalar multiplication
            (d in range with more than 16 bits) are only taken for `full` jobs (each costs TLC about a second).        *)
EXTENDS KeyCodecBig, Json, IOUtils, TLC
VARIABLE dummy
Tr == ndJsonDeserialize(IOEnv.TRACE)
Span == 16
Ords == << "be", "le" >>

\* << 0*P, 1*P, ..., kmax*P >> by repeated addition (index k+1 holds k*P), as EcGroup!MulTable
RECURSIVE BMulTab(_, _, _)
BMulTab(c, P, kmax) == IF kmax = 0 THEN << BInf >>
                       ELSE LET prev == BMulTab(c, P, kmax - 1) IN Append(prev, BAdd(c, prev[kmax], P))
\* candidates in the order G, -G, 2G, -2G, ...: index 2k-1 holds k*G, index 2k holds -(k*G) = (n-k)*G
\* (sequences are built with Append: a function constructor would be re-evaluated at every application)
RECURSIVE CandsR(_, _, _, _)
CandsR(c, tb, k, acc) == IF k > Span THEN acc ELSE CandsR(c, tb, k + 1, Append(Append(acc, tb[k + 1]), BNeg(c, tb[k + 1])))
Cands(c) == CandsR(c, BMulTab(c, BG(c), Span), 1, << >>)
CandK(i) == IF i % 2 = 1 THEN (i + 1) \div 2 ELSE 0 - (i \div 2)
Classes == << << 0, 0 >>, << 0, 1 >>, << 1, 0 >>, << 1, 1 >> >>

FormTags == << "compressed", "packed", "hybrid", "hybrid-mismatch", "separate", "concat" >>
FormEnc(c, o, tag, P) == IF tag = "hybrid" THEN BHybrid(c, o, P, TRUE)
                         ELSE IF tag = "hybrid-mismatch" THEN BHybrid(c, o, P, FALSE)
                         ELSE BEncode(c, o, tag, P)
EncRow(c, o, tag, P, VK(_)) ==
   LET e == FormEnc(c, o, tag, P)   w == IF P = BInf THEN Zero ELSE P[2]
   IN [tag |-> tag, x |-> e.x, y |-> e.y, on |-> BImportW(c, o, e, TRUE, VK, w), off |-> BImportW(c, o, e, FALSE, VK, w)]

PrivOut(c, o, ds, pubs) ==                     \* pubs: d |-> d*G for every in-range d of the job (each multiplication is done once)
   LET v == BPrivImportW(c, o, ds, LAMBDA d : pubs[d])   d == BCoordVal(o, ds)
   IN [ ds |-> ds, cls |-> IF d = Zero THEN "d=0" ELSE IF ~Lt(d, c.n) THEN "d>=n" ELSE "in-range", st |-> v.st,
        pub |-> IF v.st = "reject" THEN << >>
                ELSE << [ pt |-> v.pt, comp |-> BEncode(c, o, "compressed", v.pt).x, packed |-> BEncode(c, o, "packed", v.pt).x,
                          sepx |-> BEncode(c, o, "separate", v.pt).x, sepy |-> BEncode(c, o, "separate", v.pt).y ] >> ]
SeqOfSet(S) == LET RECURSIVE F(_, _)
                   F(U, acc) == IF U = { } THEN acc ELSE LET x == CHOOSE y \in U : TRUE IN F(U \ { x }, Append(acc, x))
               IN F(S, << >>)
PrivStrings(c, o, full, extra) ==
   LET Bn == BFieldBytes(c)   n == c.n   top == Sub(Pow2(8 * Bn), One)   top1 == Sub(Pow2(8 * (Bn + 1)), One)
       cheap(ds) == LET d == BCoordVal(o, ds) IN d = Zero \/ ~Lt(d, n) \/ BitLen(d) <= 16         \* verdict without a full-size multiplication
       cand == { Zero, One, << 2 >>, << 3 >>, Sub(n, << 2 >>), Sub(n, One), n, Add(n, One), Sub(MulSmall(n, 2), One), Sub(top, One), top }
       fits == { BOctets(v, Bn, o) : v \in { v \in cand : Le(v, top) } }
       short == { BOctets(v, 1, o) : v \in { Zero, One, << 2 >>, << 255 >> } }
                \cup { BOctets(v, Bn - 1, o) : v \in { Zero, One, << 256 >>, Sub(Pow2(8 * (Bn - 1)), One) } }
       long == { BOctets(v, Bn + 1, o) : v \in { Zero, One, << 2 >>, Sub(n, One), n, Add(n, One), Add(top, One), top1 } }
       all == fits \cup short \cup long \cup { extra[i] : i \in 1..Len(extra) }
   IN IF full THEN all ELSE { ds \in all : cheap(ds) }

Job(j) ==
   LET c == j.c
       cs == Cands(c)
       pars == TLCEval([i \in 1..Len(cs) |-> BYOctetParities(c, cs[i])])
       first(pc) == LET S == { i \in 1..Len(cs) : pars[i] = pc } IN IF S = { } THEN 0 ELSE CHOOSE i \in S : \A e \in S : i <= e
       chosen == { first(Classes[q]) : q \in 1..4 } \ { 0 }
       chs == LET RECURSIVE F(_, _)
                  F(U, acc) == IF U = { } THEN acc ELSE LET x == CHOOSE y \in U : \A z \in U : y <= z IN F(U \ { x }, Append(acc, x))
              IN F(chosen, << >>)
       tabset == { cs[i] : i \in 1..Len(cs) }
       str1 == SeqOfSet(PrivStrings(c, "be", j.full, j.extra))
       str2 == SeqOfSet(PrivStrings(c, "le", j.full, j.extra))
       dset == { d \in { BCoordVal("be", str1[q]) : q \in 1..Len(str1) } \cup { BCoordVal("le", str2[q]) : q \in 1..Len(str2) } : InRange(d, c.n) }
       pubs == TLCEval([d \in dset |-> BPubOf(c, d)])
       VKT(P) == P = BInf \/ (P \in tabset /\ BOnCurve(c, P))
       last == cs[chs[Len(chs)]]
   IN [ id |-> j.id, name |-> j.name,
        oncurve |-> \A i \in 1..Len(cs) : cs[i] # BInf /\ BOnCurve(c, cs[i]),
        ordchk |-> IF ~j.full THEN "skipped" ELSE IF BMul(c, c.n, last) = BInf THEN "ok" ELSE "fails",
        forms |-> [oi \in 1..2 |->
                     [ order |-> Ords[oi],
                       rows |-> << [ k |-> 0, pt |-> BInf, par |-> << 0, 0 >>,
                                     encs |-> << EncRow(c, Ords[oi], "packed", BInf, VKT) >> ] >>
                                \o [q \in 1..Len(chs) |->
                                      LET P == cs[chs[q]] IN
                                      [ k |-> CandK(chs[q]), pt |-> P, par |-> pars[chs[q]],
                                        encs |-> [t \in 1..Len(FormTags) |-> EncRow(c, Ords[oi], FormTags[t], P, VKT)] ]] ]],
        priv |-> [oi \in 1..2 |->
                     [ order |-> Ords[oi],
                       rows |-> LET ss == IF oi = 1 THEN str1 ELSE str2
                                IN [q \in 1..Len(ss) |-> PrivOut(c, Ords[oi], ss[q], pubs)] ]] ]

ASSUME \A i \in 1..Len(Tr) : PrintT(ToJson(Job(Tr[i])))
ASSUME PrintT(ToJson([done |-> Len(Tr), xactive |-> XActive /\ YActive]))
Init == dummy = 0
Next == UNCHANGED dummy
=============================================================================
