---------------------------- MODULE EcGenPairs ----------------------------
(* Generator (mode B) for property C02 on the 8-bit curves: the reachable states ARE the corpus.
   One state per (curve, point P of the WHOLE group); the state carries the complete rows
       add[j] = P + Q_j,  sub[j] = P - Q_j   for EVERY point Q_j of the group (Inf, P itself and -P included),
       mul[k+1] = k*P  for every scalar k = 0 .. min(#E + 1, 2^m - 1)   (so 0, 1, n-1, n, n+1 are all there),
       dbl = 2P,  dbln[j] = 2^j * P  for j = 1 .. m+1,
   computed with the textbook law of EcGroup.  TLC checks the group axioms on every row (invariants
   below) and prints the row as JSON; the rig feeds P and the Q_j / k to the library and compares.     *)
EXTENDS EcCurves, Json
CONSTANTS CurveNames,        \* which curves of Curves8 to enumerate in this run
          Heavy              \* TRUE: also full double-and-add agreement and associativity with 3 fixed points
VARIABLES c, i, pts, row
vars == << c, i, pts, row >>

KMax(cv) == LET o == Order(cv) + 1  lim == Pow2(cv.m) - 1 IN IF o < lim THEN o ELSE lim
Row(cv, ps, idx) ==
   LET P == ps[idx]  N == Len(ps) IN
   [ add  |-> [j \in 1..N |-> Add(cv, P, ps[j])],
     sub  |-> [j \in 1..N |-> Sub(cv, P, ps[j])],
     mul  |-> MulTable(cv, P, KMax(cv)),
     dbl  |-> Dbl(cv, P),
     dbln |-> [j \in 1..(cv.m + 1) |-> DblN(cv, P, j)] ]

Init == /\ c \in { CurveByName(nm) : nm \in CurveNames }
        /\ i = 1
        /\ pts = GroupSeq(c)
        /\ row = Row(c, pts, 1)
Step == /\ i < Len(pts)
        /\ i' = i + 1
        /\ row' = Row(c, pts, i + 1)
        /\ UNCHANGED << c, pts >>
Next == Step
Spec == Init /\ [][Next]_vars

P == pts[i]
N == Len(pts)
(* ---- what TLC checks on the reference itself, for every state *)
WholeGroup == N = Order(c) /\ pts[1] = Inf                       \* rows range over all #E points
Closed     == /\ \A j \in 1..N : OnCurve(c, row.add[j]) /\ OnCurve(c, row.sub[j])
              /\ \A k \in 1..Len(row.mul) : OnCurve(c, row.mul[k])
              /\ OnCurve(c, row.dbl) /\ \A j \in 1..(c.m + 1) : OnCurve(c, row.dbln[j])
Commutes   == \A j \in 1..N : row.add[j] = Add(c, pts[j], P)
SubUndoes  == \A j \in 1..N : Add(c, row.sub[j], pts[j]) = P
Neutral    == /\ row.add[1] = P /\ row.sub[1] = P                \* Q_1 = Inf
              /\ row.add[i] = row.dbl /\ row.sub[i] = Inf        \* Q_i = P:  P + P = 2P,  P - P = Inf
              /\ Add(c, P, Neg(c, P)) = Inf /\ Add(c, Inf, P) = P
MulCorners == LET n == Order(c) IN
              /\ row.mul[1] = Inf /\ row.mul[2] = P /\ row.mul[3] = row.dbl
              /\ (n <= KMax(c) => row.mul[n + 1] = Inf /\ row.mul[n] = Neg(c, P))      \* Lagrange
              /\ (n + 1 <= KMax(c) => row.mul[n + 2] = P)
              /\ \A k \in {0, 1, 2, 3, i, c.n - 1, c.n, KMax(c)} : Mul(c, k, P) = row.mul[k + 1]
DblNIsMul  == \A j \in 1..(c.m + 1) :
                 row.dbln[j] = (IF Pow2(j) <= KMax(c) THEN row.mul[Pow2(j) + 1] ELSE Mul(c, Pow2(j), P))
MulAgrees  == Heavy => \A k \in 0..KMax(c) : Mul(c, k, P) = row.mul[k + 1]           \* double-and-add = k-fold sum
Assoc      == Heavy => \A j \in 1..N : \A R \in { G(c), T(c), Neg(c, P) } :
                 Add(c, row.add[j], R) = Add(c, P, Add(c, pts[j], R))

\* the division-free relations of EcRel (used at full size for the built-in curves) describe the same law:
\* the EcGroup point satisfies them and a different point of the group does not
NatLess(u, v) == u < v
Rel == INSTANCE EcRel WITH MulM <- MulMod, AddM <- AddMod, SubM <- SubMod, Less <- NatLess,
                           Zero <- 0, Two <- 2, Three <- 3
RelAgrees  == /\ \A j \in 1..N : /\ Rel!AddR(c, P, pts[j], row.add[j]) /\ Rel!SubR(c, P, pts[j], row.sub[j])
                                 /\ ~Rel!AddR(c, P, pts[j], row.add[(j % N) + 1]) \/ row.add[(j % N) + 1] = row.add[j]
                                 /\ ~Rel!SubR(c, P, pts[j], pts[j]) \/ row.sub[j] = pts[j]
              /\ Rel!DblR(c, P, row.dbl) /\ Rel!NegR(c, P, Neg(c, P)) /\ Rel!OnCurveR(c, P)
              /\ \A j \in 1..N : Rel!DblR(c, P, pts[j]) <=> pts[j] = row.dbl          \* exactly one solution

Emit == PrintT(ToJson([gen |-> "pairs", curve |-> c, idx |-> i, P |-> P, Q |-> pts,
                       add |-> row.add, sub |-> row.sub, mul |-> row.mul, dbl |-> row.dbl, dbln |-> row.dbln]))
=============================================================================
