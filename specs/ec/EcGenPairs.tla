---------------------------- MODULE EcGenPairs ----------------------------
(* Generator (mode B) for property C02 on the 8-bit curves: the reachable states ARE the corpus.
   One state per (curve, point P of the WHOLE group); the state carries the complete rows
       add[j] = P + Q_j,  sub[j] = P - Q_j   for EVERY point Q_j of the group (Inf, P itself and -P included),
       mul[k+1] = k*P  for every scalar k = 0 .. min(#E + 1, 2^m - 1)   (so 0, 1, n-1, n, n+1 are all there),
       dbl = 2P,  dbln[j] = 2^j * P  for j = 1 .. m+1,
   computed with the textbook law of EcGroup.  TLC checks the group axioms on every row (invariants
   below) and prints the row as JSON; the rig feeds P and the Q_j / k to the library and compares.     *)
EXTENDS EcCurvesX, Json
CONSTANTS CurveNames,        \* which curves of Curves8 / EcCurvesX!CurvesX to enumerate in this run
          Heavy              \* TRUE: also full double-and-add agreement and associativity with 3 fixed points
VARIABLES vCurve, vIdx, vPts, vRow
vars == << vCurve, vIdx, vPts, vRow >>

KMax(cv) == LET o == Order(cv) + 1  lim == Pow2(cv.m) - 1 IN IF o < lim THEN o ELSE lim
Row(cv, ps, idx) ==
   LET pp == ps[idx]  np == Len(ps) IN
   [ add  |-> [j \in 1..np |-> Add(cv, pp, ps[j])],
     sub  |-> [j \in 1..np |-> Sub(cv, pp, ps[j])],
     mul  |-> MulTable(cv, pp, KMax(cv)),
     dbl  |-> Dbl(cv, pp),
     dbln |-> [j \in 1..(cv.m + 1) |-> DblN(cv, pp, j)] ]

Init == /\ vCurve \in { CurveByNameX(nm) : nm \in CurveNames }
        /\ vIdx = 1
        /\ vPts = GroupSeq(vCurve)
        /\ vRow = Row(vCurve, vPts, 1)
Step == /\ vIdx < Len(vPts)
        /\ vIdx' = vIdx + 1
        /\ vRow' = Row(vCurve, vPts, vIdx + 1)
        /\ UNCHANGED << vCurve, vPts >>
Next == Step
Spec == Init /\ [][Next]_vars

CurP == vPts[vIdx]
NPts == Len(vPts)
(* ---- what TLC checks on the reference itself, for every state *)
WholeGroup == NPts = Order(vCurve) /\ vPts[1] = Inf                       \* rows range over all #E points
Closed     == /\ \A j \in 1..NPts : OnCurve(vCurve, vRow.add[j]) /\ OnCurve(vCurve, vRow.sub[j])
              /\ \A k \in 1..Len(vRow.mul) : OnCurve(vCurve, vRow.mul[k])
              /\ OnCurve(vCurve, vRow.dbl) /\ \A j \in 1..(vCurve.m + 1) : OnCurve(vCurve, vRow.dbln[j])
Commutes   == \A j \in 1..NPts : vRow.add[j] = Add(vCurve, vPts[j], CurP)
SubUndoes  == \A j \in 1..NPts : Add(vCurve, vRow.sub[j], vPts[j]) = CurP
Neutral    == /\ vRow.add[1] = CurP /\ vRow.sub[1] = CurP                \* Q_1 = Inf
              /\ vRow.add[vIdx] = vRow.dbl /\ vRow.sub[vIdx] = Inf        \* Q_i = P:  P + P = 2P,  P - P = Inf
              /\ Add(vCurve, CurP, Neg(vCurve, CurP)) = Inf /\ Add(vCurve, Inf, CurP) = CurP
MulCorners == LET n == Order(vCurve) IN
              /\ vRow.mul[1] = Inf /\ vRow.mul[2] = CurP /\ vRow.mul[3] = vRow.dbl
              /\ (n <= KMax(vCurve) => vRow.mul[n + 1] = Inf /\ vRow.mul[n] = Neg(vCurve, CurP))      \* Lagrange
              /\ (n + 1 <= KMax(vCurve) => vRow.mul[n + 2] = CurP)
              /\ \A k \in {0, 1, 2, 3, vIdx, vCurve.n - 1, vCurve.n, KMax(vCurve)} : Mul(vCurve, k, CurP) = vRow.mul[k + 1]
DblNIsMul  == \A j \in 1..(vCurve.m + 1) :
                 vRow.dbln[j] = (IF Pow2(j) <= KMax(vCurve) THEN vRow.mul[Pow2(j) + 1] ELSE Mul(vCurve, Pow2(j), CurP))
MulAgrees  == Heavy => \A k \in 0..KMax(vCurve) : Mul(vCurve, k, CurP) = vRow.mul[k + 1]           \* double-and-add = k-fold sum
Assoc      == Heavy => \A j \in 1..NPts : \A R \in { G(vCurve), T(vCurve), Neg(vCurve, CurP) } :
                 Add(vCurve, vRow.add[j], R) = Add(vCurve, CurP, Add(vCurve, vPts[j], R))

\* the division-free relations of EcRel (used at full size for the built-in curves) describe the same law:
\* the EcGroup point satisfies them and a different point of the group does not
NatLess(u, v) == u < v
Rel == INSTANCE EcRel WITH MulM <- MulMod, AddM <- AddMod, SubM <- SubMod, Less <- NatLess,
                           Zero <- 0, Two <- 2, Three <- 3
RelAgrees  ==
   /\ \A j \in 1..NPts :
         LET other == vRow.add[(j % NPts) + 1] IN
         /\ Rel!AddR(vCurve, CurP, vPts[j], vRow.add[j])
         /\ Rel!SubR(vCurve, CurP, vPts[j], vRow.sub[j])
         /\ (Rel!AddR(vCurve, CurP, vPts[j], other) => other = vRow.add[j])
         /\ (Rel!SubR(vCurve, CurP, vPts[j], vPts[j]) => vRow.sub[j] = vPts[j])
   /\ Rel!DblR(vCurve, CurP, vRow.dbl) /\ Rel!NegR(vCurve, CurP, Neg(vCurve, CurP)) /\ Rel!OnCurveR(vCurve, CurP)
   /\ \A j \in 1..NPts : Rel!DblR(vCurve, CurP, vPts[j]) <=> vPts[j] = vRow.dbl          \* exactly one solution

Emit == PrintT(ToJson([gen |-> "pairs", curve |-> vCurve, idx |-> vIdx, P |-> CurP, Q |-> vPts,
                       add |-> vRow.add, sub |-> vRow.sub, mul |-> vRow.mul, dbl |-> vRow.dbl, dbln |-> vRow.dbln]))
=============================================================================
