SPECIFICATION Spec
CONSTANTS
  CurveNames = {"E8M3", "E8G", "E8Z", "E8C4"}
  Heavy = FALSE
INVARIANTS WholeGroup Closed Commutes SubUndoes Neutral MulCorners DblNIsMul RelAgrees MulAgrees Assoc
CONSTRAINT Emit
CHECK_DEADLOCK FALSE
