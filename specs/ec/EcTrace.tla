------------------------------- MODULE EcTrace -------------------------------
(* Mode C for property C02: calls of the real library on the 32 built-in curves are logged (numbers as
   base-2^13 limb sequences, least significant first) and every logged result is decided here, by TLC, with
   the division-free relations of EcRel evaluated over BigNat.  The file named by the environment variable
   TRACE is ndjson: first the curves that are used,
       {"op":"curve","name":..,"p":[..],"a":[..],"b":[..],"n":[..],"G":[[..],[..]]}
   then events that refer to a curve by its line number "ci" (a point is [] or [[x limbs],[y limbs]]):
       {"op":"add"|"sub","ci":1,"P":..,"Q":..,"R":..}       R = P + Q  /  P - Q
       {"op":"dbl","ci":1,"P":..,"R":..}                    R = 2P
       {"op":"mul","ci":1,"P":..,"k":[..],"steps":[..],"chk":[..],"R":[..]}
             steps = every intermediate point of a left-to-right double-and-add ladder for k*P that the
             driver ran with the library's own add/double; each step is checked with DblR / AddR against the
             bits of k, so the last step is k*P by the textbook definition; every point in R (the results of
             the multipliers under test) must equal it.  k = 0 has no steps and needs R = Inf.
       {"op":"twin","ci":1,"P":..,"k":..,"stepsP":..,"chkP":..,"Q":..,"l":..,"stepsQ":..,"chkQ":..,"R":[..]}   R = kP + lQ
             chk = [] : every step is decided;  chk = [j1, j2, ..] : only these step positions are decided (sampled)
   One state per event; the verdict is printed as  [i, verdict]  ("ok" or the name of the first failed clause). *)
EXTENDS BigNatX, Json, IOUtils, TLC

Tr == ndJsonDeserialize(IOEnv.TRACE)
NEv == Len(Tr)

\* modular arithmetic on reduced operands
AddM(u, v, p) == LET sm == Add(u, v) IN IF Lt(sm, p) THEN sm ELSE Sub(sm, p)
SubM(u, v, p) == IF Le(v, u) THEN Sub(u, v) ELSE Sub(Add(u, p), v)
MulM(u, v, p) == XMulMod(u, v, p)
Rel == INSTANCE EcRel WITH MulM <- MulM, AddM <- AddM, SubM <- SubM, Less <- Lt,
                           Zero <- Zero, Two <- FromInt(2), Three <- FromInt(3)

IsNum(x) == IsNat(x) /\ (Len(x) = 0 \/ x[Len(x)] # 0)
IsPoint(P) == P = << >> \/ (Len(P) = 2 /\ IsNum(P[1]) /\ IsNum(P[2]))
CurveOf(e) == Tr[e.ci]

\* left-to-right binary ladder: for bit i = top..0:  acc := 2*acc (one step);  if the bit is set: acc := acc + P (one
\* more step).  Plan(k) lists the kind of every step (0 = doubling, 1 = addition of P); step j must satisfy the
\* relation with its predecessor (Inf before the first).  "chk" selects the steps that are decided: << >> = all of
\* them (then the last step is k*P by the textbook definition), otherwise only the listed positions (quick tier).
\* (Written without a recursion over the steps on purpose: TLC looks identifiers up in a context chain that grows
\* with the recursion depth, which made a 400-step recursive ladder 10x slower than this flat form.)
RECURSIVE PlanFrom(_, _)
PlanFrom(k, i) == IF i < 0 THEN << >>
                  ELSE (IF Bit(k, i) = 1 THEN << 0, 1 >> ELSE << 0 >>) \o PlanFrom(k, i - 1)
Plan(k) == PlanFrom(k, BitLen(k) - 1)
StepOk(c, P, steps, plan, j) ==
   LET prev == IF j = 1 THEN << >> ELSE steps[j - 1]  cur == steps[j] IN
   /\ IsPoint(cur)
   /\ IF plan[j] = 0 THEN Rel!DblR(c, prev, cur) ELSE Rel!AddR(c, prev, P, cur)
Ladder(c, P, k, steps, chk) ==                       \* "ok" or the failing clause
   LET plan == Plan(k) IN
   IF Len(plan) # Len(steps) THEN "ladder-length"
   ELSE LET todo == IF Len(chk) = 0 THEN 1..Len(steps) ELSE { chk[x] : x \in 1..Len(chk) }
            bad  == { j \in todo : ~StepOk(c, P, steps, plan, j) }
        IN  IF bad = {} THEN "ok"
            ELSE IF plan[CHOOSE j \in bad : \A j2 \in bad : j <= j2] = 0 THEN "ladder-dbl" ELSE "ladder-add"
LadderEnd(k, steps) == IF Len(k) = 0 THEN << >> ELSE steps[Len(steps)]

AllEq(Rs, X) == \A r \in 1..Len(Rs) : Rs[r] = X

Verdict(e) ==
   IF e.op = "curve" THEN
      (IF ~(IsNum(e.p) /\ IsNum(e.a) /\ IsNum(e.b) /\ IsPoint(e.G)) THEN "malformed"
       ELSE IF ~Rel!OnCurveR(e, e.G) THEN "G-not-on-curve" ELSE "ok")
   ELSE LET c == CurveOf(e) IN
   IF e.op = "add" \/ e.op = "sub" THEN
      (IF ~(IsPoint(e.P) /\ IsPoint(e.Q) /\ Rel!OnCurveR(c, e.P) /\ Rel!OnCurveR(c, e.Q)) THEN "operand-not-on-curve"
       ELSE IF ~IsPoint(e.R) THEN "malformed"
       ELSE IF ~Rel!OnCurveR(c, e.R) THEN "result-not-on-curve"
       ELSE IF e.op = "add" /\ ~Rel!AddR(c, e.P, e.Q, e.R) THEN "wrong-sum"
       ELSE IF e.op = "sub" /\ ~Rel!SubR(c, e.P, e.Q, e.R) THEN "wrong-difference"
       ELSE "ok")
   ELSE IF e.op = "dbl" THEN
      (IF ~(IsPoint(e.P) /\ Rel!OnCurveR(c, e.P)) THEN "operand-not-on-curve"
       ELSE IF ~IsPoint(e.R) THEN "malformed"
       ELSE IF ~Rel!OnCurveR(c, e.R) THEN "result-not-on-curve"
       ELSE IF ~Rel!DblR(c, e.P, e.R) THEN "wrong-double" ELSE "ok")
   ELSE IF e.op = "mul" THEN
      (IF ~(IsPoint(e.P) /\ Rel!OnCurveR(c, e.P) /\ IsNum(e.k)) THEN "operand-not-on-curve"
       ELSE LET lv == Ladder(c, e.P, e.k, e.steps, e.chk) IN
            IF lv # "ok" THEN lv
            ELSE IF ~AllEq(e.R, LadderEnd(e.k, e.steps)) THEN "wrong-multiple" ELSE "ok")
   ELSE IF e.op = "twin" THEN
      (IF ~(IsPoint(e.P) /\ Rel!OnCurveR(c, e.P) /\ IsPoint(e.Q) /\ Rel!OnCurveR(c, e.Q)) THEN "operand-not-on-curve"
       ELSE LET lp == Ladder(c, e.P, e.k, e.stepsP, e.chkP)  lq == Ladder(c, e.Q, e.l, e.stepsQ, e.chkQ) IN
            IF lp # "ok" THEN lp ELSE IF lq # "ok" THEN lq
            ELSE IF \E r \in 1..Len(e.R) : ~(IsPoint(e.R[r]) /\ Rel!OnCurveR(c, e.R[r])) THEN "result-not-on-curve"
            ELSE IF \E r \in 1..Len(e.R) : ~Rel!AddR(c, LadderEnd(e.k, e.stepsP), LadderEnd(e.l, e.stepsQ), e.R[r])
                 THEN "wrong-twin-multiple" ELSE "ok")
   ELSE "unknown-op"

\* the accelerated product must be the TLA+ product (checked by TLC itself on operands taken from the trace)
OverrideAgrees(e) == e.op # "curve" \/ (XMulMod(e.G[1], e.G[2], e.p) = MulMod(e.G[1], e.G[2], e.p)
                                        /\ XMulMod(e.b, e.b, e.p) = MulMod(e.b, e.b, e.p))

VARIABLE i
Init == i = 1
Next == i < NEv /\ i' = i + 1
Spec == Init /\ [][Next]_i
OverrideOk == OverrideAgrees(Tr[i])
Emit == PrintT(ToJson(<< i, Verdict(Tr[i]) >>))
=============================================================================
