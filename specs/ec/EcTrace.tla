------------------------------- MODULE EcTrace -------------------------------
(* Mode C for property C02: calls of the real library on the 32 built-in curves are logged (numbers as
   base-2^13 limb sequences, least significant first) and every logged result is decided here, by TLC, with
   the division-free relations of EcRel evaluated over BigNat.  The file named by the environment variable
   TRACE is ndjson: first the curves that are used,
       {"op":"curve","name":..,"p":[..],"a":[..],"b":[..],"n":[..],"G":[[..],[..]]}
   then events that refer to a curve by its line number "ci" (a point is [] or [[x limbs],[y limbs]]):
       {"op":"add"|"sub","ci":1,"P":..,"Q":..,"R":..}       R = P + Q  /  P - Q
       {"op":"dbl","ci":1,"P":..,"R":..}                    R = 2P
       {"op":"mul","ci":1,"P":..,"k":[..],"steps":[..],"R":[..]}
             steps = every intermediate point of a left-to-right double-and-add ladder for k*P that the
             driver ran with the library's own add/double; each step is checked with DblR / AddR against the
             bits of k, so the last step is k*P by the textbook definition; every point in R (the results of
             the multipliers under test) must equal it.  k = 0 has no steps and needs R = Inf.
       {"op":"twin","ci":1,"P":..,"k":..,"stepsP":..,"Q":..,"l":..,"stepsQ":..,"R":[..]}   R = kP + lQ
   One state per event; the verdict is printed as  [i, verdict]  ("ok" or the name of the first failed clause). *)
EXTENDS BigNatX, Json, IOUtils, TLC

Tr == ndJsonDeserialize(IOEnv.TRACE)
NEv == Len(Tr)

\* modular arithmetic on reduced operands
AddM(u, v, p) == LET sm == Add(u, v) IN IF Lt(sm, p) THEN sm ELSE Sub(sm, p)
SubM(u, v, p) == IF Le(v, u) THEN Sub(u, v) ELSE Sub(Add(u, p), v)
MulM(u, v, p) == XMulMod(u, v, p)
Rel == INSTANCE EcRel WITH MulM <- MulM, AddM <- AddM, SubM <- SubM, Less <- Lt,
                           Zero <- Zero, Two <- FromInt(2), Three <- FromInt(3)

IsNum(x) == IsNat(x) /\ (Len(x) = 0 \/ x[Len(x)] # 0)
IsPoint(P) == P = << >> \/ (Len(P) = 2 /\ IsNum(P[1]) /\ IsNum(P[2]))
CurveOf(e) == Tr[e.ci]

\* left-to-right binary ladder: for bit i = top..0:  acc := 2*acc (one step);  if bit set: acc := acc + P (one step)
RECURSIVE LadderFrom(_, _, _, _, _, _, _)
LadderFrom(c, P, k, i, acc, steps, pos) ==       \* "ok" or the failing clause
   IF i < 0 THEN (IF pos = Len(steps) + 1 THEN "ok" ELSE "ladder-length")
   ELSE IF pos > Len(steps) THEN "ladder-length"
   ELSE LET d == steps[pos] IN
        IF ~(IsPoint(d) /\ Rel!DblR(c, acc, d)) THEN "ladder-dbl"
        ELSE IF Bit(k, i) = 0 THEN LadderFrom(c, P, k, i - 1, d, steps, pos + 1)
        ELSE IF pos + 1 > Len(steps) THEN "ladder-length"
        ELSE LET s == steps[pos + 1] IN
             IF ~(IsPoint(s) /\ Rel!AddR(c, d, P, s)) THEN "ladder-add"
             ELSE LadderFrom(c, P, k, i - 1, s, steps, pos + 2)
Ladder(c, P, k, steps) == LadderFrom(c, P, k, BitLen(k) - 1, << >>, steps, 1)
LadderEnd(k, steps) == IF Len(k) = 0 THEN << >> ELSE steps[Len(steps)]

AllEq(Rs, X) == \A r \in 1..Len(Rs) : Rs[r] = X

Verdict(e) ==
   IF e.op = "curve" THEN
      (IF ~(IsNum(e.p) /\ IsNum(e.a) /\ IsNum(e.b) /\ IsPoint(e.G)) THEN "malformed"
       ELSE IF ~Rel!OnCurveR(e, e.G) THEN "G-not-on-curve" ELSE "ok")
   ELSE LET c == CurveOf(e) IN
   IF e.op = "add" \/ e.op = "sub" THEN
      (IF ~(IsPoint(e.P) /\ IsPoint(e.Q) /\ Rel!OnCurveR(c, e.P) /\ Rel!OnCurveR(c, e.Q)) THEN "operand-not-on-curve"
       ELSE IF ~IsPoint(e.R) THEN "malformed"
       ELSE IF ~Rel!OnCurveR(c, e.R) THEN "result-not-on-curve"
       ELSE IF e.op = "add" /\ ~Rel!AddR(c, e.P, e.Q, e.R) THEN "wrong-sum"
       ELSE IF e.op = "sub" /\ ~Rel!SubR(c, e.P, e.Q, e.R) THEN "wrong-difference"
       ELSE "ok")
   ELSE IF e.op = "dbl" THEN
      (IF ~(IsPoint(e.P) /\ Rel!OnCurveR(c, e.P)) THEN "operand-not-on-curve"
       ELSE IF ~IsPoint(e.R) THEN "malformed"
       ELSE IF ~Rel!OnCurveR(c, e.R) THEN "result-not-on-curve"
       ELSE IF ~Rel!DblR(c, e.P, e.R) THEN "wrong-double" ELSE "ok")
   ELSE IF e.op = "mul" THEN
      (IF ~(IsPoint(e.P) /\ Rel!OnCurveR(c, e.P) /\ IsNum(e.k)) THEN "operand-not-on-curve"
       ELSE LET lv == Ladder(c, e.P, e.k, e.steps) IN
            IF lv # "ok" THEN lv
            ELSE IF ~AllEq(e.R, LadderEnd(e.k, e.steps)) THEN "wrong-multiple" ELSE "ok")
   ELSE IF e.op = "twin" THEN
      (IF ~(IsPoint(e.P) /\ Rel!OnCurveR(c, e.P) /\ IsPoint(e.Q) /\ Rel!OnCurveR(c, e.Q)) THEN "operand-not-on-curve"
       ELSE LET lp == Ladder(c, e.P, e.k, e.stepsP)  lq == Ladder(c, e.Q, e.l, e.stepsQ) IN
            IF lp # "ok" THEN lp ELSE IF lq # "ok" THEN lq
            ELSE IF \E r \in 1..Len(e.R) : ~(IsPoint(e.R[r]) /\ Rel!OnCurveR(c, e.R[r])) THEN "result-not-on-curve"
            ELSE IF \E r \in 1..Len(e.R) : ~Rel!AddR(c, LadderEnd(e.k, e.stepsP), LadderEnd(e.l, e.stepsQ), e.R[r])
                 THEN "wrong-twin-multiple" ELSE "ok")
   ELSE "unknown-op"

\* the accelerated product must be the TLA+ product (checked by TLC itself on operands taken from the trace)
OverrideAgrees(e) == e.op # "curve" \/ (XMulMod(e.G[1], e.G[2], e.p) = MulMod(e.G[1], e.G[2], e.p)
                                        /\ XMulMod(e.b, e.b, e.p) = MulMod(e.b, e.b, e.p))

VARIABLE i
Init == i = 1
Next == i < NEv /\ i' = i + 1
Spec == Init /\ [][Next]_i
OverrideOk == OverrideAgrees(Tr[i])
Emit == PrintT(ToJson(<< i, Verdict(Tr[i]) >>))
=============================================================================
