---------------------------- MODULE EcdsaBigSelf ----------------------------
(* TLC compares the limb-tuple definitions of EcdsaBig with the native-integer definitions of EcGroup / Ecdsa on the
   synthetic curves: same inputs, both evaluations, for every secret (Sign), for a full (r, s) grid (Verify), for
   every scalar (point multiplication) and for the digest conversions of the whole digest corpus shapes.
   Run once per check (a few seconds); EcdsaTrace then uses EcdsaBig alone on the 32 built-in curves.            *)
EXTENDS EcdsaBig, TLC
N == INSTANCE Ecdsa
K == INSTANCE EcCurves

Big(cv) == [ p |-> FromInt(cv.p), a |-> FromInt(cv.a), b |-> FromInt(cv.b), gx |-> FromInt(cv.gx), gy |-> FromInt(cv.gy),
             n |-> FromInt(cv.n), h |-> cv.h, m |-> cv.m ]
BigPt(P) == IF P = << >> THEN BInf ELSE << FromInt(P[1]), FromInt(P[2]) >>
BigSig(x) == IF x = << >> THEN BNoSig ELSE << FromInt(x[1]), FromInt(x[2]) >>
AlgSet == { "ecdsa", "gost" }

MulAgrees(cv) == \A k \in 0..(cv.n + 1) : BMul(Big(cv), FromInt(k), BG(Big(cv))) = BigPt(N!Mul(cv, k, N!G(cv)))
SignAgrees(cv, ds, es) == \A al \in AlgSet : \A d \in ds : \A e \in es : \A k \in 0..cv.n :
   BSign(Big(cv), al, FromInt(d), FromInt(e), FromInt(k)) = BigSig(N!Sign(cv, al, d, e, k))
VerifyAgrees(cv, d, es, lim) == \A al \in AlgSet : \A e \in es : \A r \in 0..lim : \A s \in 0..lim :
   LET Q == N!Mul(cv, d, N!G(cv)) IN
   BVerify(Big(cv), al, BigPt(Q), FromInt(e), FromInt(r), FromInt(s)) = N!Verify(cv, al, Q, e, r, s)
InvalidKeysAgree(cv) == \A Q \in { << >>, << cv.gx, (cv.gy + 1) % cv.p >>, << cv.gx + cv.p, cv.gy >>, << 1, 87 >>, << 13, 0 >> } :
   BValidPub(Big(cv), BigPt(Q)) = N!ValidPub(cv, Q)
HashAgrees(cv) == \A al \in AlgSet : \A o \in { "be", "le" } :
   \A hb \in { << 0 >>, << 1 >>, << 255 >>, << cv.n % 256 >>, << 1, 0 >>, << 0, 200 >>, << 255, 255 >>, << 200, 1, 2 >>, << 58, 0, 0 >> } :
      /\ { FromInt(e) : e \in N!HashESet(cv, al, o, hb) } = BHashESet(Big(cv), al, o, hb)
      /\ FromInt(N!LcbE(cv, al, N!LcbHashInt(cv, o, hb))) = BLcbE(Big(cv), al, o, hb)

ASSUME MulAgrees(K!E8G) /\ MulAgrees(K!E8C4)
ASSUME SignAgrees(K!E8G, { 1, 7, 228 }, { 0, 1, 114 }) /\ SignAgrees(K!E8C4, { 5 }, { 0, 3 })
ASSUME VerifyAgrees(K!E8G, 7, { 0, 5 }, 230) /\ VerifyAgrees(K!E8C4, 12, { 1 }, 60)
ASSUME InvalidKeysAgree(K!E8C4)
ASSUME HashAgrees(K!E8G) /\ HashAgrees(K!E8C4) /\ HashAgrees(K!E13) /\ HashAgrees(K!E16M3)
ASSUME PrintT("EcdsaBigSelf: limb-tuple definitions agree with the native ones")
VARIABLE dummy
Init == dummy = 0
Next == UNCHANGED dummy
=============================================================================
