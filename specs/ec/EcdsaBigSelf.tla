---------------------------- MODULE EcdsaBigSelf ----------------------------
(* TLC compares the limb-tuple definitions of EcdsaBig with the native-integer definitions of EcGroup / Ecdsa on the
   synthetic curves: same inputs, both evaluations, for every secret (Sign), for every owner signature, its neighbour and the boundary grid (Verify), for
   every scalar (point multiplication) and for the digest conversions of the whole digest corpus shapes.
   Run once per check (a few seconds); EcdsaTrace then uses EcdsaBig alone on the 32 built-in curves.
   The Y-operators of EcdsaBigX are compared with their definitions as well.  (The published signature examples
   are re-derived by the module EcdsaVectors, a separate TLC run.)                                                 *)
EXTENDS EcdsaBig, TLC
N == INSTANCE Ecdsa
K == INSTANCE EcCurves

Big(cv) == [ p |-> FromInt(cv.p), a |-> FromInt(cv.a), b |-> FromInt(cv.b), gx |-> FromInt(cv.gx), gy |-> FromInt(cv.gy),
             n |-> FromInt(cv.n), h |-> cv.h, m |-> cv.m ]
BigPt(P) == IF P = << >> THEN BInf ELSE << FromInt(P[1]), FromInt(P[2]) >>
BigSig(x) == IF x = << >> THEN BNoSig ELSE << FromInt(x[1]), FromInt(x[2]) >>
AlgSet == { "ecdsa", "gost" }

MulAgrees(cv) == \A k \in 0..(cv.n + 1) : BMul(Big(cv), FromInt(k), BG(Big(cv))) = BigPt(N!Mul(cv, k, N!G(cv)))
SignAgrees(cv, ds, es) == \A al \in AlgSet : \A d \in ds : \A e \in es : \A k \in 0..cv.n :
   BSign(Big(cv), al, FromInt(d), FromInt(e), FromInt(k)) = BigSig(N!Sign(cv, al, d, e, k))
\* pairs: every signature of the key's owner, their neighbours (r, s+1), and the boundary grid
VerifyAgrees(cv, d, es) == \A al \in AlgSet : \A e \in es :
   LET Q    == N!Mul(cv, d, N!G(cv))
       bv   == { 0, 1, 2, cv.n - 1, cv.n, cv.n + 1 }
       sigs == { N!Sign(cv, al, d, e, k) : k \in 1..(cv.n - 1) } \ { << >> }
       ps   == sigs \cup { << x[1], x[2] + 1 >> : x \in sigs } \cup (bv \X bv)
   IN \A x \in ps :
         BVerify(Big(cv), al, BigPt(Q), FromInt(e), FromInt(x[1]), FromInt(x[2])) = N!Verify(cv, al, Q, e, x[1], x[2])
InvalidKeysAgree(cv) == \A Q \in { << >>, << cv.gx, (cv.gy + 1) % cv.p >>, << cv.gx + cv.p, cv.gy >>, << 1, 87 >>, << 13, 0 >> } :
   BValidPub(Big(cv), BigPt(Q)) = N!ValidPub(cv, Q)
HashAgrees(cv) == \A al \in AlgSet : \A o \in { "be", "le" } :
   \A hb \in { << 0 >>, << 1 >>, << 255 >>, << cv.n % 256 >>, << 1, 0 >>, << 0, 200 >>, << 255, 255 >>, << 200, 1, 2 >>, << 58, 0, 0 >> } :
      /\ { FromInt(e) : e \in N!HashESet(cv, al, o, hb) } = BHashESet(Big(cv), al, o, hb)
      /\ FromInt(N!LcbE(cv, al, N!LcbHashInt(cv, o, hb))) = BLcbE(Big(cv), al, o, hb)

ASSUME \A t \in { << FromInt(65535), One, FromInt(65536) >>, << One, FromInt(65535), FromInt(65537) >>, << Zero, Zero, One >>,
                  << Sub(Pow2(90), One), Sub(Pow2(90), One), Pow2(90) >>, << Pow2(200), Sub(Pow2(255), One), Pow2(255) >> } :
          /\ YAddMod(t[1], t[2], t[3]) = DAddMod(t[1], t[2], t[3]) /\ YSubMod(t[1], t[2], t[3]) = DSubMod(t[1], t[2], t[3])
          /\ YSubMod(t[2], t[1], t[3]) = DSubMod(t[2], t[1], t[3])
ASSUME MulAgrees(K!E8G) /\ MulAgrees(K!E8C4)
ASSUME SignAgrees(K!E8G, { 1, 7, 228 }, { 0, 1, 114 }) /\ SignAgrees(K!E8C4, { 5 }, { 0, 3 })
ASSUME VerifyAgrees(K!E8G, 7, { 0, 5 }) /\ VerifyAgrees(K!E8C4, 12, { 1 })
ASSUME InvalidKeysAgree(K!E8C4)
ASSUME HashAgrees(K!E8G) /\ HashAgrees(K!E8C4) /\ HashAgrees(K!E13) /\ HashAgrees(K!E16M3)
ASSUME PrintT("EcdsaBigSelf: limb-tuple definitions agree with the native ones")
VARIABLE dummy
Init == dummy = 0
Next == UNCHANGED dummy
=============================================================================
