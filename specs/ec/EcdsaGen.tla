------------------------------ MODULE EcdsaGen ------------------------------
(* Generator (mode B) for property C03 on the synthetic curves of EcCurves: the reachable (= initial) states
   ARE the corpus, every expectation is computed here from the definitions of Ecdsa.tla, and the invariants
   make TLC check the signature schemes' own algebra on every state.

   kind "hmap"   one state per curve: the digest corpus (octet strings shorter than / as long as / longer than
                 the order, numerically below / equal to / above n) with, per algorithm and byte order, the
                 admissible integers e (HashESet), the integer and class of the documented library conversion,
                 the integer digests for the bn_t level API, the random-octet values with their admissible
                 secrets, and the list of candidate public keys (whole group, off-curve points, coordinates >= p).
   kind "sign"   one state per (curve, alg, private key d, e): the row  k |-> Sign(d, e, k)  over EVERY secret
                 k = 0..n-1 on the 8-bit curves (a boundary + pseudo-random list on the 13/16-bit ones).
                 Invariants: Complete (every produced signature is accepted by Verify and VerifyPriv and has
                 r, s in [1, n-1]), SignFails (k = 0 and r = 0 / s = 0 give no signature), SignDefn (table-driven
                 evaluation = EcGroup!Mul evaluation).
   kind "vgrid"  one state per chosen (curve, alg, Q, e): the EXACT accept set of Verify over the full grid
                 (r, s) in (0..n+1)^2 (8-bit curves only).  Invariant Exact: for a valid key Q = dG the accept set
                 is precisely the image of Sign(d, e, .) -- nothing else verifies; for an invalid key it is empty.
   kind "vlist"  one state per (curve, alg, Q, e): the accept set over a pair list = boundary values
                 {0, 1, 2, n-2, n-1, n, n+1, max}^2, every signature the key's owner can produce for e (the owner of the
                 related valid key when Q is an invalid variant), and altered neighbours of a subset of them.
   Which (d, e) / (Q, e) combinations are generated is chosen by the constants (the rig writes the .cfg).     *)
EXTENDS Ecdsa, EcCurves, Json
CONSTANTS CurveNames,   \* names of EcCurves!AllCurves to enumerate
          AlgSel,       \* subset of Algs
          Kinds,        \* subset of {"hmap", "sign", "vgrid", "vlist"}
          Seed,         \* seeds the pseudo-random picks on the 13/16-bit curves
          SignEAllE, SignEAllG,   \* values of e (ECDSA / GOST) signed with every private key (8-bit) / the key sample (others)
          SignDFew,     \* private keys signed with every e of the corpus
          VgPairsE, VgPairsG,     \* codes qi * 100000 + e  (candidate-key index, value of e; ECDSA / GOST) -> full grid
          VlQ, VlEE, VlEG         \* candidate-key indices x values of e (ECDSA / GOST) -> pair list
VARIABLES vKind, vCurve, vAlg, vA1, vA2, vOut
vars == << vKind, vCurve, vAlg, vA1, vA2, vOut >>   \* (names that no operator parameter uses: a VARIABLE called c or alg
                                                     \*  makes TLC treat every definition with such a parameter as state-level and stop caching constants)

Small(cv) == cv.m = 8
PerAlg(al, forEcdsa, forGost) == IF al = "ecdsa" THEN forEcdsa ELSE forGost
Top(cv) == TwoTo(8 * FieldBytes(cv)) - 1                  \* largest value FieldBytes octets can hold
SetToSeq(S) == LET RECURSIVE F(_, _)                     \* ascending
                   F(U, acc) == IF U = {} THEN acc
                                ELSE LET x == CHOOSE y \in U : \A z \in U : y <= z IN F(U \ {x}, Append(acc, x))
               IN F(S, << >>)
SeqToSet(s) == { s[i] : i \in 1..Len(s) }
IndexOf(s, x) == CHOOSE i \in 1..Len(s) : s[i] = x

\* pseudo-random naturals below lim (a multiplicative generator mod 65537, as TraceBn uses)
RECURSIVE Rnd(_, _, _, _)
Rnd(x, cnt, lim, acc) == IF cnt = 0 THEN acc
                         ELSE LET y == ((x * 75) + 74) % 65537 IN Rnd(y, cnt - 1, lim, acc \cup { y % lim })

(* ------------------------------------------------------------------ corpus *)
BVals(cv) == { v \in { 0, 1, 2, cv.n - 2, cv.n - 1, cv.n, cv.n + 1, Top(cv) } : v <= Top(cv) }
\* digests as octet strings; the same strings are presented to the "be" and to the "le" entry points
HashVals(cv) == BVals(cv) \cup { cv.n \div 2, (2 * cv.n) \div 3 }
Hashes(cv) ==
   LET Bn == FieldBytes(cv)
       eq    == { ToBE(v, Bn) : v \in HashVals(cv) } \cup { ToLE(v, Bn) : v \in HashVals(cv) }
       short == IF Bn = 1 THEN { } ELSE { << 0 >>, << 1 >>, << 200 >>, << 255 >> }
       heads == { ToBE(v, Bn) : v \in { 0, 1, cv.n - 1, cv.n, Top(cv) } } \cup { ToLE(cv.n, Bn), ToLE(cv.n - 1, Bn) }
       long  == { hd \o tl : hd \in heads, tl \in { << 0 >>, << 1 >>, << 255 >> } }
       long2 == IF Bn = 1 THEN { ToBE(cv.n, 1) \o << 1, 2 >>, << 0, 0, 1 >>, << 1, 0, 0 >>, << 255, 255, 255 >> } ELSE { }
   IN  eq \cup short \cup long \cup long2
HashSeq(cv) == LET S == Hashes(cv)                         \* ordered by (length, value)
                   key(h) == Len(h) * 16777216 + BEInt(h)
                   ks == SetToSeq({ key(h) : h \in S })
               IN [i \in 1..Len(ks) |-> CHOOSE h \in S : key(h) = ks[i]]
IntHashes(cv) == { v \in BVals(cv) \cup { 2 * cv.n - 2, 2 * cv.n - 1, 2 * cv.n, 2 * cv.n + 1, cv.n \div 2, 3 * cv.n + 5 } : v < 2000000 }
Orders == << "be", "le" >>
\* every e that some digest of the corpus may stand for (admissible or documented-library reading)
EAllSet(cv, al) ==
   UNION { HashESet(cv, al, o, h) \cup { LcbE(cv, al, LcbHashInt(cv, o, h)) } : o \in SeqToSet(Orders), h \in Hashes(cv) }
   \cup { HashEInt(cv, al, H) : H \in IntHashes(cv) } \cup { LcbE(cv, al, H) : H \in IntHashes(cv) }
ESeq(cv, al) == SetToSeq(EAllSet(cv, al))

\* random octets (as the integer they hold) and the secrets they may stand for
RndVals(cv) == IF Small(cv) THEN 0..Top(cv)
               ELSE BVals(cv) \cup { 3, 255, 256, 257, Top(cv) - 1 } \cup Rnd(Seed + 11, 4, Top(cv) + 1, { })
KSeq(cv) == IF Small(cv) THEN [i \in 1..cv.n |-> i - 1]
            ELSE SetToSeq(UNION { SecretSet(x, cv.n) : x \in RndVals(cv) })
\* private keys
DSample(cv) == { 1, 2, 3, cv.n - 2, cv.n - 1 } \cup { 1 + x : x \in Rnd(Seed + 5, 6, cv.n - 1, { }) }
DAll(cv) == IF Small(cv) THEN 1..(cv.n - 1) ELSE DSample(cv)

\* candidate public keys: [pt, d, rel]  d = the private key when pt is a valid key (else 0); rel = private key of
\* the valid key an invalid variant was made from (else 0)
Variants(cv, P, d) ==           \* invalid look-alikes of the valid key P = dG, in a fixed order
   LET p == cv.p  t == Top(cv)
       cand == << << P[1], (P[2] + 1) % p >>, << (P[1] + 1) % p, P[2] >>, << P[2], P[1] >>,
                  << P[1] + p, P[2] >>, << P[1], P[2] + p >>, << P[1] + p, P[2] + p >> >>
       keep == SelectSeq(cand, LAMBDA X : X[1] <= t /\ X[2] <= t /\ ~OnCurve(cv, X))
   IN  [i \in 1..Len(keep) |-> [pt |-> keep[i], d |-> 0, rel |-> d]]
RECURSIVE VariantsOf(_, _, _, _)
VariantsOf(cv, gmul(_), ds, i) == IF i > Len(ds) THEN << >>
                                  ELSE Variants(cv, gmul(ds[i]), ds[i]) \o VariantsOf(cv, gmul, ds, i + 1)
KeyRec(cv, gm, P) ==            \* gm = multiples of G (index k+1)
   LET ds == { d \in 1..(cv.n - 1) : gm[d + 1] = P }
   IN  [pt |-> P, d |-> IF ds = { } THEN 0 ELSE CHOOSE d \in ds : TRUE, rel |-> 0]
QSeqSmall(cv, pts, gm) ==
   LET grp == [i \in 1..Len(pts) |-> KeyRec(cv, gm, pts[i])]
       ds  == SetToSeq({ 1, 2, 5, cv.n \div 2, cv.n - 1 } \cup { d \in 1..(cv.n - 1) : gm[d + 1][1] + cv.p <= Top(cv) /\ d % 3 = 0 })
   IN  grp \o VariantsOf(cv, LAMBDA d : gm[d + 1], ds, 1)
QSeqBig(cv) ==
   LET ds  == SetToSeq(DSample(cv))
       val == [i \in 1..Len(ds) |-> [pt |-> Mul(cv, ds[i], G(cv)), d |-> ds[i], rel |-> 0]]
   IN  << [pt |-> Inf, d |-> 0, rel |-> 0] >> \o val \o VariantsOf(cv, LAMBDA d : Mul(cv, d, G(cv)), SubSeq(ds, 1, 3), 1)

(* ------------------------------------------------------------------ per-curve tables (evaluated once) *)
TabOf(cv) ==
   IF Small(cv)
   THEN LET pts == GroupSeq(cv)   gm == MulTable(cv, G(cv), cv.n)
        IN [ gm |-> gm, qs |-> TLCEval(QSeqSmall(cv, pts, gm)), ks |-> TLCEval(KSeq(cv)),
             es |-> TLCEval([al \in Algs |-> ESeq(cv, al)]), hs |-> TLCEval(HashSeq(cv)) ]
   ELSE [ gm |-> LET ks == KSeq(cv) IN [i \in 1..Len(ks) |-> Mul(cv, ks[i], G(cv))],     \* index i = KSeq[i]*G
          qs |-> TLCEval(QSeqBig(cv)), ks |-> TLCEval(KSeq(cv)),
          es |-> TLCEval([al \in Algs |-> ESeq(cv, al)]), hs |-> TLCEval(HashSeq(cv)) ]
Tab == TLCEval([nm \in CurveNames |-> TLCEval(TabOf(CurveByName(nm)))])

MulG(cv, j) == IF Small(cv) THEN Tab[cv.name].gm[j + 1] ELSE Mul(cv, j, G(cv))          \* 0 <= j <= n
\* multiples of a candidate key: a table of repeated additions on the 8-bit curves (index j+1 = j*Q, j = 0..n)
QTab(cv, Q) == IF Small(cv) /\ Q # Inf /\ OnCurve(cv, Q) THEN MulTable(cv, Q, cv.n) ELSE << >>
MulQ(cv, Q, qt, j) == IF qt # << >> THEN qt[j + 1] ELSE Mul(cv, j, Q)

SignT(cv, al, d, e, k) == SignW(cv, al, d, e, k, LAMBDA j : MulG(cv, j))
\* the i-th secret of the curve's list (13/16-bit curves: its multiple of G is tabulated)
SignI(cv, al, d, e, i) == LET t == Tab[cv.name] IN
   IF Small(cv) THEN SignT(cv, al, d, e, t.ks[i]) ELSE SignW(cv, al, d, e, t.ks[i], LAMBDA j : t.gm[i])
VerifyT(cv, al, Q, qt, e, r, s) == VerifyW(cv, al, Q, e, r, s, LAMBDA j : MulG(cv, j), LAMBDA j : MulQ(cv, Q, qt, j))

(* ------------------------------------------------------------------ rows *)
HMap(cv) ==
   LET t == Tab[cv.name]
       hrow(al, o, h) == [ alg |-> al, order |-> o, h |-> h, eset |-> SetToSeq(HashESet(cv, al, o, h)),
                           elib |-> LcbE(cv, al, LcbHashInt(cv, o, h)), cls |-> LcbHashClass(cv, al, o, h) ]
       irow(al, H)    == [ alg |-> al, H |-> H, e |-> HashEInt(cv, al, H), elib |-> LcbE(cv, al, H) ]
   IN [ hashes |-> [i \in 1..(2 * 2 * Len(t.hs)) |->
                      hrow(IF (i - 1) % 2 = 0 THEN "ecdsa" ELSE "gost", Orders[(((i - 1) \div 2) % 2) + 1], t.hs[((i - 1) \div 4) + 1])],
        ints   |-> LET hs == SetToSeq(IntHashes(cv))
                   IN [i \in 1..(2 * Len(hs)) |-> irow(IF i % 2 = 1 THEN "ecdsa" ELSE "gost", hs[(i + 1) \div 2])],
        es     |-> t.es,
        ks     |-> t.ks,
        rnds   |-> LET rs == SetToSeq(RndVals(cv)) IN [i \in 1..Len(rs) |-> << rs[i], SetToSeq(SecretSet(rs[i], cv.n)) >>],
        dall   |-> SetToSeq(DAll(cv)),
        qs     |-> t.qs ]

SignRow(cv, al, d, e) == [i \in 1..Len(Tab[cv.name].ks) |-> SignI(cv, al, d, e, i)]

Clip(cv, S) == { x \in S : x[1] \in 0..Top(cv) /\ x[2] \in 0..Top(cv) }
PairSet(cv, al, q, e) ==
   LET own  == IF q.d # 0 THEN q.d ELSE q.rel
       ks   == Tab[cv.name].ks
       sigs == IF own = 0 THEN { } ELSE { SignI(cv, al, own, e, i) : i \in 1..Len(ks) } \ { NoSig }
       sub  == IF own = 0 THEN { } ELSE { SignI(cv, al, own, e, i) : i \in { i \in 1..Len(ks) : i % 8 = 2 } } \ { NoSig }
       alt  == UNION { { << x[1], x[2] + 1 >>, << x[1], x[2] - 1 >>, << x[1] + 1, x[2] >>, << x[1], cv.n - x[2] >>,
                         << x[2], x[1] >>, << x[1] + cv.n, x[2] >>, << x[1], x[2] + cv.n >> } : x \in sub }
   IN  (BVals(cv) \X BVals(cv)) \cup sigs \cup Clip(cv, alt)
VList(cv, al, q, e) ==
   LET ps == TLCEval(PairSet(cv, al, q, e))   qt == TLCEval(QTab(cv, q.pt))
   IN  [ pairs |-> ps, acc |-> { x \in ps : VerifyT(cv, al, q.pt, qt, e, x[1], x[2]) } ]
GridMax(cv) == IF cv.n + 1 <= Top(cv) THEN cv.n + 1 ELSE Top(cv)
VGrid(cv, al, q, e) ==
   LET qt == TLCEval(QTab(cv, q.pt))
   IN  [ max |-> GridMax(cv),
         acc |-> { x \in (0..GridMax(cv)) \X (0..GridMax(cv)) : VerifyT(cv, al, q.pt, qt, e, x[1], x[2]) } ]

(* ------------------------------------------------------------------ states *)
CurveSet == { CurveByName(nm) : nm \in CurveNames }
InitHMap  == /\ vKind = "hmap" /\ "hmap" \in Kinds /\ vCurve \in CurveSet /\ vAlg = "-" /\ vA1 = 0 /\ vA2 = 0 /\ vOut = HMap(vCurve)
InitSign  == /\ vKind = "sign" /\ "sign" \in Kinds /\ vCurve \in CurveSet /\ vAlg \in AlgSel
             /\ \E ei \in 1..Len(Tab[vCurve.name].es[vAlg]) :
                  /\ vA2 = ei
                  /\ vA1 \in (IF Tab[vCurve.name].es[vAlg][ei] \in PerAlg(vAlg, SignEAllE, SignEAllG) THEN DAll(vCurve) ELSE { }) \cup (SignDFew \cap 1..(vCurve.n - 1))
             /\ vOut = SignRow(vCurve, vAlg, vA1, Tab[vCurve.name].es[vAlg][vA2])
InitVGrid == /\ vKind = "vgrid" /\ "vgrid" \in Kinds /\ vCurve \in { cv \in CurveSet : Small(cv) } /\ vAlg \in AlgSel
             /\ \E code \in PerAlg(vAlg, VgPairsE, VgPairsG) : /\ vA1 = code \div 100000
                                      /\ vA2 \in { i \in 1..Len(Tab[vCurve.name].es[vAlg]) : Tab[vCurve.name].es[vAlg][i] = code % 100000 }
             /\ vA1 \in 1..Len(Tab[vCurve.name].qs)
             /\ vOut = VGrid(vCurve, vAlg, Tab[vCurve.name].qs[vA1], Tab[vCurve.name].es[vAlg][vA2])
InitVList == /\ vKind = "vlist" /\ "vlist" \in Kinds /\ vCurve \in CurveSet /\ vAlg \in AlgSel
             /\ vA1 \in VlQ \cap 1..Len(Tab[vCurve.name].qs) /\ vA2 \in { i \in 1..Len(Tab[vCurve.name].es[vAlg]) : Tab[vCurve.name].es[vAlg][i] \in PerAlg(vAlg, VlEE, VlEG) }
             /\ vOut = VList(vCurve, vAlg, Tab[vCurve.name].qs[vA1], Tab[vCurve.name].es[vAlg][vA2])
Init == InitHMap \/ InitSign \/ InitVGrid \/ InitVList
Next == FALSE /\ UNCHANGED vars                     \* every state of the corpus is an initial state
Spec == Init /\ [][Next]_vars

(* ------------------------------------------------------------------ checked by TLC on every state *)
E  == Tab[vCurve.name].es[vAlg][vA2]
Qr == Tab[vCurve.name].qs[vA1]
\* the corpus really contains the classes the property names
CorpusShape == vKind = "hmap" =>
   LET hs == Tab[vCurve.name].hs   Bn == FieldBytes(vCurve) IN
   /\ \E i \in 1..Len(hs) : Len(hs[i]) = Bn /\ BEInt(hs[i]) < vCurve.n /\ BEInt(hs[i]) > 0
   /\ \E i \in 1..Len(hs) : Len(hs[i]) = Bn /\ BEInt(hs[i]) = vCurve.n
   /\ \E i \in 1..Len(hs) : Len(hs[i]) = Bn /\ BEInt(hs[i]) > vCurve.n
   /\ \E i \in 1..Len(hs) : Len(hs[i]) > Bn
   /\ (Bn > 1 => \E i \in 1..Len(hs) : Len(hs[i]) < Bn)
   /\ \A al \in Algs : \A i \in 1..Len(Tab[vCurve.name].es[al]) : Tab[vCurve.name].es[al][i] \in 0..(vCurve.n - 1)
   /\ \A al \in Algs : 0 \notin (IF al = "gost" THEN SeqToSet(Tab[vCurve.name].es[al]) ELSE { })
   /\ \A i \in 1..Len(Tab[vCurve.name].qs) : LET q == Tab[vCurve.name].qs[i] IN
         /\ (q.d # 0 => MulG(vCurve, q.d) = q.pt /\ ValidPub(vCurve, q.pt))
         /\ (q.d = 0 => ~ValidPub(vCurve, q.pt))
\* completeness: whatever the signer produces is in range and accepted by both verifiers
Complete == vKind = "sign" =>
   LET Q == MulG(vCurve, vA1)   qt == QTab(vCurve, Q) IN
   \A i \in 1..Len(vOut) : vOut[i] # NoSig =>
      /\ vOut[i][1] \in 1..(vCurve.n - 1) /\ vOut[i][2] \in 1..(vCurve.n - 1)
      /\ (Small(vCurve) \/ i % 4 = 2 => VerifyT(vCurve, vAlg, Q, qt, E, vOut[i][1], vOut[i][2]))    \* 13/16-bit curves: every 4th
\* ... and VerifyPriv is that verdict by definition; the definitional evaluation agrees on a few secrets per state
SignDefn == vKind = "sign" =>
   LET ks == Tab[vCurve.name].ks IN
   \A i \in { 1, 2, Len(ks), 1 + (vA1 % Len(ks)) } :
      /\ vOut[i] = Sign(vCurve, vAlg, vA1, E, ks[i])
      /\ (vOut[i] # NoSig => VerifyPriv(vCurve, vAlg, vA1, E, vOut[i][1], vOut[i][2]) /\ Verify(vCurve, vAlg, MulG(vCurve, vA1), E, vOut[i][1], vOut[i][2]))
SignFails == vKind = "sign" =>
   LET ks == Tab[vCurve.name].ks IN
   \A i \in 1..Len(ks) :
      /\ (ks[i] = 0 => vOut[i] = NoSig)
      /\ (vOut[i] = NoSig /\ ks[i] # 0 =>           \* only r = 0 or s = 0 make a proper secret fail
            LET r == (IF Small(vCurve) THEN MulG(vCurve, ks[i]) ELSE Tab[vCurve.name].gm[i])[1] % vCurve.n IN
            r = 0 \/ (IF vAlg = "ecdsa" THEN AddMod(E, MulMod(r, vA1, vCurve.n), vCurve.n) = 0
                                       ELSE AddMod(MulMod(r, vA1, vCurve.n), MulMod(ks[i], E, vCurve.n), vCurve.n) = 0))
\* soundness: the accept set of a valid key is EXACTLY what its owner can sign; an invalid key accepts nothing
SigImage(cv, al, d, e) == { SignT(cv, al, d, e, k) : k \in 1..(cv.n - 1) } \ { NoSig }
Exact == vKind = "vgrid" =>
   /\ (Qr.d # 0 => vOut.acc = SigImage(vCurve, vAlg, Qr.d, E))
   /\ (Qr.d = 0 => vOut.acc = { })
   /\ \A x \in vOut.acc : x[1] \in 1..(vCurve.n - 1) /\ x[2] \in 1..(vCurve.n - 1)
ListExact == vKind = "vlist" =>
   /\ vOut.acc \subseteq vOut.pairs
   /\ (Qr.d = 0 => vOut.acc = { })
   /\ (Qr.d # 0 /\ Small(vCurve) => vOut.acc = vOut.pairs \cap SigImage(vCurve, vAlg, Qr.d, E))
   /\ (Qr.d # 0 => vOut.acc # { })                                         \* never vacuous: the owner's signatures are in the list
   /\ \A x \in vOut.acc : x[1] \in 1..(vCurve.n - 1) /\ x[2] \in 1..(vCurve.n - 1)
   /\ \A x \in { y \in vOut.pairs : (y[1] + y[2]) % 37 = 1 } :              \* definitional evaluation on a subset
         (x \in vOut.acc) = Verify(vCurve, vAlg, Qr.pt, E, x[1], x[2])

Emit == PrintT(ToJson([ kind |-> vKind, curve |-> vCurve.name, alg |-> vAlg, a1 |-> vA1, a2 |-> vA2,
                        e |-> IF vKind = "hmap" THEN 0 ELSE E,
                        q |-> IF vKind \in { "vgrid", "vlist" } THEN Qr ELSE [pt |-> Inf, d |-> 0, rel |-> 0],
                        out |-> vOut ]))
=============================================================================
