------------------------------- MODULE EcRel -------------------------------
(* The textbook affine group law written WITHOUT division, as relations that a claimed result must satisfy:
       R = P + Q  (x1 # x2):   d = x2 - x1, e = y2 - y1
                               x3 * d^2 = e^2 - (x1 + x2) * d^2          y3 * d = e * (x1 - x3) - y1 * d
       R = 2P     (y1 # 0):    s = 2*y1,  t = 3*x1^2 + a
                               x3 * s^2 = t^2 - 2*x1 * s^2               y3 * s = t * (x1 - x3) - y1 * s
   (all mod p).  d resp. s is invertible, so each pair of equations has exactly one solution (x3, y3): the
   relations hold for R iff R is the point given by EcGroup!Add / Dbl.  The module is parameterised by the
   modular arithmetic so that the SAME text is
     - instantiated with native integers and compared with EcGroup on whole small groups (EcGenPairs), and
     - instantiated with BigNat limb sequences to validate the library on the 32 built-in curves (EcTrace).
   A curve is any record with fields p, a, b; a point is << >> (infinity) or << x, y >>, coordinates reduced. *)
CONSTANTS MulM(_, _, _), AddM(_, _, _), SubM(_, _, _),   \* (u, v, p) |-> u*v, u+v, u-v mod p   for reduced u, v
          Less(_, _),                                     \* strict order of the number type
          Zero, Two, Three                                \* 0, 2, 3 in the number type

InfR == << >>
ReducedR(c, P) == P = InfR \/ (Less(P[1], c.p) /\ Less(P[2], c.p))
OnCurveR(c, P) ==
   \/ P = InfR
   \/ /\ ReducedR(c, P)
      /\ MulM(P[2], P[2], c.p) =
         AddM(AddM(MulM(MulM(P[1], P[1], c.p), P[1], c.p), MulM(c.a, P[1], c.p), c.p), c.b, c.p)

NegR(c, P, R) ==                                          \* R = -P
   IF P = InfR THEN R = InfR
   ELSE R # InfR /\ ReducedR(c, R) /\ R[1] = P[1] /\ AddM(P[2], R[2], c.p) = Zero

DblR(c, P, R) ==                                          \* R = 2P
   IF P = InfR THEN R = InfR
   ELSE IF P[2] = Zero THEN R = InfR
   ELSE /\ R # InfR /\ ReducedR(c, R)
        /\ LET s  == AddM(P[2], P[2], c.p)
               t  == AddM(MulM(Three, MulM(P[1], P[1], c.p), c.p), c.a, c.p)
               s2 == MulM(s, s, c.p)
           IN  /\ MulM(R[1], s2, c.p) = SubM(MulM(t, t, c.p), MulM(MulM(Two, P[1], c.p), s2, c.p), c.p)
               /\ MulM(R[2], s, c.p)  = SubM(MulM(t, SubM(P[1], R[1], c.p), c.p), MulM(P[2], s, c.p), c.p)

AddR(c, P, Q, R) ==                                       \* R = P + Q
   IF P = InfR THEN R = Q
   ELSE IF Q = InfR THEN R = P
   ELSE IF P[1] = Q[1] THEN (IF P[2] = Q[2] THEN DblR(c, P, R) ELSE R = InfR)
   ELSE /\ R # InfR /\ ReducedR(c, R)
        /\ LET d  == SubM(Q[1], P[1], c.p)
               e  == SubM(Q[2], P[2], c.p)
               d2 == MulM(d, d, c.p)
           IN  /\ MulM(R[1], d2, c.p) = SubM(MulM(e, e, c.p), MulM(AddM(P[1], Q[1], c.p), d2, c.p), c.p)
               /\ MulM(R[2], d, c.p)  = SubM(MulM(e, SubM(P[1], R[1], c.p), c.p), MulM(P[2], d, c.p), c.p)

SubR(c, P, Q, R) ==                                       \* R = P - Q
   IF Q = InfR THEN R = P
   ELSE AddR(c, P, << Q[1], SubM(Zero, Q[2], c.p) >>, R)
=============================================================================
