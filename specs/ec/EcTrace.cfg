SPECIFICATION Spec
INVARIANT OverrideOk
CONSTRAINT Emit
CHECK_DEADLOCK FALSE
