------------------------------ MODULE KeyCodecBig ------------------------------
(* KeyCodec.tla once more over exact naturals of any size (EcdsaBig: BigNat limb tuples), so that TLC can state the
   verdict of Import / PrivImport for the 32 built-in curves (property C09, mode C).  Same mathematics, same
   structure, same verdict records; names prefixed with B.  KeyCodecBigSelf.tla makes TLC compare this module with
   KeyCodec on the synthetic curves (same encodings through both definitions).

   One difference: there is no square-root algorithm over BigNat here.  A compressed encoding is decided with a
   WITNESS w: y^2 = v has at most two solutions modulo a prime, so when w^2 = v the roots are exactly w and p - w.
   The encodings this module is asked about are made from known points, whose y is the witness; without a witness
   that squares to Rhs(x) the verdict is "any" (left open), never a guess.                                       *)
EXTENDS EcdsaBig

BNoBlock == << >>
\* v as exactly len octets, most significant first (v < 256^len): the definition ...
RECURSIVE BToBEDef(_, _)
BToBEDef(v, len) == IF len = 0 THEN << >> ELSE Append(BToBEDef(ShiftR(v, 8), len - 1), ToInt(LowBits(v, 8)))
\* ... and the same octets read off the limbs directly (octet j, counted from the least significant one, holds the
\* bits 8j .. 8j+7, which lie in at most two neighbouring 13-bit limbs): linear instead of quadratic work for TLC.
\* KeyCodecBigSelf compares the two (and BOctVal with EcdsaBig!BBEInt) on strings of the field sizes in use and their neighbours, up to 67 octets.
BLimb(v, q) == IF q > Len(v) THEN 0 ELSE v[q]
BOctetLE(v, j) == LET q == ((8 * j) \div LB) + 1   sh == (8 * j) % LB
                  IN ((BLimb(v, q) + B * BLimb(v, q + 1)) \div (2^sh)) % 256
RECURSIVE BToLER(_, _, _, _)
BToLER(v, len, j, acc) == IF j = len THEN acc ELSE BToLER(v, len, j + 1, Append(acc, BOctetLE(v, j)))
RECURSIVE BRevR(_, _, _)
BRevR(bs, i, acc) == IF i = 0 THEN acc ELSE BRevR(bs, i - 1, Append(acc, bs[i]))
BRevF(bs) == BRevR(bs, Len(bs), << >>)                                        \* = EcdsaBig!BRev
BToBE(v, len) == BRevF(BToLER(v, len, 0, << >>))
BOctets(v, len, order) == IF order = "be" THEN BToBE(v, len) ELSE BToLER(v, len, 0, << >>)
BCoord(c, v, order) == BOctets(v, BFieldBytes(c), order)
\* octets (least significant first) -> number: limb q holds the bits 13(q-1) .. 13q-1, which lie in at most three octets
BOctLE(bs, j) == IF j >= Len(bs) THEN 0 ELSE bs[j + 1]
BLimbOfLE(bs, q) == LET o == (LB * (q - 1)) \div 8   sh == (LB * (q - 1)) % 8
                    IN ((BOctLE(bs, o) + 256 * BOctLE(bs, o + 1) + 65536 * BOctLE(bs, o + 2)) \div (2^sh)) % B
RECURSIVE BLimbsR(_, _, _, _)
BLimbsR(bs, nl, q, acc) == IF q > nl THEN acc ELSE BLimbsR(bs, nl, q + 1, Append(acc, BLimbOfLE(bs, q)))
BOctVal(bsle) == Norm(BLimbsR(bsle, ((8 * Len(bsle)) + LB - 1) \div LB, 1, << >>))
BCoordVal(order, bs) == BOctVal(IF order = "be" THEN BRevF(bs) ELSE bs)          \* = BBEInt(most significant first)
BPar(v) == IF IsOdd(v) THEN 1 ELSE 0

(* ------------------------------------------------------------------ validity *)
BValidKeyW(c, P, MP(_)) == P = BInf \/ (BOnCurve(c, P) /\ MP(c.n) = BInf)
BValidKey(c, P) == BValidKeyW(c, P, LAMBDA j : BMul(c, j, P))

(* ------------------------------------------------------------------ encoding *)
BExport(c, order, compress, ysep, P) ==
   IF P = BInf THEN [x |-> << 0 >>, y |-> BNoBlock]
   ELSE IF compress THEN [x |-> << 2 + BPar(P[2]) >> \o BCoord(c, P[1], order), y |-> BNoBlock]
   ELSE IF ysep THEN [x |-> BCoord(c, P[1], order), y |-> BCoord(c, P[2], order)]
   ELSE [x |-> << 4 >> \o BCoord(c, P[1], order) \o BCoord(c, P[2], order), y |-> BNoBlock]
BEncode(c, order, form, P) ==
   IF form = "concat" THEN (IF P = BInf THEN [x |-> << 0 >>, y |-> BNoBlock]
                            ELSE [x |-> BCoord(c, P[1], order) \o BCoord(c, P[2], order), y |-> BNoBlock])
   ELSE BExport(c, order, form = "compressed", form = "separate", P)
BHybrid(c, order, P, agree) ==
   [x |-> << 6 + ((BPar(P[2]) + (IF agree THEN 0 ELSE 1)) % 2) >> \o BCoord(c, P[1], order) \o BCoord(c, P[2], order), y |-> BNoBlock]
\* parities of the most and of the least significant octet of Y written as BFieldBytes octets (KeyCodec!YOctetParities)
BYOctetParities(c, P) == << Bit(P[2], 8 * (BFieldBytes(c) - 1)), Bit(P[2], 0) >>

(* ------------------------------------------------------------------ decoding *)
BOkV(P) == [st |-> "ok", pt |-> P]
BRejectV == [st |-> "reject", pt |-> BInf]
BMayV(P) == [st |-> "may", pt |-> P]
BUnspecV == [st |-> "any", pt |-> BInf]

BRawW(c, P, validate, VK(_)) == IF VK(P) THEN BOkV(P) ELSE IF validate THEN BRejectV ELSE BUnspecV
BCompressedW(c, par, x, validate, VK(_), w) ==
   IF ~Lt(x, c.p) THEN (IF validate THEN BRejectV ELSE BUnspecV)
   ELSE IF ~Lt(w, c.p) \/ BMulP(w, w, c.p) # BRhs(c, x) THEN BUnspecV                      \* no witness: left open
   ELSE LET ys == { y \in { w, BNegP(w, c.p) } : BPar(y) = par }
        IN IF ys = { } THEN (IF validate THEN BRejectV ELSE BUnspecV)                      \* only the root 0 with odd parity asked
           ELSE LET P == << x, CHOOSE y \in ys : TRUE >>
                IN IF VK(P) THEN BOkV(P) ELSE IF validate THEN BRejectV ELSE BOkV(P)
BImportW(c, order, enc, validate, VK(_), w) ==
   LET Bn == BFieldBytes(c)  bx == enc.x  by == enc.y  L == Len(enc.x)
       xy(s1, s2) == << BCoordVal(order, s1), BCoordVal(order, s2) >>
   IN  IF L = 0 THEN BRejectV
       ELSE IF L = 1 THEN (IF Bn = 1 /\ by # BNoBlock THEN BUnspecV
                           ELSE IF bx[1] = 0 THEN BOkV(BInf) ELSE BRejectV)
       ELSE IF L = Bn THEN (IF Len(by) = Bn THEN BRawW(c, xy(bx, by), validate, VK) ELSE IF by = BNoBlock THEN BRejectV ELSE BUnspecV)
       ELSE IF L = Bn + 1 THEN
            (IF bx[1] \in { 2, 3 } THEN BCompressedW(c, bx[1] - 2, BCoordVal(order, SubSeq(bx, 2, L)), validate, VK, w)
             ELSE IF L = 2 * Bn THEN
                  LET P == xy(SubSeq(bx, 1, Bn), SubSeq(bx, Bn + 1, L)) IN IF VK(P) THEN BMayV(P) ELSE BRejectV
             ELSE BRejectV)
       ELSE IF L = 2 * Bn + 1 THEN
            LET P == xy(SubSeq(bx, 2, Bn + 1), SubSeq(bx, Bn + 2, L)) IN
            (IF bx[1] = 4 THEN BRawW(c, P, validate, VK)
             ELSE IF bx[1] \in { 6, 7 } THEN
                  (IF BPar(P[2]) = bx[1] - 6 THEN BRawW(c, P, validate, VK)
                   ELSE IF VK(P) THEN BMayV(P) ELSE IF validate THEN BRejectV ELSE BUnspecV)
             ELSE BRejectV)
       ELSE IF L = 2 * Bn THEN BRawW(c, xy(SubSeq(bx, 1, Bn), SubSeq(bx, Bn + 1, L)), validate, VK)
       ELSE BRejectV
BImport(c, order, enc, validate, w) == BImportW(c, order, enc, validate, LAMBDA P : BValidKey(c, P), w)

(* ------------------------------------------------------------------ public key from private-key octets *)
BPubOf(c, d) == BMul(c, d, BG(c))
BPrivImportW(c, order, ds, Pub(_)) ==
   LET d == BCoordVal(order, ds) IN
   IF Len(ds) = 0 \/ d = Zero \/ ~Lt(d, c.n) THEN BRejectV
   ELSE IF Len(ds) > BFieldBytes(c) THEN BMayV(Pub(d)) ELSE BOkV(Pub(d))
BPrivImport(c, order, ds) == BPrivImportW(c, order, ds, LAMBDA d : BPubOf(c, d))
=============================================================================
