---------------------------- MODULE KeyCodecGen ----------------------------
(* Generator (mode B) for property C09 on the synthetic curves: every expectation comes from KeyCodec.tla.

   kind "points"  one state per (curve, byte order): every point of the whole group on the 8-bit curves (the neutral
                  element and, on E8C4, the points outside the subgroup of G included; a sample d*G on the 13/16-bit
                  curves) with its private key (0 = none) and its encodings in all forms.
                  Invariants: RoundTrip (import o export = identity for valid keys; an on-curve point that n does
                  not annihilate is refused), Parity (a compressed key decodes to the root with the prefix's parity),
                  TableIsDefn (the subgroup table used for speed = "on the curve and annihilated by n").
   kind "scan"    one state per (curve, byte order, validation on/off, fixed leading octets, number of varying
                  octets): the verdict of Import for EVERY value of the varying octets, given as the accepted
                  values with their points, the "may" values, and the exceptions to the default verdict.
                  Invariant ScanSound: whatever must be accepted with validation on is the neutral element or
                  lies on the curve and is annihilated by n.
   kind "keygen"  one state per (curve, byte order): random octets -> admitted private keys.
   kind "dh"      one state per (curve, private key d): the row Q |-> x(d*Q), x(h*d*Q) over the candidate peers.
                  Invariant DHSym: for Q = q*G both parties obtain the x-coordinate of (d*q mod n)*G.
   kind "forms"   one state per (curve, byte order): valid points d*G chosen so that the parities of the most and of the
                  least significant octet of y take all four combinations (two points per class), each in EVERY
                  encoding import accepts -- compressed, packed 04, hybrid 06|07 with the agreeing and with the
                  contradicting prefix, separate, concat -- with the verdict of Import (validation on / off).
                  Invariant FormsSound: all four classes occur on a multi-octet field, every point is a valid key,
                  every standard encoding of it must be accepted as that point, the contradicting hybrid prefix "may".
   kind "priv"    one state per (curve, byte order): private-key octet strings (every octet value on the 8-bit
                  fields; 0, 1, 2, n-2, n-1, n, n+1, 2n-1, all-ones, shorter and longer strings elsewhere) with the
                  verdict of PrivImport and the encodings of d*G.  Invariant PrivSound: refused <=> d = 0 or d >= n.   *)
EXTENDS KeyCodec, EcCurves, Json, Integers
CONSTANTS CurveNames, Kinds, Seed,
          ScanPrefixes,    \* first octets tried for the prefixed forms
          ScanWide,        \* TRUE: also the widest scans (all x of a 2-octet field in compressed form)
          DhKeys           \* private-key codes for kind "dh" (0 = every key of an 8-bit curve; code >= 1000: n - (code - 1000))
VARIABLES vKind, vCurve, vOrd, vVal, vSel, vOut
vars == << vKind, vCurve, vOrd, vVal, vSel, vOut >>     \* (names no operator parameter uses, see EcdsaGen)

Small(cv) == cv.m = 8
Top(cv) == TwoTo(8 * FieldBytes(cv)) - 1
SetToSeq(S) == LET RECURSIVE F(_, _)
                   F(U, acc) == IF U = {} THEN acc
                                ELSE LET x == CHOOSE y \in U : \A z \in U : y <= z IN F(U \ {x}, Append(acc, x))
               IN F(S, << >>)
RECURSIVE Rnd(_, _, _, _)
Rnd(x, cnt, lim, acc) == IF cnt = 0 THEN acc
                         ELSE LET y == ((x * 75) + 74) % 65537 IN Rnd(y, cnt - 1, lim, acc \cup { y % lim })
DSample(cv) == { 1, 2, 3, cv.n - 2, cv.n - 1 } \cup { 1 + x : x \in Rnd(Seed + 5, 6, cv.n - 1, { }) }
DCode(cv, code) == IF code >= 1000 THEN cv.n - (code - 1000) ELSE code

(* ------------------------------------------------------------------ per-curve tables *)
\* pts: the candidate points with their private key; sub: the valid finite keys (8-bit curves), used as a set
TabOf(cv) ==
   IF Small(cv)
   THEN LET all == GroupSeq(cv)   gm == MulTable(cv, G(cv), cv.n - 1)
            key(P) == LET ds == { d \in 1..(cv.n - 1) : gm[d + 1] = P } IN IF ds = { } THEN 0 ELSE CHOOSE d \in ds : TRUE
        IN [ gm |-> gm, sub |-> { gm[k + 1] : k \in 1..(cv.n - 1) },
             pts |-> TLCEval([i \in 1..Len(all) |-> [pt |-> all[i], d |-> key(all[i])]]) ]
   ELSE LET ds == SetToSeq(DSample(cv))
        IN [ gm |-> << >>, sub |-> { },
             pts |-> TLCEval(<< [pt |-> Inf, d |-> 0] >> \o [i \in 1..Len(ds) |-> [pt |-> Mul(cv, ds[i], G(cv)), d |-> ds[i]]]) ]
Tab == TLCEval([nm \in CurveNames |-> TLCEval(TabOf(CurveByName(nm)))])
VK(cv, P) == IF Small(cv) THEN P = Inf \/ P \in Tab[cv.name].sub ELSE ValidKey(cv, P)
ImportT(cv, o, enc, val) == ImportW(cv, o, enc, val, LAMBDA P : VK(cv, P))

(* ------------------------------------------------------------------ rows *)
FormSeq == << "compressed", "packed", "separate", "concat" >>
EncRec(cv, o, form, P) == LET e == Encode(cv, o, form, P) IN [x |-> e.x, y |-> e.y]
PointRow(cv, o, rec) ==
   [ pt |-> rec.pt, d |-> rec.d,
     \* verdict of importing each encoding back (validation on / off), in the order of FormSeq
     impon  |-> [i \in 1..4 |-> ImportT(cv, o, EncRec(cv, o, FormSeq[i], rec.pt), TRUE)],
     impoff |-> [i \in 1..4 |-> ImportT(cv, o, EncRec(cv, o, FormSeq[i], rec.pt), FALSE)],
     comp |-> Encode(cv, o, "compressed", rec.pt).x, packed |-> Encode(cv, o, "packed", rec.pt).x,
     sepx |-> Encode(cv, o, "separate", rec.pt).x, sepy |-> Encode(cv, o, "separate", rec.pt).y,
     concat |-> Encode(cv, o, "concat", rec.pt).x ]
Points(cv, o) == LET ps == Tab[cv.name].pts IN [i \in 1..Len(ps) |-> PointRow(cv, o, ps[i])]

\* scan descriptors [fixed, nvar, sep, y]: the varying octets are appended to `fixed` (sep = FALSE, y = the optional
\* second block) or form the second block (sep = TRUE)
XSample(cv) == IF ScanWide THEN { cv.gx, Dbl(cv, G(cv))[1], 0, 1, 5, cv.p - 1, cv.p, Top(cv) } \cup { x \in { cv.gx + cv.p } : x <= Top(cv) }
               ELSE { cv.gx, cv.p }
Scans(cv, o) ==
   LET Bn == FieldBytes(cv)   gxs == Coord(cv, cv.gx, o)   gys == Coord(cv, cv.gy, o)
       D(f, nv, sp, y) == [fixed |-> f, nvar |-> nv, sep |-> sp, y |-> y]
   IN IF Bn = 1
      THEN { D(<< >>, 1, FALSE, NoBlock), D(<< >>, 1, FALSE, gys), D(<< 4 >> \o gxs \o gys, 1, FALSE, NoBlock),
             D(<< 4 >> \o gxs \o gys \o << 0 >>, 1, FALSE, NoBlock), D(<< 2 >>, 1, FALSE, gys) }
           \cup { D(<< pf >>, 1, FALSE, NoBlock) : pf \in 0..255 }                           \* every 2-octet string
           \cup { D(<< pf >>, 2, FALSE, NoBlock) : pf \in ScanPrefixes }                     \* 3-octet strings per first octet
      ELSE { D(<< >>, 1, FALSE, NoBlock), D(<< 0 >>, 1, FALSE, NoBlock), D(<< 4 >> \o gxs \o gys, 1, FALSE, NoBlock),
             D(<< 4 >> \o gxs \o gys \o << 0 >>, 1, FALSE, NoBlock), D(gxs, 1, FALSE, NoBlock) }
           \cup { D(Coord(cv, x, o), 2, TRUE, NoBlock) : x \in XSample(cv) }                 \* separate: every second block
           \cup { D(Coord(cv, x, o), 2, FALSE, NoBlock) : x \in XSample(cv) }                \* concat: every y
           \cup { D(<< pf >> \o Coord(cv, x, o), 2, FALSE, NoBlock) : pf \in ScanPrefixes \cap { 0, 4, 5, 6, 7 }, x \in { cv.gx, Dbl(cv, G(cv))[1], cv.p } }
           \cup { D(<< pf, xh >>, 1, FALSE, NoBlock) : pf \in ScanPrefixes \cap { 1, 2, 3, 4 },
                                                        xh \in { 0, 1, cv.gx \div 256, (cv.p - 1) \div 256, 255 } \cup Rnd(Seed + 3, 3, 256, { }) }
           \cup (IF ScanWide THEN { D(<< pf >>, 2, FALSE, NoBlock) : pf \in { 2, 3 } } ELSE { })
ScanKey(d) == << Len(d.fixed), d.nvar, IF d.sep THEN 1 ELSE 0, d.fixed, d.y >>
ScanSeq(cv, o) == LET S == Scans(cv, o) IN
   \* any fixed order: TLC's own order on the (comparable) keys, made explicit through a sequence
   LET RECURSIVE F(_, _)
       F(U, acc) == IF U = { } THEN acc ELSE LET x == CHOOSE y \in U : TRUE IN F(U \ { x }, Append(acc, x))
   IN F(S, << >>)
ScanTab == TLCEval([nm \in CurveNames |-> TLCEval([o \in { "be", "le" } |-> ScanSeq(CurveByName(nm), o)])])
VarOctets(w, nv) == IF nv = 1 THEN << w >> ELSE << w \div 256, w % 256 >>                    \* memory order, w read big-endian
ScanRow(cv, o, val, d) ==
   LET N   == IF d.nvar = 1 THEN 256 ELSE 65536
       enc(w) == IF d.sep THEN [x |-> d.fixed, y |-> VarOctets(w, d.nvar)] ELSE [x |-> d.fixed \o VarOctets(w, d.nvar), y |-> d.y]
       sts == TLCEval([w \in 0..(N - 1) |-> ImportT(cv, o, enc(w), val)])
       nrej == Cardinality({ w \in 0..(N - 1) : sts[w].st = "reject" })
       nany == Cardinality({ w \in 0..(N - 1) : sts[w].st = "any" })
       dflt == IF nany > nrej THEN "any" ELSE "reject"
   IN [ fixed |-> d.fixed, nvar |-> d.nvar, sep |-> d.sep, y |-> d.y, n |-> N, dflt |-> dflt,
        acc |-> { << w, sts[w].pt >> : w \in { w \in 0..(N - 1) : sts[w].st = "ok" } },
        may |-> { << w, sts[w].pt >> : w \in { w \in 0..(N - 1) : sts[w].st = "may" } },
        other |-> { w \in 0..(N - 1) : sts[w].st = (IF dflt = "any" THEN "reject" ELSE "any") } ]

PubRow(cv, o, P, d) == [ pt |-> P, d |-> d, comp |-> Encode(cv, o, "compressed", P).x,
                         sepx |-> Encode(cv, o, "separate", P).x, sepy |-> Encode(cv, o, "separate", P).y ]
PubT(cv, d) == IF Small(cv) THEN Tab[cv.name].gm[d + 1] ELSE PubOf(cv, d)
RndList(cv, o) ==
   LET Bn == FieldBytes(cv)
       vals == IF Small(cv) THEN 0..255 ELSE { 0, 1, 2, 255, 256, cv.n - 1, cv.n, cv.n + 1, Top(cv) - 1, Top(cv) } \cup Rnd(Seed + 17, 12, Top(cv) + 1, { })
       base == { Coord(cv, v, o) : v \in vals }
       long == { Coord(cv, v, o) \o << 255 >> : v \in { 0, 1, cv.n - 1, cv.n } } \cup { Coord(cv, 7, o) \o << 1, 2, 3 >> }
   IN base \cup long
KeyGenRow(cv, o) ==
   LET RECURSIVE F(_, _)
       F(U, acc) == IF U = { } THEN acc
                    ELSE LET r == CHOOSE y \in U : TRUE   ds == KeyGenD(cv, o, r)   dq == SetToSeq(ds \ { 0 })
                         IN F(U \ { r }, Append(acc, [rnd |-> r, ds |-> dq, mayfail |-> 0 \in ds,
                                                     \* the key pair's public half for every admitted private key
                                                     pubs |-> [j \in 1..Len(dq) |-> PubRow(cv, o, PubT(cv, dq[j]), dq[j])]]))
   IN F(RndList(cv, o), << >>)

MulP(cv, P, j) == Mul(cv, j, P)
DhRow(cv, d) ==
   LET ps == Tab[cv.name].pts
       xo(R) == IF R = Inf THEN -1 ELSE R[1]
   IN [i \in 1..Len(ps) |-> IF ps[i].pt = Inf THEN << -1, -1 >>
                            ELSE << xo(DHPoint(cv, d, ps[i].pt, FALSE)), xo(DHPoint(cv, d, ps[i].pt, TRUE)) >>]

(* ------------------------------------------------------------------ kinds "forms" and "priv" *)
SeqOfSet(S) == LET RECURSIVE F(_, _)
                   F(U, acc) == IF U = { } THEN acc ELSE LET x == CHOOSE y \in U : TRUE IN F(U \ { x }, Append(acc, x))
               IN F(S, << >>)
FormTags == << "compressed", "packed", "hybrid", "hybrid-mismatch", "separate", "concat" >>
FormEnc(cv, o, tag, P) == IF tag = "hybrid" THEN Hybrid(cv, o, P, TRUE)
                          ELSE IF tag = "hybrid-mismatch" THEN Hybrid(cv, o, P, FALSE)
                          ELSE EncRec(cv, o, tag, P)
FormSpan(cv) == IF cv.n - 1 < 64 THEN cv.n - 1 ELSE 64
\* for every class of octet parities the two least scalars d in 1..FormSpan whose d*G is in the class
FormScalars(cv) ==
   LET K == FormSpan(cv)   tb == MulTable(cv, G(cv), K)
       cls == [d \in 1..K |-> YOctetParities(cv, tb[d + 1])]
       least(S) == CHOOSE d \in S : \A e \in S : d <= e
       two(S) == IF S = { } THEN { } ELSE LET d1 == least(S) IN { d1 } \cup (IF S \ { d1 } = { } THEN { } ELSE { least(S \ { d1 }) })
   IN UNION { two({ d \in 1..K : cls[d] = pc }) : pc \in { 0, 1 } \X { 0, 1 } }
FormRow(cv, o, d) ==
   LET P == PubT(cv, d) IN
   [ d |-> d, pt |-> P, par |-> YOctetParities(cv, P),
     encs |-> [i \in 1..Len(FormTags) |->
                  LET e == FormEnc(cv, o, FormTags[i], P)
                  IN [tag |-> FormTags[i], x |-> e.x, y |-> e.y, on |-> ImportT(cv, o, e, TRUE), off |-> ImportT(cv, o, e, FALSE)]] ]
FormRows(cv, o) == LET ds == SetToSeq(FormScalars(cv)) IN [i \in 1..Len(ds) |-> FormRow(cv, o, ds[i])]

\* private-key octet strings
PrivStrings(cv, o) ==
   LET Bn == FieldBytes(cv)   n == cv.n   top == Top(cv)
       full == IF Small(cv) THEN 0..255
               ELSE { 0, 1, 2, 3, 255, 256, 257, n - 2, n - 1, n, n + 1, top - 1, top }
                    \cup { v \in { (2 * n) - 1, 2 * n } : v <= top } \cup Rnd(Seed + 23, 4, top + 1, { })
       short == IF Bn = 1 THEN { } ELSE { Octets(v, Bn - 1, o) : v \in { 0, 1, 2, 127, 255 } }
       \* one octet more than the field: leading zero octet (the value fits the field) and values that need the octet
       long == { Octets(v, Bn + 1, o) : v \in { 0, 1, 2, n - 1, n, n + 1, top, top + 1, (256 * (top + 1)) - 1 } }
   IN { Octets(v, Bn, o) : v \in full } \cup short \cup long
PrivRow(cv, o, ds) ==
   LET v == PrivImportW(cv, o, ds, LAMBDA d : PubT(cv, d))   d == CoordVal(o, ds)
   IN [ ds |-> ds, d |-> d, st |-> v.st,
        pub |-> IF v.st = "reject" THEN << >>
                ELSE << [ pt |-> v.pt, comp |-> Encode(cv, o, "compressed", v.pt).x, packed |-> Encode(cv, o, "packed", v.pt).x,
                          sepx |-> Encode(cv, o, "separate", v.pt).x, sepy |-> Encode(cv, o, "separate", v.pt).y ] >> ]
PrivRows(cv, o) == LET ss == SeqOfSet(PrivStrings(cv, o)) IN [i \in 1..Len(ss) |-> PrivRow(cv, o, ss[i])]

(* ------------------------------------------------------------------ states *)
CurveSet == { CurveByName(nm) : nm \in CurveNames }
Ords == { "be", "le" }
InitPoints == /\ vKind = "points" /\ "points" \in Kinds /\ vCurve \in CurveSet /\ vOrd \in Ords /\ vVal = TRUE /\ vSel = 0
              /\ vOut = Points(vCurve, vOrd)
InitScan   == /\ vKind = "scan" /\ "scan" \in Kinds /\ vCurve \in CurveSet /\ vOrd \in Ords /\ vVal \in BOOLEAN
              /\ vSel \in { i \in 1..Len(ScanTab[vCurve.name][vOrd]) :
                              LET d == ScanTab[vCurve.name][vOrd][i] IN        \* validation off: raw forms are unspecified, only narrow / compressed scans
                              \/ vVal
                              \/ (Len(d.fixed) > 0 /\ d.fixed[1] \in { 2, 3 } /\ ~d.sep)
                              \/ (d.nvar = 1 /\ (Len(d.fixed) # 1 \/ d.fixed[1] \in ScanPrefixes)) }
              /\ vOut = ScanRow(vCurve, vOrd, vVal, ScanTab[vCurve.name][vOrd][vSel])
InitKeyGen == /\ vKind = "keygen" /\ "keygen" \in Kinds /\ vCurve \in CurveSet /\ vOrd \in Ords /\ vVal = TRUE /\ vSel = 0
              /\ vOut = KeyGenRow(vCurve, vOrd)
InitDh     == /\ vKind = "dh" /\ "dh" \in Kinds /\ vCurve \in CurveSet /\ vOrd = "-" /\ vVal = TRUE
              /\ vSel \in (IF 0 \in DhKeys /\ Small(vCurve) THEN 1..(vCurve.n - 1) ELSE { }) \cup { DCode(vCurve, dc) : dc \in DhKeys \ { 0 } }
              /\ vOut = DhRow(vCurve, vSel)
InitForms  == /\ vKind = "forms" /\ "forms" \in Kinds /\ vCurve \in CurveSet /\ vOrd \in Ords /\ vVal = TRUE /\ vSel = 0
              /\ vOut = FormRows(vCurve, vOrd)
InitPriv   == /\ vKind = "priv" /\ "priv" \in Kinds /\ vCurve \in CurveSet /\ vOrd \in Ords /\ vVal = TRUE /\ vSel = 0
              /\ vOut = PrivRows(vCurve, vOrd)
Init == InitPoints \/ InitScan \/ InitKeyGen \/ InitDh \/ InitForms \/ InitPriv
Next == FALSE /\ UNCHANGED vars
Spec == Init /\ [][Next]_vars

(* ------------------------------------------------------------------ checked by TLC on every state *)
EncOf(row, form) == IF form = "compressed" THEN [x |-> row.comp, y |-> NoBlock]
                    ELSE IF form = "packed" THEN [x |-> row.packed, y |-> NoBlock]
                    ELSE IF form = "separate" THEN [x |-> row.sepx, y |-> row.sepy]
                    ELSE [x |-> row.concat, y |-> NoBlock]
Collides(cv, form, row) ==            \* one-octet field: a raw form that looks like a SEC 1 form (see KeyCodec!ImportW)
   FieldBytes(cv) = 1 /\ row.pt # Inf /\ form \in { "separate", "concat" }
RoundTrip == vKind = "points" =>
   \A i \in 1..Len(vOut) : \A form \in Forms \cup { "concat" } : \A val \in BOOLEAN :
      LET row == vOut[i]   res == ImportT(vCurve, vOrd, EncOf(row, form), val) IN
      IF Collides(vCurve, form, row) THEN TRUE
      ELSE IF VK(vCurve, row.pt) THEN res = Ok(row.pt)
      ELSE IF val THEN res = Reject
      ELSE IF form = "compressed" THEN res = Ok(row.pt) \/ (row.pt[2] = 0 /\ res.st \in { "ok", "any" }) ELSE res = Unspec
Parity == vKind = "points" =>
   \A i \in 1..Len(vOut) : vOut[i].pt # Inf =>
      /\ vOut[i].comp[1] = 2 + (vOut[i].pt[2] % 2)
      /\ Len(vOut[i].comp) = 1 + FieldBytes(vCurve) /\ Len(vOut[i].packed) = 1 + 2 * FieldBytes(vCurve)
      /\ Len(vOut[i].sepx) = FieldBytes(vCurve) /\ Len(vOut[i].sepy) = FieldBytes(vCurve)
TableIsDefn == vKind = "points" =>
   \A i \in 1..Len(vOut) : LET P == vOut[i].pt IN
      /\ VK(vCurve, P) = ValidKey(vCurve, P)
      /\ (vOut[i].d # 0) = (P # Inf /\ ValidKey(vCurve, P))
      /\ (vOut[i].d # 0 => P = PubOf(vCurve, vOut[i].d) /\ vOut[i].d \in 1..(vCurve.n - 1))
ScanSound == vKind = "scan" =>
   /\ \A a \in vOut.acc \cup vOut.may : vVal => (a[2] = Inf \/ (OnCurve(vCurve, a[2]) /\ Mul(vCurve, vCurve.n, a[2]) = Inf))
   /\ Cardinality(vOut.acc) + Cardinality(vOut.may) + Cardinality(vOut.other) <= vOut.n
KeyGenSound == vKind = "keygen" =>
   \A i \in 1..Len(vOut) : /\ \A j \in 1..Len(vOut[i].ds) : /\ vOut[i].ds[j] \in 1..(vCurve.n - 1)
                                                             /\ ValidKey(vCurve, vOut[i].pubs[j].pt) /\ vOut[i].pubs[j].pt # Inf
                                                             /\ (j = 1 => vOut[i].pubs[j].pt = PubOf(vCurve, vOut[i].ds[j]))
                           /\ (vOut[i].mayfail \/ vOut[i].ds # << >>)
DHSym == vKind = "dh" =>
   LET ps == Tab[vCurve.name].pts IN
   \A i \in 1..Len(ps) : ps[i].d # 0 =>
      LET q == ps[i].d
          me == Mul(vCurve, vSel, G(vCurve))                            \* my own public key
          z  == Mul(vCurve, MulMod(vSel, q, vCurve.n), G(vCurve))
      IN /\ vOut[i][1] = z[1]
         /\ vOut[i][1] = DHPoint(vCurve, q, me, FALSE)[1]               \* the peer computes the same
         /\ (LET zh == DHPoint(vCurve, q, me, TRUE) IN vOut[i][2] = (IF zh = Inf THEN -1 ELSE zh[1]))

FormsSound == vKind = "forms" =>
   /\ (FieldBytes(vCurve) > 1 => { vOut[i].par : i \in 1..Len(vOut) } = { 0, 1 } \X { 0, 1 })
   /\ Len(vOut) > 0
   /\ \A i \in 1..Len(vOut) : LET r == vOut[i] IN
         /\ r.pt # Inf /\ ValidKey(vCurve, r.pt) /\ r.pt = PubOf(vCurve, r.d) /\ r.par[2] = r.pt[2] % 2
         /\ \A j \in 1..Len(r.encs) : LET e == r.encs[j] IN
               IF Collides(vCurve, e.tag, r) THEN TRUE
               ELSE IF e.tag = "hybrid-mismatch" THEN e.on = May(r.pt) /\ e.off = May(r.pt) /\ e.x[1] = 6 + ((r.pt[2] + 1) % 2)
               ELSE /\ e.on = Ok(r.pt) /\ e.off = Ok(r.pt)              \* "accepts every standard encoding of such a point"
                    /\ (e.tag = "hybrid" => e.x[1] = 6 + (r.pt[2] % 2) /\ Len(e.x) = 1 + 2 * FieldBytes(vCurve))
PrivSound == vKind = "priv" =>
   /\ (Small(vCurve) => { r \in { vOut[i] : i \in 1..Len(vOut) } : Len(r.ds) = 1 } = { PrivRow(vCurve, vOrd, << w >>) : w \in 0..255 })
   /\ \A i \in 1..Len(vOut) : LET r == vOut[i] IN
         /\ (r.st = "reject") = (r.d = 0 \/ r.d >= vCurve.n)
         /\ (r.st = "may") = (r.d \in 1..(vCurve.n - 1) /\ Len(r.ds) > FieldBytes(vCurve))
         /\ (r.st # "reject" => /\ r.pub[1].pt = PubOf(vCurve, r.d) /\ r.pub[1].pt # Inf /\ ValidKey(vCurve, r.pub[1].pt)
                                /\ Import(vCurve, vOrd, [x |-> r.pub[1].packed, y |-> NoBlock], TRUE) = Ok(r.pub[1].pt))
   /\ \E i \in 1..Len(vOut) : vOut[i].d = vCurve.n /\ Len(vOut[i].ds) = FieldBytes(vCurve)
   /\ \E i \in 1..Len(vOut) : vOut[i].d = vCurve.n - 1 /\ vOut[i].st = "ok"

Emit == PrintT(ToJson([ kind |-> vKind, curve |-> vCurve.name, order |-> vOrd, val |-> vVal, sel |-> vSel, out |-> vOut ]))
=============================================================================
