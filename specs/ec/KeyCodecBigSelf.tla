---------------------------- MODULE KeyCodecBigSelf ----------------------------
(* TLC compares the limb-tuple definitions of KeyCodecBig with the native-integer definitions of KeyCodec on the
   synthetic curves: the same points, encodings (every form, both byte orders, agreeing and contradicting hybrid
   prefix, flipped compressed prefix, off-curve / out-of-field / outside-the-subgroup variants) and private-key octet
   strings go through both; encodings and verdict records must be equal.  Run once per check (a few seconds);
   KeyCodecBigGen then uses KeyCodecBig alone on the 32 built-in curves.                                        *)
EXTENDS KeyCodecBig, TLC
N == INSTANCE KeyCodec
K == INSTANCE EcCurves

Big(cv) == [ p |-> FromInt(cv.p), a |-> FromInt(cv.a), b |-> FromInt(cv.b), gx |-> FromInt(cv.gx), gy |-> FromInt(cv.gy),
             n |-> FromInt(cv.n), h |-> cv.h, m |-> cv.m ]
BigPt(P) == IF P = << >> THEN BInf ELSE << FromInt(P[1]), FromInt(P[2]) >>
BigV(v) == [st |-> v.st, pt |-> BigPt(v.pt)]
Ords == { "be", "le" }
StdForms == { "compressed", "packed", "separate", "concat" }
\* one-octet fields: the raw forms collide with the SEC 1 forms (KeyCodec!ImportW), a raw string is then read as a compressed
\* key of another x, for which the y it was made from is no witness: compared on the multi-octet fields only
FormsOf(cv) == IF N!FieldBytes(cv) = 1 THEN { "compressed", "packed" } ELSE StdForms

\* the witness handed to BImport is the y the encoding was made from (a root of Rhs(x) whenever the point is on the curve)
SameVerdict(cv, o, enc, val, w) == BImport(Big(cv), o, enc, val, FromInt(w)) = BigV(N!Import(cv, o, enc, val))
FlipPrefix(enc) == [enc EXCEPT !.x = << IF enc.x[1] = 2 THEN 3 ELSE 2 >> \o SubSeq(enc.x, 2, Len(enc.x))]
PointAgrees(cv, P) == \A o \in Ords : \A val \in BOOLEAN :
   /\ \A form \in FormsOf(cv) :
         /\ BEncode(Big(cv), o, form, BigPt(P)) = N!Encode(cv, o, form, P)
         /\ SameVerdict(cv, o, N!Encode(cv, o, form, P), val, IF P = << >> THEN 0 ELSE P[2])
   /\ (P # << >> =>
         /\ \A ag \in BOOLEAN : /\ BHybrid(Big(cv), o, BigPt(P), ag) = N!Hybrid(cv, o, P, ag)
                                /\ SameVerdict(cv, o, N!Hybrid(cv, o, P, ag), val, P[2])
         /\ SameVerdict(cv, o, FlipPrefix(N!Encode(cv, o, "compressed", P)), val, P[2])
         /\ BYOctetParities(Big(cv), BigPt(P)) = N!YOctetParities(cv, P))
\* candidates that need not be keys: off the curve, a coordinate outside the field, on the curve but outside <G>
CandAgrees(cv, Q) == \A o \in Ords : \A val \in BOOLEAN : \A form \in FormsOf(cv) \ { "compressed" } :
   LET enc == [x |-> IF form = "packed" THEN << 4 >> \o N!Coord(cv, Q[1], o) \o N!Coord(cv, Q[2], o)
                     ELSE IF form = "concat" THEN N!Coord(cv, Q[1], o) \o N!Coord(cv, Q[2], o) ELSE N!Coord(cv, Q[1], o),
               y |-> IF form = "separate" THEN N!Coord(cv, Q[2], o) ELSE << >>]
   IN /\ SameVerdict(cv, o, enc, val, Q[2])
      /\ (form = "packed" => \A pf \in { 0, 1, 5, 6, 7, 8, 255 } : SameVerdict(cv, o, [enc EXCEPT !.x[1] = pf], val, Q[2]))
CurveAgrees(cv, ds) ==
   /\ \A d \in ds : PointAgrees(cv, N!Mul(cv, d, N!G(cv)))
   /\ PointAgrees(cv, << >>)
   /\ \A d \in ds : LET P == N!Mul(cv, d, N!G(cv)) IN
         P # << >> => /\ CandAgrees(cv, << P[1], (P[2] + 1) % cv.p >>)
                      /\ (cv.p + P[1] < N!TwoTo(8 * N!FieldBytes(cv)) => CandAgrees(cv, << P[1] + cv.p, P[2] >>))
   /\ BValidKey(Big(cv), BG(Big(cv))) /\ (BValidKey(Big(cv), << Zero, One >>) = N!ValidKey(cv, << 0, 1 >>))
PrivAgrees(cv) == \A o \in Ords :
   LET Bn == N!FieldBytes(cv)   top == N!TwoTo(8 * Bn) - 1
       vals == { 0, 1, 2, cv.n - 2, cv.n - 1, cv.n, cv.n + 1, top }
       strs == { N!Octets(v, Bn, o) : v \in vals } \cup { N!Octets(v, Bn + 1, o) : v \in vals \cup { top + 1 } }
               \cup (IF Bn > 1 THEN { N!Octets(v, Bn - 1, o) : v \in { 0, 1, 255 } } ELSE { }) \cup { << >> }
   IN \A ds \in strs : BPrivImport(Big(cv), o, ds) = BigV(N!PrivImport(cv, o, ds))

\* the linear octet <-> limb conversions are the definitions (BBEInt, BToBEDef, BRev) on pseudo-random strings of every length
RECURSIVE RndOct(_, _, _)
RndOct(x, cnt, acc) == IF cnt = 0 THEN acc ELSE LET y == ((x * 75) + 74) % 65537 IN RndOct(y, cnt - 1, Append(acc, y % 256))
ConvAgrees(bs) == /\ BOctVal(BRevF(bs)) = BBEInt(bs) /\ BRevF(bs) = BRev(bs)
                  /\ BCoordVal("be", bs) = BBEInt(bs) /\ BCoordVal("le", bs) = BBEInt(BRev(bs))
                  /\ BToBE(BBEInt(bs), Len(bs)) = bs /\ BToBEDef(BBEInt(bs), Len(bs)) = bs
                  /\ BOctets(BBEInt(bs), Len(bs), "le") = BRev(bs)
                  /\ BToBE(BBEInt(bs), Len(bs) + 2) = << 0, 0 >> \o bs
ASSUME \A len \in { 0, 1, 2, 3, 5, 8, 13, 14, 16, 20, 21, 24, 28, 29, 32, 33, 40, 48, 49, 64, 65, 66, 67 } : ConvAgrees(RndOct(len + 7, len, << >>)) /\ ConvAgrees([i \in 1..len |-> 255]) /\ ConvAgrees([i \in 1..len |-> IF i = 1 THEN 1 ELSE 0])
ASSUME CurveAgrees(K!E13, { 1, 2, 3, 6, 7, 24, 8088 }) /\ CurveAgrees(K!E16M3, { 1, 2, 5, 65182 })
ASSUME CurveAgrees(K!E8C4, { 1, 2, 29, 58 }) /\ CurveAgrees(K!E8G, { 1, 100 })
\* E8C4: points on the curve outside the subgroup of G (orders 236, 4, 2)
ASSUME \A s \in { 1, 59, 118, 3 } : CandAgrees(K!E8C4, N!Mul(K!E8C4, s, << K!E8C4.tx, K!E8C4.ty >>))
ASSUME PrivAgrees(K!E13) /\ PrivAgrees(K!E16M3) /\ PrivAgrees(K!E8C4) /\ PrivAgrees(K!E8M3)
ASSUME PrintT("KeyCodecBigSelf: limb-tuple key codec agrees with the native one")
VARIABLE dummy
Init == dummy = 0
Next == UNCHANGED dummy
=============================================================================
