/* TLC module override for EcdsaBigX (see EcdsaBigX.tla): base-2^13 limb tuples <-> java.math.BigInteger.
 * Loaded by TLC because the class has the module's name and sits in the spec directory. */
import java.math.BigInteger;
import tlc2.value.impl.BoolValue;
import tlc2.value.impl.IntValue;
import tlc2.value.impl.TupleValue;
import tlc2.value.impl.Value;

public class EcdsaBigX {
	private static final int LB = 13;
	private static BigInteger in(final Value v) {
		final TupleValue t = (TupleValue) v.toTuple();
		BigInteger r = BigInteger.ZERO;
		for (int i = t.elems.length - 1; i >= 0; i--) {
			final int limb = ((IntValue) t.elems[i]).val;
			if (limb < 0 || limb > 8191) throw new IllegalArgumentException("EcdsaBigX: limb out of range: " + limb);
			r = r.shiftLeft(LB).or(BigInteger.valueOf(limb));
		}
		return r;
	}
	private static Value out(BigInteger x) {
		if (x.signum() < 0) throw new IllegalArgumentException("EcdsaBigX: negative result");
		final int n = (x.bitLength() + LB - 1) / LB;
		final Value[] e = new Value[n];
		final BigInteger mask = BigInteger.valueOf(8191);
		for (int i = 0; i < n; i++) { e[i] = IntValue.gen(x.and(mask).intValue()); x = x.shiftRight(LB); }
		return new TupleValue(e);
	}
	public static Value YActive() { return BoolValue.ValTrue; }
	/* operands are reduced (0 <= u, v < m), exactly the precondition of the TLA+ definitions */
	public static Value YAddMod(final Value u, final Value v, final Value m) {
		final BigInteger mm = in(m); BigInteger t = in(u).add(in(v));
		if (t.compareTo(mm) >= 0) t = t.subtract(mm);
		return out(t);
	}
	public static Value YSubMod(final Value u, final Value v, final Value m) {
		final BigInteger a = in(u), b = in(v);
		return out(b.compareTo(a) <= 0 ? a.subtract(b) : a.add(in(m)).subtract(b));
	}
}
