---------------------------- MODULE EcGenWalk ----------------------------
(* Generator (mode B) for the 13- and 16-bit curves (property C02): the whole group is walked point by point.
   For a base B = s*G one state per scalar k = KFrom .. KTo (KTo = 0 means n+1, so that 0, 1, n-1, n and n+1 are
   all visited):   P = k*B  by repeated addition  (B = G: the expectation for the base-point multiplier; any B: for
   the unknown-point multiplier with operand B).
   For the selected states (s = 1 and k divisible by Stride) the state also carries what the rig needs to drive the
   library with the operand P itself:  dbl = 2P,  neg = -P,  next = P + G,  prev = P - G,  and, every DStride-th
   selected state, dbln[j] = 2^j P for j = 1..m+1.   (n-1)P = -P, nP = Inf, (n+1)P = P follow from ord(G) = n
   (ASSUMEd in EcCurves, h = 1); invariant Special re-derives them with the double-and-add ladder on every
   DStride-th selected state.                                                                                *)
EXTENDS EcCurves, Json, Integers
CONSTANTS CurveNames, Bases, KFrom, KTo, Stride, DStride
\* Variable names are deliberately unlike any operator PARAMETER of EcGroup/EcCurves (c, k, P, s ...): with such a
\* clash TLC stops treating constant definitions that apply those operators as constants (EcGroup!InvTab was rebuilt
\* at every reference; start-up alone took 30 s).
VARIABLES vCurve, vBs, vBase, vK, vCur, vExt
vars == << vCurve, vBs, vBase, vK, vCur, vExt >>           \* vBase = vBs*G, the base of this walk (kept in the state: computed once)

KEnd(cv) == IF KTo = 0 THEN cv.n + 1 ELSE KTo
Selected(sv, kv) == sv = 1 /\ kv % Stride = 0
Deep(sv, kv) == Selected(sv, kv) /\ kv % (Stride * DStride) = 0
None == [dbl |-> << >>, neg |-> << >>, next |-> << >>, prev |-> << >>, dbln |-> << >>]
Ext(cv, sv, kv, Q) ==
   IF ~Selected(sv, kv) THEN None
   ELSE [ dbl  |-> Dbl(cv, Q), neg |-> Neg(cv, Q), next |-> Add(cv, Q, G(cv)), prev |-> Sub(cv, Q, G(cv)),
          dbln |-> IF Deep(sv, kv) THEN [e \in 1..(cv.m + 1) |-> DblN(cv, Q, e)] ELSE << >> ]

Init == /\ vCurve \in { CurveByName(nm) : nm \in CurveNames }
        /\ vBs \in Bases /\ vK = KFrom
        /\ vBase = Mul(vCurve, vBs, G(vCurve))
        /\ vCur = Mul(vCurve, KFrom, vBase)
        /\ vExt = Ext(vCurve, vBs, KFrom, vCur)
Step == /\ vK < KEnd(vCurve)
        /\ vK' = vK + 1
        /\ vCur' = Add(vCurve, vCur, vBase)
        /\ vExt' = Ext(vCurve, vBs, vK + 1, vCur')
        /\ UNCHANGED << vCurve, vBs, vBase >>
Next == Step
Spec == Init /\ [][Next]_vars

(* ---- checked by TLC on every state *)
Closed  == OnCurve(vCurve, vCur) /\ (Selected(vBs, vK) => OnCurve(vCurve, vExt.dbl) /\ OnCurve(vCurve, vExt.next) /\ OnCurve(vCurve, vExt.prev))
Cycle   == /\ (vCur = Inf <=> MulMod(vK % vCurve.n, vBs % vCurve.n, vCurve.n) = 0)                         \* ord(B) = n: no early return to Inf  (vBs < n)
           /\ (vK = vCurve.n + 1 => vCur = vBase)
Ladder  == (vK % 64 = 0 \/ vK >= vCurve.n - 1) => vCur = Mul(vCurve, vK, vBase)        \* the walk is the double-and-add multiple
Special == Deep(vBs, vK) =>
           /\ Mul(vCurve, vCurve.n, vCur) = Inf /\ Mul(vCurve, vCurve.n - 1, vCur) = vExt.neg /\ Mul(vCurve, vCurve.n + 1, vCur) = vCur
           /\ \A e \in 1..(vCurve.m + 1) : vExt.dbln[e] = Mul(vCurve, Pow2(e), vCur)
DblOk   == Selected(vBs, vK) =>
           /\ vExt.dbl = Add(vCurve, vCur, vCur) /\ Add(vCurve, vCur, vExt.neg) = Inf
           /\ Add(vCurve, vExt.prev, G(vCurve)) = vCur /\ Sub(vCurve, vExt.next, G(vCurve)) = vCur

Emit == PrintT(ToJson([gen |-> "walk", cn |-> vCurve.name, curve |-> (IF vK = KFrom THEN vCurve ELSE << >>), s |-> vBs, base |-> vBase, k |-> vK, P |-> vCur,
                       sel |-> Selected(vBs, vK), ext |-> vExt]))
=============================================================================
