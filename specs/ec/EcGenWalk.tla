---------------------------- MODULE EcGenWalk ----------------------------
(* Generator (mode B) for the 13- and 16-bit curves (property C02): the whole group is walked point by point.
   For a base B = s*G one state per scalar k = KFrom .. KTo (KTo = 0 means n+1, so that 0, 1, n-1, n and n+1 are
   all visited):   P = k*B  by repeated addition  (B = G: the expectation for the base-point multiplier; any B: for
   the unknown-point multiplier with operand B).
   For the selected states (s = 1 and k divisible by Stride) the state also carries what the rig needs to drive the
   library with the operand P itself:  dbl = 2P,  neg = -P,  next = P + G,  prev = P - G,  and, every DStride-th
   selected state, dbln[j] = 2^j P for j = 1..m+1.   (n-1)P = -P, nP = Inf, (n+1)P = P follow from ord(G) = n
   (ASSUMEd in EcCurves, h = 1); invariant Special re-derives them with the double-and-add ladder on every
   DStride-th selected state.                                                                                *)
EXTENDS EcCurves, Json, Integers
CONSTANTS CurveNames, Bases, KFrom, KTo, Stride, DStride
VARIABLES c, bs, bp, kk, cur, ext      \* (not s, k, P: TLC start-up takes 30 s when variables share names with
                                   \*  parameters of the recursive operators of EcGroup - measured, not understood)
vars == << c, bs, bp, kk, cur, ext >>           \* bp = bs*G, the base of this walk (kept in the state: computed once)

KEnd(cv) == IF KTo = 0 THEN cv.n + 1 ELSE KTo
Selected(sv, kv) == sv = 1 /\ kv % Stride = 0
Deep(sv, kv) == Selected(sv, kv) /\ kv % (Stride * DStride) = 0
None == [dbl |-> << >>, neg |-> << >>, next |-> << >>, prev |-> << >>, dbln |-> << >>]
Ext(cv, sv, kv, Q) ==
   IF ~Selected(sv, kv) THEN None
   ELSE [ dbl  |-> Dbl(cv, Q), neg |-> Neg(cv, Q), next |-> Add(cv, Q, G(cv)), prev |-> Sub(cv, Q, G(cv)),
          dbln |-> IF Deep(sv, kv) THEN [e \in 1..(cv.m + 1) |-> DblN(cv, Q, e)] ELSE << >> ]

Init == /\ c \in { CurveByName(nm) : nm \in CurveNames }
        /\ bs \in Bases /\ kk = KFrom
        /\ bp = Mul(c, bs, G(c))
        /\ cur = Mul(c, KFrom, bp)
        /\ ext = Ext(c, bs, KFrom, cur)
Step == /\ kk < KEnd(c)
        /\ kk' = kk + 1
        /\ cur' = Add(c, cur, bp)
        /\ ext' = Ext(c, bs, kk + 1, cur')
        /\ UNCHANGED << c, bs, bp >>
Next == Step
Spec == Init /\ [][Next]_vars

(* ---- checked by TLC on every state *)
Closed  == OnCurve(c, cur) /\ (Selected(bs, kk) => OnCurve(c, ext.dbl) /\ OnCurve(c, ext.next) /\ OnCurve(c, ext.prev))
Cycle   == /\ (cur = Inf <=> MulMod(kk % c.n, bs % c.n, c.n) = 0)                         \* ord(B) = n: no early return to Inf  (bs < n)
           /\ (kk = c.n + 1 => cur = bp)
Ladder  == (kk % 64 = 0 \/ kk >= c.n - 1) => cur = Mul(c, kk, bp)        \* the walk is the double-and-add multiple
Special == Deep(bs, kk) =>
           /\ Mul(c, c.n, cur) = Inf /\ Mul(c, c.n - 1, cur) = ext.neg /\ Mul(c, c.n + 1, cur) = cur
           /\ \A e \in 1..(c.m + 1) : ext.dbln[e] = Mul(c, Pow2(e), cur)
DblOk   == Selected(bs, kk) =>
           /\ ext.dbl = Add(c, cur, cur) /\ Add(c, cur, ext.neg) = Inf
           /\ Add(c, ext.prev, G(c)) = cur /\ Sub(c, ext.next, G(c)) = cur

Emit == PrintT(ToJson([gen |-> "walk", cn |-> c.name, curve |-> (IF kk = KFrom THEN c ELSE << >>), s |-> bs, base |-> bp, k |-> kk, P |-> cur,
                       sel |-> Selected(bs, kk), ext |-> ext]))
=============================================================================
