---------------------------- MODULE EcGenWalk ----------------------------
(* Generator (mode B) for the 13- and 16-bit curves (property C02): the whole group is walked point by
   point.  For a base B = s*G the walk  0*B, 1*B, 2*B, ... (n+1)*B  is cut into chunks of CH consecutive
   multiples; one state per (curve, s, chunk).  A chunk state carries
       pts[t+1]  = (k0 + t)*B                        every scalar 0..n+1 of the multipliers (B = G: base-point mult)
   and, when the chunk is selected (s = 1 and chunk number divisible by Stride), for every point P in it
       dbl = 2P, neg = -P                            (P + P, P - P = Inf, P + (-P) = Inf, P + Inf, Inf + P, P +- G)
       dbln[j] = 2^j P for j = 1 .. m+1              only for the first DN points of the chunk
   (n-1)P = -P, nP = Inf, (n+1)P = P are consequences of ord(G) = n (ASSUMEd in EcCurves, h = 1): the
   invariant Special re-derives them with the double-and-add ladder for the first point of every chunk. *)
EXTENDS EcCurves, Json
CONSTANTS CurveNames, Bases, CH, Stride, DN
VARIABLES c, s, j, first, chunk, ext
vars == << c, s, j, first, chunk, ext >>

KEnd(cv) == cv.n + 1                                  \* last scalar of the walk
B(cv, sv) == Mul(cv, sv, G(cv))
ChunkLen(cv, jv) == LET rest == KEnd(cv) + 1 - jv * CH IN IF rest < CH THEN rest ELSE CH
RECURSIVE Run(_, _, _, _)
Run(cv, start, step, len) ==                          \* << start, start+step, ..., start+(len-1)*step >>
   IF len = 1 THEN << start >>
   ELSE LET prev == Run(cv, start, step, len - 1) IN Append(prev, Add(cv, prev[len - 1], step))
Selected(sv, jv) == sv = 1 /\ jv % Stride = 0
Ext(cv, sv, jv, ch) ==
   IF ~Selected(sv, jv) THEN [dbl |-> << >>, neg |-> << >>, dbln |-> << >>]
   ELSE [ dbl  |-> [t \in 1..Len(ch) |-> Dbl(cv, ch[t])],
          neg  |-> [t \in 1..Len(ch) |-> Neg(cv, ch[t])],
          dbln |-> [t \in 1..(IF DN < Len(ch) THEN DN ELSE Len(ch)) |-> [e \in 1..(cv.m + 1) |-> DblN(cv, ch[t], e)]] ]

Init == /\ c \in { CurveByName(nm) : nm \in CurveNames }
        /\ s \in Bases /\ j = 0 /\ first = Inf
        /\ chunk = Run(c, Inf, B(c, s), ChunkLen(c, 0))
        /\ ext = Ext(c, s, 0, chunk)
Step == /\ (j + 1) * CH <= KEnd(c)
        /\ j' = j + 1
        /\ first' = Add(c, chunk[Len(chunk)], B(c, s))
        /\ chunk' = Run(c, first', B(c, s), ChunkLen(c, j + 1))
        /\ ext' = Ext(c, s, j + 1, chunk')
        /\ UNCHANGED << c, s >>
Next == Step
Spec == Init /\ [][Next]_vars

K0 == j * CH
(* ---- checked by TLC on every state *)
Closed  == /\ \A t \in 1..Len(chunk) : OnCurve(c, chunk[t])
           /\ \A t \in 1..Len(ext.dbl) : OnCurve(c, ext.dbl[t]) /\ OnCurve(c, ext.neg[t])
Ladder  == /\ chunk[1] = Mul(c, K0, B(c, s))                                  \* walk = double-and-add
           /\ chunk[Len(chunk)] = Mul(c, K0 + Len(chunk) - 1, B(c, s))
Special == LET X == chunk[1] IN                                             \* order of every point divides n
           /\ Mul(c, c.n, X) = Inf /\ Mul(c, c.n - 1, X) = Neg(c, X) /\ Mul(c, c.n + 1, X) = X
Cycle   == /\ (K0 <= c.n /\ c.n < K0 + Len(chunk)) => chunk[c.n - K0 + 1] = Inf          \* n*B = Inf
           /\ (K0 <= c.n + 1 /\ c.n + 1 < K0 + Len(chunk)) => chunk[c.n + 2 - K0] = B(c, s)
           /\ \A t \in 1..Len(chunk) : (chunk[t] = Inf) => (K0 + t - 1) % c.n = 0          \* no earlier return
DblOk   == /\ \A t \in 1..Len(ext.dbl) : ext.dbl[t] = Add(c, chunk[t], chunk[t])
                                        /\ Add(c, chunk[t], ext.neg[t]) = Inf
           /\ \A t \in 1..Len(ext.dbln) : \A e \in 1..(c.m + 1) : ext.dbln[t][e] = Mul(c, Pow2(e), chunk[t])

Emit == PrintT(ToJson([gen |-> "walk", curve |-> c, s |-> s, base |-> B(c, s), k0 |-> K0, sel |-> Selected(s, j),
                       pts |-> chunk, dbl |-> ext.dbl, neg |-> ext.neg, dbln |-> ext.dbln]))
=============================================================================
