----------------------------- MODULE EcdsaVectors -----------------------------
(* Published signature examples, recomputed by TLC with the definitions of EcdsaBig: the reference itself is
   standard-conforming on them (signing with the published secret gives the published (r, s); verification accepts
   it and rejects a neighbour; the public key is d*G).
     - ANS X9.62-1998 J.3.1 (ECDSA, P-192, SHA-1("abc"))
     - RFC 6979 A.2.5 (ECDSA, P-256, SHA-256("sample"), the k listed there)
     - GOST R 34.10-2012 Appendix A.1 (256-bit example) and A.2 (512-bit example)
   Numbers are written as in the documents (hexadecimal strings).                                             *)
EXTENDS EcdsaBig, TLC

HexDigit(ch) == CASE ch = "0" -> 0 [] ch = "1" -> 1 [] ch = "2" -> 2 [] ch = "3" -> 3 [] ch = "4" -> 4 [] ch = "5" -> 5
                  [] ch = "6" -> 6 [] ch = "7" -> 7 [] ch = "8" -> 8 [] ch = "9" -> 9 [] ch = "a" -> 10 [] ch = "b" -> 11
                  [] ch = "c" -> 12 [] ch = "d" -> 13 [] ch = "e" -> 14 [] ch = "f" -> 15
RECURSIVE HexR(_, _, _)
HexR(str, i, acc) == IF i > Len(str) THEN acc ELSE HexR(str, i + 1, Add(MulSmall(acc, 16), FromInt(HexDigit(SubSeq(str, i, i)))))
Hex(str) == HexR(str, 1, Zero)
RECURSIVE HexOctR(_, _, _)
HexOctR(str, i, acc) == IF i > Len(str) THEN acc
                        ELSE HexOctR(str, i + 2, Append(acc, 16 * HexDigit(SubSeq(str, i, i)) + HexDigit(SubSeq(str, i + 1, i + 1))))
HexOctets(str) == HexOctR(str, 1, << >>)

P192 == [ p |-> Hex("fffffffffffffffffffffffffffffffeffffffffffffffff"), a |-> Hex("fffffffffffffffffffffffffffffffefffffffffffffffc"),
          b |-> Hex("64210519e59c80e70fa7e9ab72243049feb8deecc146b9b1"), gx |-> Hex("188da80eb03090f67cbf20eb43a18800f4ff0afd82ff1012"),
          gy |-> Hex("07192b95ffc8da78631011ed6b24cdd573f977a11e794811"), n |-> Hex("ffffffffffffffffffffffff99def836146bc9b1b4d22831"), h |-> 1, m |-> 192 ]
P256 == [ p |-> Hex("ffffffff00000001000000000000000000000000ffffffffffffffffffffffff"), a |-> Hex("ffffffff00000001000000000000000000000000fffffffffffffffffffffffc"),
          b |-> Hex("5ac635d8aa3a93e7b3ebbd55769886bc651d06b0cc53b0f63bce3c3e27d2604b"), gx |-> Hex("6b17d1f2e12c4247f8bce6e563a440f277037d812deb33a0f4a13945d898c296"),
          gy |-> Hex("4fe342e2fe1a7f9b8ee7eb4a7c0f9e162bce33576b315ececbb6406837bf51f5"), n |-> Hex("ffffffff00000000ffffffffffffffffbce6faada7179e84f3b9cac2fc632551"), h |-> 1, m |-> 256 ]
Gost256 == [ p |-> Hex("8000000000000000000000000000000000000000000000000000000000000431"), a |-> Hex("7"),
             b |-> Hex("5fbff498aa938ce739b8e022fbafef40563f6e6a3472fc2a514c0ce9dae23b7e"), gx |-> Hex("2"),
             gy |-> Hex("08e2a8a0e65147d4bd6316030e16d19c85c97f0a9ca267122b96abbcea7e8fc8"),
             n |-> Hex("8000000000000000000000000000000150fe8a1892976154c59cfc193accf5b3"), h |-> 1, m |-> 256 ]
Gost512 == [ p |-> Hex("4531acd1fe0023c7550d267b6b2fee80922b14b2ffb90f04d4eb7c09b5d2d15df1d852741af4704a0458047e80e4546d35b8336fac224dd81664bbf528be6373"),
             a |-> Hex("7"), b |-> Hex("1cff0806a31116da29d8cfa54e57eb748bc5f377e49400fdd788b649eca1ac4361834013b2ad7322480a89ca58e0cf74bc9e540c2add6897fad0a3084f302adc"),
             gx |-> Hex("24d19cc64572ee30f396bf6ebbfd7a6c5213b3b3d7057cc825f91093a68cd762fd60611262cd838dc6b60aa7eee804e28bc849977fac33b4b530f1b120248a9a"),
             gy |-> Hex("2bb312a43bd2ce6e0d020613c857acddcfbf061e91e5f2c3f32447c259f39b2c83ab156d77f1496bf7eb3351e1ee4e43dc1a18b91b24640b6dbb92cb1add371e"),
             n |-> Hex("4531acd1fe0023c7550d267b6b2fee80922b14b2ffb90f04d4eb7c09b5d2d15da82f2d7ecb1dbac719905c5eecc423f1d86e25edbe23c595d644aaf187e6e6df"), h |-> 1, m |-> 512 ]

Example(cv, alg, hashHex, dHex, qxHex, qyHex, kHex, rHex, sHex) ==
   LET e == BHashE(cv, alg, HexOctets(hashHex))   d == Hex(dHex)   Q == << Hex(qxHex), Hex(qyHex) >>   r == Hex(rHex)   s == Hex(sHex)
   IN /\ BOnCurve(cv, BG(cv))
      /\ BMul(cv, d, BG(cv)) = Q
      /\ BSign(cv, alg, d, e, Hex(kHex)) = << r, s >>
      /\ BVerify(cv, alg, Q, e, r, s)
      /\ ~BVerifyCore(cv, alg, Q, e, r, Add(s, One)) /\ ~BVerifyCore(cv, alg, Q, Add(e, One), r, s)

ASSUME Example(P192, "ecdsa", "a9993e364706816aba3e25717850c26c9cd0d89d", "1a8d598fc15bf0fd89030b5cb1111aeb92ae8baf5ea475fb",
               "62b12d60690cdcf330babab6e69763b471f994dd702d16a5", "63bf5ec08069705ffff65e5ca5c0d69716dfcb3474373902",
               "fa6de29746bbeb7f8bb1e761f85f7dfb2983169d82fa2f4e",
               "885052380ff147b734c330c43d39b2c4a89f29b0f749fead", "e9ecc78106def82bf1070cf1d4d804c3cb390046951df686")
ASSUME Example(P256, "ecdsa", "af2bdbe1aa9b6ec1e2ade1d694f41fc71a831d0268e9891562113d8a62add1bf", "c9afa9d845ba75166b5c215767b1d6934e50c3db36e89b127b8a622b120f6721",
               "60fed4ba255a9d31c961eb74c6356d68c049b8923b61fa6ce669622e60f29fb6", "7903fe1008b8bc99a41ae9e95628bc64f2f1b20c2d7e9f5177a3c294d4462299",
               "a6e3c57dd01abe90086538398355dd4c3b17aa873382b0f24d6129493d8aad60",
               "efd48b2aacb6a8fd1140dd9cd45e81d69d2c877b56aaf991c34d0ea84eaf3716", "f7cb1c942d657c41d436c7a1b6e29f65f3e900dbb9aff4064dc4ab2f843acda8")
ASSUME Example(Gost256, "gost", "2dfbc1b372d89a1188c09c52e0eec61fce52032ab1022e8e67ece6672b043ee5", "7a929ade789bb9be10ed359dd39a72c11b60961f49397eee1d19ce9891ec3b28",
               "7f2b49e270db6d90d8595bec458b50c58585ba1d4e9b788f6689dbd8e56fd80b", "26f1b489d6701dd185c8413a977b3cbbaf64d1c593d26627dffb101a87ff77da",
               "77105c9b20bcd3122823c8cf6fcc7b956de33814e95b7fe64fed924594dceab3",
               "41aa28d2f1ab148280cd9ed56feda41974053554a42767b83ad043fd39dc0493", "01456c64ba4642a1653c235a98a60249bcd6d3f746b631df928014f6c5bf9c40")
ASSUME Example(Gost512, "gost", "3754f3cfacc9e0615c4f4a7c4d8dab531b09b6f9c170c533a71d147035b0c5917184ee536593f4414339976c647c5d5a407adedb1d560c4fc6777d2972075b8c",
               "0ba6048aadae241ba40936d47756d7c93091a0e8514669700ee7508e508b102072e8123b2200a0563322dad2827e2714a2636b7bfd18aadfc62967821fa18dd4",
               "115dc5bc96760c7b48598d8ab9e740d4c4a85a65be33c1815b5c320c854621dd5a515856d13314af69bc5b924c8b4ddff75c45415c1d9dd9dd33612cd530efe1",
               "37c7c90cd40b0f5621dc3ac1b751cfa0e2634fa0503b3d52639f5d7fb72afd61ea199441d943ffe7f0c70a2759a3cdb84c114e1f9339fdf27f35eca93677beec",
               "0359e7f4b1410feacc570456c6801496946312120b39d019d455986e364f365886748ed7a44b3e794434006011842286212273a6d14cf70ea3af71bb1ae679f1",
               "2f86fa60a081091a23dd795e1e3c689ee512a3c82ee0dcc2643c78eea8fcacd35492558486b20f1c9ec197c90699850260c93bcbcd9c5c3317e19344e173ae36",
               "1081b394696ffe8e6585e7a9362d26b6325f56778aadbc081c0bfbe933d52ff5823ce288e8c4f362526080df7f70ce406a6eeb1f56919cb92a9853bde73e5b4a")
ASSUME PrintT("EcdsaVectors: the published examples are reproduced")
VARIABLE dummy
Init == dummy = 0
Next == UNCHANGED dummy
=============================================================================
