SPECIFICATION Spec
CONSTANTS
  CurveNames = {"E13"}
  Bases = {1, 1000}
  KFrom = 0
  KTo = 0
  Stride = 4
  DStride = 16
INVARIANTS Closed Cycle Ladder Special DblOk
CONSTRAINT Emit
CHECK_DEADLOCK FALSE
