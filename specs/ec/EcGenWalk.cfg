SPECIFICATION Spec
CONSTANTS
  CurveNames = {"E13", "E16M3"}
  Bases = {1, 1000}
  CH = 256
  Stride = 1
  DN = 4
INVARIANTS Closed Ladder Special Cycle DblOk
CONSTRAINT Emit
CHECK_DEADLOCK FALSE
