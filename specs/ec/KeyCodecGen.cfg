\* default configuration (stand-alone use): encodings of every point and the key-generation map of two 8-bit curves.
\* rig/checks/c09.py writes its own partition files into the TLC workspace.
SPECIFICATION Spec
CONSTANTS
  CurveNames = {"E8G", "E8C4"}
  Kinds = {"points", "keygen"}
  Seed = 1
  ScanPrefixes = {0, 2, 3, 4, 6, 7}
  ScanWide = FALSE
  DhKeys = {1, 2, 1001}
INVARIANTS RoundTrip Parity TableIsDefn ScanSound KeyGenSound DHSym
CONSTRAINT Emit
CHECK_DEADLOCK FALSE
