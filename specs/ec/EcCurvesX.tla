------------------------------ MODULE EcCurvesX ------------------------------
(* More synthetic 8-bit curves for property C02 (mode B): one for every curve SHAPE that
   include/math/elliptic_curve.h special-cases in its doubling / on-curve formulas

       a = p - 3   (EC_CURVE_FLAG_A_M3: 3*(x^2 - 1) resp. 3*(X - Z^2)*(X + Z^2) instead of 3*x^2 + a)
       a = 0       (the a*Z^4 term is skipped)
       generic a   (E8C4 of EcCurves)

   chosen so that the group CONTAINS the operands at which such a shortcut can go wrong and the curves of
   EcCurves happen not to have:  a point with x = 0 (b is a quadratic residue; there x^2 - 1 = -1 must be
   taken mod p, and for a = 0 the tangent slope is 0: 2P = -P), and a point with y = 0 (even group order:
   the doubling has no slope at all).  EcCurves' E8M3, E8G and E8Z have neither (b is a non-residue, the
   order is an odd prime).  The whole group of each curve is enumerated pairwise by EcGenPairs.

   name    field bits  p    a     b    G          n    h   full-group generator T   x = 0        y = 0
   E8M3X       8       251  p-3   169  (39,117)   113  2   (0,13)                   (0,13)       (81,0)
   E8ZX        8       173  0     21   (131,82)   29   6   (6,8)                    (0,59)       (117,0)
   (E8C4       8       251  2     36   (2,53)     59   4   (1,87)                   (0,6)        (13,0)  - from EcCurves)

   Found by brute force; nothing is trusted: the ASSUMEs below (and those of EcCurvesCount for the point
   counts) make TLC re-derive every stated fact with the EcGroup definitions.  EcCurves itself is left
   untouched (its curve lists are the domain of the C03 / C09 generators). *)
EXTENDS EcCurves

E8M3X == [name |-> "E8M3X", m |-> 8, p |-> 251, a |-> 248, b |-> 169, gx |-> 39,  gy |-> 117, n |-> 113, h |-> 2, tx |-> 0, ty |-> 13]
E8ZX  == [name |-> "E8ZX",  m |-> 8, p |-> 173, a |-> 0,   b |-> 21,  gx |-> 131, gy |-> 82,  n |-> 29,  h |-> 6, tx |-> 6, ty |-> 8]

CurvesX    == << E8M3X, E8ZX >>                    \* whole group enumerated pairwise, like Curves8
AllCurvesX == AllCurves \o CurvesX
CurveByNameX(nm) == CHOOSE c \in {AllCurvesX[i] : i \in 1..Len(AllCurvesX)} : c.name = nm

\* the special operands
X0Points(c) == { << 0, y >> : y \in { v \in 0..(c.p - 1) : OnCurve(c, << 0, v >>) } }
Y0Points(c) == { << x, 0 >> : x \in { u \in 0..(c.p - 1) : OnCurve(c, << u, 0 >>) } }
\* one curve per shape, each holding both kinds of special point
ShapeCurves == << E8M3X, E8ZX, E8C4 >>

ASSUME \A i \in 1..Len(CurvesX) : LET c == CurvesX[i] IN
          /\ WellFormed(c) /\ FieldBitsOk(c)
          /\ OnCurve(c, T(c)) /\ Mul(c, Order(c), T(c)) = Inf
          /\ Mul(c, c.h, T(c)) = G(c)                                   \* G generates the subgroup of index h
ASSUME E8M3X.a = E8M3X.p - 3 /\ E8ZX.a = 0 /\ E8C4.a \notin {0, E8C4.p - 3}
\* T has the full order h*n (no proper divisor of the order kills it): the group is cyclic and GroupSeq visits it all
ASSUME /\ Mul(E8M3X, 113, T(E8M3X)) # Inf /\ Mul(E8M3X, 2, T(E8M3X)) # Inf
       /\ Mul(E8ZX, 87, T(E8ZX)) # Inf /\ Mul(E8ZX, 58, T(E8ZX)) # Inf /\ Mul(E8ZX, 6, T(E8ZX)) # Inf
ASSUME \A i \in 1..Len(ShapeCurves) : LET c == ShapeCurves[i] IN
          /\ X0Points(c) # {} /\ Y0Points(c) # {}
          /\ \A P \in Y0Points(c) : Dbl(c, P) = Inf /\ Add(c, P, P) = Inf
          /\ \A P \in X0Points(c) : P[2] # 0 /\ OnCurve(c, Dbl(c, P)) /\ Dbl(c, P) # Inf
                                    /\ Add(c, Dbl(c, P), Neg(c, P)) = P
\* a = 0: the tangent at (0, y) is horizontal, 2P = -P (points of order 3)
ASSUME \A P \in X0Points(E8ZX) : Dbl(E8ZX, P) = Neg(E8ZX, P) /\ Mul(E8ZX, 3, P) = Inf
\* a = -3: the slope at (0, y) is -3 / (2y); 2P has x = (9 / (4*b)) mod p  (x^2 - 1 = -1 is NOT reduced as a natural)
ASSUME \A P \in X0Points(E8M3X) :
          MulMod(Dbl(E8M3X, P)[1], MulMod(4, E8M3X.b, E8M3X.p), E8M3X.p) = 9
=============================================================================
