SPECIFICATION Spec
INVARIANT RootOk
CONSTRAINT Emit
CHECK_DEADLOCK FALSE
