------------------------------ MODULE EcdsaBig ------------------------------
(* The definitions of EcGroup / Ecdsa / KeyCodec once more, over exact naturals of any size (BigNat limb tuples,
   base 2^13), so that TLC can decide tuples of the 32 built-in curves (mode C of properties C03 / C09).
   Same mathematics, same structure, names prefixed with B; EcdsaBigSelf.tla makes TLC compare this module with
   the native-integer modules on the synthetic curves (all three algorithms on the same inputs must agree).

   A curve is a record [p, a, b, gx, gy, n, h, m] with p, a, b, gx, gy, n limb tuples and h, m native integers;
   a point is << >> (neutral element) or << x, y >> with limb-tuple coordinates.
   Modular inverses are Fermat powers through BigNatX!XModExp, products through XMul/XMod, sums and differences
   through EcdsaBigX!YAddMod/YSubMod: with the compiled java.math.BigInteger overrides a 256-bit verification costs
   seconds, without them (pure TLA+) many minutes.  The definitions stay the authority (override = definition is
   checked on samples by every run).                                                                            *)
EXTENDS EcdsaBigX, Sequences

BInf == << >>
BG(c) == << c.gx, c.gy >>
BMulP(u, v, p) == XMulMod(u, v, p)
BAddM(u, v, m) == YAddMod(u, v, m)                                                    \* 0 <= u, v < m  (no division)
BSubM(u, v, m) == YSubMod(u, v, m)                                                    \* 0 <= u, v < m
BInvP(v, p) == XModExp(v, Sub(p, << 2 >>), p)                    \* p prime, v mod p # 0
BNegP(v, p) == IF v = Zero THEN Zero ELSE Sub(p, v)             \* 0 <= v < p
BRhs(c, x) == BAddM(BAddM(BMulP(BMulP(x, x, c.p), x, c.p), BMulP(c.a, x, c.p), c.p), c.b, c.p)
BInField(v, p) == Lt(v, p)
BOnCurve(c, P) == \/ P = BInf
                  \/ /\ Len(P) = 2 /\ BInField(P[1], c.p) /\ BInField(P[2], c.p)
                     /\ BMulP(P[2], P[2], c.p) = BRhs(c, P[1])
BNeg(c, P) == IF P = BInf THEN BInf ELSE << P[1], BNegP(P[2], c.p) >>
BFromSlope(c, l, P, Q) ==
   LET x3 == BSubM(BSubM(BMulP(l, l, c.p), P[1], c.p), Q[1], c.p)
       y3 == BSubM(BMulP(l, BSubM(P[1], x3, c.p), c.p), P[2], c.p)
   IN  << x3, y3 >>
BDbl(c, P) ==
   IF P = BInf THEN BInf
   ELSE IF P[2] = Zero THEN BInf
   ELSE LET num == BAddM(BMulP(<< 3 >>, BMulP(P[1], P[1], c.p), c.p), c.a, c.p)
            l   == BMulP(num, BInvP(BAddM(P[2], P[2], c.p), c.p), c.p)
        IN  BFromSlope(c, l, P, P)
BAdd(c, P, Q) ==
   IF P = BInf THEN Q
   ELSE IF Q = BInf THEN P
   ELSE IF P[1] = Q[1] THEN (IF P[2] = Q[2] THEN BDbl(c, P) ELSE BInf)
   ELSE LET l == BMulP(BSubM(Q[2], P[2], c.p), BInvP(BSubM(Q[1], P[1], c.p), c.p), c.p)
        IN  BFromSlope(c, l, P, Q)
\* k*P by double-and-add from the most significant bit (k a limb tuple)
RECURSIVE BMulR(_, _, _, _, _)
BMulR(c, k, P, i, acc) ==
   IF i < 0 THEN acc
   ELSE LET d == BDbl(c, acc) IN BMulR(c, k, P, i - 1, IF Bit(k, i) = 1 THEN BAdd(c, d, P) ELSE d)
BMul(c, k, P) == IF k = Zero \/ P = BInf THEN BInf ELSE BMulR(c, k, P, BitLen(k) - 1, BInf)

(* ------------------------------------------------------------------ Ecdsa *)
BNoSig == << >>
BSign(c, alg, d, e, k) ==                \* d, e, k limb tuples; e already the integer of the standard (mod n)
   IF k = Zero \/ ~Lt(k, c.n) THEN BNoSig
   ELSE LET R == BMul(c, k, BG(c))
        IN IF R = BInf THEN BNoSig
           ELSE LET r  == XMod(R[1], c.n)
                    en == XMod(e, c.n)
                    rd == XMulMod(r, XMod(d, c.n), c.n)
                    s  == IF alg = "ecdsa" THEN XMulMod(XModExp(k, Sub(c.n, << 2 >>), c.n), BAddM(en, rd, c.n), c.n)
                                           ELSE BAddM(rd, XMulMod(k, en, c.n), c.n)
                IN IF r = Zero \/ s = Zero THEN BNoSig ELSE << r, s >>
BValidPub(c, Q) == Q # BInf /\ BOnCurve(c, Q) /\ BMul(c, c.n, Q) = BInf
InRange(v, n) == v # Zero /\ Lt(v, n)
BVerifyCore(c, alg, Q, e, r, s) ==       \* the key is assumed valid here
   /\ InRange(r, c.n) /\ InRange(s, c.n)
   /\ (alg = "gost" => XMod(e, c.n) # Zero)
   /\ LET en == XMod(e, c.n)
          w  == XModExp(IF alg = "ecdsa" THEN s ELSE en, Sub(c.n, << 2 >>), c.n)
          u1 == IF alg = "ecdsa" THEN XMulMod(en, w, c.n) ELSE XMulMod(s, w, c.n)
          u2 == IF alg = "ecdsa" THEN XMulMod(r, w, c.n) ELSE XMulMod(Sub(c.n, r), w, c.n)
          R  == BAdd(c, BMul(c, u1, BG(c)), BMul(c, u2, Q))
      IN R # BInf /\ XMod(R[1], c.n) = r
BVerify(c, alg, Q, e, r, s) == BValidPub(c, Q) /\ BVerifyCore(c, alg, Q, e, r, s)

\* digest (octets, most significant first) -> integer; e of the standards
RECURSIVE BBEIntR(_, _, _)
BBEIntR(bs, i, acc) == IF i > Len(bs) THEN acc ELSE BBEIntR(bs, i + 1, Add(MulSmall(acc, 256), FromInt(bs[i])))
BBEInt(bs) == BBEIntR(bs, 1, Zero)
RECURSIVE BRev(_)
BRev(bs) == IF Len(bs) = 0 THEN << >> ELSE Append(BRev(SubSeq(bs, 2, Len(bs))), bs[1])
BEcdsaE(c, H, hbits) == LET L == BitLen(c.n) IN XMod(IF hbits > L THEN ShiftR(H, hbits - L) ELSE H, c.n)
BGostE(c, H) == LET x == XMod(H, c.n) IN IF x = Zero THEN One ELSE x
BHashE(c, alg, hb) == IF alg = "ecdsa" THEN BEcdsaE(c, BBEInt(hb), 8 * Len(hb)) ELSE BGostE(c, BBEInt(hb))
BFieldBytes(c) == (c.m + 7) \div 8
BMin2(x, y) == IF x < y THEN x ELSE y
BHashESet(c, alg, order, hb) ==          \* the admissible readings, exactly as Ecdsa!HashESet
   LET Bn  == BFieldBytes(c)
       S   == IF order = "be" THEN hb ELSE BRev(hb)
       msB == SubSeq(S, 1, BMin2(Bn, Len(S)))
       lsB == SubSeq(S, Len(S) - BMin2(Bn, Len(S)) + 1, Len(S))
   IN  IF Len(hb) <= Bn THEN { BHashE(c, alg, S) }
       ELSE { BHashE(c, alg, S) }
            \cup (IF alg = "gost" THEN { BHashE(c, alg, msB) } ELSE { })
            \cup (IF order = "le" THEN { BHashE(c, alg, lsB) } ELSE { })
\* documented library conversion (classification only)
BLcbReduce(x, n) == IF Lt(x, n) THEN x ELSE Add(XMod(x, Sub(n, One)), One)
BLcbE(c, alg, order, hb) ==
   LET head == SubSeq(hb, 1, BMin2(BFieldBytes(c), Len(hb)))
       x == BLcbReduce(BBEInt(IF order = "be" THEN head ELSE BRev(head)), c.n)
   IN IF alg = "gost" /\ x = Zero THEN One ELSE x
BSecretSet(x, n) == { BLcbReduce(x, n), Add(XMod(x, Sub(n, One)), One) }
=============================================================================
