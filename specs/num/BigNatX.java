/* TLC module override for BigNatX (see BigNatX.tla): base-2^13 limb tuples <-> java.math.BigInteger.
 * Loaded by TLC because the class has the module's name and sits in the spec directory. */
import java.math.BigInteger;
import tlc2.value.impl.BoolValue;
import tlc2.value.impl.IntValue;
import tlc2.value.impl.TupleValue;
import tlc2.value.impl.Value;

public class BigNatX {
	private static final int LB = 13;
	private static BigInteger in(final Value v) {
		final TupleValue t = (TupleValue) v.toTuple();
		BigInteger r = BigInteger.ZERO;
		for (int i = t.elems.length - 1; i >= 0; i--) {
			final int limb = ((IntValue) t.elems[i]).val;
			if (limb < 0 || limb > 8191) throw new IllegalArgumentException("BigNatX: limb out of range: " + limb);
			r = r.shiftLeft(LB).or(BigInteger.valueOf(limb));
		}
		return r;
	}
	private static Value out(BigInteger x) {
		if (x.signum() < 0) throw new IllegalArgumentException("BigNatX: negative result");
		final int n = (x.bitLength() + LB - 1) / LB;
		final Value[] e = new Value[n];
		final BigInteger mask = BigInteger.valueOf(8191);
		for (int i = 0; i < n; i++) { e[i] = IntValue.gen(x.and(mask).intValue()); x = x.shiftRight(LB); }
		return new TupleValue(e);
	}
	public static Value XActive() { return BoolValue.ValTrue; }
	public static Value XMul(final Value a, final Value b) { return out(in(a).multiply(in(b))); }
	public static Value XDivMod(final Value a, final Value b) {
		final BigInteger[] qr = in(a).divideAndRemainder(in(b));
		return new TupleValue(new Value[] { out(qr[0]), out(qr[1]) });
	}
	public static Value XModExp(final Value a, final Value e, final Value m) { return out(in(a).modPow(in(e), in(m))); }
	public static Value XGcd(final Value a, final Value b) { return out(in(a).gcd(in(b))); }
	public static Value XISqrt(final Value a) { return out(in(a).sqrt()); }
}
