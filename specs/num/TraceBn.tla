------------------------------- MODULE TraceBn -------------------------------
(* Validator (mode C, also used for the exhaustive 8-bit-digit corpus): every recorded bn_* call in the
   ndjson file named by the environment variable TRACE is judged by BnOps!Judge.  TLC is an evaluator
   here; rejected calls are printed as JSON lines (the rig keys them), the last line is a receipt with
   the number of calls judged.  Before judging, TLC checks on SampleN pseudo-random operand tuples that
   the (possibly BigInteger-overridden) X-operators agree with the BigNat definitions. *)
EXTENDS BnOps, Json, IOUtils
CONSTANT SampleN
VARIABLE dummy

Tr == ndJsonDeserialize(IOEnv.TRACE)

\* small multiplicative generator (mod 65537) -> limb tuples of a given length
RECURSIVE RndLimbs(_, _, _)
RndLimbs(x, n, acc) == IF n = 0 THEN Norm(acc)
                       ELSE LET y == ((x * 75) + 74) % 65537 IN RndLimbs(y, n - 1, Append(acc, y % B))
R(seed, n) == RndLimbs(seed + 1, n, << >>)
AgreeOn(s) ==
   LET a == R(s, 1 + (s % 21))   b == R(s + 1000, 1 + ((s * 7) % 10))
       e == R(s + 2000, 1 + (s % 2))   m == Add(R(s + 3000, 1 + (s % 6)), One)
   IN /\ XMul(a, b) = Mul(a, b)
      /\ (Len(b) > 0 => XDivMod(XMul(a, b), b) = DivMod(Mul(a, b), b) /\ XDivMod(a, b) = DivMod(a, b))
      /\ XModExp(a, e, m) = ModExp(a, e, m)
      /\ XGcd(a, MulSmall(b, 6)) = Gcd(a, MulSmall(b, 6))
      /\ XISqrt(a) = ISqrt(a) /\ XISqrt(Mul(b, b)) = b
OverrideAgrees == \A s \in 1..SampleN : AgreeOn(s)
ASSUME OverrideAgrees

Report(i) == LET ev == Tr[i]   j == IF ev.rc = -777 THEN "crashed-or-hung" ELSE Judge(ev)
             IN IF j = "ok" THEN TRUE
                ELSE PrintT(ToJson([reject |-> ev.id, op |-> ev.op, why |-> j, shape |-> Shape(ev)]))
ASSUME \A i \in 1..Len(Tr) : Report(i)
ASSUME PrintT(ToJson([validated |-> Len(Tr), xactive |-> XActive, sample |-> SampleN]))

Init == dummy = 0
Next == UNCHANGED dummy
=============================================================================
