-------------------------------- MODULE BnOps --------------------------------
(* What every multi-precision operation of liblcb include/math/big_num.h must compute (property C01).

   One recorded call = one record  ev  (written by rig/checks/c01.py from the driver's answer):
     inputs   op, al (aliasing pattern), w (digit bits), maxd (BN_MAX_DIGITS of the build),
              ca cb cm cr   declared capacities, in digits, of the objects A B M R
              a b m         mathematical values of A B M (BigNat limb tuples), k k2 small integers,
              xin           byte/character input (imports)
     outputs  rc, c (carry/borrow: 0, 1, or 2 = other non-zero), nz (1 iff the result's `digits` field is
              normalised), r r2 (values read back), n n2 (integers), xs (signed digits / exported bytes)

   Judge(ev) = "ok" or the reason the outcome is not allowed.  The rules follow DESIGN.md Appendix E:
     * success always means the exact mathematical value (and a normalised object);
     * an error (rc # 0, or carry/borrow # 0 for the add/sub family) is REQUIRED when the exact result does
       not fit the destination's declared capacity or the argument is outside the domain ("must");
     * an error is ALLOWED where the implementation's digit-granular pre-checks are documented/visibly
       conservative or an intermediate does not fit ("may"); everywhere else success is REQUIRED ("ok").
   Expensive values go through BigNatX (optionally BigInteger-accelerated); division, inverse and roots are
   judged by relations (q*d + r = a /\ r < d;  x*a == 1;  r*r == a). *)
EXTENDS BigNatX, TLC

(* ---------------------------------------------------------------- digit-level facts *)
Dg(x, w)      == (BitLen(x) + w - 1) \div w                  \* significant digits
Fits(x, w, c) == BitLen(x) <= w * c
TopClz(x, w)  == (Dg(x, w) * w) - BitLen(x)                  \* leading zero bits of the top digit (x # 0)
IsZ(x) == Len(x) = 0
Max2(x, y) == IF x > y THEN x ELSE y
Min2(x, y) == IF x < y THEN x ELSE y

\* bn_div's normalisation pre-check: "not enough space to hold normalized" dividend
DivMayFail(a, d, w, cap) == /\ Cmp(a, d) > 0
                            /\ Dg(a, w) = cap
                            /\ TopClz(d, w) > TopClz(a, w)

\* generic verdict for "value or error" operations
Verdict(ev, flag, val) ==
   IF ev.rc = 0 THEN (IF flag = "must" THEN "success-but-result-cannot-fit"
                      ELSE IF ev.r # val THEN "success-with-wrong-value"
                      ELSE IF ev.nz # 1 THEN "denormalized-result"
                      ELSE "ok")
   ELSE (IF flag = "ok" THEN "error-not-allowed" ELSE "ok")

\* add/sub family: the carry/borrow output is the explicit overflow signal
VerdictCarry(ev, fits, val) ==
   IF fits THEN (IF ev.rc # 0 THEN "error-not-allowed"
                 ELSE IF ev.c # 0 THEN "carry-set-but-result-fits"
                 ELSE IF ev.r # val THEN "success-with-wrong-value"
                 ELSE IF ev.nz # 1 THEN "denormalized-result" ELSE "ok")
   ELSE (IF ev.rc # 0 \/ ev.c # 0 THEN "ok" ELSE "overflow-not-signalled")

IntIs(ev, v) == IF ev.n = v THEN "ok" ELSE "wrong-answer"
B2I(p) == IF p THEN 1 ELSE 0

(* ---------------------------------------------------------------- bytes, hex, signed digit strings *)
\* redundant limb tuple (entries < 2^30) -> normal form
RECURSIVE CarryR(_, _, _, _, _)
CarryR(s, n, i, c, acc) ==
   IF i > n THEN (IF c = 0 THEN acc ELSE CarryR(<< >>, 0, 1, c \div B, Append(acc, c % B)))
   ELSE LET t == s[i] + c IN CarryR(s, n, i + 1, t \div B, Append(acc, t % B))
CarryNorm(s) == Norm(CarryR(s, Len(s), 1, 0, << >>))

\* little-endian bytes -> natural: 13 bytes = 8 limbs exactly; done bitwise per limb
ByteAt(bs, n, i) == IF i >= 1 /\ i <= n THEN bs[i] ELSE 0          \* i from 1
LimbOfBytes(bs, n, j) ==                                            \* limb j (from 0) of the LE byte string
   LET bit0 == j * LB   q == bit0 \div 8   s == bit0 % 8
       v == ByteAt(bs, n, q + 1) + (256 * ByteAt(bs, n, q + 2)) + (65536 * ByteAt(bs, n, q + 3))
   IN (v \div (2^s)) % B
RECURSIVE LimbsOfBytes(_, _, _, _, _)
LimbsOfBytes(bs, n, j, jmax, acc) ==
   IF j > jmax THEN acc ELSE LimbsOfBytes(bs, n, j + 1, jmax, Append(acc, LimbOfBytes(bs, n, j)))
FromBytesLE(bs) == LET n == Len(bs) IN Norm(LimbsOfBytes(bs, n, 0, ((8 * n) \div LB), << >>))
RECURSIVE Rev(_, _, _)
Rev(s, i, acc) == IF i = 0 THEN acc ELSE Rev(s, i - 1, Append(acc, s[i]))
Reverse(s) == Rev(s, Len(s), << >>)
FromBytesBE(bs) == FromBytesLE(Reverse(bs))
NBytes(x) == (BitLen(x) + 7) \div 8

HexVal(c) == IF c >= 48 /\ c <= 57 THEN c - 48
             ELSE IF c >= 97 /\ c <= 102 THEN c - 87
             ELSE IF c >= 65 /\ c <= 70 THEN c - 55 ELSE -1
IsHex(c) == HexVal(c) >= 0
OnlyHex(cs) == SelectSeq(cs, IsHex)
\* nibbles, most significant first -> bytes, most significant first (a leading lone nibble is a byte)
RECURSIVE NibToBytesBE(_, _, _, _)
NibToBytesBE(h, n, i, acc) ==
   IF i > n THEN acc
   ELSE NibToBytesBE(h, n, i + 2, Append(acc, (16 * HexVal(h[i])) + HexVal(h[i + 1])))
HexBE(cs) == LET h == OnlyHex(cs)   n == Len(h)
             IN IF n % 2 = 0 THEN FromBytesBE(NibToBytesBE(h, n, 1, << >>))
                ELSE FromBytesBE(<< HexVal(h[1]) >> \o NibToBytesBE(SubSeq(h, 2, n), n - 1, 1, << >>))
\* "little-endian hex": byte pairs in memory order, each pair high nibble first (even number of nibbles)
HexLE(cs) == LET h == OnlyHex(cs) IN FromBytesLE(NibToBytesBE(h, Len(h), 1, << >>))

\* value of a signed digit string  sum xs[j] * 2^(j-1), j in 1..n : positive part (sgn = 1) / negative part (sgn = -1)
RECURSIVE CV(_, _, _, _, _)
CV(xs, n, base, t, sgn) ==
   IF t > 12 \/ base + t > n THEN 0
   ELSE LET d == sgn * xs[base + t] IN (IF d > 0 THEN d ELSE 0) + (2 * CV(xs, n, base, t + 1, sgn))
RECURSIVE Chunks(_, _, _, _, _)
Chunks(xs, n, c, sgn, acc) ==
   IF LB * c >= n THEN acc ELSE Chunks(xs, n, c + 1, sgn, Append(acc, CV(xs, n, (LB * c) + 1, 0, sgn)))
SignedPart(xs, n, sgn) == CarryNorm(Chunks(xs, n, 0, sgn, << >>))
\* the digit string xs[1..n] represents the natural v
Represents(xs, n, v) == SignedPart(xs, n, 1) = Add(SignedPart(xs, n, -1), v)
Abs(x) == IF x < 0 THEN 0 - x ELSE x

(* ---------------------------------------------------------------- arithmetic *)
JAdd(ev) == LET s == Add(ev.a, ev.b) IN VerdictCarry(ev, Fits(s, ev.w, ev.ca), s)
JSub(ev) == IF Cmp(ev.a, ev.b) >= 0 THEN VerdictCarry(ev, TRUE, Sub(ev.a, ev.b))
            ELSE VerdictCarry(ev, FALSE, << >>)
JMult(ev) ==
   LET p == XMul(ev.a, ev.b)
       flag == IF ~Fits(p, ev.w, ev.ca) THEN "must"
               ELSE IF ~IsZ(ev.a) /\ ~IsZ(ev.b) /\ Dg(ev.a, ev.w) + Dg(ev.b, ev.w) > ev.ca THEN "may" ELSE "ok"
   IN Verdict(ev, flag, p)
JMultDigit(ev) ==                     \* b is the digit
   LET p == XMul(ev.a, ev.b)
       flag == IF ~Fits(p, ev.w, ev.ca) THEN "must"
               ELSE IF IsZ(ev.a) \/ IsZ(ev.b) \/ ev.b = One THEN "ok"
               ELSE IF Dg(ev.a, ev.w) + 1 > ev.ca THEN "may" ELSE "ok"
   IN Verdict(ev, flag, p)

\* al: sep (rem = R)  nul (rem = NULL)  ra (rem = A)  rb (rem = B)  ab/abn/abr (A and B are one object)
JDiv(ev) ==
   IF IsZ(ev.b) THEN (IF ev.rc # 0 THEN "ok" ELSE "division-by-zero-accepted")
   ELSE LET w == ev.w
            qr == XDivMod(ev.a, ev.b)
            remcap == IF ev.al = "sep" \/ ev.al = "ab" THEN ev.cr ELSE ev.maxd
            flag == IF ~Fits(qr[2], w, remcap) THEN "must"
                    ELSE IF DivMayFail(ev.a, ev.b, w, ev.ca) THEN "may" ELSE "ok"
        IN IF ev.rc # 0 THEN (IF flag = "ok" THEN "error-not-allowed" ELSE "ok")
           ELSE IF flag = "must" THEN "success-but-result-cannot-fit"
           ELSE IF ev.nz # 1 THEN "denormalized-result"
           ELSE IF ev.al = "sep" \/ ev.al = "rb" \/ ev.al = "ab"
                THEN (IF Add(XMul(ev.r, ev.b), ev.r2) = ev.a /\ Lt(ev.r2, ev.b) THEN "ok" ELSE "success-with-wrong-value")
           ELSE IF ev.al = "nul" \/ ev.al = "abn"
                THEN (IF ev.r = qr[1] THEN "ok" ELSE "success-with-wrong-value")
           ELSE (IF ev.r = qr[2] THEN "ok" ELSE "success-with-wrong-value")      \* ra, abr: A holds the remainder

JLShift(ev) == IF ~IsZ(ev.a) /\ BitLen(ev.a) + ev.k > ev.w * ev.ca THEN "ok"       \* does not fit (decided without building the value)
               ELSE LET s == ShiftL(ev.a, ev.k)
               IN IF ~Fits(s, ev.w, ev.ca) THEN "ok"                    \* no error channel: unspecified
                  ELSE IF ev.r # s THEN "success-with-wrong-value"
                  ELSE IF ev.nz # 1 THEN "denormalized-result" ELSE "ok"
JRShift(ev) == IF ev.r # ShiftR(ev.a, ev.k) THEN "success-with-wrong-value"
               ELSE IF ev.nz # 1 THEN "denormalized-result" ELSE "ok"
JBitOp(ev, v) == Verdict(ev, (IF Fits(v, ev.w, ev.ca) THEN "ok" ELSE "must"), v)
JBitSet(ev) ==
   IF ev.k >= ev.w * ev.ca /\ Fits(ev.a, ev.w, ev.ca)       \* index beyond the capacity: decided without building 2^k
   THEN (IF ev.k2 # 0 THEN (IF ev.rc = 0 THEN "success-but-result-cannot-fit" ELSE "ok")
         ELSE Verdict(ev, "may", ev.a))
   ELSE
   LET v == IF ev.k2 # 0 THEN BitOr(ev.a, Pow2(ev.k))
            ELSE IF Bit(ev.a, ev.k) = 1 THEN Sub(ev.a, Pow2(ev.k)) ELSE ev.a
       flag == IF ~Fits(v, ev.w, ev.ca) THEN "must" ELSE IF (ev.k \div ev.w) >= ev.ca THEN "may" ELSE "ok"
   IN Verdict(ev, flag, v)

JGcd(ev, bin) ==
   LET g == XGcd(ev.a, ev.b)
       dcap == IF ev.al = "da" \/ ev.al = "all" THEN ev.ca ELSE IF ev.al = "db" THEN ev.cb ELSE ev.cr
       roomy == Dg(ev.a, ev.w) < ev.ca /\ Dg(ev.b, ev.w) < (IF ev.al = "ab" \/ ev.al = "all" THEN ev.ca ELSE ev.cb)
       flag == IF ~Fits(g, ev.w, dcap) THEN "must"
               ELSE IF bin \/ IsZ(ev.a) \/ IsZ(ev.b) \/ ev.a = ev.b \/ roomy THEN "ok" ELSE "may"
   IN Verdict(ev, flag, g)

JSqrt(ev) == Verdict(ev, (IF BitLen(ev.a) = ev.w * ev.ca THEN "may" ELSE "ok"), XISqrt(ev.a))

(* ---------------------------------------------------------------- modular layer (m >= 2 unless stated) *)
JMod(ev) == IF IsZ(ev.m) THEN (IF ev.rc # 0 THEN "ok" ELSE "division-by-zero-accepted")
            ELSE Verdict(ev, (IF DivMayFail(ev.a, ev.m, ev.w, ev.ca) THEN "may" ELSE "ok"), XMod(ev.a, ev.m))
\* operands reduced: a, b < m
JModAdd(ev) == LET s == Add(ev.a, ev.b)
               IN Verdict(ev, (IF Fits(s, ev.w, ev.ca) THEN "ok" ELSE "may"), XMod(s, ev.m))
JModSub(ev) == Verdict(ev, (IF Cmp(ev.a, ev.b) >= 0 \/ Fits(Add(ev.a, ev.m), ev.w, ev.ca) THEN "ok" ELSE "may"),
                       SubMod(ev.a, ev.b, ev.m))
JModMult(ev) ==
   IF IsZ(ev.m) THEN (IF ev.rc # 0 THEN "ok" ELSE "division-by-zero-accepted")
   ELSE LET p == XMul(ev.a, ev.b)
            flag == IF ~IsZ(p) /\ Dg(ev.a, ev.w) + Dg(ev.b, ev.w) > ev.ca THEN "may"
                    ELSE IF DivMayFail(p, ev.m, ev.w, ev.ca) THEN "may" ELSE "ok"
        IN Verdict(ev, flag, XMod(p, ev.m))
JModExp(ev) ==                       \* a < m, exponent b
   LET flag == IF ev.ca < ev.cm THEN "may"
               ELSE IF ev.b = One THEN "ok"                        \* (a zero exponent takes the general path)
               ELSE IF 2 * Dg(ev.m, ev.w) <= ev.ca THEN "ok" ELSE "may"
   IN Verdict(ev, flag, XModExp(ev.a, ev.b, ev.m))
JModInv(ev) ==
   LET dom  == ~IsZ(ev.a) /\ ~IsZ(ev.m) /\ Lt(ev.a, ev.m)
       inv  == ~IsZ(ev.a) /\ ~IsZ(ev.m) /\ XGcd(ev.a, ev.m) = One
       room == 4 + Max2(Dg(ev.a, ev.w), Dg(ev.m, ev.w)) <= ev.maxd /\ ev.ca >= Dg(ev.m, ev.w)
   IN IF ev.rc = 0
      THEN (IF ~inv THEN "inverse-of-non-invertible"
            ELSE IF ~(Lt(ev.r, ev.m) /\ XMulMod(ev.r, ev.a, ev.m) = XMod(One, ev.m)) THEN "success-with-wrong-value"
            ELSE IF ev.nz # 1 THEN "denormalized-result" ELSE "ok")
      ELSE (IF inv /\ dom /\ room /\ IsOdd(ev.m) THEN "error-not-allowed" ELSE "ok")   \* binary inversion: an even modulus may be refused
\* m an odd prime (or even: must be refused); any a.  Odd moduli that fail a Fermat test are outside the
\* documented domain ("m - odd prime") and nothing is demanded for them.
FermatOk(m) == \A g \in {2, 3, 5, 7} : IsZ(XMod(FromInt(g), m)) \/ XModExp(FromInt(g), Sub(m, One), m) = One
JModSqrt(ev) ==
   IF ~IsOdd(ev.m) THEN (IF ev.rc # 0 THEN "ok" ELSE "even-modulus-accepted")
   ELSE IF ev.m = One \/ ~FermatOk(ev.m) THEN "ok"
   ELSE LET w == ev.w
            a1 == XMod(ev.a, ev.m)
            half == ShiftR(Sub(ev.m, One), 1)
            qr == IsZ(a1) \/ XModExp(a1, half, ev.m) = One
            room == /\ ev.ca >= ev.cm /\ 2 * Dg(ev.m, w) <= ev.ca
                    /\ 4 + Dg(ev.m, w) <= ev.maxd /\ 1 + (2 * Dg(ev.m, w)) <= ev.maxd
                    /\ (Lt(ev.a, ev.m) \/ Dg(ev.a, w) < ev.ca)
        IN IF ev.rc = 0
           THEN (IF ~qr THEN "root-of-non-residue"
                 ELSE IF ~(Lt(ev.r, ev.m) /\ XMulMod(ev.r, ev.r, ev.m) = a1) THEN "success-with-wrong-value"
                 ELSE IF ev.nz # 1 THEN "denormalized-result" ELSE "ok")
           ELSE IF ev.rc = -1 THEN (IF qr THEN "no-root-reported-for-residue" ELSE "ok")
           ELSE (IF room THEN "error-not-allowed" ELSE "ok")
JModReduce(ev) ==
   IF Lt(ev.a, ev.m) THEN Verdict(ev, "ok", ev.a)
   ELSE LET m1 == Sub(ev.m, One)
        IN Verdict(ev, (IF DivMayFail(ev.a, m1, ev.w, ev.ca) THEN "may" ELSE "ok"), Add(XMod(ev.a, m1), One))

(* ---------------------------------------------------------------- scalar-argument entry points *)
\* bn_mod_mult_digit: (a * d) mod m, d = b one digit; the product is an intermediate of declared capacity ca
JModMultDigit(ev) ==
   IF IsZ(ev.m) THEN (IF ev.rc # 0 THEN "ok" ELSE "division-by-zero-accepted")
   ELSE LET p == XMul(ev.a, ev.b)
            flag == IF ~Fits(p, ev.w, ev.ca) THEN "may"
                    ELSE IF ~(IsZ(ev.a) \/ IsZ(ev.b) \/ ev.b = One) /\ Dg(ev.a, ev.w) + 1 > ev.ca THEN "may"
                    ELSE IF DivMayFail(p, ev.m, ev.w, ev.ca) THEN "may" ELSE "ok"
        IN Verdict(ev, flag, XMod(p, ev.m))
\* bn_mod_exp_digit: a^e mod m, a < m, e = b a machine word (size_t)
JModExpDigit(ev) ==
   LET flag == IF ev.ca < ev.cm \/ 2 * Dg(ev.a, ev.w) > ev.ca THEN "may"
               ELSE IF IsZ(ev.b) \/ ev.b = One THEN "ok"
               ELSE IF 2 * Dg(ev.m, ev.w) <= ev.ca THEN "ok" ELSE "may"
   IN Verdict(ev, flag, XModExp(ev.a, ev.b, ev.m))
\* bn_exp_digit: a^e, e = b one digit.  The power is only evaluated when it can fit the declared capacity
\* (then e <= w * ca is a small native integer); the implementation squares its running base once more than
\* needed and pre-checks digits * e against the capacity, so success is only demanded with that much room.
RECURSIVE PowNat(_, _)
PowNat(a, e) == IF e = 0 THEN One
                ELSE IF e % 2 = 1 THEN XMul(a, PowNat(a, e - 1))
                ELSE LET h == PowNat(a, e \div 2) IN XMul(h, h)
JExpDigit(ev) ==
   LET a == ev.a   e == ev.b   w == ev.w
       trivial == IsZ(e) \/ e = One \/ IsZ(a) \/ a = One
       canfit  == trivial \/ (BitLen(e) <= 11 /\ (BitLen(a) - 1) * ToInt(e) < w * ev.ca)
       val     == IF IsZ(e) THEN One ELSE IF trivial THEN a ELSE PowNat(a, ToInt(e))
       flag    == IF ~canfit THEN "must"
                  ELSE IF ~Fits(val, w, ev.ca) THEN "must"
                  ELSE IF IsZ(e) \/ e = One \/ IsZ(a) THEN "ok"
                  ELSE IF BitLen(e) <= 10 /\ Dg(a, w) * (2^BitLen(e)) <= ev.ca THEN "ok" ELSE "may"
   IN IF flag = "must" THEN (IF ev.rc = 0 THEN "success-but-result-cannot-fit" ELSE "ok")
      ELSE Verdict(ev, flag, val)
JAssign2Exp(ev) == IF ev.k >= ev.w * ev.ca THEN (IF ev.rc = 0 THEN "success-but-result-cannot-fit" ELSE "ok")
                   ELSE Verdict(ev, "ok", Pow2(ev.k))

(* ---------------------------------------------------------------- recoding *)
\* width-k NAF: xs[1..arrsz] (arrsz = k2), n = reported length
JNaf(ev) ==
   LET L == BitLen(ev.a)   wnd == ev.k   sz == ev.k2   n == ev.n   xs == ev.xs
   IN IF wnd < 2 THEN (IF ev.rc # 0 THEN "ok" ELSE "bad-window-accepted")
      ELSE IF ev.rc # 0 THEN (IF sz >= L + 1 THEN "error-not-allowed" ELSE "ok")
      ELSE IF n > sz \/ Len(xs) # sz THEN "length-exceeds-array"
      ELSE IF ~Represents(xs, n, ev.a) THEN "digits-do-not-reconstruct-scalar"
      ELSE IF \E j \in 1..n : xs[j] # 0 /\ (xs[j] % 2 = 0 \/ Abs(xs[j]) >= 2^(wnd - 1)) THEN "digit-out-of-range"
      ELSE IF \E j \in 1..n : xs[j] # 0 /\ \E t \in 1..(wnd - 1) : j + t <= n /\ xs[j + t] # 0 THEN "non-adjacency-broken"
      ELSE IF \E j \in (n + 1)..sz : xs[j] # 0 THEN "tail-not-cleared"
      ELSE "ok"
\* JSF: xs = row of a (n entries) followed by row of b (n entries)
JJsf(ev) ==
   LET off == Max2(BitLen(ev.a), BitLen(ev.b)) + 1   n == ev.n   xs == ev.xs
       u0 == SubSeq(xs, 1, n)   u1 == SubSeq(xs, n + 1, 2 * n)
       col0(j) == j > n \/ (u0[j] = 0 /\ u1[j] = 0)
   IN IF ev.rc # 0 THEN (IF ev.k2 >= 2 * off THEN "error-not-allowed" ELSE "ok")
      ELSE IF Len(xs) # 2 * n \/ n > off THEN "length-exceeds-array"
      ELSE IF \E j \in 1..(2 * n) : xs[j] \notin {-1, 0, 1} THEN "digit-out-of-range"
      ELSE IF ~Represents(u0, n, ev.a) \/ ~Represents(u1, n, ev.b) THEN "digits-do-not-reconstruct-scalar"
      ELSE IF \E j \in 1..n : ~(col0(j) \/ col0(j + 1) \/ col0(j + 2)) THEN "joint-sparsity-broken"
      ELSE "ok"

(* ---------------------------------------------------------------- import / export *)
JImport(ev, v, nbytes) ==            \* nbytes: what the size pre-check looks at
   LET capb == (ev.ca * ev.w) \div 8
       flag == IF ~Fits(v, ev.w, ev.ca) THEN "must" ELSE IF Len(ev.xin) = 0 \/ nbytes > capb THEN "may" ELSE "ok"
   IN Verdict(ev, flag, v)
\* exported image xs[1..n] decoded by dec must be the value; k = buffer size, k2 = flags (1 = AUTO_SIZE)
JExport(ev, need, coarse, decoded, fixedn, kmin) ==
   LET flag == IF need > ev.k THEN "must" ELSE IF ev.k < kmin \/ coarse > ev.k THEN "may" ELSE "ok"
   IN IF ev.rc # 0 THEN (IF flag = "ok" THEN "error-not-allowed" ELSE "ok")
      ELSE IF flag = "must" THEN "success-but-result-cannot-fit"
      ELSE IF ev.n > ev.k \/ Len(ev.xs) # ev.n THEN "reported-size-exceeds-buffer"
      ELSE IF decoded # ev.a THEN "success-with-wrong-value"
      ELSE IF ev.k2 = 0 /\ ev.n # fixedn THEN "fixed-size-export-not-padded"
      ELSE "ok"
AllHex(cs) == \A j \in 1..Len(cs) : IsHex(cs[j])

(* ---------------------------------------------------------------- dispatch *)
Judge(ev) ==
   LET op == ev.op   w == ev.w IN
   CASE op = "add"        -> JAdd(ev)
     [] op = "sub"        -> JSub(ev)
     [] op = "add_digit"  -> JAdd(ev)
     [] op = "sub_digit"  -> JSub(ev)
     [] op = "mult"       -> JMult(ev)
     [] op = "square"     -> JMult(ev)
     [] op = "mult_digit" -> JMultDigit(ev)
     [] op = "div"        -> JDiv(ev)
     [] op = "digit_mult" -> IF ev.r = XMul(ev.a, ev.b) THEN "ok" ELSE "success-with-wrong-value"       \* a, b < 2^w; r = hi:lo
     [] op = "digit_div"  -> IF IsZ(ev.b) THEN (IF ev.rc # 0 THEN "ok" ELSE "division-by-zero-accepted")   \* a < 2^(2w), b < 2^w
                             ELSE IF ev.rc # 0 THEN "error-not-allowed"
                             ELSE IF << ev.r, ev.r2 >> = XDivMod(ev.a, ev.b) THEN "ok" ELSE "success-with-wrong-value"
     [] op = "l_shift"    -> JLShift(ev)
     [] op = "r_shift"    -> JRShift(ev)
     [] op = "and"        -> JBitOp(ev, BitAnd(ev.a, ev.b))
     [] op = "or"         -> JBitOp(ev, BitOr(ev.a, ev.b))
     [] op = "xor"        -> JBitOp(ev, BitXor(ev.a, ev.b))
     [] op = "bit_set"    -> JBitSet(ev)
     [] op = "is_bit_set" -> IntIs(ev, Bit(ev.a, ev.k))
     [] op = "cmp"        -> IntIs(ev, Cmp(ev.a, ev.b))
     [] op = "is_equal"   -> IntIs(ev, B2I(ev.a = ev.b))
     [] op = "is_zero"    -> IntIs(ev, B2I(IsZ(ev.a)))
     [] op = "is_one"     -> IntIs(ev, B2I(ev.a = One))
     [] op = "is_odd"     -> IntIs(ev, B2I(IsOdd(ev.a)))
     [] op = "is_even"    -> IF IsZ(ev.a) THEN "ok" ELSE IntIs(ev, B2I(~IsOdd(ev.a)))
     [] op = "is_pow2"    -> IntIs(ev, B2I(~IsZ(ev.a) /\ ev.a = Pow2(BitLen(ev.a) - 1)))
     [] op = "ctz"        -> IF IsZ(ev.a) THEN "ok" ELSE IntIs(ev, TrailingZeros(ev.a))
     [] op = "clz"        -> IF IsZ(ev.a) THEN "ok" ELSE IntIs(ev, (ev.ca * w) - BitLen(ev.a))
     [] op = "calc_bits"  -> IntIs(ev, BitLen(ev.a))
     [] op = "assign"     -> Verdict(ev, (IF Fits(ev.a, w, ev.cr) THEN "ok" ELSE "must"), ev.a)
     [] op = "gcd"        -> JGcd(ev, FALSE)
     [] op = "gcd_bin"    -> JGcd(ev, TRUE)
     [] op = "sqrt"       -> JSqrt(ev)
     [] op = "mod"        -> JMod(ev)
     [] op = "mod_add"    -> JModAdd(ev)
     [] op = "mod_sub"    -> JModSub(ev)
     [] op = "mod_mult"   -> JModMult(ev)
     [] op = "mod_square" -> JModMult(ev)
     [] op = "mod_exp"    -> JModExp(ev)
     [] op = "mod_inv"    -> JModInv(ev)
     [] op = "mod_sqrt"   -> JModSqrt(ev)
     [] op = "mod_reduce" -> JModReduce(ev)
     [] op = "mod_mult_digit" -> JModMultDigit(ev)
     [] op = "mod_exp_digit"  -> JModExpDigit(ev)
     [] op = "exp_digit"      -> JExpDigit(ev)
     [] op = "assign_digit"   -> IF ev.rc # 0 THEN "error-not-allowed"                                     \* b is the digit
                                 ELSE IF ev.r # ev.b THEN "success-with-wrong-value" ELSE "ok"
     [] op = "assign_2exp"    -> JAssign2Exp(ev)
     [] op = "digit_ctz"      -> IF IsZ(ev.a) THEN "ok" ELSE IntIs(ev, TrailingZeros(ev.a))                 \* a < 2^w
     [] op = "digit_clz"      -> IF IsZ(ev.a) THEN "ok" ELSE IntIs(ev, w - BitLen(ev.a))
     [] op = "digit_gcd"      -> IF ev.r = XGcd(ev.a, ev.b) THEN "ok" ELSE "success-with-wrong-value"       \* a, b < 2^w
     [] op = "digit_gcd_bin"  -> IF ev.r = XGcd(ev.a, ev.b) THEN "ok" ELSE "success-with-wrong-value"
     [] op = "naf"        -> JNaf(ev)
     [] op = "jsf"        -> JJsf(ev)
     [] op = "imp_be_bin" -> JImport(ev, FromBytesBE(ev.xin), Len(ev.xin))
     [] op = "imp_le_bin" -> JImport(ev, FromBytesLE(ev.xin), Len(ev.xin))
     [] op = "imp_be_hex" -> JImport(ev, HexBE(ev.xin), Len(ev.xin) \div 2)
     [] op = "imp_le_hex" -> JImport(ev, HexLE(ev.xin), Len(ev.xin) \div 2)
     [] op = "exp_be_bin" -> JExport(ev, Max2(NBytes(ev.a), 1), 0, FromBytesBE(ev.xs), ev.k, 1)
     [] op = "exp_le_bin" -> JExport(ev, NBytes(ev.a), (Dg(ev.a, w) * w) \div 8, FromBytesLE(ev.xs), ev.k, 1)
     [] op = "exp_be_hex" -> IF ev.rc = 0 /\ ~AllHex(ev.xs) THEN "non-hex-output"
                             ELSE JExport(ev, 2 * NBytes(ev.a), 0, HexBE(ev.xs), 2 * (ev.k \div 2), 2)
     [] op = "exp_le_hex" -> IF ev.rc = 0 /\ (~AllHex(ev.xs) \/ Len(ev.xs) % 2 = 1) THEN "non-hex-output"
                             ELSE JExport(ev, 2 * NBytes(ev.a), (Dg(ev.a, w) * w) \div 4, HexLE(ev.xs), 2 * (ev.k \div 2), 2)
     [] OTHER -> "unknown-op"

\* input class of a rejected call - keeps known findings narrow
Shape(ev) ==
   LET op == ev.op IN
   CASE op = "and" -> IF Dg(ev.a, ev.w) >= Dg(ev.b, ev.w) + 2 THEN "n-two-or-more-digits-shorter" ELSE ev.al
     [] op = "digit_div" -> IF ~IsZ(ev.b) /\ ev.b = Pow2(BitLen(ev.b) - 1) THEN (IF Dg(ev.a, ev.w) > 1 THEN "power-of-two-divisor,two-digit-dividend" ELSE "power-of-two-divisor") ELSE "other-divisor"
     [] op = "sqrt" -> IF IsZ(ev.a) THEN "a=0" ELSE IF BitLen(ev.a) % 2 = 1 THEN "odd-bit-length" ELSE "even-bit-length"
     [] op = "mult_digit" -> IF ev.b = << 2 >> THEN "d=2" ELSE IF ev.b = << 3 >> THEN "d=3" ELSE "d>3"
     [] op \in {"gcd", "gcd_bin"} -> IF Fits(XGcd(ev.a, ev.b), ev.w, (IF ev.al \in {"da", "all"} THEN ev.ca ELSE IF ev.al = "db" THEN ev.cb ELSE ev.cr))
                                     THEN ev.al ELSE "result-exceeds-declared-capacity"
     [] op = "mod_add" -> IF Fits(Add(ev.a, ev.b), ev.w, ev.ca) THEN "sum-fits" ELSE "sum-exceeds-capacity"
     [] op = "is_bit_set" -> IF IsZ(ev.a) THEN "a=0" ELSE "a>0"
     [] op = "naf" -> IF ev.k < 2 THEN "bad-window" ELSE IF Fits(Add(ev.a, Pow2(ev.k - 1)), ev.w, ev.ca) THEN "headroom" ELSE "a+2^(w-1)-exceeds-capacity"
     [] op = "jsf" -> IF IsZ(ev.a) \/ IsZ(ev.b) THEN "zero-operand" ELSE "nonzero"
     [] op = "mod_inv" -> IF IsZ(ev.m) \/ XGcd(ev.a, ev.m) # One THEN "not-invertible" ELSE IF IsOdd(ev.m) THEN "odd-modulus" ELSE "even-modulus"
     [] op = "mod_sqrt" -> IF ~IsOdd(ev.m) THEN "even-modulus" ELSE IF Bit(ev.m, 1) = 1 THEN "m%4=3" ELSE IF Bit(ev.m, 2) = 1 THEN "m%8=5" ELSE "m%8=1"
     [] op = "l_shift" -> IF ev.k >= ev.w * ev.ca THEN "bits>=capacity" ELSE "bits<capacity"
     [] op = "r_shift" -> IF ev.k > ev.w * Dg(ev.a, ev.w) THEN "bits>length" ELSE "bits<=length"
     [] op = "imp_be_hex" -> IF Len(OnlyHex(ev.xin)) % 2 = 1 THEN "odd-nibbles" ELSE "even-nibbles"
     [] op = "exp_le_bin" -> IF (Dg(ev.a, ev.w) * ev.w) \div 8 > ev.k THEN "partial-top-digit" ELSE "whole-digits"
     [] OTHER -> ev.al
=============================================================================
