-------------------------------- MODULE GenBn --------------------------------
(* Generator for the exhaustive small-domain half of C01 (8-bit digits).  A state is one operand tuple
   (a, b, m) of native integers below 2^24; the reachable states ARE the corpus: every value whose three
   bytes come from the boundary digit sets, plus seeded extra values, crossed with the moduli.  For every
   state TLC checks the reference arithmetic itself against TLC's native integers (the invariants below),
   so BigNat/BnOps are validated on exactly the operands the implementation is later judged on.
   One JSON line per state is emitted for the conformance driver (rig/checks/c01.py expands it into calls
   over the capacity/aliasing table; outcomes are judged by TraceBn). *)
EXTENDS BnOps, Json
CONSTANTS DigsA, DigsB, NDigA, NDigB, ExtraA, ExtraB, Mods, Primes
VARIABLES a, b, m

ValsOf(D, n) == { d0 + (256 * d1) + (65536 * d2) :
                    d0 \in D, d1 \in (IF n >= 2 THEN D ELSE {0}), d2 \in (IF n >= 3 THEN D ELSE {0}) }
IsPrime(p) == p > 1 /\ \A d \in 2..4096 : (d * d > p) \/ (p % d # 0)      \* p < 2^24
ASSUME \A p \in Primes : p < 16777216 /\ IsPrime(p)
ASSUME Primes \subseteq Mods

Init == /\ a \in ValsOf(DigsA, NDigA) \cup ExtraA
        /\ b \in ValsOf(DigsB, NDigB) \cup ExtraB
        /\ m \in Mods
Next == UNCHANGED << a, b, m >>

A  == FromInt(a)
Bb == FromInt(b)
Mm == FromInt(m)

RECURSIVE NGcd(_, _)
NGcd(x, y) == IF y = 0 THEN x ELSE NGcd(y, x % y)
RECURSIVE NPow(_, _, _)
NPow(x, e, q) == IF e = 0 THEN 1 % q ELSE (NPow(x, e - 1, q) * (x % q)) % q       \* q < 46341
RECURSIVE Bits24(_, _, _)
Bits24(x, i, acc) == IF i = 24 THEN acc ELSE Bits24(x \div 2, i + 1, Append(acc, x % 2))
RECURSIVE BytesLE(_, _)
BytesLE(x, n) == IF n = 0 THEN << >> ELSE << x % 256 >> \o BytesLE(x \div 256, n - 1)
RECURSIVE DiffSeq(_, _, _, _)
DiffSeq(s, t, i, acc) == IF i > Len(s) THEN acc ELSE DiffSeq(s, t, i + 1, Append(acc, s[i] - t[i]))
HexChar(v) == IF v < 10 THEN 48 + v ELSE 87 + v

RoundTrip == IsNat(A) /\ ToInt(A) = a /\ BitLen(A) = (CHOOSE k \in 0..24 : (IF k = 0 THEN a = 0 ELSE 2^(k - 1) <= a /\ a < 2^k))
AddSubOk  == /\ ToInt(Add(A, Bb)) = a + b
             /\ (a >= b => ToInt(Sub(A, Bb)) = a - b)
             /\ Cmp(A, Bb) = (IF a > b THEN 1 ELSE IF a < b THEN -1 ELSE 0)
\* the product is below 2^48 and is pinned down by its residues modulo four coprime 15/16-bit numbers
MulOk     == /\ \A p \in {8191, 32749, 46337, 46327} :
                   ToInt(Mod(Mul(A, Bb), FromInt(p))) = ((a % p) * (b % p)) % p
             /\ Mul(A, Bb) = Mul(Bb, A) /\ IsNat(Mul(A, Bb))
             /\ MulSmall(A, b % 65536) = Mul(A, FromInt(b % 65536))
DivOk     == b > 0 =>
             /\ DivMod(A, Bb) = << FromInt(a \div b), FromInt(a % b) >>
             /\ LET P == Mul(Mul(A, A), Bb)                      \* longer dividends: Algorithm D proper
                IN /\ DivMod(Add(P, FromInt(b - 1)), Bb) = << Mul(A, A), FromInt(b - 1) >>
                   /\ (a > 0 => DivMod(Add(P, FromInt(a - 1)), Mul(A, Bb)) = << A, FromInt(a - 1) >>)
ShiftOk   == \A k \in {0, 1, 7, 8, 12, 13, 14, 26, 27} :
             /\ ToInt(ShiftR(A, k)) = (IF k > 24 THEN 0 ELSE a \div (2^k))
             /\ ShiftL(A, k) = Mul(A, Pow2(k)) /\ ShiftR(ShiftL(A, k), k) = A
             /\ LowBits(A, k) = Sub(A, ShiftL(ShiftR(A, k), k))
             /\ Bit(A, k) = (IF k > 24 THEN 0 ELSE (a \div (2^k)) % 2)
BitOpOk   == /\ ToInt(BitAnd(A, Bb)) = (a & b) /\ ToInt(BitOr(A, Bb)) = (a | b) /\ ToInt(BitXor(A, Bb)) = (a ^^ b)
             /\ (a > 0 => LET z == TrailingZeros(A) IN a % (2^z) = 0 /\ (a \div (2^z)) % 2 = 1)
GcdSqrtOk == /\ ToInt(Gcd(A, Bb)) = NGcd(a, b)
             /\ LET s == ToInt(ISqrt(A)) IN s * s <= a /\ (s + 1) * (s + 1) > a
ModExpOk  == (m > 1 /\ m < 46341) =>
             /\ ToInt(ModExp(A, FromInt(b % 37), Mm)) = NPow(a, b % 37, m)
             /\ ToInt(SubMod(A, Bb, Mm)) = (((a % m) + m) - (b % m)) % m
             /\ ToInt(AddMod(A, Bb, Mm)) = ((a % m) + (b % m)) % m
CodecOk   == /\ FromBytesLE(BytesLE(a, 3)) = A /\ FromBytesBE(Reverse(BytesLE(a, 5))) = A
             /\ HexBE(<< HexChar((a \div 1048576) % 16), HexChar((a \div 65536) % 16), 58, HexChar((a \div 4096) % 16),
                         HexChar((a \div 256) % 16), HexChar((a \div 16) % 16), HexChar(a % 16) >>) = A
             /\ NBytes(A) = (CHOOSE k \in 0..3 : (IF k = 0 THEN a = 0 ELSE 256^(k - 1) <= a /\ a < 256^k))
             /\ Represents(Bits24(a, 0, << >>), 24, A)
             /\ (a >= b => Represents(DiffSeq(Bits24(a, 0, << >>), Bits24(b, 0, << >>), 1, << >>), 24, FromInt(a - b)))
             /\ (a < b => ~Represents(DiffSeq(Bits24(a, 0, << >>), Bits24(b, 0, << >>), 1, << >>), 24, FromInt(b - a)) \/ a = b)
NBL(x) == CHOOSE k \in 0..24 : (IF k = 0 THEN x = 0 ELSE 2^(k - 1) <= x /\ x < 2^k)      \* native bit length
DigitOk   == /\ Dg(A, 8) = NBytes(A) /\ Dg(A, 16) = (NBytes(A) + 1) \div 2 /\ Dg(A, 32) = (IF a = 0 THEN 0 ELSE 1)
             /\ (a > 0 => TopClz(A, 8) = 8 - NBL(a \div (256^(NBytes(A) - 1))))
             /\ (a > 0 => TopClz(A, 32) = 32 - NBL(a))

Emit == PrintT(ToJson([a |-> a, b |-> b, m |-> m, pr |-> (m \in Primes)]))
=============================================================================
