------------------------------- MODULE BigNat -------------------------------
(* Exact natural numbers of arbitrary size for TLC (TLC integers are 32-bit).

   REPRESENTATION  a natural is a tuple of limbs, least significant first, base B = 2^13 = 8192,
   every limb in 0..8191, no most-significant zero limb; zero is << >>.  (13 bits: a product of two
   limbs plus carries stays far below 2^31, so every intermediate is a native TLC integer.)
   Two naturals are equal iff the tuples are equal (=).

   INTERFACE (everything else in this file is a helper)
     Zero, One, IsNat(x), Norm(s)            well-formedness / strip high zero limbs
     FromInt(n), ToInt(x)                    native <-> limbs (ToInt needs x < 2^31)
     Cmp(a,b) \in {-1,0,1}, Lt, Le, Eq
     Add(a,b)  Sub(a,b) [needs a >= b]  Mul(a,b)  MulSmall(a,k) [0 <= k < 2^17]
     DivMod(a,b) = <<quotient, remainder>> [needs b # Zero]   Div(a,b)  Mod(a,b)
     ShiftL(a,k)  ShiftR(a,k)  Pow2(k)  LowBits(a,k) [a mod 2^k]
     BitLen(a)  Bit(a,i) [i from 0]  IsOdd(a)  TrailingZeros(a) [a # Zero]
     BitAnd(a,b)  BitOr(a,b)  BitXor(a,b)
     AddMod(a,b,m) SubMod(a,b,m) MulMod(a,b,m) ModExp(a,e,m) [m # Zero]   Gcd(a,b)   ISqrt(a)
   All operators are total on well-formed arguments within the stated preconditions and return
   well-formed naturals.  TLC notes: sequences are built with << >>/Append/SubSeq/\o (never lazy
   function constructors); lengths are taken once and passed down; deep recursion (ModExp over the
   exponent bits, long operands) wants  java -Xss64m .

   The module BigNatX re-exports the five expensive operators (Mul, DivMod, ModExp, Gcd, ISqrt) under
   X-names that a java.math.BigInteger class may override; the definitions here stay the authority. *)
EXTENDS Integers, Sequences, Bitwise

LB == 13
B  == 8192

Zero == << >>
One  == << 1 >>

IsNat(x) == /\ \A i \in 1..Len(x) : x[i] \in 0..(B - 1)
            /\ (Len(x) > 0 => x[Len(x)] # 0)

RECURSIVE NormN(_, _)
NormN(s, n) == IF n > 0 /\ s[n] = 0 THEN NormN(s, n - 1) ELSE SubSeq(s, 1, n)
Norm(s) == NormN(s, Len(s))

RECURSIVE FromInt(_)
FromInt(n) == IF n = 0 THEN << >> ELSE << n % B >> \o FromInt(n \div B)

RECURSIVE ToIntAt(_, _, _)
ToIntAt(x, i, n) == IF i > n THEN 0 ELSE x[i] + B * ToIntAt(x, i + 1, n)
ToInt(x) == ToIntAt(x, 1, Len(x))

RECURSIVE CmpAt(_, _, _)
CmpAt(a, b, i) == IF i = 0 THEN 0
                  ELSE IF a[i] > b[i] THEN 1 ELSE IF a[i] < b[i] THEN -1 ELSE CmpAt(a, b, i - 1)
Cmp(a, b) == LET la == Len(a)  lb == Len(b)
             IN IF la > lb THEN 1 ELSE IF la < lb THEN -1 ELSE CmpAt(a, b, la)
Lt(a, b) == Cmp(a, b) < 0
Le(a, b) == Cmp(a, b) <= 0
Eq(a, b) == a = b

(* ---------------------------------------------------------------- add / sub *)
RECURSIVE AddR(_, _, _, _, _, _, _)
AddR(a, b, la, lb, i, c, acc) ==
   IF i > la /\ i > lb THEN (IF c = 0 THEN acc ELSE Append(acc, c))
   ELSE LET t == (IF i <= la THEN a[i] ELSE 0) + (IF i <= lb THEN b[i] ELSE 0) + c
        IN AddR(a, b, la, lb, i + 1, t \div B, Append(acc, t % B))
Add(a, b) == AddR(a, b, Len(a), Len(b), 1, 0, << >>)

RECURSIVE SubR(_, _, _, _, _, _, _)
SubR(a, b, la, lb, i, br, acc) ==          \* precondition a >= b
   IF i > la THEN acc
   ELSE LET t == a[i] - (IF i <= lb THEN b[i] ELSE 0) - br
        IN IF t < 0 THEN SubR(a, b, la, lb, i + 1, 1, Append(acc, t + B))
                    ELSE SubR(a, b, la, lb, i + 1, 0, Append(acc, t))
Sub(a, b) == Norm(SubR(a, b, Len(a), Len(b), 1, 0, << >>))

(* ---------------------------------------------------------------- multiply *)
\* column sums kept as separate low/high 13-bit halves so that long operands cannot overflow 2^31
RECURSIVE ColSum(_, _, _, _, _, _, _)
ColSum(a, b, k, i, imax, lo, hi) ==
   IF i > imax THEN << lo, hi >>
   ELSE LET p == a[i] * b[k - i + 1]
        IN ColSum(a, b, k, i + 1, imax, lo + (p % B), hi + (p \div B))

RECURSIVE MulR(_, _, _, _, _, _, _, _)
MulR(a, b, la, lb, k, prevhi, c, acc) ==
   IF k > la + lb THEN acc
   ELSE LET cs == IF k < la + lb
                  THEN ColSum(a, b, k, (IF k > lb THEN k - lb + 1 ELSE 1), (IF k < la THEN k ELSE la), 0, 0)
                  ELSE << 0, 0 >>
            t  == cs[1] + prevhi + c
        IN MulR(a, b, la, lb, k + 1, cs[2], t \div B, Append(acc, t % B))
Mul(a, b) == IF Len(a) = 0 \/ Len(b) = 0 THEN << >>
             ELSE Norm(MulR(a, b, Len(a), Len(b), 1, 0, 0, << >>))

RECURSIVE MulSmallR(_, _, _, _, _, _)
MulSmallR(a, la, k, i, c, acc) ==
   IF i > la THEN (IF c = 0 THEN acc ELSE IF c < B THEN Append(acc, c)
                                        ELSE Append(Append(acc, c % B), c \div B))
   ELSE LET t == a[i] * k + c IN MulSmallR(a, la, k, i + 1, t \div B, Append(acc, t % B))
MulSmall(a, k) == IF k = 0 THEN << >> ELSE MulSmallR(a, Len(a), k, 1, 0, << >>)

(* ---------------------------------------------------------------- shifts, bits *)
RECURSIVE Zeros(_)
Zeros(n) == IF n = 0 THEN << >> ELSE Append(Zeros(n - 1), 0)

RECURSIVE ShlR(_, _, _, _, _, _, _)
ShlR(a, la, s, up, i, c, acc) ==      \* s in 1..12, up = 2^(13-s)
   IF i > la THEN (IF c = 0 THEN acc ELSE Append(acc, c))
   ELSE ShlR(a, la, s, up, i + 1, a[i] \div up, Append(acc, ((a[i] % up) * (2^s)) + c))
ShiftL(a, k) == IF Len(a) = 0 THEN << >>
                ELSE LET s == k % LB
                     IN Zeros(k \div LB) \o (IF s = 0 THEN a ELSE ShlR(a, Len(a), s, 2^(LB - s), 1, 0, << >>))

RECURSIVE ShrR(_, _, _, _, _, _, _)
ShrR(a, la, s, dn, up, i, acc) ==     \* s in 1..12, dn = 2^s, up = 2^(13-s)
   IF i > la THEN acc
   ELSE ShrR(a, la, s, dn, up, i + 1,
             Append(acc, (a[i] \div dn) + (IF i < la THEN (a[i + 1] % dn) * up ELSE 0)))
ShiftR(a, k) == LET q == k \div LB   s == k % LB   la == Len(a)
                IN IF q >= la THEN << >>
                   ELSE LET t == SubSeq(a, q + 1, la)
                        IN IF s = 0 THEN t ELSE Norm(ShrR(t, la - q, s, 2^s, 2^(LB - s), 1, << >>))

Pow2(k) == Append(Zeros(k \div LB), 2^(k % LB))

RECURSIVE BL(_)
BL(x) == IF x = 0 THEN 0 ELSE 1 + BL(x \div 2)            \* bit length of a limb
BitLen(a) == IF Len(a) = 0 THEN 0 ELSE LB * (Len(a) - 1) + BL(a[Len(a)])
Bit(a, i) == LET q == (i \div LB) + 1 IN IF q > Len(a) THEN 0 ELSE (a[q] \div (2^(i % LB))) % 2
IsOdd(a) == Len(a) > 0 /\ a[1] % 2 = 1
LowBits(a, k) == LET q == k \div LB   s == k % LB
                 IN IF q >= Len(a) THEN a
                    ELSE Norm(IF s = 0 THEN SubSeq(a, 1, q) ELSE Append(SubSeq(a, 1, q), a[q + 1] % (2^s)))
RECURSIVE TzLimb(_)
TzLimb(x) == IF x % 2 = 1 THEN 0 ELSE 1 + TzLimb(x \div 2)
RECURSIVE TzR(_, _)
TzR(a, i) == IF a[i] = 0 THEN LB + TzR(a, i + 1) ELSE TzLimb(a[i])
TrailingZeros(a) == TzR(a, 1)                               \* precondition a # Zero

LOp(o, x, y) == IF o = 1 THEN x & y ELSE IF o = 2 THEN x | y ELSE x ^^ y
RECURSIVE BitOpR(_, _, _, _, _, _, _, _)
BitOpR(o, a, b, la, lb, n, i, acc) ==
   IF i > n THEN acc
   ELSE BitOpR(o, a, b, la, lb, n, i + 1,
               Append(acc, LOp(o, (IF i <= la THEN a[i] ELSE 0), (IF i <= lb THEN b[i] ELSE 0))))
BitOp(o, a, b) == LET la == Len(a)  lb == Len(b)
                  IN Norm(BitOpR(o, a, b, la, lb, (IF la > lb THEN la ELSE lb), 1, << >>))
BitAnd(a, b) == BitOp(1, a, b)
BitOr(a, b)  == BitOp(2, a, b)
BitXor(a, b) == BitOp(3, a, b)

(* ---------------------------------------------------------------- division (Knuth, Algorithm D in limbs) *)
RECURSIVE DivSmallR(_, _, _, _, _)
DivSmallR(a, d, i, r, q) ==            \* d in 1..B-1; processes limbs from the top; q is built low-first
   IF i = 0 THEN << Norm(q), (IF r = 0 THEN << >> ELSE << r >>) >>
   ELSE LET t == r * B + a[i] IN DivSmallR(a, d, i - 1, t % d, << t \div d >> \o q)

\* w - qh*v over n+1 limbs (v is n limbs); result << limbs (n+1), borrow-out >>
RECURSIVE MulSubR(_, _, _, _, _, _, _, _)
MulSubR(w, v, n, qh, i, c, br, acc) ==
   IF i > n + 1 THEN << acc, br >>
   ELSE LET p == (IF i <= n THEN qh * v[i] ELSE 0) + c
            t == w[i] - (p % B) - br
        IN IF t < 0 THEN MulSubR(w, v, n, qh, i + 1, p \div B, 1, Append(acc, t + B))
                    ELSE MulSubR(w, v, n, qh, i + 1, p \div B, 0, Append(acc, t))

\* w + v over n+1 limbs, carry out of the top dropped (add-back step)
RECURSIVE AddBackR(_, _, _, _, _, _)
AddBackR(w, v, n, i, c, acc) ==
   IF i > n + 1 THEN acc
   ELSE LET t == w[i] + (IF i <= n THEN v[i] ELSE 0) + c
        IN AddBackR(w, v, n, i + 1, t \div B, Append(acc, t % B))

RECURSIVE QhatFix(_, _, _, _, _)
QhatFix(qh, rh, vtop, vnext, unext) ==
   IF rh < B /\ (qh >= B \/ qh * vnext > rh * B + unext)
   THEN QhatFix(qh - 1, rh + vtop, vtop, vnext, unext)
   ELSE qh

\* u has length j+n+1 (the window is u[j+1..j+n+1]); q collects quotient limbs, low first
RECURSIVE KnuthR(_, _, _, _, _)
KnuthR(u, v, n, j, q) ==
   IF j < 0 THEN << Norm(q), u >>
   ELSE LET w   == SubSeq(u, j + 1, j + n + 1)
            num == w[n + 1] * B + w[n]
            qh  == QhatFix(num \div v[n], num % v[n], v[n], v[n - 1], w[n - 1])
            ms  == MulSubR(w, v, n, qh, 1, 0, 0, << >>)
            qd  == IF ms[2] = 0 THEN qh ELSE qh - 1
            w2  == IF ms[2] = 0 THEN ms[1] ELSE AddBackR(ms[1], v, n, 1, 0, << >>)
        IN KnuthR(SubSeq(u, 1, j) \o SubSeq(w2, 1, n), v, n, j - 1, << qd >> \o q)

DivMod(a, b) ==                         \* precondition b # Zero
   LET la == Len(a)  lb == Len(b)
   IN IF Cmp(a, b) < 0 THEN << << >>, a >>
      ELSE IF lb = 1 THEN DivSmallR(a, b[1], la, 0, << >>)
      ELSE LET s  == LB - BL(b[lb])                              \* normalise: top limb of v >= B/2
               v  == ShiftL(b, s)
               u0 == ShiftL(a, s)
               u  == IF Len(u0) = la THEN Append(u0, 0) ELSE u0   \* length la+1
               r  == KnuthR(u, v, lb, la - lb, << >>)
           IN << r[1], ShiftR(Norm(r[2]), s) >>
Div(a, b) == DivMod(a, b)[1]
Mod(a, b) == DivMod(a, b)[2]

(* ---------------------------------------------------------------- number theory *)
AddMod(a, b, m) == Mod(Add(a, b), m)
SubMod(a, b, m) == LET x == Mod(a, m)  y == Mod(b, m)
                   IN IF Cmp(x, y) >= 0 THEN Sub(x, y) ELSE Sub(Add(x, m), y)
MulMod(a, b, m) == Mod(Mul(a, b), m)

RECURSIVE ModExpR(_, _, _, _, _)
ModExpR(a, e, m, i, acc) ==             \* left-to-right square and multiply over the bits of e
   IF i < 0 THEN acc
   ELSE LET sq == MulMod(acc, acc, m)
        IN ModExpR(a, e, m, i - 1, (IF Bit(e, i) = 1 THEN MulMod(sq, a, m) ELSE sq))
ModExp(a, e, m) == ModExpR(Mod(a, m), e, m, BitLen(e) - 1, Mod(One, m))

RECURSIVE Gcd(_, _)
Gcd(a, b) == IF Len(b) = 0 THEN a ELSE Gcd(b, Mod(a, b))

\* floor square root: Newton iteration from above
RECURSIVE SqrtR(_, _)
SqrtR(a, x) == LET y == ShiftR(Add(x, Div(a, x)), 1) IN IF Cmp(y, x) >= 0 THEN x ELSE SqrtR(a, y)
ISqrt(a) == IF Len(a) = 0 THEN << >> ELSE SqrtR(a, Pow2((BitLen(a) + 1) \div 2))
=============================================================================
