----------------------------- MODULE GenBnScalar -----------------------------
(* Generator for the "scalar at a limb boundary" half of C01.

   Many entry points of big_num.h take a scalar next to the multi-precision operand: a digit (bn_digit_t:
   bn_add_digit, bn_sub_digit, bn_mult_digit, bn_mod_mult_digit, bn_exp_digit, bn_assign_digit, the
   bn_digit_* helpers), a machine word (size_t: bn_mod_exp_digit, bn_l_shift, bn_r_shift, bn_bit_set,
   bn_is_bit_set, bn_assign_2exp) or a whole number that an implementation may hand on to one of those
   (the exponent of bn_mod_exp).  A digit is 8..128 bits wide, size_t is 64 bits: whenever a value travels
   from the wider type to the narrower one it is silently cut, and the cut only shows for scalars that have
   bits above a boundary 2^8, 2^16, 2^32 or 2^64.  The property quantifies over "all digit widths
   {8,16,32,64,128}", so the corpus must hold such scalars for EVERY width.

   A state is (w, cls, s):   w   digit width,
                             cls "digit" : 0 <= s < 2^w               (fits one digit)
                                 "two"   : 2^w <= s < 2^(2w)          (two digits; exponents of bn_mod_exp)
                                 "size"  : 0 <= s < 2^64              (fits size_t, any relation to the digit)
                             s   a BigNat limb tuple (TLC integers are 32-bit).
   The reachable states ARE the corpus: for every width, the values just below / at / just above every
   boundary 2^j (j in 8,16,32,64,128 and j = w), values with an all-zero low part (3 * 2^j), all-ones high
   parts, and seeded pseudo-random fillings with the top bit set.  TLC checks the reference arithmetic on
   every state at exactly these boundaries (invariants below: the exponent / multiplier / shift count can be
   split at 2^h and recombined) and reports for which h cutting the scalar to h bits changes a modular
   power - the rig refuses a corpus in which some cut would go unnoticed.  One JSON line per state;
   rig/checks/c01.py expands it into calls for the driver built with that digit width, outcomes are judged
   by TLC again (TraceBn -> BnOps!Judge). *)
EXTENDS BnOps, Json
CONSTANTS Widths, Seeds
VARIABLES vW, vCls, vS

Marks == {8, 16, 32, 64, 128}
Ones(j) == Sub(Pow2(j), One)
Two == FromInt(2)
Three == FromInt(3)

\* pseudo-random limbs (multiplicative generator mod 65537), cut to `bits` bits, top bit forced
RECURSIVE RndL(_, _, _)
RndL(x, n, acc) == IF n = 0 THEN acc ELSE LET y == ((x * 75) + 74) % 65537 IN RndL(y, n - 1, Append(acc, y % B))
Fill(sd, bits) == BitOr(LowBits(Norm(RndL(sd + 1, (bits \div LB) + 1, << >>)), bits - 1), Pow2(bits - 1))

Around(j) == { Sub(Ones(j), One), Ones(j), Pow2(j - 1), Add(Pow2(j - 1), One) }          \* all below 2^j
Above(j, top) == { Pow2(j), Add(Pow2(j), One), MulSmall(Pow2(j), 3),                    \* all below 2^(j+2) <= 2^top
                   Sub(Pow2(top), Pow2(j)),                                             \* ones above, j zero bits below
                   Add(Pow2(top - 1), Ones(j)) }
DigitVals(ww) == { Zero, One, Two, Three, FromInt(5) }
                 \cup UNION { Around(j) : j \in { k \in Marks : k <= ww } }
                 \cup UNION { Above(j, ww) : j \in { k \in Marks : k < ww } }
                 \cup { Fill(sd, ww) : sd \in Seeds }
                 \cup { ShiftL(Fill(sd, ww \div 2), ww \div 2) : sd \in Seeds }         \* low half of the digit zero
TwoVals(ww)   == { Pow2(ww), Add(Pow2(ww), One), MulSmall(Pow2(ww), 3), Pow2((2 * ww) - 1), Ones(2 * ww),
                   Sub(Pow2(2 * ww), Pow2(ww)), Add(Pow2(ww), Ones(ww)) }
                 \cup { ShiftL(Fill(sd, ww), ww) : sd \in Seeds }                       \* low digit zero
                 \cup { Fill(sd + 7, 2 * ww) : sd \in Seeds }
SizeVals      == { Zero, One, Two, Three, FromInt(4), FromInt(7) }
                 \cup UNION { Around(j) : j \in {8, 16, 32, 64} }
                 \cup UNION { Above(j, 64) : j \in {8, 16, 32} }
                 \cup UNION { { Add(Pow2(j), FromInt(5)), MulSmall(Pow2(j), 5) } : j \in {8, 10, 16} }   \* shift counts / bit indices
                 \cup { Fill(sd, 64) : sd \in Seeds }

Init == /\ vW \in Widths
        /\ vCls \in {"digit", "two"} \cup (IF vW = 64 THEN {"size"} ELSE {})       \* size_t scalars: listed once
        /\ vS \in (IF vCls = "digit" THEN DigitVals(vW) ELSE IF vCls = "two" THEN TwoVals(vW) ELSE SizeVals)
Next == UNCHANGED << vW, vCls, vS >>

(* ---------------------------------------------------------------- what TLC checks on the reference itself *)
Cuts == {8, 16, 32, 64}
PG == FromInt(48271)                     \* probe base
PM == FromInt(2147483629)                \* probe modulus 2^31 - 19 (prime)
PA == Add(Pow2(200), FromInt(12345))     \* probe multiplicand

ClassOk  == /\ IsNat(vS) /\ vW \in Marks
            /\ (vCls = "digit" => BitLen(vS) <= vW)
            /\ (vCls = "two"   => BitLen(vS) > vW /\ BitLen(vS) <= 2 * vW)
            /\ (vCls = "size"  => BitLen(vS) <= 64)
\* x^(hi * 2^h + lo) = (x^(2^h))^hi * x^lo : the reference power is right across every boundary, and the
\* BigInteger override (when active) is the TLA+ definition on these exponents
ExpSplit == /\ (BitLen(vS) <= 66 => XModExp(PG, vS, PM) = ModExp(PG, vS, PM))
            /\ \A h \in Cuts :
                  XModExp(PG, vS, PM) = MulMod(XModExp(XModExp(PG, Pow2(h), PM), ShiftR(vS, h), PM),
                                              XModExp(PG, LowBits(vS, h), PM), PM)
MulSplit == /\ XMul(PA, vS) = Mul(PA, vS)
            /\ \A h \in Cuts : Mul(PA, vS) = Add(Mul(PA, LowBits(vS, h)), ShiftL(Mul(PA, ShiftR(vS, h)), h))
            /\ Add(Sub(Add(PA, vS), vS), vS) = Add(PA, vS)
            /\ vS = Add(ShiftL(ShiftR(vS, vW), vW), LowBits(vS, vW))
ShiftSplit == BitLen(vS) <= 11 =>
              LET k == ToInt(vS) IN
              /\ ShiftR(ShiftL(PA, k), k) = PA /\ BitLen(ShiftL(PA, k)) = BitLen(PA) + k
              /\ ShiftL(PA, k) = Mul(PA, Pow2(k)) /\ Bit(ShiftL(PA, k), k) = 1 /\ Bit(Pow2(k), k) = 1
              /\ ShiftR(PA, k) = Div(PA, Pow2(k))

\* h such that keeping only the low h bits of the scalar changes the probe power / product (what a silent
\* narrowing to an h-bit C type would do)
CutShows == { h \in Cuts : BitLen(vS) > h /\ XModExp(PG, LowBits(vS, h), PM) # XModExp(PG, vS, PM)
                                        /\ Mul(PA, LowBits(vS, h)) # Mul(PA, vS) }

Emit == PrintT(ToJson([w |-> vW, cls |-> vCls, s |-> vS, bits |-> BitLen(vS), cut |-> CutShows]))
=============================================================================
