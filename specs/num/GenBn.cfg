\* stand-alone example (tlc -workers 1 -config GenBn.cfg GenBn.tla); rig/checks/c01.py writes its own cfgs (digit sets, seeded extras, moduli) per tier
INIT Init
NEXT Next
CONSTANTS
  DigsA = {0, 1, 127, 128, 255}
  NDigA = 3
  DigsB = {0, 1, 128, 255}
  NDigB = 2
  ExtraA = {}
  ExtraB = {}
  Mods = {0}
  Primes = {}
INVARIANTS RoundTrip AddSubOk MulOk DivOk ShiftOk BitOpOk GcdSqrtOk ModExpOk CodecOk DigitOk
CONSTRAINT Emit
CHECK_DEADLOCK FALSE
