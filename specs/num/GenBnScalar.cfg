INIT Init
NEXT Next
CONSTANTS
  Widths = {8, 16, 32, 64, 128}
  Seeds = {1, 2}
INVARIANTS ClassOk ExpSplit MulSplit ShiftSplit
CONSTRAINT Emit
CHECK_DEADLOCK FALSE
