------------------------------- MODULE BigNatX -------------------------------
(* Accelerated entry points for the five expensive BigNat operators.  Each X-operator IS the BigNat
   definition; when a compiled class BigNatX (specs/num/BigNatX.java, java.math.BigInteger) sits next to
   this module, TLC replaces the X-operators by the Java methods of the same name.  The TLA+ definitions
   stay authoritative: every run that relies on the override first lets TLC itself check
   X-operator = definition on a sample (see TraceBn!OverrideAgrees).  XActive tells which one is in use. *)
EXTENDS BigNat
XActive == FALSE                       \* the Java class answers TRUE
XMul(a, b) == Mul(a, b)
XDivMod(a, b) == DivMod(a, b)
XModExp(a, e, m) == ModExp(a, e, m)
XGcd(a, b) == Gcd(a, b)
XISqrt(a) == ISqrt(a)
XMod(a, b) == XDivMod(a, b)[2]
XDiv(a, b) == XDivMod(a, b)[1]
XMulMod(a, b, m) == XMod(XMul(a, b), m)
=============================================================================
