INIT Init
NEXT Next
CONSTANT SampleN = 300
CHECK_DEADLOCK FALSE
