INIT Init
NEXT Next
CONSTANT SampleN = 40
CHECK_DEADLOCK FALSE
