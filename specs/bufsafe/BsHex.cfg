SPECIFICATION Spec
CONSTANTS
  BinBytes = {0, 171, 255}
  BinMax = 3
  HexChars = {48, 102, 70, 103}
  HexMax = 4
INVARIANTS BinSized HexSized RoundTrip PairsBound NFits
CONSTRAINT Emit
CHECK_DEADLOCK FALSE
