------------------------------ MODULE BsMfs ------------------------------
(* C12 generator for mem_find_stream (include/utils/mem_utils.h): a needle is searched in a byte stream
   that arrives in chunks; the function keeps the number of needle bytes already matched in *state.
   Stream = up to MaxPieces pieces, each a prefix of the needle (including the whole needle) or a
   foreign byte, split into chunks at up to two positions - so partial matches straddle chunk borders
   and fail after the border ("aaab" in "aaa" + "ab").  Envelope: every call terminates; state stays
   < needle size; a reported end offset lies inside the current chunk.  The reference says where the
   first occurrence ends in the stream. *)
EXTENDS BsCap, FiniteSets, TLC, Json
CONSTANTS Tier, MaxPieces
Needles == IF Tier = "quick" THEN { <<97, 98>>, <<97, 97, 98>>, <<97, 98, 98, 98, 97, 99>> }
           ELSE { <<97, 98>>, <<97, 97, 98>>, <<97, 98, 97, 99>>, <<97, 98, 98, 98, 97, 99>> }
VARIABLE st   \* [nd, pieces: seq of prefix lengths (0 = foreign byte), cuts: set of cut positions]
Init == st \in { [nd |-> n, pieces |-> << >>, cuts |-> {}] : n \in Needles }
AddPiece == st.cuts = {} /\ Len(st.pieces) < MaxPieces /\ \E k \in 0 .. Len(st.nd) : st' = [st EXCEPT !.pieces = Append(@, k)]
RECURSIVE Flat(_, _)
Flat(nd, q) == IF Len(q) = 0 THEN << >>
               ELSE (IF Head(q) = 0 THEN << 120 >> ELSE SubSeq(nd, 1, Head(q))) \o Flat(nd, Tail(q))
Stream == Flat(st.nd, st.pieces)
Cut1 == st.cuts = {} /\ \E c \in 1 .. (Len(Stream) - 1) : st' = [st EXCEPT !.cuts = {c}]
Cut2 == Cardinality(st.cuts) = 1 /\ \E c \in 1 .. (Len(Stream) - 1) : (\A d \in st.cuts : c > d) /\ st' = [st EXCEPT !.cuts = @ \cup {c}]
Next == AddPiece \/ Cut1 \/ Cut2
Spec == Init /\ [][Next]_st

\* chunks: the stream split after each cut position
Bounds == LET cs == st.cuts \cup {0, Len(Stream)} IN cs
RECURSIVE ChunksFrom(_)
ChunksFrom(a) == IF a >= Len(Stream) THEN << >>
   ELSE LET b == CHOOSE x \in Bounds : x > a /\ \A y \in Bounds : y > a => x <= y IN << SubSeq(Stream, a + 1, b) >> \o ChunksFrom(b)
Chunks == ChunksFrom(0)
OccEnd == LET n == Len(st.nd) S == { e \in n .. Len(Stream) : \A j \in 1 .. n : Stream[e - n + j] = st.nd[j] } IN
          IF S = {} THEN 0 ELSE CHOOSE m \in S : \A x \in S : m <= x          \* end (1-based count) of first occurrence
RECURSIVE SumLens(_, _)
SumLens(q, n) == IF n = 0 THEN 0 ELSE SumLens(q, n - 1) + Len(q[n])
ChunksTile == SumLens(Chunks, Len(Chunks)) = Len(Stream) /\ \A i \in 1 .. Len(Chunks) : Len(Chunks[i]) > 0
WholeNeedleIsFound == (\E i \in 1 .. Len(st.pieces) : st.pieces[i] = Len(st.nd)) => OccEnd > 0
\* the needle re-occurs inside itself: a failed partial match may have to restart in bytes already consumed
SelfOverlap == \E i \in 2 .. Len(st.nd) : st.nd[i] = st.nd[1]
Emit == PrintT(ToJson([g |-> "mfs", nd |-> st.nd, chunks |-> Chunks, occ_end |-> OccEnd,
          shape |-> IF SelfOverlap /\ Len(Chunks) > 1 THEN "self-overlapping-needle-across-chunks" ELSE "plain"]))
=============================================================================
