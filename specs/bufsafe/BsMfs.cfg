SPECIFICATION Spec
CONSTANTS
  Tier = "quick"
  MaxPieces = 2
INVARIANTS ChunksTile WholeNeedleIsFound
CONSTRAINT Emit
CHECK_DEADLOCK FALSE
