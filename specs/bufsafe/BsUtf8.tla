------------------------------ MODULE BsUtf8 ------------------------------
(* C12 generator for utf8_decode (include/utils/utf8.h): writes ONE byte (the low 8 bits of the code
   point) per decoded character into an output of `cap` bytes and stops at the first ill-formed byte.
   Reference = Unicode Table 3-7 (well-formed UTF-8 byte sequences) as plain mathematics.
   Input = up to MaxItems items: boundary characters of every length, and ill-formed fragments
   (lone continuation, overlong, surrogate, > U+10FFFF, invalid lead, truncated multi-byte). *)
EXTENDS BsCap, TLC, Json
CONSTANTS MaxItems
VARIABLE items

Good == { <<65>>, <<194,128>>, <<223,191>>, <<224,160,128>>, <<226,130,172>>, <<237,159,191>>,
          <<239,191,191>>, <<240,144,128,128>>, <<244,143,191,191>> }
Bad  == { <<128>>, <<192,128>>, <<224,128,128>>, <<237,160,128>>, <<244,144,128,128>>, <<245>>, <<255>>,
          <<194>>, <<226,130>>, <<240,144>>, <<240,144,128>> }
Alphabet == Good \cup Bad

Init == items = << >>
AddGood == Len(items) < MaxItems /\ \E it \in Good : items' = Append(items, it)
AddBad  == Len(items) < MaxItems /\ \E it \in Bad : items' = Append(items, it)
Next == AddGood \/ AddBad
Spec == Init /\ [][Next]_items

RECURSIVE Flat(_)
Flat(q) == IF Len(q) = 0 THEN << >> ELSE Head(q) \o Flat(Tail(q))
Bytes == Flat(items)

In(b, lo, hi) == b >= lo /\ b <= hi
Cont(b) == In(b, 128, 191)
\* length of the well-formed sequence starting at s[i], 0 if none (Table 3-7)
SeqLen(s, i) == LET n == Len(s) - i + 1  b1 == s[i] IN
   IF b1 <= 127 THEN 1
   ELSE IF In(b1, 194, 223) THEN (IF n >= 2 /\ Cont(s[i+1]) THEN 2 ELSE 0)
   ELSE IF In(b1, 224, 239) THEN
      (IF n >= 3 /\ Cont(s[i+2]) /\ (CASE b1 = 224 -> In(s[i+1], 160, 191) [] b1 = 237 -> In(s[i+1], 128, 159)
                                          [] OTHER -> Cont(s[i+1])) THEN 3 ELSE 0)
   ELSE IF In(b1, 240, 244) THEN
      (IF n >= 4 /\ Cont(s[i+2]) /\ Cont(s[i+3]) /\ (CASE b1 = 240 -> In(s[i+1], 144, 191) [] b1 = 244 -> In(s[i+1], 128, 143)
                                                            [] OTHER -> Cont(s[i+1])) THEN 4 ELSE 0)
   ELSE 0
CodePoint(s, i, l) == CASE l = 1 -> (s[i] + 0)
   [] l = 2 -> (s[i] % 32) * 64 + (s[i+1] % 64)
   [] l = 3 -> (s[i] % 16) * 4096 + (s[i+1] % 64) * 64 + (s[i+2] % 64)
   [] l = 4 -> (s[i] % 8) * 262144 + (s[i+1] % 64) * 4096 + (s[i+2] % 64) * 64 + (s[i+3] % 64)
RECURSIVE DecodeFrom(_, _)
DecodeFrom(s, i) == IF i > Len(s) THEN << >>
   ELSE LET l == SeqLen(s, i) IN IF l = 0 THEN << >> ELSE << CodePoint(s, i, l) >> \o DecodeFrom(s, i + l)
Decode(s) == DecodeFrom(s, 1)

\* standard encoder, used only to check the reference against itself
Enc(cp) == IF cp < 128 THEN << cp >>
   ELSE IF cp < 2048 THEN << 192 + (cp \div 64), 128 + (cp % 64) >>
   ELSE IF cp < 65536 THEN << 224 + (cp \div 4096), 128 + ((cp \div 64) % 64), 128 + (cp % 64) >>
   ELSE << 240 + (cp \div 262144), 128 + ((cp \div 4096) % 64), 128 + ((cp \div 64) % 64), 128 + (cp % 64) >>

Cps == Decode(Bytes)
K == Len(Cps)
Low(q) == [i \in 1 .. Len(q) |-> q[i] % 256]
Expect(c) == SubSeq(Low(Cps), 1, Min(c, K))                \* bytes written into a buffer of c bytes

AllGood == \A i \in 1 .. Len(items) : items[i] \in Good
\* reference algebra: every boundary character decodes to the code point whose encoding it is
GoodRoundTrip == AllGood => /\ K = Len(items)
                            /\ \A i \in 1 .. K : Enc(Cps[i]) = items[i]
                            /\ \A i \in 1 .. K : Cps[i] <= 1114111 /\ ~In(Cps[i], 55296, 57343)
BadStops == \A it \in Bad : Decode(it) = << >>
\* the property: never more bytes than capacity, never more than one per input byte
Bounded == K <= Len(Bytes) /\ \A c \in Caps(K) : Len(Expect(c)) <= c

Emit == PrintT(ToJson([g |-> "utf8", in |-> Bytes, k |-> K, shape |-> IF AllGood THEN "well-formed" ELSE "ill-formed",
          caps |-> [i \in 1 .. (K + 2) |-> [c |-> i - 1, out |-> Expect(i - 1)]]]))
=============================================================================
