------------------------------ MODULE BsLines ------------------------------
(* C12 generator for buf_get_next_line (src/utils/buf_str.c) and, built on it, ini_buf_parse /
   ini_buf_calc_size / ini_buf_gen (src/utils/ini.c).
   A line ends at LF; one CR directly before that LF is not part of the line; text after the last LF is
   a line if it is not empty.  The INI store keeps every line and regenerates it followed by CR LF, so
   the size it needs is  sum(len + 2)  - that is what ini_buf_calc_size must report and what
   ini_buf_gen must fit into: every capacity 0 .. required + 1 is enumerated. *)
EXTENDS BsCap, TLC, Json
CONSTANTS Chars, MaxLen
VARIABLE s
Init == s = << >>
Grow == Len(s) < MaxLen /\ \E c \in Chars : s' = Append(s, c)
Next == Grow
Spec == Init /\ [][Next]_s

RECURSIVE NextLf(_), LinesFrom(_)
NextLf(i) == IF i > Len(s) THEN 0 ELSE IF s[i] = 10 THEN i ELSE NextLf(i + 1)
LinesFrom(i) == IF i > Len(s) THEN << >>
   ELSE LET j == NextLf(i) IN
      IF j = 0 THEN << [o |-> i - 1, l |-> Len(s) - i + 1] >>
      ELSE << [o |-> i - 1, l |-> (j - i) - (IF j > i /\ s[j - 1] = 13 THEN 1 ELSE 0)] >> \o LinesFrom(j + 1)
Lines == LinesFrom(1)
K == Len(Lines)

RECURSIVE SumLen(_)
SumLen(n) == IF n = 0 THEN 0 ELSE SumLen(n - 1) + Lines[n].l + 2
Req == SumLen(K)
GenF(c) == IF Req = 0 THEN (IF c = 0 THEN "either" ELSE "ok")       \* nothing to write; cap 0 is refused as EINVAL
           ELSE IF c < Req THEN "fail" ELSE "ok"
GenShape(c) == IF c >= Req THEN "cap>=required" ELSE "cap<required"

\* ---- checked on the spec
Inside == SpansInside(Lines, Len(s)) /\ SpansOrdered(Lines)
NoLfInside == \A i \in 1 .. K : \A p \in (Lines[i].o + 1) .. (Lines[i].o + Lines[i].l) : s[p] # 10
\* lines and their terminators tile the input: nothing is skipped except CR? LF
Tiles == \A i \in 1 .. K : LET e == Lines[i].o + Lines[i].l IN
            IF i < K THEN (Lines[i + 1].o = e + 1 /\ s[e + 1] = 10) \/ (Lines[i + 1].o = e + 2 /\ s[e + 1] = 13 /\ s[e + 2] = 10)
            ELSE e = Len(s) \/ (e + 1 = Len(s) /\ s[e + 1] = 10) \/ (e + 2 = Len(s) /\ s[e + 1] = 13 /\ s[e + 2] = 10)
Terminates == K <= Len(s)                       \* the iteration idiom needs at most Len + 1 calls
GenSized == Req > 0 => SizedOK(Req, Req, GenF)
ReqBound == Req <= 3 * Len(s)

Emit == PrintT(ToJson([g |-> "lines", in |-> s, spans |-> Lines, req |-> Req,
          caps |-> [i \in 1 .. (Req + 2) |-> [c |-> i - 1, cls |-> GenF(i - 1), n |-> Req, shape |-> GenShape(i - 1)]]]))
=============================================================================
