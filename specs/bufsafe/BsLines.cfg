SPECIFICATION Spec
CONSTANTS
  Chars = {97, 13, 10, 61}
  MaxLen = 3
INVARIANTS Inside NoLfInside Tiles Terminates GenSized ReqBound
CONSTRAINT Emit
CHECK_DEADLOCK FALSE
