SPECIFICATION Spec
CONSTANTS MaxItems = 3
INVARIANTS CountsBounded CrcCrossesSwitch
CONSTRAINT Emit
CHECK_DEADLOCK FALSE
