SPECIFICATION Spec
CONSTANTS
  BinBytes = {0, 171, 255}
  BinMax = 5
  HexChars = {48, 102, 70, 103, 32}
  HexMax = 5
INVARIANTS BinSized HexSized RoundTrip PairsBound NFits
CONSTRAINT Emit
CHECK_DEADLOCK FALSE
