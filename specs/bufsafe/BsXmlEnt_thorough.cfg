SPECIFICATION Spec
CONSTANTS MaxItems = 3
INVARIANTS RoundTrip Lens Sized
CONSTRAINT Emit
CHECK_DEADLOCK FALSE
