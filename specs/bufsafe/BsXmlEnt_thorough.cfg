SPECIFICATION Spec
CONSTANTS
  MaxItems = 3
  Tier = "thorough"
INVARIANTS RoundTrip Lens Sized
CONSTRAINT Emit
CHECK_DEADLOCK FALSE
