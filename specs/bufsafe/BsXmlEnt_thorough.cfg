SPECIFICATION Spec
CONSTANTS
  MaxItems = 2
  Tier = "thorough"
INVARIANTS RoundTrip Lens Sized
CONSTRAINT Emit
CHECK_DEADLOCK FALSE
