------------------------------ MODULE BsBencode ------------------------------
(* C12 generator for bt_en_decode (src/utils/bt_encode.c): token soup over the bencode alphabet
   (list/dict openers, terminators, integers, byte strings, a string whose declared length is
   2^64 - 1) with the last `cut` bytes removed, so that containers are left open, strings are cut
   short and terminators are missing.  The spec carries a token-level reference recogniser and states
   the SAFETY ENVELOPE for the decoder: it terminates; on success the consumed size is <= the input
   and every node's raw span lies inside the input; if the input starts with a complete value the
   consumed size is that value's length. *)
EXTENDS BsCap, TLC, Json
CONSTANTS MaxTok, MaxCut
VARIABLE st     \* [toks: sequence of token names, cut: bytes dropped at the end]

Tok == {"l", "d", "e", "int", "negint", "str1", "str3", "str0", "huge"}
TB(t) == CASE t = "l" -> << 108 >> [] t = "d" -> << 100 >> [] t = "e" -> << 101 >>
   [] t = "int" -> << 105, 49, 101 >> [] t = "negint" -> << 105, 45, 52, 50, 101 >>
   [] t = "str1" -> << 49, 58, 97 >> [] t = "str3" -> << 51, 58, 97, 98, 99 >> [] t = "str0" -> << 48, 58 >>
   [] t = "huge" -> << 49,56,52,52,54,55,52,52,48,55,51,55,48,57,53,53,49,54,49,53, 58, 97, 98 >>
IsStr(t) == t \in {"str1", "str3", "str0"}
IsScalar(t) == t \in {"int", "negint"} \/ IsStr(t)

Init == st = [toks |-> << >>, cut |-> 0]
Add == st.cut = 0 /\ Len(st.toks) < MaxTok /\ \E t \in Tok : st' = [st EXCEPT !.toks = Append(@, t)]
RECURSIVE Flat(_)
Flat(q) == IF Len(q) = 0 THEN << >> ELSE TB(Head(q)) \o Flat(Tail(q))
Full == Flat(st.toks)
Cut == st.cut = 0 /\ Len(st.toks) > 0 /\ \E c \in 1 .. MaxCut : c < Len(Full) /\ st' = [st EXCEPT !.cut = c]
Next == Add \/ Cut
Spec == Init /\ [][Next]_st
B == SubSeq(Full, 1, Len(Full) - st.cut)

\* ---- token-level reference: index after the complete value that starts at token i, 0 if there is none
RECURSIVE ValEnd(_, _), ListEnd(_, _), DictEnd(_, _)
ValEnd(q, i) == IF i > Len(q) THEN 0
   ELSE IF IsScalar(q[i]) THEN i + 1
   ELSE IF q[i] = "l" THEN ListEnd(q, i + 1)
   ELSE IF q[i] = "d" THEN DictEnd(q, i + 1)
   ELSE 0                                                   \* "e", "huge": not a value
ListEnd(q, i) == IF i > Len(q) THEN 0 ELSE IF q[i] = "e" THEN i + 1
   ELSE LET j == ValEnd(q, i) IN IF j = 0 THEN 0 ELSE ListEnd(q, j)
DictEnd(q, i) == IF i > Len(q) THEN 0 ELSE IF q[i] = "e" THEN i + 1
   ELSE IF ~IsStr(q[i]) THEN 0
   ELSE LET j == ValEnd(q, i + 1) IN IF j = 0 THEN 0 ELSE DictEnd(q, j)
BytesOf(q, n) == Len(Flat(SubSeq(q, 1, n)))
FirstEnd == ValEnd(st.toks, 1)
\* byte length of the complete first value, -1 if the (cut) input does not start with one
Consumed == IF FirstEnd = 0 THEN 0 - 1
            ELSE LET n == BytesOf(st.toks, FirstEnd - 1) IN IF n <= Len(B) THEN n ELSE 0 - 1

\* nesting depth left open at the end of the token sequence (ignores stray terminators)
RECURSIVE Depth(_, _)
Depth(q, d) == IF Len(q) = 0 THEN d
   ELSE Depth(Tail(q), IF Head(q) \in {"l", "d"} THEN d + 1 ELSE IF Head(q) = "e" /\ d > 0 THEN d - 1 ELSE d)
\* does decoding the value that starts at token i run into a dictionary key that is not a string?
KeyOk(t) == IsStr(t) \/ t = "huge"
RECURSIVE ValBad(_, _), ListBad(_, _), DictBad(_, _)
ValBad(q, i) == IF i > Len(q) THEN FALSE
   ELSE IF q[i] = "l" THEN ListBad(q, i + 1) ELSE IF q[i] = "d" THEN DictBad(q, i + 1) ELSE FALSE
ListBad(q, i) == IF i > Len(q) \/ q[i] = "e" THEN FALSE
   ELSE ValBad(q, i) \/ (ValEnd(q, i) # 0 /\ ListBad(q, ValEnd(q, i)))
DictBad(q, i) == IF i > Len(q) \/ q[i] = "e" THEN FALSE
   ELSE IF ~KeyOk(q[i]) THEN TRUE
   ELSE ValBad(q, i + 1) \/ (ValEnd(q, i + 1) # 0 /\ DictBad(q, ValEnd(q, i + 1)))
SpanShape == IF Len(st.toks) > 0 /\ st.toks[1] = "huge" THEN "huge-length"
             ELSE IF ValBad(st.toks, 1) THEN "dict-nonstring-key"
             ELSE IF \E i \in 1 .. Len(st.toks) : st.toks[i] = "huge" THEN "huge-length" ELSE "plain"
OobShape == IF Len(B) > 0 /\ B[Len(B)] = 101 /\ Consumed < 0 /\ Len(st.toks) > 0 /\ st.toks[1] \in {"l", "d"}
            THEN "container-open-after-value" ELSE IF st.cut > 0 THEN "cut" ELSE "plain"

\* ---- checked on the spec
ConsumedInside == Consumed <= Len(B)
WholeDoc == FirstEnd = Len(st.toks) + 1 /\ st.cut = 0 => Consumed = Len(B) /\ Depth(st.toks, 0) = 0
\* a value whose decoding meets a bad key is never a complete value for the reference
BadKeyNeverComplete == ValBad(st.toks, 1) /\ (\A i \in 1 .. Len(st.toks) : st.toks[i] # "huge") => FirstEnd = 0
OpenNeverComplete == Len(st.toks) > 0 /\ st.toks[1] \in {"l", "d"} /\ Depth(st.toks, 0) > 0 /\ FirstEnd # 0
                        => FirstEnd <= Len(st.toks)

Emit == PrintT(ToJson([g |-> "bt", in |-> B, consumed |-> Consumed, toks |-> st.toks, cut |-> st.cut,
                        shape |-> [oob |-> OobShape, span |-> SpanShape, term |-> "plain"]]))
=============================================================================
