------------------------------ MODULE BsNum ------------------------------
(* C12 generator for the UNUM2STR / SNUM2STR family (include/utils/num2str.h) and, read-only, for
   str2num.h / strh2num.h.  TLC integers are 32 bit, so a value is its canonical decimal digit
   sequence (plus a sign); the harness renders the digits to the integer argument.
   Corpus: for every type, every power of ten 10^k that fits, its neighbours 10^k - 1 and 10^k + 1,
   zero, the type maximum and (signed) the type minimum and -(10^k). *)
EXTENDS BsCap, TLC, Json
VARIABLE st      \* [t: type, k: exponent, v: variant]

Types == {"u8", "u16", "u32", "u64", "us", "s8", "s16", "s32", "s64", "ss"}
Signed(t) == t \in {"s8", "s16", "s32", "s64", "ss"}
MaxDigits(t) == CASE t = "u8" -> << 2,5,5 >>
   [] t = "u16" -> << 6,5,5,3,5 >>
   [] t = "u32" -> << 4,2,9,4,9,6,7,2,9,5 >>
   [] t \in {"u64", "us"} -> << 1,8,4,4,6,7,4,4,0,7,3,7,0,9,5,5,1,6,1,5 >>
   [] t = "s8" -> << 1,2,7 >>
   [] t = "s16" -> << 3,2,7,6,7 >>
   [] t = "s32" -> << 2,1,4,7,4,8,3,6,4,7 >>
   [] t \in {"s64", "ss"} -> << 9,2,2,3,3,7,2,0,3,6,8,5,4,7,7,5,8,0,7 >>
\* |minimum| = maximum + 1 : last digit + 1 (none of the maxima ends in 9)
MinDigits(t) == LET m == MaxDigits(t) IN [m EXCEPT ![Len(m)] = @ + 1]

Zeros(k) == [i \in 1 .. k |-> 0]
Nines(k) == [i \in 1 .. k |-> 9]
Pow10(k) == << 1 >> \o Zeros(k)                         \* k + 1 digits
Variants == {"pow", "pow-1", "pow+1", "neg-pow", "zero", "max", "min"}
Digits(t, k, v) == CASE v = "pow" -> Pow10(k)
   [] v = "neg-pow" -> Pow10(k)
   [] v = "pow-1" -> IF k = 0 THEN << 0 >> ELSE Nines(k)
   [] v = "pow+1" -> IF k = 0 THEN << 2 >> ELSE << 1 >> \o Zeros(k - 1) \o << 1 >>
   [] v = "zero" -> << 0 >>
   [] v = "max" -> MaxDigits(t)
   [] v = "min" -> MinDigits(t)
Neg(v) == v \in {"neg-pow", "min"}

\* a <= b for canonical digit sequences
RECURSIVE LexLe(_, _)
LexLe(a, b) == IF Len(a) = 0 THEN TRUE
               ELSE IF a[1] # b[1] THEN a[1] < b[1] ELSE LexLe(Tail(a), Tail(b))
Le(a, b) == Len(a) < Len(b) \/ (Len(a) = Len(b) /\ LexLe(a, b))
Fits(t, k, v) == /\ (Neg(v) => Signed(t))
                 /\ Le(Digits(t, k, v), IF Neg(v) THEN MinDigits(t) ELSE MaxDigits(t))

Init == st \in { [t |-> t, k |-> 0, v |-> "pow"] : t \in Types }
Grow == st.v = "pow" /\ Fits(st.t, st.k + 1, "pow") /\ st' = [st EXCEPT !.k = @ + 1]
Vary == st.v = "pow" /\ \E v \in Variants \ {"pow"} :
           /\ Fits(st.t, st.k, v) /\ (v \in {"zero", "max", "min"} => st.k = 0)
           /\ st' = [st EXCEPT !.v = v]
Next == Grow \/ Vary
Spec == Init /\ [][Next]_st

D == Digits(st.t, st.k, st.v)
TextLen == Len(D) + (IF Neg(st.v) THEN 1 ELSE 0)
Req == TextLen + 1                                  \* the text and its terminating NUL
F(c) == IF c = 0 THEN "fail" ELSE IF c < Req THEN "need" ELSE "ok"

Sized == SizedOK(Req, Req, F)
Canonical == Len(D) >= 1 /\ (Len(D) > 1 => D[1] # 0) /\ \A i \in 1 .. Len(D) : D[i] \in 0 .. 9
InRange == Fits(st.t, st.k, st.v)
\* the boundary the digit-count loop walks over: 10^k has k + 1 digits, 10^k - 1 has k
PowLen == st.v = "pow" => Len(D) = st.k + 1
PowPredLen == st.v = "pow-1" /\ st.k > 0 => Len(D) = st.k

Shape == CASE st.v \in {"pow", "neg-pow"} /\ st.k >= 1 -> "pow10"
           [] st.v = "min" -> "min"
           [] OTHER -> "plain"
Emit == PrintT(ToJson([g |-> "num", t |-> st.t, neg |-> Neg(st.v), digits |-> D, shape |-> Shape,
          ops |-> << [op |-> "n2s", req |-> Req, caps |-> CapTable(Req, F, LAMBDA c : TextLen)] >>]))
=============================================================================
