SPECIFICATION Spec
CONSTANTS MaxItems = 2
INVARIANTS GoodRoundTrip BadStops Bounded
CONSTRAINT Emit
CHECK_DEADLOCK FALSE
