------------------------------ MODULE BsB64 ------------------------------
(* C12 generator for base64_encode / base64_decode / base64_decode_fmt (include/utils/base64.h).
   State = one byte string of one of two families:  "enc" raw bytes to encode,  "dec" text to decode
   (alphabet characters, padding, junk).  The RFC 4648 reference is C14's module Base64. *)
EXTENDS Base64, BsCap, TLC, Json
CONSTANTS EncBytes, EncMax, DecBytes, DecMax
VARIABLE st
Init == st \in { [k |-> "enc", s |-> << >>], [k |-> "dec", s |-> << >>] }
GrowEnc == st.k = "enc" /\ Len(st.s) < EncMax /\ \E b \in EncBytes : st' = [st EXCEPT !.s = Append(@, b)]
GrowDec == st.k = "dec" /\ Len(st.s) < DecMax /\ \E b \in DecBytes : st' = [st EXCEPT !.s = Append(@, b)]
Next == GrowEnc \/ GrowDec
Spec == Init /\ [][Next]_st

\* ---- encode: required = 4*ceil(n/3); refused below with the size reported
EncReq(s) == EncLen(Len(s))
EncF(s, c) == IF c >= EncReq(s) THEN "ok" ELSE "need"

\* ---- decode: the function sizes by the upper bound est = 3*ceil(real/4) over the text without
\*      trailing padding; what it writes is  actual <= est  bytes
Real(t) == Len(StripPad(t))
Est(r) == 3 * ((r + 3) \div 4)
Actual(r) == 3 * (r \div 4) + (CASE r % 4 = 2 -> 1 [] r % 4 = 3 -> 2 [] OTHER -> 0)
DecF(r, c) == IF r = 0 THEN "ok"
              ELSE IF r = 1 THEN "any"                \* one symbol carries no byte: refusal or 0 bytes
              ELSE IF c >= Est(r) THEN "ok"
              ELSE IF c < Actual(r) THEN "need" ELSE "either"
DecReq(r) == IF r < 2 THEN 0 ELSE Est(r)
DecN(r) == IF r < 2 THEN 0 ELSE Actual(r)

\* ---- tolerant decode: filters into the output buffer first, so it refuses cap < Len(t) outright
FmtReal(t) == Len(OnlySyms(t))
FmtReq(t) == Max(Len(t), DecReq(FmtReal(t)))
FmtF(t, c) == IF c < Len(t)
              THEN (IF c < DecN(FmtReal(t)) \/ (FmtReal(t) >= 2 /\ c < 1) THEN "fail" ELSE "either")
              ELSE DecF(FmtReal(t), c)

AllSyms(t) == \A i \in 1 .. Len(t) : IsSym(t[i])

\* ---- the property, decided on the spec
EncSized == st.k = "enc" => SizedOK(EncReq(st.s), EncReq(st.s), LAMBDA c : EncF(st.s, c))
DecSized == st.k = "dec" /\ Real(st.s) # 1 =>
              SizedOK(DecReq(Real(st.s)), DecN(Real(st.s)), LAMBDA c : DecF(Real(st.s), c))
FmtSized == st.k = "dec" /\ FmtReal(st.s) # 1 =>
              SizedOK(FmtReq(st.s), DecN(FmtReal(st.s)), LAMBDA c : FmtF(st.s, c))
\* the size formulas are those of the RFC reference
EncLenIsRef == st.k = "enc" => Len(Encode(st.s)) = EncReq(st.s)
DecLenIsRef == st.k = "dec" /\ AllSyms(StripPad(st.s)) /\ Real(st.s) % 4 # 1 =>
                  Len(Decode(st.s)) = Actual(Real(st.s)) /\ Actual(Real(st.s)) <= Est(Real(st.s))

Shape(r) == IF r >= 2 /\ r % 4 = 0 THEN "full-quads" ELSE "tail"
Emit == PrintT(ToJson(
   IF st.k = "enc"
   THEN [g |-> "b64", k |-> "enc", in |-> st.s, shape |-> "enc",
         ops |-> << [op |-> "b64enc", req |-> EncReq(st.s),
                     caps |-> CapTable(EncReq(st.s), LAMBDA c : EncF(st.s, c), LAMBDA c : EncReq(st.s))] >>]
   ELSE [g |-> "b64", k |-> "dec", in |-> st.s, shape |-> Shape(Real(st.s)),
         ops |-> << [op |-> "b64dec", req |-> DecReq(Real(st.s)),
                     caps |-> CapTable(DecReq(Real(st.s)), LAMBDA c : DecF(Real(st.s), c), LAMBDA c : DecN(Real(st.s)))],
                    [op |-> "b64decfmt", req |-> FmtReq(st.s),
                     caps |-> CapTable(FmtReq(st.s), LAMBDA c : FmtF(st.s, c), LAMBDA c : DecN(FmtReal(st.s)))] >>]))
=============================================================================
