SPECIFICATION Spec
CONSTANTS
  EncBytes = {0, 255}
  EncMax = 6
  DecBytes = {65, 61, 10}
  DecMax = 5
INVARIANTS EncSized DecSized FmtSized EncLenIsRef DecLenIsRef
CONSTRAINT Emit
CHECK_DEADLOCK FALSE
