------------------------------ MODULE BsXmlEnt ------------------------------
(* C12 generator for xml_encode / xml_decode (src/utils/xml.c), i.e. for mem_replace_arr
   (include/utils/mem_utils.h) with the five predefined entities.  Input = up to MaxItems items:
   plain letter, each special character, each entity, and broken entities ("&", "&l", "&amp;lt;").
   Reference: one left-to-right pass.  Output buffer: every capacity 0 .. required + 1; the functions
   report no size on refusal, so the classes are "fail" below the output size and "ok" from it on. *)
EXTENDS BsCap, TLC, Json
CONSTANTS MaxItems, Tier
VARIABLE items
Specials == << 39, 34, 38, 60, 62 >>                                   \* ' " & < >
Ents == << <<38,97,112,111,115,59>>, <<38,113,117,111,116,59>>, <<38,97,109,112,59>>, <<38,108,116,59>>, <<38,103,116,59>> >>
Plain == IF Tier = "quick" THEN { <<97>>, <<38>>, <<60>> } ELSE { <<97>>, <<39>>, <<34>>, <<38>>, <<60>>, <<62>> }
Coded == IF Tier = "quick" THEN { Ents[3], Ents[4], <<38, 108>> }
         ELSE { Ents[i] : i \in 1 .. 5 } \cup { <<38, 108>>, <<38,97,109,112,59,108,116,59>> }
Alphabet == Plain \cup Coded
Init == items = << >>
AddPlain == Len(items) < MaxItems /\ \E it \in Plain : items' = Append(items, it)
AddCoded == Len(items) < MaxItems /\ \E it \in Coded : items' = Append(items, it)
Next == AddPlain \/ AddCoded
Spec == Init /\ [][Next]_items
RECURSIVE Flat(_)
Flat(q) == IF Len(q) = 0 THEN << >> ELSE Head(q) \o Flat(Tail(q))
S == Flat(items)

SpecialIdx(c) == IF \E i \in 1 .. 5 : Specials[i] = c THEN CHOOSE i \in 1 .. 5 : Specials[i] = c ELSE 0
RECURSIVE Encode(_)
Encode(s) == IF Len(s) = 0 THEN << >>
   ELSE (IF SpecialIdx(s[1]) = 0 THEN << s[1] >> ELSE Ents[SpecialIdx(s[1])]) \o Encode(Tail(s))
StartsWith(s, p) == Len(s) >= Len(p) /\ SubSeq(s, 1, Len(p)) = p
EntAt(s) == IF \E i \in 1 .. 5 : StartsWith(s, Ents[i]) THEN CHOOSE i \in 1 .. 5 : StartsWith(s, Ents[i]) ELSE 0
RECURSIVE Decode(_)
Decode(s) == IF Len(s) = 0 THEN << >>
   ELSE LET e == EntAt(s) IN IF e = 0 THEN << s[1] >> \o Decode(Tail(s))
                             ELSE << Specials[e] >> \o Decode(SubSeq(s, Len(Ents[e]) + 1, Len(s)))

EncReq == Len(Encode(S))
DecReq == Len(Decode(S))
F(req, c) == IF c < req THEN "fail" ELSE "ok"
RoundTrip == Decode(Encode(S)) = S
Lens == EncReq >= Len(S) /\ DecReq <= Len(S) /\ EncReq <= 6 * Len(S)
Sized == SizedOK(EncReq, EncReq, LAMBDA c : F(EncReq, c)) /\ SizedOK(DecReq, DecReq, LAMBDA c : F(DecReq, c))
HasSpecial == \E i \in 1 .. Len(S) : SpecialIdx(S[i]) # 0
HasEntity == \E i \in 1 .. Len(S) : EntAt(SubSeq(S, i, Len(S))) # 0
Emit == PrintT(ToJson([g |-> "xmlent", in |-> S,
   ops |-> << [op |-> "xmlenc", req |-> EncReq, shape |-> IF HasSpecial THEN "has-special" ELSE "plain",
               caps |-> CapTable(EncReq, LAMBDA c : F(EncReq, c), LAMBDA c : EncReq)],
              [op |-> "xmldec", req |-> DecReq, shape |-> IF HasEntity THEN "has-entity" ELSE "plain",
               caps |-> CapTable(DecReq, LAMBDA c : F(DecReq, c), LAMBDA c : DecReq)] >>]))
=============================================================================
