------------------------------ MODULE BsRead ------------------------------
(* C12 generator for the read-only scanners: CRC-32 (include/math/crc32.h; lengths on both sides of the
   small-table switch at 64 bytes), str2num.h / strh2num.h (digits, signs, hex letters, junk, 20-digit
   values) and calc_sptab_count* / data_xor8 (src/utils/buf_str.c).  These functions have no output
   buffer; the property for them is "reads only the given bytes, terminates", which the harness
   observes with the input in an exact-size block.  The spec enumerates the inputs and states the
   envelope of the counting functions (a count never exceeds the size; leading counts are exact). *)
EXTENDS BsCap, TLC, Json
CONSTANTS MaxItems
VARIABLE st
CrcLens == {0, 1, 3, 4, 15, 16, 63, 64, 65, 127, 128}
NumItems == { <<48>>, <<57>>, <<45>>, <<43>>, <<32>>, <<97>>, <<70>>, <<120>>,
              <<49,56,52,52,54,55,52,52,48,55,51,55,48,57,53,53,49,54,49,53>> }
WsChars == {32, 9, 97}
Init == st \in { [k |-> "crc", len |-> 0, s |-> << >>], [k |-> "s2n", len |-> 0, s |-> << >>], [k |-> "sptab", len |-> 0, s |-> << >>] }
CrcGrow == st.k = "crc" /\ \E l \in CrcLens : l > st.len /\ (\A m \in CrcLens : m > st.len => l <= m)
              /\ st' = [st EXCEPT !.len = l, !.s = [i \in 1 .. l |-> (i * 37 + 1) % 256]]
NumGrow == st.k = "s2n" /\ st.len < MaxItems /\ \E it \in NumItems : st' = [st EXCEPT !.len = @ + 1, !.s = @ \o it]
WsGrow == st.k = "sptab" /\ st.len < MaxItems + 2 /\ \E c \in WsChars : st' = [st EXCEPT !.len = @ + 1, !.s = Append(@, c)]
Next == CrcGrow \/ NumGrow \/ WsGrow
Spec == Init /\ [][Next]_st

IsWs(c) == c = 32 \/ c = 9
RECURSIVE Lead(_, _)
Lead(i, ws) == IF i <= Len(st.s) /\ (IsWs(st.s[i]) = ws) THEN 1 + Lead(i + 1, ws) ELSE 0
LeadWs == Lead(1, TRUE)
LeadNonWs == Lead(1, FALSE)
CountsBounded == LeadWs <= Len(st.s) /\ LeadNonWs <= Len(st.s) /\ (LeadWs = 0 \/ LeadNonWs = 0)
CrcCrossesSwitch == st.k = "crc" => Len(st.s) = st.len
Emit == PrintT(ToJson([g |-> "read", k |-> st.k, in |-> st.s, lead |-> LeadWs, nlead |-> LeadNonWs]))
=============================================================================
