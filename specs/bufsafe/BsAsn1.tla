------------------------------ MODULE BsAsn1 ------------------------------
(* C12 generator for asn_parse (include/utils/asn1.h): one BER TLV built from an identifier form, a
   length form and an amount of payload actually present (adversarial: truncated identifiers and
   lengths, multi-byte and huge lengths, payload cut short), optionally followed by a second TLV.
   The module renders the bytes and carries a reference header parser (X.690 8.1.2 / 8.1.3); TLC checks
   that the reference reads back what the generator built.  For the implementation the spec states the
   SAFETY ENVELOPE only: every call terminates, a successful call returns a data span inside the input
   and an offset that advances and stays <= the input size, and a header equal to the reference's. *)
EXTENDS BsCap, TLC, Json
VARIABLE st   \* [tag, len, pay, more]

TagForms == {"prim04", "cons30", "ctx80", "cons24", "seqprim10", "long-uni34", "long-uni5", "long-ctx128",
             "long-unterminated", "long-uni-3bytes"}
LenForms == {"s0", "s3", "s127", "l1-3", "l2-3", "l1-200", "l1-0", "l4-big", "l8-max", "l9", "indef", "l-trunc"}
PayForms == {"exact", "short1", "none", "plus-tlv"}

TagBytes(t) == CASE t = "prim04" -> << 4 >> [] t = "cons30" -> << 48 >> [] t = "ctx80" -> << 128 >>
   [] t = "cons24" -> << 36 >> [] t = "seqprim10" -> << 16 >>
   [] t = "long-uni34" -> << 31, 34 >> [] t = "long-uni5" -> << 31, 5 >>
   [] t = "long-ctx128" -> << 159, 129, 0 >> [] t = "long-unterminated" -> << 31, 129 >>
   [] t = "long-uni-3bytes" -> << 31, 129, 128, 1 >>
LenBytes(l) == CASE l = "s0" -> << 0 >> [] l = "s3" -> << 3 >> [] l = "s127" -> << 127 >>
   [] l = "l1-3" -> << 129, 3 >> [] l = "l2-3" -> << 130, 0, 3 >> [] l = "l1-200" -> << 129, 200 >>
   [] l = "l1-0" -> << 129, 0 >> [] l = "l4-big" -> << 132, 127, 255, 255, 255 >>
   [] l = "l8-max" -> << 136, 255, 255, 255, 255, 255, 255, 255, 255 >>
   [] l = "l9" -> << 137, 1, 1, 1, 1, 1, 1, 1, 1, 1 >> [] l = "indef" -> << 128 >> [] l = "l-trunc" -> << 130, 1 >>
\* declared payload length, -1 = not a definite length that fits 31 bits / not present
Declared(l) == CASE l = "s0" -> 0 [] l = "s3" -> 3 [] l = "s127" -> 127 [] l = "l1-3" -> 3 [] l = "l2-3" -> 3
   [] l = "l1-200" -> 200 [] l = "l1-0" -> 0 [] OTHER -> 0 - 1
Fill(n) == [i \in 1 .. n |-> 170]
PayLen(l, p) == LET d == Declared(l) IN
   IF d < 0 THEN (IF p = "none" THEN 0 ELSE 3)
   ELSE CASE p = "exact" -> d [] p = "short1" -> IF d > 0 THEN d - 1 ELSE 0 [] p = "none" -> 0 [] p = "plus-tlv" -> d
Render(s) == TagBytes(s.tag) \o LenBytes(s.len) \o Fill(PayLen(s.len, s.pay))
             \o (IF s.pay = "plus-tlv" THEN << 4, 1, 187 >> ELSE << >>)

Init == st \in { [tag |-> t, len |-> "s3", pay |-> "exact"] : t \in TagForms }
SetLen == st.len = "s3" /\ st.pay = "exact" /\ \E l \in LenForms \ {"s3"} : st' = [st EXCEPT !.len = l]
SetPay == st.pay = "exact" /\ \E p \in PayForms \ {"exact"} : st' = [st EXCEPT !.pay = p]
Next == SetLen \/ SetPay
Spec == Init /\ [][Next]_st

\* ---- reference header parser over bytes (positions from 1); result [ok, hdr, len] or ok = FALSE
RECURSIVE TagEnd(_, _)
TagEnd(b, i) == IF i > Len(b) THEN 0 ELSE IF b[i] < 128 THEN i ELSE TagEnd(b, i + 1)   \* last identifier octet
RECURSIVE BE(_, _, _)
BE(b, i, k) == IF k = 0 THEN 0 ELSE BE(b, i, k - 1) * 256 + b[i + k - 1]
RECURSIVE Significant(_, _, _)
Significant(b, i, k) == IF k = 0 THEN 0 ELSE IF b[i] # 0 THEN k ELSE Significant(b, i + 1, k - 1)
RefParse(b) ==
   LET bad == [ok |-> FALSE, hdr |-> 0, len |-> 0] IN
   IF Len(b) < 2 THEN bad ELSE
   LET te == IF b[1] % 32 = 31 THEN TagEnd(b, 2) ELSE 1 IN
   IF te = 0 \/ te + 1 > Len(b) THEN bad ELSE
   LET l0 == b[te + 1] IN
   IF l0 < 128 THEN (IF te + 1 + l0 <= Len(b) THEN [ok |-> TRUE, hdr |-> te + 1, len |-> l0] ELSE bad)
   ELSE LET k == l0 - 128 IN
      IF k = 0 \/ te + 1 + k > Len(b) THEN bad
      ELSE IF Significant(b, te + 2, k) > 3 THEN bad                 \* beyond any buffer used here
      ELSE LET v == BE(b, te + 2, k) IN
           IF te + 1 + k + v <= Len(b) THEN [ok |-> TRUE, hdr |-> te + 1 + k, len |-> v] ELSE bad

B == Render(st)
Ref == RefParse(B)
Terminated == st.tag # "long-unterminated"     \* (an unterminated identifier swallows the length octets)
Complete == Terminated /\ Declared(st.len) >= 0 /\ PayLen(st.len, st.pay) >= Declared(st.len)
\* the reference reads back exactly what the generator built
ReadBack == Terminated =>
   IF Complete THEN Ref.ok /\ Ref.hdr = Len(TagBytes(st.tag)) + Len(LenBytes(st.len)) /\ Ref.len = Declared(st.len)
   ELSE ~Ref.ok
\* the envelope, on the reference: an accepted TLV lies inside the input and consumes at least 2 bytes
EnvelopeOnRef == Ref.ok => Ref.hdr + Ref.len <= Len(B) /\ Ref.hdr >= 2

\* shape labels used in finding keys: by identifier form for table/identifier faults, by length form for spans
TagShape == IF st.tag \in {"long-uni34", "long-uni-3bytes", "long-unterminated"} THEN "long-form-universal-tag"
            ELSE IF st.tag \in {"long-uni5", "long-ctx128"} THEN "long-form-tag" ELSE "short-tag"
\* (read off the bytes, not off the generator's intent: an unterminated identifier shifts everything)
IdEnd == IF Len(B) >= 2 /\ B[1] % 32 = 31 THEN TagEnd(B, 2) ELSE 1
ShortFormLen == IdEnd # 0 /\ IdEnd + 1 <= Len(B) /\ B[IdEnd + 1] < 128
LenShape == IF ShortFormLen THEN (IF Ref.ok THEN "short-form-length" ELSE "short-form-length-truncated")
            ELSE IF Ref.ok THEN "long-form-length" ELSE "long-form-length-bad"
Emit == PrintT(ToJson([g |-> "asn", in |-> B, shape |-> [oob |-> TagShape, span |-> LenShape, term |-> LenShape], tag |-> st.tag, len |-> st.len, pay |-> st.pay,
                        ref |-> Ref]))
=============================================================================
