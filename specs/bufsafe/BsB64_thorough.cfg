SPECIFICATION Spec
CONSTANTS
  EncBytes = {0, 251, 255}
  EncMax = 6
  DecBytes = {65, 47, 61, 10, 255}
  DecMax = 5
INVARIANTS EncSized DecSized FmtSized EncLenIsRef DecLenIsRef
CONSTRAINT Emit
CHECK_DEADLOCK FALSE
