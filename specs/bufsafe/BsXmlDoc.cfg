SPECIFICATION Spec
INVARIANTS BalancedWhenMatched StrayGoesNegative CutIsProperPrefix
CONSTRAINT Emit
CHECK_DEADLOCK FALSE
