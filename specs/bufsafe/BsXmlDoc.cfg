SPECIFICATION Spec
CONSTANTS
  Pre = {"none", "cmt", "empty", "cempty"}
  Open = {"oa", "oattr", "ons", "sc"}
  Content = {"none", "txt", "cdata", "nested", "selfnested"}
  Close = {"ca", "cns", "cb", "none"}
  Post = {"none", "sp", "elem2", "stray", "lt"}
INVARIANTS BalancedWhenMatched StrayGoesNegative CutIsProperPrefix
CONSTRAINT Emit
CHECK_DEADLOCK FALSE
