SPECIFICATION Spec
CONSTANTS
  Pre = {"none", "cmt", "doctype", "cempty"}
  Open = {"oa", "oattr", "ons", "sc", "scsp"}
  Content = {"none", "txt", "cdata", "nested"}
  Close = {"ca", "cns", "cb", "none"}
  Post = {"none", "sp", "elem2", "stray", "lt", "ltbang"}
INVARIANTS BalancedWhenMatched StrayGoesNegative CutIsProperPrefix
CONSTRAINT Emit
CHECK_DEADLOCK FALSE
