SPECIFICATION Spec
CONSTANTS
  Pre = {"none", "cmt", "empty", "cempty"}
  Open = {"oa", "oattr", "ons", "sc"}
  Content = {"none", "txt", "cdata", "nested", "selfnested", "emptytag"}
  Close = {"ca", "cns", "cb", "none"}
  Post = {"none", "sp", "elem2", "stray", "lt"}
  CutWrapped = FALSE
INVARIANTS BalancedWhenMatched StrayGoesNegative CutIsProperPrefix
CONSTRAINT Emit
CHECK_DEADLOCK FALSE
