SPECIFICATION Spec
CONSTANTS MaxItems = 2
INVARIANTS RoundTrip Lens Sized
CONSTRAINT Emit
CHECK_DEADLOCK FALSE
