SPECIFICATION Spec
CONSTANTS
  MaxItems = 2
  Tier = "quick"
INVARIANTS RoundTrip Lens Sized
CONSTRAINT Emit
CHECK_DEADLOCK FALSE
