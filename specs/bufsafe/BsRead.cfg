SPECIFICATION Spec
CONSTANTS MaxItems = 2
INVARIANTS CountsBounded CrcCrossesSwitch
CONSTRAINT Emit
CHECK_DEADLOCK FALSE
