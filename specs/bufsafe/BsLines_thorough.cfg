SPECIFICATION Spec
CONSTANTS
  Chars = {97, 13, 10, 61, 91}
  MaxLen = 4
INVARIANTS Inside NoLfInside Tiles Terminates GenSized ReqBound
CONSTRAINT Emit
CHECK_DEADLOCK FALSE
