SPECIFICATION Spec
CONSTANTS
  MaxLen = 4
INVARIANTS Sized NoTie
CONSTRAINT Emit
CHECK_DEADLOCK FALSE
