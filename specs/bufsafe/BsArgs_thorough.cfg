SPECIFICATION Spec
CONSTANTS
  Chars = {97, 32, 9, 34}
  MaxLen = 6
INVARIANTS Inside Clean OnlyLastTouches Bounded
CONSTRAINT Emit
CHECK_DEADLOCK FALSE
