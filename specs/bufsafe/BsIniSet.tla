------------------------------ MODULE BsIniSet ------------------------------
(* C12 generator for ini_val_set (src/utils/ini.c), the store's growth path: a value that no longer
   fits the line's allocation (payload + 16 bytes of padding) is realloc'ed.  Operations
   set(section, key, value length) with lengths on both sides of the padding boundary; names, keys
   and values are handed over in exact-size blocks.  Reference = the obvious map; the size the store
   must report is  sum over sections (len("[sectN]") + 2) + sum over keys (len("keyN=") + vlen + 2). *)
EXTENDS BsCap, FiniteSets, TLC, Json
CONSTANTS Sects, Keys, VLens, MaxOps
VARIABLE ops      \* sequence of [s, k, v]
Init == ops = << >>
Set == Len(ops) < MaxOps /\ \E s \in Sects, k \in Keys, v \in VLens : ops' = Append(ops, [s |-> s, k |-> k, v |-> v])
Next == Set
Spec == Init /\ [][Next]_ops

\* reference store after the operations: the last value length per (section, key)
RECURSIVE Apply(_, _)
Apply(m, q) == IF Len(q) = 0 THEN m
   ELSE Apply([x \in DOMAIN m \cup {<< Head(q).s, Head(q).k >>} |->
                 IF x = << Head(q).s, Head(q).k >> THEN Head(q).v ELSE m[x]], Tail(q))
Store == Apply(<< >>, ops)                 \* function (s,k) -> vlen with empty domain initially
UsedSects == { x[1] : x \in DOMAIN Store }
RECURSIVE SumVals(_)
SumVals(S) == IF S = {} THEN 0 ELSE LET x == CHOOSE y \in S : TRUE IN (4 + 1 + Store[x] + 2) + SumVals(S \ {x})
\* "sectN" / "keyN" are 5 / 4 characters for N < 10
Need == 9 * Cardinality(UsedSects) + SumVals(DOMAIN Store)

LastWins == \A i \in 1 .. Len(ops) :
   (\A j \in (i + 1) .. Len(ops) : ops[j].s # ops[i].s \/ ops[j].k # ops[i].k) => Store[<< ops[i].s, ops[i].k >>] = ops[i].v
NeedBound == Need <= Len(ops) * (9 + 7 + 64)
Shape == IF \E i \in 1 .. Len(ops) : \E j \in 1 .. (i - 1) :
            ops[j].s = ops[i].s /\ ops[j].k = ops[i].k /\ ops[i].v > ops[j].v + 15 THEN "grows-past-padding" ELSE "fits"
Emit == PrintT(ToJson([g |-> "iniset", ops |-> ops, need |-> Need, shape |-> Shape]))
=============================================================================
