------------------------------ MODULE BsHex ------------------------------
(* C12 generator for cvt_bin2hex / cvt_hex2bin (src/utils/buf_str.c).
   "bin": bytes to print as hex; "hex": text with hex digits and junk (junk is skipped, an odd trailing
   nibble is dropped).  auto = the auto_out_size flag (1: report/zero-fill the whole output buffer). *)
EXTENDS BsCap, TLC, Json
CONSTANTS BinBytes, BinMax, HexChars, HexMax
VARIABLE st
Init == st \in { [k |-> kk, s |-> << >>, auto |-> a] : kk \in {"bin", "hex"}, a \in {0, 1} }
GrowBin == st.k = "bin" /\ Len(st.s) < BinMax /\ \E b \in BinBytes : st' = [st EXCEPT !.s = Append(@, b)]
GrowHex == st.k = "hex" /\ Len(st.s) < HexMax /\ \E b \in HexChars : st' = [st EXCEPT !.s = Append(@, b)]
Next == GrowBin \/ GrowHex
Spec == Init /\ [][Next]_st

IsHexDigit(c) == (c >= 48 /\ c <= 57) \/ (c >= 97 /\ c <= 102) \/ (c >= 65 /\ c <= 70)
DigitVal(c) == IF c <= 57 THEN c - 48 ELSE IF c >= 97 THEN c - 87 ELSE c - 55
DigitChr(v) == IF v < 10 THEN 48 + v ELSE 87 + v
ToHex(s) == [i \in 1 .. 2 * Len(s) |-> IF i % 2 = 1 THEN DigitChr(s[(i + 1) \div 2] \div 16)
                                                    ELSE DigitChr(s[i \div 2] % 16)]
Digits(t) == SelectSeq(t, IsHexDigit)
Pairs(t) == Len(Digits(t)) \div 2
FromHex(t) == LET d == Digits(t) IN [i \in 1 .. Pairs(t) |-> DigitVal(d[2 * i - 1]) * 16 + DigitVal(d[2 * i])]

\* ---- bin2hex: needs max(2, 2n); below 2 it refuses without a size; pads with '0' up to an even size
B2hReq(s) == Max(2, 2 * Len(s))
B2hF(s, c) == IF c < 2 THEN "fail" ELSE IF c < 2 * Len(s) THEN "need" ELSE "ok"
Even(x) == x - (x % 2)
B2hN(s, a, c) == IF Len(s) = 0 THEN (IF a = 1 THEN 2 ELSE Even(c))
                 ELSE IF a = 1 THEN 2 * Len(s) ELSE 2 * Len(s) + Even(c - 2 * Len(s))

\* ---- hex2bin: output = Pairs bytes; the function pre-checks cap against Len \div 2 (an upper bound
\*      when there is junk) and refuses cap = 0 and empty input
H2bReq(t) == Max(1, Max(Pairs(t), Len(t) \div 2))
H2bF(t, c) == IF Len(t) = 0 THEN "any"
              ELSE IF c < Pairs(t) THEN "fail"
              ELSE IF c >= H2bReq(t) THEN "ok" ELSE "either"
H2bN(t, a, c) == IF a = 1 THEN c ELSE Pairs(t)

BinSized == st.k = "bin" => SizedOK(B2hReq(st.s), B2hReq(st.s), LAMBDA c : B2hF(st.s, c))
HexSized == st.k = "hex" /\ Len(st.s) > 0 => SizedOK(H2bReq(st.s), Pairs(st.s), LAMBDA c : H2bF(st.s, c))
RoundTrip == st.k = "bin" => FromHex(ToHex(st.s)) = st.s /\ Len(ToHex(st.s)) = 2 * Len(st.s)
PairsBound == st.k = "hex" => Pairs(st.s) <= Len(st.s) \div 2
\* reported length never exceeds the capacity
NFits == /\ st.k = "bin" => \A c \in Caps(B2hReq(st.s)) : B2hF(st.s, c) = "ok" => B2hN(st.s, st.auto, c) <= c
         /\ st.k = "hex" => \A c \in Caps(H2bReq(st.s)) : H2bF(st.s, c) = "ok" => H2bN(st.s, st.auto, c) <= c

Emit == PrintT(ToJson(
   IF st.k = "bin"
   THEN [g |-> "hex", in |-> st.s, shape |-> "bin", aux |-> st.auto,
         ops |-> << [op |-> "bin2hex", req |-> B2hReq(st.s),
                     caps |-> CapTable(B2hReq(st.s), LAMBDA c : B2hF(st.s, c), LAMBDA c : B2hN(st.s, st.auto, c))] >>]
   ELSE [g |-> "hex", in |-> st.s, shape |-> IF Pairs(st.s) < Len(st.s) \div 2 THEN "junk" ELSE "clean", aux |-> st.auto,
         ops |-> << [op |-> "hex2bin", req |-> H2bReq(st.s),
                     caps |-> CapTable(H2bReq(st.s), LAMBDA c : H2bF(st.s, c), LAMBDA c : H2bN(st.s, st.auto, c))] >>]))
=============================================================================
