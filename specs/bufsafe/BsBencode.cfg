SPECIFICATION Spec
CONSTANTS
  MaxTok = 3
  MaxCut = 2
INVARIANTS ConsumedInside WholeDoc OpenNeverComplete BadKeyNeverComplete
CONSTRAINT Emit
CHECK_DEADLOCK FALSE
