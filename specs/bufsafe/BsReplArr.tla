------------------------------ MODULE BsReplArr ------------------------------
(* C12 generator for mem_replace_arr (include/utils/mem_utils.h) called directly with pattern tables whose matches
   OVERLAP in the source (one pattern starts strictly inside another's match) - which the entity tables of
   xml_encode / xml_decode (BsXmlEnt) never do.  Source = every string of at most MaxLen letters a..d.  Three tables
   (no pattern is a prefix of another, so two patterns never match at the same position and the left-to-right pass
   is unambiguous):   A: abc -> X,  bcd -> YY        B: ab -> Q,  bc -> RRR,  ca -> (empty)
                      C: aa -> a,   ab -> bbbb, ba -> dd
   Reference: one left-to-right pass - at each position the pattern that matches there is replaced and the pass
   continues behind the match (a match that started inside a consumed one is void).  Output buffer: every capacity
   0 .. required + 1; no size is reported on refusal ("fail" below the output size, "ok" from it on). *)
EXTENDS BsCap, TLC, Json
CONSTANTS MaxLen
VARIABLE src
Init == src = << >>
Grow == Len(src) < MaxLen /\ \E ch \in 97 .. 100 : src' = Append(src, ch)
Spec == Init /\ [][Grow]_src
Pats(t) == CASE t = 1 -> << <<97,98,99>>, <<98,99,100>> >>
             [] t = 2 -> << <<97,98>>, <<98,99>>, <<99,97>> >>
             [] t = 3 -> << <<97,97>>, <<97,98>>, <<98,97>> >>
Reps(t) == CASE t = 1 -> << <<88>>, <<89,89>> >>
             [] t = 2 -> << <<81>>, <<82,82,82>>, << >> >>
             [] t = 3 -> << <<97>>, <<98,98,98,98>>, <<100,100>> >>
StartsWith(s, p) == Len(s) >= Len(p) /\ SubSeq(s, 1, Len(p)) = p
At(t, s) == IF \E i \in 1 .. Len(Pats(t)) : StartsWith(s, Pats(t)[i]) THEN CHOOSE i \in 1 .. Len(Pats(t)) : StartsWith(s, Pats(t)[i]) ELSE 0
RECURSIVE Repl(_, _)
Repl(t, s) == IF Len(s) = 0 THEN << >>
   ELSE LET i == At(t, s) IN IF i = 0 THEN << s[1] >> \o Repl(t, Tail(s))
                             ELSE Reps(t)[i] \o Repl(t, SubSeq(s, Len(Pats(t)[i]) + 1, Len(s)))
RECURSIVE Count(_, _)
Count(t, s) == IF Len(s) = 0 THEN 0
   ELSE LET i == At(t, s) IN IF i = 0 THEN Count(t, Tail(s)) ELSE 1 + Count(t, SubSeq(s, Len(Pats(t)[i]) + 1, Len(s)))
(* some match starts strictly inside the match that the pass consumes *)
RECURSIVE Overlaps(_, _)
Overlaps(t, s) == IF Len(s) = 0 THEN FALSE
   ELSE LET i == At(t, s) IN IF i = 0 THEN Overlaps(t, Tail(s))
        ELSE (\E k \in 2 .. Len(Pats(t)[i]) : At(t, SubSeq(s, k, Len(s))) # 0) \/ Overlaps(t, SubSeq(s, Len(Pats(t)[i]) + 1, Len(s)))
Req(t) == Len(Repl(t, src))
F(req, c) == IF c < req THEN "fail" ELSE "ok"
Sized == \A t \in 1 .. 3 : SizedOK(Req(t), Req(t), LAMBDA c : F(Req(t), c))
NoTie == \A t \in 1 .. 3 : \A i, j \in 1 .. Len(Pats(t)) : i # j => ~StartsWith(Pats(t)[i], Pats(t)[j])
Op(t) == [op |-> <<"repla", "replb", "replc">>[t], req |-> Req(t), cnt |-> Count(t, src),
          shape |-> IF Overlaps(t, src) THEN "overlapping-matches" ELSE IF Count(t, src) > 0 THEN "has-match" ELSE "plain",
          caps |-> CapTable(Req(t), LAMBDA c : F(Req(t), c), LAMBDA c : Req(t))]
Emit == PrintT(ToJson([g |-> "xmlent", in |-> src, ops |-> << Op(1), Op(2), Op(3) >>]))
=============================================================================
