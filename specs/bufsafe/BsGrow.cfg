SPECIFICATION Spec
CONSTANTS
  Counts = {1, 63, 64, 65, 127, 128, 129}
  Blocks = {1, 4, 64}
INVARIANTS DocLen Contract HitsBoundary
CONSTRAINT Emit
CHECK_DEADLOCK FALSE
