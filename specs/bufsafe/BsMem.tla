------------------------------ MODULE BsMem ------------------------------
(* C12 generator for the search helpers of include/utils/mem_utils.h (mem_chr*, mem_rchr*, mem_find*,
   mem_cmpn / mem_cmpin, mem_to_lower / mem_to_upper) : haystack, needle and a start offset that runs
   from 0 to one past the end.  Envelope: a returned pointer is NULL or points at an occurrence inside
   the haystack; the forward searches with offset return the FIRST occurrence at or after it. *)
EXTENDS BsCap, TLC, Json
CONSTANTS HayChars, HayMax
Needles == { <<97>>, <<97, 98>>, <<98, 97, 98>>, << >> }   \* (a .cfg file cannot write tuples)
VARIABLE st    \* [h: haystack, nd: needle, off]
Init == st \in { [h |-> << >>, nd |-> n, off |-> 0] : n \in Needles }
Grow == st.off = 0 /\ Len(st.h) < HayMax /\ \E c \in HayChars : st' = [st EXCEPT !.h = Append(@, c)]
Shift == st.off = 0 /\ \E o \in 1 .. (Len(st.h) + 1) : st' = [st EXCEPT !.off = o]
Next == Grow \/ Shift
Spec == Init /\ [][Next]_st

H == st.h
N == st.nd
OccAt(i) == i + Len(N) <= Len(H) /\ \A j \in 1 .. Len(N) : H[i + j] = N[j]              \* 0-based i
Occ == IF Len(N) = 0 THEN {} ELSE { i \in 0 .. (Len(H) - 1) : OccAt(i) }
ChrOcc == IF Len(N) = 0 THEN { i \in 0 .. (Len(H) - 1) : H[i + 1] = 0 } ELSE { i \in 0 .. (Len(H) - 1) : H[i + 1] = N[1] }
MinOf(S) == IF S = {} THEN 0 - 1 ELSE CHOOSE m \in S : \A x \in S : m <= x
FirstFrom(S, o) == MinOf({ i \in S : i >= o })
Lower(c) == IF c >= 65 /\ c <= 90 THEN c + 32 ELSE c
EqCase == Len(H) = Len(N) /\ \A i \in 1 .. Len(H) : Lower(H[i]) = Lower(N[i])

OccInside == \A i \in Occ \cup ChrOcc : i >= 0 /\ i < Len(H)
FirstIsOcc == FirstFrom(Occ, st.off) \in Occ \cup {0 - 1} /\ (FirstFrom(Occ, st.off) >= 0 => FirstFrom(Occ, st.off) >= st.off)
PastEndFindsNothing == st.off >= Len(H) => FirstFrom(Occ, st.off) = 0 - 1 /\ FirstFrom(ChrOcc, st.off) = 0 - 1

Emit == PrintT(ToJson([g |-> "mem", h |-> H, nd |-> N, off |-> st.off, n |-> Len(H),
          occ |-> Occ, chrocc |-> ChrOcc,
          chr_off |-> FirstFrom(ChrOcc, st.off), find_off |-> FirstFrom(Occ, st.off),
          chr |-> MinOf(ChrOcc), find |-> MinOf(Occ), cmpn |-> (H = N), cmpin |-> EqCase]))
=============================================================================
