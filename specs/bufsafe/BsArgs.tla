------------------------------ MODULE BsArgs ------------------------------
(* C12 generator for buf2args (src/utils/buf_str.c): "split buf to array of arguments, separated by SP
   or TAB; if the first char is a double quote, SP and TAB are ignored until the next double quote".
   The buffer is modified in place (a NUL replaces the delimiter after each argument); the two result
   arrays have exactly max_args elements.  Input = every string over {letter, SP, TAB, quote} up to
   MaxLen; the capacity dimension is max_args = 0 .. (number of arguments + 1). *)
EXTENDS BsCap, TLC, Json
CONSTANTS Chars, MaxLen
VARIABLE s
Init == s = << >>
Grow == Len(s) < MaxLen /\ \E c \in Chars : s' = Append(s, c)
Next == Grow
Spec == Init /\ [][Next]_s

IsWs(c) == c = 32 \/ c = 9
RECURSIVE SkipWs(_), WordEnd(_), QuoteEnd(_), Split(_)
SkipWs(i) == IF i <= Len(s) /\ IsWs(s[i]) THEN SkipWs(i + 1) ELSE i
WordEnd(i) == IF i <= Len(s) /\ ~IsWs(s[i]) THEN WordEnd(i + 1) ELSE i          \* first ws at/after i, or Len+1
QuoteEnd(i) == IF i <= Len(s) /\ s[i] # 34 THEN QuoteEnd(i + 1) ELSE i          \* closing quote, or Len+1
\* spans are 0-based offsets into the buffer; positions i are 1-based
Split(i) == LET j == SkipWs(i) IN
   IF j > Len(s) THEN << >>
   ELSE IF s[j] = 34 THEN LET e == QuoteEnd(j + 1) IN << [o |-> j, l |-> e - (j + 1), q |-> TRUE] >> \o Split(e + 1)
   ELSE LET e == WordEnd(j) IN << [o |-> j - 1, l |-> e - j, q |-> FALSE] >> \o Split(e + 1)
All == Split(1)
K == Len(All)
Take(m) == SubSeq(All, 1, Min(m, K))
\* where the terminating NUL of argument a goes
NulAt(a) == a.o + a.l
\* does the call with max_args = m have to terminate an argument AT buf[Len] (outside the buffer)?
Touches(m) == \E i \in 1 .. Min(m, K) : NulAt(All[i]) >= Len(s)

Inside == SpansInside(All, Len(s)) /\ SpansOrdered(All)
\* an unquoted argument contains no blank, a quoted one no quote; arguments never overlap a delimiter
Clean == \A i \in 1 .. K : \A p \in (All[i].o + 1) .. (All[i].o + All[i].l) :
            IF All[i].q THEN s[p] # 34 ELSE ~IsWs(s[p])
\* at most one argument can touch the end, and it is the last one
OnlyLastTouches == \A i \in 1 .. K : NulAt(All[i]) >= Len(s) => i = K
Bounded == K <= (Len(s) + 1) \div 1 /\ \A m \in 0 .. (K + 1) : Len(Take(m)) <= m

Emit == PrintT(ToJson([g |-> "args", in |-> s, k |-> K,
          caps |-> [i \in 1 .. (K + 2) |-> [c |-> i - 1, spans |-> Take(i - 1),
                      shape |-> IF Touches(i - 1) THEN "last-arg-touches-end" ELSE "plain"]]]))
=============================================================================
