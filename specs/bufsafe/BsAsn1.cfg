SPECIFICATION Spec
INVARIANTS ReadBack EnvelopeOnRef
CONSTRAINT Emit
CHECK_DEADLOCK FALSE
