SPECIFICATION Spec
CONSTANTS
  Sects = {0, 1}
  Keys = {0, 1}
  VLens = {0, 1, 16, 17, 40}
  MaxOps = 2
INVARIANTS LastWins NeedBound
CONSTRAINT Emit
CHECK_DEADLOCK FALSE
