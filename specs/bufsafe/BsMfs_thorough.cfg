SPECIFICATION Spec
CONSTANTS
  Tier = "thorough"
  MaxPieces = 3
INVARIANTS ChunksTile WholeNeedleIsFound
CONSTRAINT Emit
CHECK_DEADLOCK FALSE
