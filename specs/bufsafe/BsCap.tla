------------------------------ MODULE BsCap ------------------------------
(* C12, shared vocabulary.  A "sized call" is  f(input, out, cap) ; the generator specs describe, for
   every capacity  0 .. required+1 , the CLASS of outcome the property allows:
     "ok"     success, exactly  n  output bytes reported (n given next to the class)
     "need"   refused AND the size it needs is reported (the rig then re-invokes with exactly that size,
              which must succeed: "the size the function itself reported ... is sufficient")
     "fail"   refused (no size demanded; if one is reported it must be sufficient, as above)
     "either" "ok" or "fail" - the function may be conservative here (e.g. it sizes by an upper bound)
     "any"    unspecified, anything memory-safe
   The statements below are the property itself, phrased over such an expectation function F(cap);
   every generator module checks them as INVARIANTS, so TLC decides them on the spec. *)
EXTENDS Naturals, Sequences

Caps(req) == 0 .. (req + 1)

\* exactly-sized buffers are sufficient (and one spare byte does not hurt)
ExactSuffices(req, F(_)) == F(req) = "ok" /\ F(req + 1) = "ok"
\* the function never claims success when the output cannot fit: reports instead of overflowing
NeverOkBelow(min, F(_)) == \A c \in 0 .. (min - 1) : min > 0 => F(c) \in {"need", "fail"}
\* once a capacity is enough, every larger one is
Monotone(req, F(_)) == \A c \in 0 .. req : F(c) = "ok" => F(c + 1) = "ok"
\* classes are drawn from the vocabulary
WellTyped(req, F(_)) == \A c \in Caps(req) : F(c) \in {"ok", "need", "fail", "either", "any"}

SizedOK(req, min, F(_)) == /\ WellTyped(req, F) /\ ExactSuffices(req, F)
                           /\ NeverOkBelow(min, F) /\ Monotone(req, F)

\* the per-capacity table that is emitted to the harness: << [c, cls, n], ... >>
CapTable(req, F(_), N(_)) == [i \in 1 .. (req + 2) |-> [c |-> i - 1, cls |-> F(i - 1), n |-> N(i - 1)]]

\* spans returned by scanners: << [o, l], ... >> lie inside an input of length n, in order, disjoint
SpansInside(sp, n) == \A i \in 1 .. Len(sp) : sp[i].o + sp[i].l <= n
SpansOrdered(sp) == \A i \in 1 .. (Len(sp) - 1) : sp[i].o + sp[i].l <= sp[i + 1].o

Max(a, b) == IF a > b THEN a ELSE b
Min(a, b) == IF a < b THEN a ELSE b
=============================================================================
