SPECIFICATION Spec
CONSTANTS
  Pre = {"none", "pi", "cmt", "doctype", "empty", "cempty", "bang"}
  Open = {"oa", "oattr", "ons", "osp", "sc", "scattr", "scsp"}
  Content = {"none", "txt", "cdata", "nested", "selfnested", "emptytag", "ccmt", "opencdata"}
  Close = {"ca", "cns", "cb", "none"}
  Post = {"none", "sp", "elem2", "stray", "lt", "ltbang"}
  CutWrapped = TRUE
INVARIANTS BalancedWhenMatched StrayGoesNegative CutIsProperPrefix
CONSTRAINT Emit
CHECK_DEADLOCK FALSE
