------------------------------ MODULE BsGrow ------------------------------
(* C12 generator for CONTAINER GROWTH: realloc_items (include/utils/mem_utils.h) and its users
   bt_en_decode (lists, dictionaries: blocks of 64 items) and the INI store (ini_buf_parse,
   ini_val_set: blocks of 64 lines).  The arrays grow in blocks; the boundary is an array that is
   exactly full at a multiple of the block size when the next element arrives.  Element counts run
   over both sides of one and two blocks; for the INI store a text of n lines is additionally
   followed by ini_val_set of new keys in a new section (two more lines for the first key).
   Contract of realloc_items stated here: after success the array has room for MORE than `count`
   elements, i.e. the caller may store element number `count`.  The overrun itself happens inside
   library-owned heap arrays and is observed by ASan. *)
EXTENDS BsCap, TLC, Json
CONSTANTS Counts, Blocks
VARIABLE st      \* [k: kind, n: number of elements, x: extra (sets after parse / block size)]
Kinds == {"btlist", "btdict", "btnest", "ini", "ritems"}
MinCount == CHOOSE m \in Counts : \A c \in Counts : m <= c
NextCount(n) == IF \E c \in Counts : c > n
                THEN CHOOSE m \in Counts : m > n /\ \A c \in Counts : c > n => m <= c ELSE 0
Init == st \in { [k |-> kk, n |-> MinCount, x |-> 0] : kk \in Kinds \ {"ritems"} }
               \cup { [k |-> "ritems", n |-> MinCount, x |-> b] : b \in Blocks }
More == NextCount(st.n) # 0 /\ (st.k = "ini" => st.x = 0) /\ st' = [st EXCEPT !.n = NextCount(st.n)]
SetAfter == st.k = "ini" /\ st.x = 0 /\ \E s \in {1, 2} : st' = [st EXCEPT !.x = s]
Next == More \/ SetAfter
Spec == Init /\ [][Next]_st

RECURSIVE Rep(_, _)
Rep(item, n) == IF n = 0 THEN << >> ELSE item \o Rep(item, n - 1)
Int == << 105, 49, 101 >>                 \* i1e
Pair == << 49, 58, 97, 105, 49, 101 >>    \* 1:a i1e
IniLine == << 107, 61, 118, 10 >>         \* k=v LF
Doc == CASE st.k = "btlist" -> << 108 >> \o Rep(Int, st.n) \o << 101 >>
         [] st.k = "btdict" -> << 100 >> \o Rep(Pair, st.n) \o << 101 >>
         [] st.k = "btnest" -> << 108 >> \o Rep(<< 108 >> \o Int \o << 101 >>, st.n) \o << 101 >>
         [] st.k = "ini" -> Rep(IniLine, st.n)
         [] OTHER -> << >>
\* the INI store regenerates "k=v" CR LF per parsed line, "[g]" CR LF for the new section and
\* "kNNN=v" CR LF (fixed-width key names) for every key set afterwards
IniNeed == 5 * st.n + (IF st.x > 0 THEN 5 + 8 * st.x ELSE 0)
\* blocks the array must have so that element number n-1 has been stored and element n could be
BlocksFor(n, b) == (n \div b) + 1

DocLen == CASE st.k = "btlist" -> Len(Doc) = 3 * st.n + 2
            [] st.k = "btdict" -> Len(Doc) = 6 * st.n + 2
            [] st.k = "btnest" -> Len(Doc) = 5 * st.n + 2
            [] st.k = "ini" -> Len(Doc) = 4 * st.n
            [] OTHER -> TRUE
\* the contract: room for more than `count`, in whole blocks, never more than one spare block
RoomAfter(count, b) == BlocksFor(count, b) * b
Contract == \A b \in Blocks : \A c \in Counts :
               RoomAfter(c, b) > c /\ RoomAfter(c, b) <= c + b /\ RoomAfter(c, b) % b = 0
\* the corpus really has an exactly-full array followed by one more element
HitsBoundary == \E c \in Counts : c % 64 = 0 /\ c > 0 /\ (c + 1) \in Counts

\* label for finding keys: which container, and whether it had to grow beyond its first block
Block == IF st.k = "ritems" THEN st.x ELSE 64
Elems == st.n + (IF st.k = "ini" /\ st.x > 0 THEN 1 + st.x ELSE 0)
Shape == (IF st.k = "ini" /\ st.x > 0 THEN "ini+set" ELSE st.k) \o
         (IF Elems > Block THEN "/grows-past-first-block" ELSE "/fits-first-block")
Emit == PrintT(ToJson([g |-> "grow", k |-> st.k, n |-> st.n, x |-> st.x, in |-> Doc, need |-> IniNeed,
          shape |-> Shape]))
=============================================================================
