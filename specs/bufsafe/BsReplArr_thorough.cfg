SPECIFICATION Spec
CONSTANTS
  MaxLen = 6
INVARIANTS Sized NoTie
CONSTRAINT Emit
CHECK_DEADLOCK FALSE
