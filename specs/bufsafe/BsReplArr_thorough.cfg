SPECIFICATION Spec
CONSTANTS
  MaxLen = 5
INVARIANTS Sized NoTie
CONSTRAINT Emit
CHECK_DEADLOCK FALSE
