SPECIFICATION Spec
INVARIANTS Sized Canonical InRange PowLen PowPredLen
CONSTRAINT Emit
CHECK_DEADLOCK FALSE
