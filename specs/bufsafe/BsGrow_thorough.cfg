SPECIFICATION Spec
CONSTANTS
  Counts = {1, 2, 62, 63, 64, 65, 66, 127, 128, 129, 191, 192, 193, 256, 257}
  Blocks = {1, 2, 4, 63, 64, 65}
INVARIANTS DocLen Contract HitsBoundary
CONSTRAINT Emit
CHECK_DEADLOCK FALSE
