------------------------------ MODULE BsXmlDoc ------------------------------
(* C12 generator for xml_get_val_arr / xml_get_val_ns_arr / xml_calc_tag_count_args (src/utils/xml.c).
   A document is   [<r>] pre open content close post [</r>]   with each slot drawn from markup that is
   legal, odd or broken (processing instruction, comment, DOCTYPE, "<>", "</>", attributes, name space
   prefix, self-closing forms, CDATA, nested element, missing / mismatched / stray closing tag, a bare
   "<" at the very end) and, for the plain skeletons, cut after every byte.
   SAFETY ENVELOPE for the extractors: every call terminates; returned value / attribute / name-space
   spans and next_pos lie inside the input; feeding next_pos back in (the documented iteration idiom,
   also used by xml_calc_tag_count_args) makes progress. *)
EXTENDS BsCap, TLC, Json
VARIABLE st   \* [wrap, pre, open, content, close, post, cut]

CONSTANTS Pre,      \* subset of {"none", "pi", "cmt", "doctype", "empty", "cempty", "bang"}
          Open,     \* subset of {"oa", "oattr", "ons", "osp", "sc", "scattr", "scsp"}
          Content,  \* subset of {"none", "txt", "cdata", "nested", "selfnested", "emptytag", "ccmt", "opencdata"}
          Close,    \* subset of {"ca", "cns", "cb", "none"}
          Post,     \* subset of {"none", "sp", "elem2", "stray", "lt", "ltbang"}
          CutWrapped \* BOOLEAN: also cut the documents that are wrapped in <r>...</r>
SelfClosing == {"sc", "scattr", "scsp"}

T(x) == CASE x = "none" -> << >>
   [] x = "pi" -> << 60, 63, 112, 63, 62 >>
   [] x = "cmt" -> << 60, 33, 45, 45, 107, 45, 45, 62 >>
   [] x = "doctype" -> << 60, 33, 68, 79, 67, 84, 89, 80, 69, 32, 100, 62 >>
   [] x = "empty" -> << 60, 62 >>
   [] x = "cempty" -> << 60, 47, 62 >>
   [] x = "bang" -> << 60, 33, 120, 62 >>
   [] x = "oa" -> << 60, 97, 62 >>
   [] x = "oattr" -> << 60, 97, 32, 120, 61, 34, 49, 34, 62 >>
   [] x = "ons" -> << 60, 110, 58, 97, 62 >>
   [] x = "osp" -> << 60, 97, 32, 62 >>
   [] x = "sc" -> << 60, 97, 47, 62 >>
   [] x = "scattr" -> << 60, 97, 32, 120, 61, 34, 49, 34, 47, 62 >>
   [] x = "scsp" -> << 60, 97, 32, 47, 62 >>
   [] x = "txt" -> << 116, 49 >>
   [] x = "cdata" -> << 60, 33, 91, 67, 68, 65, 84, 65, 91, 99, 60, 100, 93, 93, 62 >>
   [] x = "nested" -> << 60, 98, 62, 116, 60, 47, 98, 62 >>
   [] x = "selfnested" -> << 60, 98, 47, 62 >>
   [] x = "emptytag" -> << 60, 62 >>
   [] x = "ccmt" -> << 117, 60, 33, 45, 45, 107, 45, 45, 62, 118 >>
   [] x = "opencdata" -> << 60, 33, 91, 67, 68, 65, 84, 65, 91, 99 >>
   [] x = "ca" -> << 60, 47, 97, 62 >>
   [] x = "cns" -> << 60, 47, 110, 58, 97, 62 >>
   [] x = "cb" -> << 60, 47, 98, 62 >>
   [] x = "sp" -> << 32 >>
   [] x = "elem2" -> << 60, 97, 62, 50, 60, 47, 97, 62 >>
   [] x = "stray" -> << 60, 47, 97, 62 >>
   [] x = "lt" -> << 60 >>
   [] x = "ltbang" -> << 60, 33 >>
   [] x = "or" -> << 60, 114, 62 >>
   [] x = "cr" -> << 60, 47, 114, 62 >>

Body(s) == IF s.open \in SelfClosing THEN T(s.open) ELSE T(s.open) \o T(s.content) \o T(s.close)
Full(s) == (IF s.wrap THEN T("or") ELSE << >>) \o T(s.pre) \o Body(s) \o T(s.post) \o (IF s.wrap THEN T("cr") ELSE << >>)
B == SubSeq(Full(st), 1, Len(Full(st)) - st.cut)

Dflt == [wrap |-> FALSE, pre |-> "none", open |-> "oa", content |-> "txt", close |-> "ca", post |-> "none", cut |-> 0]
Init == st = Dflt
\* slots are filled left to right (a slot may change only while all later slots are still at their
\* default), so every document is generated exactly once
Later(n) == /\ st.cut = 0
            /\ (n < 6 => st.post = "none") /\ (n < 5 => st.close = "ca") /\ (n < 4 => st.content = "txt")
            /\ (n < 3 => st.open = "oa") /\ (n < 2 => st.pre = "none")
SetWrap == Later(1) /\ ~st.wrap /\ st' = [st EXCEPT !.wrap = TRUE]
SetPre == Later(2) /\ st.pre = "none" /\ \E x \in Pre \ {"none"} : st' = [st EXCEPT !.pre = x]
SetOpen == Later(3) /\ st.open = "oa" /\ \E x \in Open \ {"oa"} : st' = [st EXCEPT !.open = x]
SetContent == Later(4) /\ st.content = "txt" /\ st.open \notin SelfClosing /\ \E x \in Content \ {"txt"} : st' = [st EXCEPT !.content = x]
SetClose == Later(5) /\ st.close = "ca" /\ st.open \notin SelfClosing /\ \E x \in Close \ {"ca"} : st' = [st EXCEPT !.close = x]
SetPost == Later(6) /\ st.post = "none" /\ \E x \in Post \ {"none"} : st' = [st EXCEPT !.post = x]
\* cut anywhere (plain skeletons only, to keep the corpus small)
CutIt == st.cut = 0 /\ st.pre = "none" /\ st.post = "none" /\ (st.wrap => CutWrapped) /\ \E c \in 1 .. (Len(Full(st)) - 1) : st' = [st EXCEPT !.cut = c]
Next == SetWrap \/ SetPre \/ SetOpen \/ SetContent \/ SetClose \/ SetPost \/ CutIt
Spec == Init /\ [][Next]_st

\* ---- structure of the uncut document: +1 per element opener, -1 per closer, in document order
Matches == st.open \in SelfClosing \/ (st.open = "ons" /\ st.close = "cns") \/ (st.open # "ons" /\ st.close = "ca")
Deltas == (IF st.wrap THEN << 1 >> ELSE << >>)
          \o (IF st.open \in SelfClosing THEN << >>
              ELSE << 1 >> \o (IF st.content = "nested" THEN << 1, 0 - 1 >> ELSE << >>)
                   \o (IF st.close = "none" THEN << >> ELSE << 0 - 1 >>))
          \o (CASE st.post = "elem2" -> << 1, 0 - 1 >> [] st.post = "stray" -> << 0 - 1 >> [] OTHER -> << >>)
          \o (IF st.wrap THEN << 0 - 1 >> ELSE << >>)
RECURSIVE Sum(_, _)
Sum(q, n) == IF n = 0 THEN 0 ELSE Sum(q, n - 1) + q[n]
MinPrefix == LET S == { Sum(Deltas, n) : n \in 0 .. Len(Deltas) } IN CHOOSE m \in S : \A x \in S : m <= x
\* a skeleton whose closer matches and that has no stray closer is balanced; a stray closer goes negative
BalancedWhenMatched == st.close # "none" /\ st.post # "stray" => Sum(Deltas, Len(Deltas)) = 0 /\ MinPrefix = 0
StrayGoesNegative == st.post = "stray" /\ st.close # "none" => Sum(Deltas, Len(Deltas)) < 0
CutIsProperPrefix == st.cut > 0 => Len(B) >= 1 /\ Len(B) < Len(Full(st))
                        /\ \A i \in 1 .. Len(B) : B[i] = Full(st)[i]

Last == IF Len(B) = 0 THEN 0 ELSE B[Len(B)]
OobShape == IF Last = 60 THEN "lt-at-end" ELSE IF st.post = "stray" THEN "stray-close" ELSE "plain"
Emit == PrintT(ToJson([g |-> "xml", in |-> B, cnt |-> (st.cut = 0),
         shape |-> [oob |-> OobShape, span |-> "plain",
                    term |-> IF Last = 62 THEN "input-ends-with-tag" ELSE "plain"],
         d |-> st]))
=============================================================================
