SPECIFICATION Spec
CONSTANTS
  HayChars = {97, 98, 65}
  HayMax = 4
INVARIANTS OccInside FirstIsOcc PastEndFindsNothing
CONSTRAINT Emit
CHECK_DEADLOCK FALSE
