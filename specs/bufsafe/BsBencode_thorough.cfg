SPECIFICATION Spec
CONSTANTS
  MaxTok = 4
  MaxCut = 2
INVARIANTS ConsumedInside WholeDoc OpenNeverComplete BadKeyNeverComplete
CONSTRAINT Emit
CHECK_DEADLOCK FALSE
