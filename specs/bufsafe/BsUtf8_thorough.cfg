SPECIFICATION Spec
CONSTANTS MaxItems = 3
INVARIANTS GoodRoundTrip BadStops Bounded
CONSTRAINT Emit
CHECK_DEADLOCK FALSE
