SPECIFICATION TSpec
CONSTANTS
  B = 64
  MaxLen = 0
  TrackOut = TRUE
  InitCounters = {}
INVARIANTS TypeOK StreamCorrect CounterCarries SavedKeyStream Report
CHECK_DEADLOCK FALSE
