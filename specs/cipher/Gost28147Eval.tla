---------------------------- MODULE Gost28147Eval ----------------------------
(* Mode C: outputs logged from the real gost28147_blocks_encrypt/_decrypt/_mac (and the big-endian _be variants
   of encrypt/decrypt) validated by TLC evaluating the GOST 28147-89 reference.  One ndjson record per DISTINCT
   (input, output) pair seen by the driver:
     {"op":"enc"|"dec"|"enc_be"|"dec_be","sbox":1..6,"key":[32 bytes],"data":[8k bytes],"out":[8k bytes]}
     {"op":"mac","sbox":..,"key":[..],"data":[8k bytes],"out":[m bytes]}      m <= 8: the first m bytes of the MAC
   Every line is consumed; mismatches are collected in `bad` with the expected value (for the first few). *)
EXTENDS Gost28147, Json, IOUtils, TLC
Tr == ndJsonDeserialize(IOEnv.TRACE)
VARIABLES l, bad
KeepExpect == 8      \* the expected value is reported for the first few mismatches only (keeps the state small)

Expect(r) ==
   IF r.op = "enc" THEN EncryptLE(r.sbox, r.key, r.data)
   ELSE IF r.op = "dec" THEN DecryptLE(r.sbox, r.key, r.data)
   ELSE IF r.op = "enc_be" THEN EncryptBE(r.sbox, r.key, r.data)
   ELSE IF r.op = "dec_be" THEN DecryptBE(r.sbox, r.key, r.data)
   ELSE SubSeq(MacLE(r.sbox, r.key, r.data), 1, Len(r.out))

Init == l = 1 /\ bad = << >>
Next == /\ l <= Len(Tr)
        /\ LET e == Expect(Tr[l])
           IN  bad' = IF e = Tr[l].out /\ (Tr[l].op = "mac" => Len(Tr[l].out) \in 1..8) THEN bad
                      ELSE Append(bad, IF Len(bad) < KeepExpect THEN [line |-> l, expect |-> e] ELSE [line |-> l])
        /\ l' = l + 1
Spec == Init /\ [][Next]_<< l, bad >>
Report == l <= Len(Tr) \/ PrintT(ToJson([done |-> Len(Tr), bad |-> bad]))
=============================================================================
