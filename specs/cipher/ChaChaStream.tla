---------------------------- MODULE ChaChaStream ----------------------------
(* The streaming interface of liblcb's ChaCha (chacha_str_init / chacha_str_data_crypt in
   include/crypto/cipher/chacha.h), property C08: "independent of how the data is split across stream calls ...
   and the 64-bit block counter carries correctly".
   The block function is UNINTERPRETED: an output byte is the symbolic value
        [si |-> index of the source byte it was xored with (None when src = NULL), c |-> block counter, o |-> offset]
   meaning  src[si] XOR KS(c)[o].  The model describes what the code does, phase by phase; the property is the
   separate invariant StreamCorrect.
   B is the block length (64 in the code; 4 in the exhaustive configuration, 64 in the trace configuration).
   The counter is modelled as the code keeps it: two 32-bit words state[12] (low) and state[13] (high), each a
   CWords pair << hi16, lo16 >>, incremented with an explicit carry after every block.  The reference counter of
   the invariant is computed independently with limb arithmetic modulo 2^64 (Add64Small). *)
EXTENDS Naturals, Sequences, CWords
CONSTANTS B, InitCounters, MaxLen,
          TrackOut     \* TRUE: keep the symbolic output (ghost) - needed by StreamCorrect; FALSE: ctx fields only
None == 0 - 1

VARIABLES c0,      \* ghost: initial counter, limbs << l3, l2, l1, l0 >>
          ctr,     \* << state[13], state[12] >>, words as << hi16, lo16 >>
          ksLeft,  \* ctx->ks_len: unused bytes at the END of ctx->ks
          ksBlk,   \* ghost: counter (as ctr) of the block whose key stream is saved in ctx->ks
          pos,     \* ghost: bytes processed so far
          out      \* ghost: symbolic output of the whole stream
vars == << c0, ctr, ksLeft, ksBlk, pos, out >>

Limbs(c) == << c[1][1], c[1][2], c[2][1], c[2][2] >>
OfLimbs(l) == << << l[1], l[2] >>, << l[3], l[4] >> >>
One == << 0, 1 >>
\* chacha_block_*: "ctx->state[12] ++; if (0 == ctx->state[12]) ctx->state[13] ++;"
IncCtr(c) == LET lo == Add32(c[2], One)
             IN  IF lo = << 0, 0 >> THEN << Add32(c[1], One), lo >> ELSE << c[1], lo >>

Sym(x, i, c, o) == [si |-> IF x = 1 THEN i ELSE None, c |-> Limbs(c), o |-> o]
Min(a, b) == IF a < b THEN a ELSE b

RECURSIVE SymRun(_, _, _, _, _, _)
\* k symbolic bytes: source indices i.., key stream block c, offsets o..
SymRun(x, i, c, o, k, acc) == IF k = 0 \/ ~TrackOut THEN acc ELSE SymRun(x, i + 1, c, o + 1, k - 1, Append(acc, Sym(x, i, c, o)))

\* phase 1: "if (0 != count) { ptr = ks + (BLOCK - ks_len); count = min(count, bytes); dst[i] = src[i] ^ ptr[i] ..."
Drain(st, n, x) ==
   IF st.ksLeft = 0 THEN st
   ELSE LET d == Min(st.ksLeft, n)
        IN  [st EXCEPT !.out = SymRun(x, st.pos, st.ksBlk, B - st.ksLeft, d, @),
                       !.ksLeft = @ - d, !.pos = @ + d, !.todo = @ - d]
\* phase 2: "if (bytes >= BLOCK) chacha_blocks_transform(..., bytes / BLOCK, ...)": one block function call and one
\* counter increment per block
RECURSIVE WholeBlocks(_, _)
WholeBlocks(st, x) ==
   IF st.todo < B THEN st
   ELSE WholeBlocks([st EXCEPT !.out = SymRun(x, st.pos, st.ctr, 0, B, @), !.ctr = IncCtr(@),
                               !.pos = @ + B, !.todo = @ - B], x)
\* phase 3: "ks_len = BLOCK - bytes; ... chacha_block_aligned(ctx, src-or-NULL, ks); memcpy(ptr, ks, bytes)"
PartialTail(st, x) ==
   IF st.todo = 0 THEN st
   ELSE [st EXCEPT !.out = SymRun(x, st.pos, st.ctr, 0, st.todo, @), !.ksBlk = st.ctr, !.ksLeft = B - st.todo,
                   !.ctr = IncCtr(@), !.pos = @ + st.todo, !.todo = 0]

\* the state after chacha_str_data_crypt(ctx, x = 1 ? src : NULL, n, dst)
CryptResult(n, x) ==
   LET st0 == [ctr |-> ctr, ksLeft |-> ksLeft, ksBlk |-> ksBlk, pos |-> pos, out |-> out, todo |-> n]
   IN  IF n = 0 THEN st0 ELSE PartialTail(WholeBlocks(Drain(st0, n, x), x), x)

StrInit(c) == /\ c0 = Limbs(c) /\ ctr = c /\ ksLeft = 0 /\ ksBlk = c /\ pos = 0 /\ out = << >>
Init == \E c \in InitCounters : StrInit(c)
\* chacha_str_init on a used context (trace validation re-initialises between executions)
ReInit(c) == /\ c0' = Limbs(c) /\ ctr' = c /\ ksLeft' = 0 /\ ksBlk' = c /\ pos' = 0 /\ out' = << >>

Crypt(n, x) == LET r == CryptResult(n, x)
               IN  /\ ctr' = r.ctr /\ ksLeft' = r.ksLeft /\ ksBlk' = r.ksBlk /\ pos' = r.pos /\ out' = r.out
                   /\ UNCHANGED c0
CryptSrc  == \E n \in 0..(MaxLen - pos) : Crypt(n, 1)
CryptNull == \E n \in 0..(MaxLen - pos) : Crypt(n, 0)
Next == CryptSrc \/ CryptNull
Spec == Init /\ [][Next]_vars

---------------------------------------------------------------------------
\* THE PROPERTY: byte i of the stream is  src[i] XOR KS(counter0 + i div B)[i mod B], whatever the split
RefByte(i, x) == [si |-> IF x THEN i ELSE None, c |-> Add64Small(c0, i \div B), o |-> i % B]
StreamCorrect == TrackOut =>
                 /\ Len(out) = pos
                 /\ \A j \in 1..Len(out) : out[j] = RefByte(j - 1, out[j].si # None)
\* the 64-bit counter carries: the two words always spell counter0 + number of blocks started, modulo 2^64
CounterCarries == Limbs(ctr) = Add64Small(c0, (pos + B - 1) \div B)
\* the saved key stream is the unused rest of the block the stream is in
SavedKeyStream == /\ ksLeft = (B - (pos % B)) % B
                  /\ ksLeft > 0 => Limbs(ksBlk) = Add64Small(c0, pos \div B)
TypeOK == /\ ksLeft \in 0..(B - 1) /\ IsWord(ctr[1]) /\ IsWord(ctr[2])
=============================================================================
