------------------------------- MODULE ChaCha -------------------------------
(* ChaCha (D. J. Bernstein, "ChaCha, a variant of Salsa20", 2008; RFC 7539/8439 section 2) in the original
   layout with a 64-bit block counter (state words 12,13) and a 64-bit nonce (words 14,15), for 8, 12 or 20
   rounds and 128- or 256-bit keys; HChaCha and XChaCha (draft-irtf-cfrg-xchacha section 2.2/2.3, generalised to
   the round count of the cipher exactly as in chacha-opt).  Plain mathematics over CWords; reference for
   liblcb include/crypto/cipher/chacha.h (property C08).  Nothing here is derived from the header: the constants
   are the ASCII strings of the specification; the vectors used to validate this module are in ChaChaVectors. *)
EXTENDS CWords

\* "expand 32-byte k" / "expand 16-byte k"
SigmaBytes == << 101,120,112,97, 110,100,32,51, 50,45,98,121, 116,101,32,107 >>
TauBytes   == << 101,120,112,97, 110,100,32,49, 54,45,98,121, 116,101,32,107 >>
Words4(b, i) == << LE32(b, i), LE32(b, i + 4), LE32(b, i + 8), LE32(b, i + 12) >>
ZeroW == << 0, 0 >>

\* RFC 7539 2.1: quarter round on the 1-based positions a, b, c, d of a 16-word state
QR(s, a, b, c, d) ==
   LET a1 == Add32(s[a], s[b])
       d1 == Rotl32(Xor32(s[d], a1), 16)
       c1 == Add32(s[c], d1)
       b1 == Rotl32(Xor32(s[b], c1), 12)
       a2 == Add32(a1, b1)
       d2 == Rotl32(Xor32(d1, a2), 8)
       c2 == Add32(c1, d2)
       b2 == Rotl32(Xor32(b1, c2), 7)
   IN  [s EXCEPT ![a] = a2, ![b] = b2, ![c] = c2, ![d] = d2]

\* RFC 7539 2.3: column round followed by diagonal round
DoubleRound(s) ==
   QR(QR(QR(QR(QR(QR(QR(QR(s, 1, 5, 9, 13), 2, 6, 10, 14), 3, 7, 11, 15), 4, 8, 12, 16),
                        1, 6, 11, 16), 2, 7, 12, 13), 3, 8, 9, 14), 4, 5, 10, 15)
RECURSIVE Rounds(_, _)
Rounds(s, n) == IF n = 0 THEN s ELSE Rounds(DoubleRound(s), n - 2)      \* n \in {8, 12, 20}

\* key: 16 or 32 bytes -> words 0..11 (constants + key; a 128-bit key is used twice with the tau constants)
KeyPart(key) == IF Len(key) = 32 THEN Words4(SigmaBytes, 1) \o Words4(key, 1) \o Words4(key, 17)
                ELSE Words4(TauBytes, 1) \o Words4(key, 1) \o Words4(key, 1)

\* ctr: the 64-bit block counter as limbs << l3, l2, l1, l0 >>;  iv: 8 bytes
InitState(key, ctr, iv) == KeyPart(key) \o << << ctr[3], ctr[4] >>, << ctr[1], ctr[2] >>, LE32(iv, 1), LE32(iv, 5) >>

RECURSIVE SerAdd(_, _, _, _)
SerAdd(r, s, i, acc) == IF i > 16 THEN acc ELSE SerAdd(r, s, i + 1, acc \o BytesLE(Add32(r[i], s[i])))
\* the 64 key stream bytes of one block
Block(s, rounds) == SerAdd(Rounds(s, rounds), s, 1, << >>)

CtrOfBytes(c) == << c[8] * 256 + c[7], c[6] * 256 + c[5], c[4] * 256 + c[3], c[2] * 256 + c[1] >>
Zero8 == << 0, 0, 0, 0, 0, 0, 0, 0 >>

RECURSIVE KeyStreamFrom(_, _, _, _, _, _, _)
KeyStreamFrom(key, ctr, iv, rounds, k, nblocks, acc) ==
   IF k = nblocks THEN acc
   ELSE KeyStreamFrom(key, ctr, iv, rounds, k + 1, nblocks,
                      acc \o Block(InitState(key, Add64Small(ctr, k), iv), rounds))
\* first n bytes of the key stream that starts at block counter ctr (counter arithmetic modulo 2^64)
KeyStream(key, ctr, iv, rounds, n) ==
   SubSeq(KeyStreamFrom(key, ctr, iv, rounds, 0, (n + 63) \div 64, << >>), 1, n)

\* HChaCha: key 16/32 bytes, iv 16 bytes -> 32 bytes (words 0..3 and 12..15 after the rounds, no feed-forward)
HChaCha(key, iv16, rounds) ==
   LET r == Rounds(KeyPart(key) \o Words4(iv16, 1), rounds)
   IN  BytesLE(r[1]) \o BytesLE(r[2]) \o BytesLE(r[3]) \o BytesLE(r[4]) \o
       BytesLE(r[13]) \o BytesLE(r[14]) \o BytesLE(r[15]) \o BytesLE(r[16])

\* XChaCha: iv 24 bytes; sub-key from the first 16, the remaining 8 are the ChaCha nonce
XKeyStream(key, ctr, iv24, rounds, n) ==
   KeyStream(HChaCha(key, SubSeq(iv24, 1, 16), rounds), ctr, SubSeq(iv24, 17, 24), rounds, n)

\* encryption = decryption = xor with the key stream; src = << >> with n > 0 means "pure key stream"
Crypt(ks, src) == IF Len(src) = 0 THEN ks ELSE XorSeq(src, ks)
=============================================================================
