---------------------------- MODULE ChaChaRefMC ----------------------------
(* Validation of the ChaCha reference INSIDE TLC (no implementation involved): every ASSUME is evaluated when
   TLC loads the module, a false one aborts the run.  RFC 7539 2.1.1 quarter-round vector, the RFC 7539 appendix
   A.1/A.2 and draft-strombergson TC1/TC8 vectors (8/12/20 rounds x 128/256-bit keys, counters 0, 1, 2, 42,
   lengths up to 375 bytes, with and without plain text), HChaCha/8 and the folded ChaCha/8 and XChaCha/8 streams
   of chacha-opt.  The behaviour part is a trivial one-state system so that TLC has something to "check". *)
EXTENDS ChaCha, ChaChaVectors, TLC

Hx(hi, lo) == << hi, lo >>
\* RFC 7539 2.1.1: a = 0x11111111 b = 0x01020304 c = 0x9b8d6f43 d = 0x01234567
QRIn  == << Hx(4369, 4369), Hx(258, 772), Hx(39821, 28483), Hx(291, 17767) >>
\*          a = 0xea2a92f4      b = 0xcb1cf8ce     c = 0x4581472e       d = 0x5881c4bb
QROut == << Hx(59946, 37620), Hx(51996, 63694), Hx(17793, 18222), Hx(22657, 50363) >>
ASSUME QRVector == LET s == [i \in 1..16 |-> IF i <= 4 THEN QRIn[i] ELSE ZeroW]
                       r == QR(s, 1, 2, 3, 4)
                   IN  << r[1], r[2], r[3], r[4] >> = QROut

VecOK(v) == Crypt(KeyStream(v.key, CtrOfBytes(v.ctr), v.iv, v.rounds, v.n), v.plain) = v.out
ASSUME PublishedVectors == \A i \in 1..Len(Vectors) : VecOK(Vectors[i]) \/ ~PrintT(<< "vector fails", i >>)

ASSUME HChaChaVector == HChaCha(OptKey, SubSeq(OptIv, 1, 16), 8) = ExpectedHChaCha8

RECURSIVE Fold(_, _, _)
Fold(ks, k, acc) == IF k * 64 >= Len(ks) THEN acc ELSE Fold(ks, k + 1, XorSeq(acc, SubSeq(ks, k * 64 + 1, k * 64 + 64)))
Zero64 == [i \in 1..64 |-> 0]
ASSUME ChaCha8Fold  == Fold(KeyStream(OptKey, CtrOfBytes(Zero8), SubSeq(OptIv, 1, 8), 8, 2048), 0, Zero64) = ExpectedChaCha8Fold
ASSUME XChaCha8Fold == Fold(XKeyStream(OptKey, CtrOfBytes(Zero8), OptIv, 8, 2048), 0, Zero64) = ExpectedXChaCha8Fold

\* counter arithmetic of the reference: limbs, modulo 2^64
ASSUME CounterCarry ==
   /\ Add64Small(<< 0, 0, 65535, 65535 >>, 1) = << 0, 1, 0, 0 >>
   /\ Add64Small(<< 65535, 65535, 65535, 65534 >>, 3) = << 0, 0, 0, 1 >>
   /\ Add64Small(<< 7, 65535, 65535, 65535 >>, 2) = << 8, 0, 0, 1 >>

VARIABLE x
Init == x = 0
Next == UNCHANGED x
Spec == Init /\ [][Next]_x
=============================================================================
