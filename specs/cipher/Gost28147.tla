------------------------------ MODULE Gost28147 ------------------------------
(* GOST 28147-89 (RFC 5830) block cipher and MAC as plain mathematics over CWords; reference for liblcb
   include/crypto/cipher/gost28147.h (property C08).
   A block is (N1, N2); N1 holds the first four bytes little-endian.  Basic step (RFC 5830 section 4, 5.1):
   S = (N1 + X) mod 2^32, substitute the eight nibbles of S by the rows of the table, rotate left by 11,
   xor into N2, swap.  The 32 steps of encryption use the key words X0..X7 three times in direct order and
   once in reverse order, decryption uses X0..X7 once and then X7..X0 three times; after the 32nd step the
   halves are NOT swapped.  The MAC (section 8) xors each block into the state and applies the first 16 steps
   (X0..X7 twice).  Writing one step as "n2 := n2 xor g(n1 + k)" with the roles of n1/n2 alternating (instead
   of swapping) gives the formulation below; it is the one of GOST R 34.12-2015 as well.
   The big-endian ("Magma", GOST R 34.12-2015) byte convention is the same cipher on byte-reversed blocks with
   byte-reversed key words. *)
EXTENDS CWords, Gost28147Sboxes

\* substitution: nibble k (0 = least significant) of the word goes through row k+1 of the table
SubHalf(sb, r, h) == sb[r][(h % 16) + 1] + (16 * sb[r + 1][((h \div 16) % 16) + 1]) +
                     (256 * sb[r + 2][((h \div 256) % 16) + 1]) + (4096 * sb[r + 3][(h \div 4096) + 1])
Sub(sb, w) == << SubHalf(sb, 5, w[1]), SubHalf(sb, 1, w[2]) >>
\* the step function: substitution, then rotation by 11 bits towards the high end
G(sb, w) == Rotl32(Sub(sb, w), 11)

\* key: 32 bytes -> X0..X7 (little-endian words), 1-based
KeyWords(key) == << LE32(key, 1), LE32(key, 5), LE32(key, 9), LE32(key, 13),
                    LE32(key, 17), LE32(key, 21), LE32(key, 25), LE32(key, 29) >>

EncOrder == << 1,2,3,4,5,6,7,8, 1,2,3,4,5,6,7,8, 1,2,3,4,5,6,7,8, 8,7,6,5,4,3,2,1 >>
DecOrder == << 1,2,3,4,5,6,7,8, 8,7,6,5,4,3,2,1, 8,7,6,5,4,3,2,1, 8,7,6,5,4,3,2,1 >>

\* steps i..n of a schedule, two at a time (n - i + 1 is even): no swapping, the names alternate
RECURSIVE Steps(_, _, _, _, _, _, _)
Steps(sb, kw, ord, i, n, n1, n2) ==
   IF i > n THEN << n1, n2 >>
   ELSE LET m2 == Xor32(n2, G(sb, Add32(n1, kw[ord[i]])))
            m1 == Xor32(n1, G(sb, Add32(m2, kw[ord[i + 1]])))
        IN  Steps(sb, kw, ord, i + 2, n, m1, m2)

\* word level: returns << out1, out2 >> where out1 is stored first
EncryptW(sb, kw, n1, n2) == LET r == Steps(sb, kw, EncOrder, 1, 32, n1, n2) IN << r[2], r[1] >>
DecryptW(sb, kw, n1, n2) == LET r == Steps(sb, kw, DecOrder, 1, 32, n1, n2) IN << r[2], r[1] >>
Mac16W(sb, kw, n1, n2)   == Steps(sb, kw, EncOrder, 1, 16, n1, n2)

\* byte level, little-endian convention (GOST 28147-89 / RFC 5830): block b = 8 bytes starting at index i
EncBlockLE(sb, kw, b, i) == LET r == EncryptW(sb, kw, LE32(b, i), LE32(b, i + 4)) IN BytesLE(r[1]) \o BytesLE(r[2])
DecBlockLE(sb, kw, b, i) == LET r == DecryptW(sb, kw, LE32(b, i), LE32(b, i + 4)) IN BytesLE(r[1]) \o BytesLE(r[2])

RECURSIVE EcbLE(_, _, _, _, _, _)
EcbLE(sb, kw, enc, b, i, acc) ==
   IF i > Len(b) THEN acc
   ELSE EcbLE(sb, kw, enc, b, i + 8, acc \o (IF enc THEN EncBlockLE(sb, kw, b, i) ELSE DecBlockLE(sb, kw, b, i)))
EncryptLE(s, key, data) == EcbLE(Sboxes[s], KeyWords(key), TRUE, data, 1, << >>)
DecryptLE(s, key, data) == EcbLE(Sboxes[s], KeyWords(key), FALSE, data, 1, << >>)

RECURSIVE MacAcc(_, _, _, _, _, _)
MacAcc(sb, kw, b, i, n1, n2) ==
   IF i > Len(b) THEN BytesLE(n1) \o BytesLE(n2)
   ELSE LET r == Mac16W(sb, kw, Xor32(n1, LE32(b, i)), Xor32(n2, LE32(b, i + 4)))
        IN  MacAcc(sb, kw, b, i + 8, r[1], r[2])
\* the full 64-bit MAC state after the data (a multiple of 8 bytes); the MAC of l <= 64 bits is its prefix
MacLE(s, key, data) == MacAcc(Sboxes[s], KeyWords(key), data, 1, << 0, 0 >>, << 0, 0 >>)

\* big-endian convention (GOST R 34.12-2015): reverse every 8-byte block and every 4-byte key word
RECURSIVE RevGroups(_, _, _, _)
RevGroups(b, g, i, acc) ==
   IF i > Len(b) THEN acc
   ELSE RevGroups(b, g, i + g, acc \o [j \in 1..g |-> b[i + g - j]])
EncryptBE(s, key, data) == RevGroups(EncryptLE(s, RevGroups(key, 4, 1, << >>), RevGroups(data, 8, 1, << >>)), 8, 1, << >>)
DecryptBE(s, key, data) == RevGroups(DecryptLE(s, RevGroups(key, 4, 1, << >>), RevGroups(data, 8, 1, << >>)), 8, 1, << >>)
=============================================================================
