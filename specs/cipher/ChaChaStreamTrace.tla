-------------------------- MODULE ChaChaStreamTrace --------------------------
(* Mode A: the ctx fields of chacha_context_str_t that the real chacha_str_data_crypt leaves behind after every
   call (state[12], state[13], ks_len - public struct members) validated against ChaChaStream with B = 64.
   Trace file (ndjson, IOEnv.TRACE); 32-bit words are logged as 16-bit limbs << l3, l2, l1, l0 >> of the counter:
     {"e":"Init","c":[l3,l2,l1,l0],"id":k}             chacha_str_init / xchacha_str_init with this counter
     {"e":"Crypt","n":n,"x":0|1,"c":[..],"ks":ks_len}   one chacha_str_data_crypt(ctx, x ? src : NULL, n, dst) and
                                                         the fields read back after it returned
   Every line is consumed.  A Crypt line whose logged fields differ from the model's successor state is recorded in
   `bad` (with what the model expects) and the rest of that execution is skipped up to the next Init.  The model's
   invariants (StreamCorrect, CounterCarries, SavedKeyStream) are checked at B = 64 on every state on the way. *)
EXTENDS ChaChaStream, Json, IOUtils, TLC
Tr == ndJsonDeserialize(IOEnv.TRACE)
VARIABLES l, bad, skipping
tvars == << vars, l, bad, skipping >>

TInit == /\ l = 1 /\ bad = << >> /\ skipping = TRUE
         /\ c0 = << 0, 0, 0, 0 >> /\ ctr = << << 0, 0 >>, << 0, 0 >> >> /\ ksLeft = 0 /\ ksBlk = ctr /\ pos = 0 /\ out = << >>
Ev == Tr[l]
EvInit == /\ l <= Len(Tr) /\ Ev.e = "Init"
          /\ ReInit(OfLimbs(Ev.c))
          /\ skipping' = FALSE /\ l' = l + 1 /\ UNCHANGED bad
EvCrypt == /\ l <= Len(Tr) /\ Ev.e = "Crypt" /\ ~skipping
           /\ LET r == CryptResult(Ev.n, Ev.x)
              IN  IF Limbs(r.ctr) = Ev.c /\ r.ksLeft = Ev.ks
                  THEN /\ Crypt(Ev.n, Ev.x) /\ UNCHANGED << bad, skipping >>
                  ELSE /\ bad' = Append(bad, [line |-> l, expect_c |-> Limbs(r.ctr), expect_ks |-> r.ksLeft])
                       /\ skipping' = TRUE /\ UNCHANGED vars
           /\ l' = l + 1
EvSkip == /\ l <= Len(Tr) /\ Ev.e = "Crypt" /\ skipping
          /\ l' = l + 1 /\ UNCHANGED << vars, bad, skipping >>
TNext == EvInit \/ EvCrypt \/ EvSkip
TSpec == TInit /\ [][TNext]_tvars

\* printed exactly once, when the whole file has been consumed
Report == l <= Len(Tr) \/ PrintT(ToJson([done |-> Len(Tr), bad |-> bad]))
=============================================================================
