SPECIFICATION TSpec
CONSTANTS
  B = 64
  MaxLen = 0
  TrackOut = FALSE
  InitCounters = {}
INVARIANTS TypeOK StreamCorrect CounterCarries SavedKeyStream Report
CHECK_DEADLOCK FALSE
