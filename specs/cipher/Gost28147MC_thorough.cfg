SPECIFICATION Spec
CONSTANT ChainLen = 60
INVARIANTS DecInvertsEnc DecInvertsEncBE MacIsHalfEncryption EcbIsBlockwise
CHECK_DEADLOCK FALSE
