SPECIFICATION Spec
CONSTANTS
  B = 4
  MaxLen = 12
  TrackOut = TRUE
  InitCounters <- MCInitCounters
INVARIANTS NeverWraps
CHECK_DEADLOCK FALSE
