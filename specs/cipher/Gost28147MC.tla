---------------------------- MODULE Gost28147MC ----------------------------
(* Validation of the GOST 28147-89 reference and of the frozen S-box tables INSIDE TLC (no implementation
   involved), and the inversion property on the specification.
   ASSUMEs (evaluated at load time): every row of every table is a permutation of 0..15; the step function g and
   the 32 individual rounds of GOST R 34.12-2015 A.2.2/A.2.4 (param-Z); published ECB vectors for the test
   parameter set and param-Z (cryptomanager, Crypto++, TC26, BouncyCastle) incl. decryption; the A.2.4 vector in
   the big-endian convention; BouncyCastle's MAC vector for CryptoPro-A and round 16 of A.2.4 as a MAC.
   Behaviour: for every table s, every key of Keys and every start block, the chain  blk' = Encrypt(blk)  of
   ChainLen pseudo-random blocks; invariants: Decrypt(Encrypt(x)) = x, Encrypt(Decrypt(x)) = x (both byte
   conventions), the MAC of a single block is the first 16 steps, MAC chaining is CBC-like. *)
EXTENDS Gost28147, Gost28147Vectors, TLC
CONSTANT ChainLen

ASSUME RowsArePermutations ==
   /\ Len(Sboxes) = 6
   /\ \A s \in 1..6 : /\ Len(Sboxes[s]) = 8
                      /\ \A r \in 1..8 : {Sboxes[s][r][c] : c \in 1..16} = 0..15

ASSUME GStep == \A i \in 1..Len(VecG) : G(Sboxes[6], Add32(VecG[i][1], VecG[i][2])) = VecG[i][3]
ASSUME Rounds32 == \A i \in 1..Len(VecGk) :
   Xor32(VecGk[i][2], G(Sboxes[6], Add32(VecGk[i][3], VecGk[i][1]))) = VecGk[i][4]
ASSUME EcbVectorsLE == \A i \in 1..Len(VecEncLE) : LET v == VecEncLE[i] IN
   \/ /\ EncryptLE(v.sbox, v.key, v.data) = v.out
      /\ DecryptLE(v.sbox, v.key, v.out) = v.data
   \/ ~PrintT(<< "EncLE vector fails", i >>)
ASSUME EcbVectorsBE == \A i \in 1..Len(VecEncBE) : LET v == VecEncBE[i] IN
   /\ EncryptBE(v.sbox, v.key, v.data) = v.out
   /\ DecryptBE(v.sbox, v.key, v.out) = v.data
ASSUME MacVectors == \A i \in 1..Len(VecMacLE) : LET v == VecMacLE[i] IN
   \/ MacLE(v.sbox, v.key, v.data) = v.out
   \/ ~PrintT(<< "MacLE vector fails", i >>)

Keys == << VecEncLE[1].key, VecEncLE[10].key, VecMacLE[1].key, [i \in 1..32 |-> 0], [i \in 1..32 |-> 255] >>
Starts3 == << 1,2,3,4,5,6,7,8 >>
Starts == { << 0,0,0,0,0,0,0,0 >>, << 255,255,255,255,255,255,255,255 >>, << 1,2,3,4,5,6,7,8 >>,
            << 255,255,255,255,0,0,0,0 >>, << 128,0,0,0,0,0,0,1 >> }

VARIABLES s, k, blk, n
vars == << s, k, blk, n >>
Init == s \in 1..6 /\ k \in 1..Len(Keys) /\ blk \in Starts /\ n = 0
Next == /\ n < ChainLen
        /\ blk' = EncryptLE(s, Keys[k], blk)
        /\ n' = n + 1
        /\ UNCHANGED << s, k >>
Spec == Init /\ [][Next]_vars

DecInvertsEnc == /\ DecryptLE(s, Keys[k], EncryptLE(s, Keys[k], blk)) = blk
                 /\ EncryptLE(s, Keys[k], DecryptLE(s, Keys[k], blk)) = blk
DecInvertsEncBE == /\ DecryptBE(s, Keys[k], EncryptBE(s, Keys[k], blk)) = blk
                   /\ EncryptBE(s, Keys[k], DecryptBE(s, Keys[k], blk)) = blk
\* the first half of the encryption schedule is the MAC transformation; MAC over two blocks chains like CBC
MacIsHalfEncryption ==
   LET kw == KeyWords(Keys[k])
       r == Mac16W(Sboxes[s], kw, LE32(blk, 1), LE32(blk, 5))
       m1 == MacLE(s, Keys[k], blk)
   IN  /\ m1 = BytesLE(r[1]) \o BytesLE(r[2])
       /\ MacLE(s, Keys[k], blk \o blk) = MacLE(s, Keys[k], XorSeq(m1, blk))
\* two-block ECB is blockwise
EcbIsBlockwise == EncryptLE(s, Keys[k], blk \o Starts3) = EncryptLE(s, Keys[k], blk) \o EncryptLE(s, Keys[k], Starts3)
=============================================================================
