--------------------------- MODULE ChaChaStreamMC ---------------------------
(* Exhaustive configuration of ChaChaStream: abstract block length 4, every way of cutting a stream of at most
   3 blocks (12 bytes) into calls (zero-length calls and calls with src = NULL included), initial counters
   next to the carry from state[12] into state[13] (2^32) and next to the 64-bit wrap (2^64). *)
EXTENDS ChaChaStream, TLC
F == 65535
MCInitCounters == { << <<0, 0>>, <<0, 0>> >>,            \* 0
                    << <<0, 0>>, <<F, F - 2>> >>,        \* 2^32 - 3: carry in the 3rd block
                    << <<0, 0>>, <<F, F - 1>> >>,        \* 2^32 - 2
                    << <<0, 0>>, <<F, F>> >>,            \* 2^32 - 1
                    << <<0, 7>>, <<F, F>> >>,            \* 0x7ffffffff
                    << <<F, F>>, <<F, F - 1>> >>,        \* 2^64 - 2
                    << <<F, F>>, <<F, F>> >>,            \* 2^64 - 1
                    << <<0, F>>, <<F, F>> >>,            \* carry ripples through three limbs
                    << <<4660, 22136>>, <<0, F>> >> }    \* carry inside state[12] only
\* reachability companions (vacuity): these must be VIOLATED when checked as invariants
NeverCarries == ~(ctr[2] = <<0, 0>> /\ pos > 0)
NeverWraps   == ~(ctr = << <<0, 0>>, <<0, 1>> >> /\ c0 = << F, F, F, F - 1 >>)
=============================================================================
