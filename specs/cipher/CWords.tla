------------------------------- MODULE CWords -------------------------------
(* 32-bit words for the cipher references (ChaCha, GOST 28147-89), property C08.
   TLC integers are 32-bit signed, so a word is the pair <<hi, lo>> of its 16-bit halves; every
   intermediate value below stays under 2^29.  xor comes from the Bitwise community module
   (Java override in TLC); additions carry explicitly from the low half into the high half. *)
EXTENDS Naturals, Sequences, Bitwise

H16 == 65536

IsWord(w) == /\ w \in Seq(Nat) /\ Len(w) = 2 /\ w[1] < H16 /\ w[2] < H16

Add32(a, b) == LET l == a[2] + b[2]
               IN  << (a[1] + b[1] + (l \div H16)) % H16, l % H16 >>
Xor32(a, b) == << a[1] ^^ b[1], a[2] ^^ b[2] >>

\* rotate left by 0 < n < 16 inside the halves
RotlLt16(a, n) == LET p == 2 ^ n
                      q == 2 ^ (16 - n)
                  IN  << ((a[1] * p) % H16) + (a[2] \div q), ((a[2] * p) % H16) + (a[1] \div q) >>
Rotl32(a, n) == IF n = 0 THEN a
                ELSE IF n = 16 THEN << a[2], a[1] >>
                ELSE IF n < 16 THEN RotlLt16(a, n)
                ELSE RotlLt16(<< a[2], a[1] >>, n - 16)

\* byte order conversions; b is a sequence of byte values, i the 1-based index of the first byte
LE32(b, i) == << b[i + 3] * 256 + b[i + 2], b[i + 1] * 256 + b[i] >>
BE32(b, i) == << b[i] * 256 + b[i + 1], b[i + 2] * 256 + b[i + 3] >>
BytesLE(w) == << w[2] % 256, w[2] \div 256, w[1] % 256, w[1] \div 256 >>
BytesBE(w) == << w[1] \div 256, w[1] % 256, w[2] \div 256, w[2] % 256 >>

\* 4-bit nibble k (0 = least significant) of a word
Nibble(w, k) == IF k < 4 THEN (w[2] \div (16 ^ k)) % 16 ELSE (w[1] \div (16 ^ (k - 4))) % 16

\* a 64-bit quantity as four 16-bit limbs << l3, l2, l1, l0 >> (most significant first) plus a small natural
Add64Small(l, k) ==
   LET s0 == l[4] + (k % H16)
       s1 == l[3] + (k \div H16) + (s0 \div H16)
       s2 == l[2] + (s1 \div H16)
       s3 == l[1] + (s2 \div H16)
   IN  << s3 % H16, s2 % H16, s1 % H16, s0 % H16 >>

RECURSIVE XorBytes(_, _, _, _)
XorBytes(a, b, i, acc) == IF i > Len(a) THEN acc ELSE XorBytes(a, b, i + 1, Append(acc, a[i] ^^ b[i]))
XorSeq(a, b) == XorBytes(a, b, 1, << >>)          \* Len(b) >= Len(a)
=============================================================================
