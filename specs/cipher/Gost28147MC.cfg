SPECIFICATION Spec
CONSTANT ChainLen = 6
INVARIANTS DecInvertsEnc DecInvertsEncBE MacIsHalfEncryption EcbIsBlockwise
CHECK_DEADLOCK FALSE
