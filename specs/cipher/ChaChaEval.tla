------------------------------ MODULE ChaChaEval ------------------------------
(* Mode C: outputs logged from the real chacha()/xchacha()/hchacha()/chacha_str_data_crypt() are validated by TLC
   evaluating the ChaCha reference.  One ndjson record per DISTINCT (input, output) pair seen by the driver:
     {"op":"chacha"|"xchacha","rounds":r,"key":[16|32 bytes],"ctr":[8 bytes]|[],"iv":[8|24 bytes]|[],
      "src":[n bytes]|[],"n":n,"out":[n bytes]}       ([] = the optional argument was NULL; src [] = key stream)
     {"op":"hchacha","rounds":r,"key":[..],"iv":[16 bytes]|[],"out":[32 bytes]}
   Every line is consumed; lines whose output differs from the reference are collected in `bad` together with
   the expected value (for the first few).  There is no state space here: TLC is the evaluator of the reference. *)
EXTENDS ChaCha, Json, IOUtils, TLC
Tr == ndJsonDeserialize(IOEnv.TRACE)
VARIABLES l, bad
KeepExpect == 8      \* the expected value is reported for the first few mismatches only (keeps the state small)

Zeros(n) == [i \in 1..n |-> 0]
OrZeros(b, n) == IF Len(b) = 0 THEN Zeros(n) ELSE b          \* a NULL counter / iv means all-zero
Expect(r) ==
   IF r.op = "hchacha" THEN HChaCha(r.key, OrZeros(r.iv, 16), r.rounds)
   ELSE IF r.op = "chacha"
        THEN Crypt(KeyStream(r.key, CtrOfBytes(OrZeros(r.ctr, 8)), OrZeros(r.iv, 8), r.rounds, r.n), r.src)
        ELSE Crypt(XKeyStream(r.key, CtrOfBytes(OrZeros(r.ctr, 8)), OrZeros(r.iv, 24), r.rounds, r.n), r.src)

Init == l = 1 /\ bad = << >>
Next == /\ l <= Len(Tr)
        /\ LET e == Expect(Tr[l])
           IN  bad' = IF e = Tr[l].out THEN bad
                      ELSE Append(bad, IF Len(bad) < KeepExpect THEN [line |-> l, expect |-> e] ELSE [line |-> l])
        /\ l' = l + 1
Spec == Init /\ [][Next]_<< l, bad >>
Report == l <= Len(Tr) \/ PrintT(ToJson([done |-> Len(Tr), bad |-> bad]))
=============================================================================
