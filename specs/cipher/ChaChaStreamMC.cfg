SPECIFICATION Spec
CONSTANTS
  B = 4
  MaxLen = 12
  TrackOut = TRUE
  InitCounters <- MCInitCounters
INVARIANTS TypeOK StreamCorrect CounterCarries SavedKeyStream
CHECK_DEADLOCK FALSE
