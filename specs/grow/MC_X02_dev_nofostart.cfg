SPECIFICATION Spec
CONSTANTS
  NIds = 2
  Ident = FALSE
  Dev = {"no-failover-when-first-send-fails"}
  JitClasses = {"zero"}
  Plan = "two"
  Kinds = {"good", "wrongsrc", "badauth"}
  MaxFlips = 1
  MaxReplies = 2
  AllowCancel = TRUE
  AllowDestroy = TRUE
  PortReuse = FALSE
INVARIANTS IFailover
CHECK_DEADLOCK FALSE
