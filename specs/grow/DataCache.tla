------------------------------ MODULE DataCache ------------------------------
(* State machine of the data cache  /repo/src/utils/data_cache.c + include/utils/data_cache.h  (growth task X01).
   The cache is a single threaded object (its bucket locks are commented out in the source); it owns the items and
   their data objects (made by alloc_data_fn, released by free_data_fn); valid_untill / updating / returned_count
   are fields the user writes.  Time is time(NULL), a parameter here.

   Properties  (what a user of data_cache_* relies on, for all histories):
   DC1 map        at most one item per key; data_cache_item_add returns the existing item of the key (nothing
                  changes) or a fresh item (fields zero) that is the newest of the bucket  hash_fn(key);
                  data_cache_item_get finds an item iff one with that key is in the cache; an item lives in the
                  bucket of its key only.                                          [Inv, MC_DataCache!AddPost/GetPost]
   DC2 clean      data_cache_clean does nothing before next_clean_time; otherwise it removes exactly the items with
                  clean_interval + valid_untill <= now and updating = 0, keeps the order of the others and sets
                  next_clean_time = now + clean_interval.                                    [MC_DataCache!CleanPost]
   DC3 ownership  every data object handed out by alloc_data_fn is either the data of exactly one item in the cache
                  or has been given to free_data_fn exactly once (item_free, clean, destroy); nothing else is ever
                  passed to free_data_fn; after destroy no data object is outstanding.          [Inv, Pairing]
   DC4 enum       data_cache_enum calls the callback once for every item, buckets in index order, newest first, and
                  stops after the first non-zero result; it returns 0.                          [EnumPost]
   DC5 failure    when alloc_data_fn fails item_add answers ENOMEM and the cache is unchanged; key == NULL or
                  key_size == 0 make item_get answer EINVAL.                                    [AddPost]

   S: alive, nb (buckets in use), iv (clean_interval), nclean (next_clean_time),
      bl [bucket -> Seq(slot)], it [slot -> [key, vu, upd, rc]] for the slots in live (data objects outstanding).
   A data object is named by its slot: the smallest number not in use when alloc_data_fn made it. *)
EXTENDS Integers, Sequences, FiniteSets

NoItem == 0
ENOMEM == 12
DEINVAL == 22
DMinOfSet(X) == CHOOSE i \in X : \A j \in X : i <= j
DRangeOf(L) == {L[i] : i \in 1..Len(L)}
DDead == [alive |-> FALSE, live |-> {}]

DNew(iv, nb, now) ==
  [alive |-> TRUE, nb |-> nb, iv |-> iv, nclean |-> now + iv,
   bl |-> [b \in 0..(nb - 1) |-> << >>], it |-> [s \in {} |-> 0], live |-> {}]
BucketOf(S, k) == k % S.nb
FindItem(S, k) ==
  LET L == S.bl[BucketOf(S, k)]  idx == {i \in 1..Len(L) : S.it[L[i]].key = k}
  IN IF idx = {} THEN NoItem ELSE L[DMinOfSet(idx)]
FreeSlot(S, maxslot) == LET F == (1..maxslot) \ S.live IN IF F = {} THEN NoItem ELSE DMinOfSet(F)

(* data_cache_item_add; fail: alloc_data_fn returns NULL *)
DAdd(S, k, fail, maxslot) ==
  LET f == FindItem(S, k)  s == FreeSlot(S, maxslot)  b == BucketOf(S, k) IN
  IF f # NoItem THEN [S |-> S, rc |-> 0, i |-> f, freed |-> << >>]
  ELSE IF fail \/ s = NoItem THEN [S |-> S, rc |-> ENOMEM, i |-> NoItem, freed |-> << >>]
  ELSE [S |-> [S EXCEPT !.bl[b] = << s >> \o @, !.live = @ \cup {s},
                        !.it = [x \in S.live \cup {s} |-> IF x = s THEN [key |-> k, vu |-> 0, upd |-> 0, rc |-> 0]
                                                          ELSE S.it[x]]],
        rc |-> 0, i |-> s, freed |-> << >>]
DGet(S, k) == LET f == FindItem(S, k) IN [S |-> S, rc |-> IF f = NoItem THEN -1 ELSE 0, i |-> f, freed |-> << >>]
DGetNoKey(S) == [S |-> S, rc |-> DEINVAL, i |-> NoItem, freed |-> << >>]

Drop(S, gone) ==      \* unlink the items in `gone`, release their data objects
  [S EXCEPT !.bl = [b \in 0..(S.nb - 1) |-> SelectSeq(S.bl[b], LAMBDA x : x \notin gone)],
            !.live = @ \ gone, !.it = [x \in S.live \ gone |-> S.it[x]]]
DFree(S, i) == IF i \in S.live THEN [S |-> Drop(S, {i}), freed |-> << i >>] ELSE [S |-> S, freed |-> << >>]
DSet(S, i, vu, upd, inc) ==
  IF i \in S.live THEN [S EXCEPT !.it[i] = [@ EXCEPT !.vu = vu, !.upd = upd, !.rc = @ + inc]] ELSE S

RECURSIVE AllItems(_, _)
AllItems(S, b) == IF b >= S.nb THEN << >> ELSE S.bl[b] \o AllItems(S, b + 1)
Expired(S, s, now) == S.iv + S.it[s].vu <= now /\ S.it[s].upd = 0
DClean(S, now) ==
  IF now < S.nclean THEN [S |-> S, freed |-> << >>]
  ELSE LET gone == SelectSeq(AllItems(S, 0), LAMBDA s : Expired(S, s, now))
       IN [S |-> [Drop(S, DRangeOf(gone)) EXCEPT !.nclean = now + S.iv], freed |-> gone]
DPrefix(L, stop) ==
  LET idx == {i \in 1..Len(L) : L[i] = stop} IN IF idx = {} THEN L ELSE SubSeq(L, 1, DMinOfSet(idx))
DEnum(S, stop) == [vis |-> DPrefix(AllItems(S, 0), stop), rc |-> 0]
(* enumeration whose callback frees item i when it is visited (data_cache_item_free with the bucket "locked") *)
DEnumRm(S, i) ==
  LET all == AllItems(S, 0) IN
  [S |-> IF i \in DRangeOf(all) THEN Drop(S, {i}) ELSE S, vis |-> all, rc |-> 0,
   freed |-> IF i \in DRangeOf(all) THEN << i >> ELSE << >>]
DDestroy(S) == [S |-> DDead, freed |-> AllItems(S, 0)]

(* ---- state predicates *)
DcInv(S) ==
  S.alive =>
    LET all == AllItems(S, 0) IN
    /\ Len(all) = Cardinality(DRangeOf(all)) /\ DRangeOf(all) = S.live /\ DOMAIN S.it = S.live
    /\ \A b \in 0..(S.nb - 1) : \A s \in DRangeOf(S.bl[b]) : BucketOf(S, S.it[s].key) = b
    /\ \A s1, s2 \in S.live : s1 # s2 => S.it[s1].key # S.it[s2].key

(* projection compared with the real cache after every call *)
RECURSIVE SortedSeq(_)
SortedSeq(X) == IF X = {} THEN << >> ELSE LET m == DMinOfSet(X) IN << m >> \o SortedSeq(X \ {m})
ItemTuple(S, s) == << s, S.it[s].key, S.it[s].vu, S.it[s].upd, S.it[s].rc >>
DProj(S, now) ==
  IF ~S.alive THEN [dead |-> 1, live |-> << >>, now |-> now, badfree |-> 0]
  ELSE [bl |-> [i \in 1..S.nb |-> [j \in 1..Len(S.bl[i - 1]) |-> ItemTuple(S, S.bl[i - 1][j])]],
        stray |-> 0, nclean |-> S.nclean, iv |-> S.iv, live |-> SortedSeq(S.live), now |-> now, badfree |-> 0]
=============================================================================
