SPECIFICATION Spec
CONSTANTS BufSz = 6 BmSzP1 = 2 MaxFrags = 4 SeqNeg = 3 SeqHi = 3 MaxSize = 3
CONSTANT Fix <- FixAll
INVARIANT NoBad
CHECK_DEADLOCK FALSE
