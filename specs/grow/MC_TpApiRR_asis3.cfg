SPECIFICATION Spec
CONSTANTS N = 2
 Callers = {c1, c2, c3}
 CallsEach = 2
 Variant = "asis"
INVARIANTS InAlloc IdxBounded
CHECK_DEADLOCK FALSE
