SPECIFICATION Spec
CONSTANTS
  HAPREALLOC = 2
  NObj = 1
  Texts = {"h", "example.org", "example.org:8080", "h:81", "[::1]", "[::1]:81", "::1", "fe80::2", "[fe80::2]", "[2001:db8::7]:443", "h:", ":80", "h:8a0", "h:70000", "@null", "@empty"}
  DefPorts = {0, 80}
  Addrs <- AddrsSmall
  Answers <- AnswersSmall
  MaxAddrs = 1
  Dev = {}
  Emit = FALSE
  WithClone = TRUE
INVARIANTS Inv PostOK
CHECK_DEADLOCK TRUE
