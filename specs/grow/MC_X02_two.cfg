SPECIFICATION Spec
CONSTANTS
  NIds = 2
  Ident = FALSE
  Dev = {}
  JitClasses = {"zero"}
  Plan = "two"
  Kinds = {"good", "badauth", "wrongid", "wrongsrc", "reqcode"}
  MaxFlips = 1
  AllowCancel = TRUE
  AllowDestroy = TRUE
  PortReuse = TRUE
INVARIANTS ICompleteOnce INoTxAfterDone ITxBound ISlots IArmed IMatch IDelivered IFailover IQuiescent IDestroyed IMemSafe IDuration
CHECK_DEADLOCK FALSE
